"""C10: user-dictionary durability and atomic replacement.

Level "proof" for the writer PROTOCOL model (Model/Durability.v): theorems over all
schedules, histories and crash points by induction.  PARTIAL with respect to the property
text: fs::rename atomicity, sync_data durability across power loss, temp-name uniqueness
and real thread timing are assumptions the model cannot exhibit.

Tie of the model to the code: the harness parks the writer thread at every hook point and
enumerates EVERY interleaving of short foreground histories with the writer's points,
kills a child process at every node during/after a rewrite, and reads the file back with an
independent reader; the extracted model is run on exactly the same schedules and the traces
(dirty flag, handle state, dictionary contents, file contents after every step) must be
byte-equal.  The model's own enumeration of the schedule tree must have the same size."""
import json
import os
import re

from .common import (BUILD, ROOT, Result, count_lines, driver_path, first_difference, harness_path, sh, standard_build)

DRIVER = driver_path("c10")
# VERIF_C10_HARNESS: self-test seam - a c10 binary built from a scratch copy of /repo carrying a
# mutant (so that /repo itself, which other checks build from concurrently, is never modified)
HARNESS = os.environ.get("VERIF_C10_HARNESS") or harness_path("c10")
PROP = "C10"
VARIANT = "fixed"    # the drop of the current tree: join; sync; flush; join  (Model/Durability.v: Fixed)
CORPUS = os.path.join(ROOT, "corpus", "C10", "schedules.txt")

# (name, harness args producing <trace> <json>, model count args or None)
def campaigns(tier):
    if tier == "thorough":
        return [("corpus", ["corpus", CORPUS], None),
                ("editor-capi", ["editor"], None),
                ("two-dictionaries-one-directory", ["pair", "200"], None),
                ("exhaustive-5-crash", ["explore", "5", "udfr", "1"], ["5", "udfr"]),
                ("exhaustive-6", ["explore", "6", "udfr", "0"], ["6", "udfr"]),
                ("exhaustive-6-crash-ufr", ["explore", "6", "ufr", "1"], ["6", "ufr"]),
                ("exhaustive-6-add-remove", ["explore", "6", "befr", "0"], ["6", "befr"]),
                ("random", ["random", "3000", "14"], None)]
    return [("corpus", ["corpus", CORPUS], None),
            ("editor-capi", ["editor"], None),
            ("two-dictionaries-one-directory", ["pair", "40"], None),
            ("exhaustive-4-crash", ["explore", "4", "udfr", "1"], ["4", "udfr"]),
            ("exhaustive-5", ["explore", "5", "udfr", "0"], ["5", "udfr"]),
            ("exhaustive-5-add-remove", ["explore", "5", "befr", "0"], ["5", "befr"]),
            ("random", ["random", "300", "12"], None)]


def run(tier):
    res = Result(PROP, tier, "proof")
    st = standard_build(res, PROP, group="c10", harness_bin="c10", model_deps=["theories/Model/Durability.vo"])
    # C10 imports only Gen/Durability_gen.v: a tablegen failure of another group (a source item of
    # theirs renamed) is not an obligation of C10
    tg = [b for b in st["broken"] if b["obligation"] == "tablegen" and "group=durability" not in b.get("detail", "")]
    if tg:
        res.notes["tablegen_failed_but_unused_by_C10"] = tg[0]["detail"][-500:]
        st["broken"] = [b for b in st["broken"] if b not in tg]
    work = os.path.join(BUILD, "work", "%s-%s" % (PROP, tier))
    os.makedirs(work, exist_ok=True)
    os.makedirs("/tmp/c10", exist_ok=True)
    # the hypothesis of C10_two_dictionaries_in_one_directory_do_not_disturb_each_other (Model/Staging.v): two builds of
    # one process get different staging names - read off the source of TrieBuilder::build (the `pair` campaign below
    # looks for a failing input when this no longer holds)
    try:
        src = open("/repo/src/dictionary/trie.rs", encoding="utf-8").read()
        body = src[src.index("fn build(&mut self, path: &Path)"):]
        body = body[:body.index("fs::rename(")]
        name = re.search(r"set_file_name\(\s*format!\(([^;]*?)\)\s*\)\s*;", body, re.S)
        ok = bool(name) and "fetch_add" in body and re.search(r"\bseq\b", name.group(1) if name else "") is not None \
            and re.search(r"static\s+\w+\s*:\s*(std::sync::atomic::)?AtomicU64", body) is not None
        res.notes["staging_name_expression"] = " ".join((name.group(1) if name else "").split())[:200]
        if not ok:
            st["broken"].append({"obligation": "staging-name-unique (hypothesis of Model/Staging.v)",
                                 "detail": "TrieBuilder::build no longer derives the staging file name from a process-wide sequence number: %s"
                                           % res.notes["staging_name_expression"]})
    except (OSError, ValueError) as e:
        st["broken"].append({"obligation": "staging-name-unique (hypothesis of Model/Staging.v)", "detail": "TrieBuilder::build not found: %r" % (e,)})
    oracle_fail = []
    stats = {}
    total_lines = 0
    nontrivial = set()
    distinct = set()
    if st["cargo"]:
        for name, hargs, margs in campaigns(tier):
            impl, model, js = (os.path.join(work, "%s.%s" % (name, x)) for x in ("impl", "model", "json"))
            for f in (impl, model, js):
                if os.path.exists(f):
                    os.remove(f)
            rc, out, dt = sh([HARNESS] + hargs + [impl, js], timeout=3000)
            try:
                o = json.load(open(js))
            except (OSError, ValueError) as e:
                st["broken"].append({"obligation": "harness-run " + name, "detail": "%r rc=%s\n%s" % (e, rc, out[-2000:])})
                continue
            fails = o.pop("failures")
            stats[name] = {k: o[k] for k in o if k != "samples"}
            res.coverage["samples"] += [{"campaign": name, "trace_line": s[:400]} for s in o.get("samples", [])[:3]]
            res.coverage["evaluations"] += o["schedules"] + o["crash_points"]
            try:
                with open(impl, encoding="utf-8") as fh:
                    for ln in fh:
                        sched, _, obs = ln.partition("|")
                        sched = sched.replace(" ", "")
                        distinct.add(sched)
                        # a change or the close overlaps an in-flight write, or a crash point
                        if "!" in sched or "D1H1" in obs or "C0P" in obs:
                            nontrivial.add(sched)
            except OSError:
                pass
            for f in fails:
                f["campaign"] = name
            oracle_fail += fails
            # --- correspondence: the extracted model on the same schedules ---
            if not st["extract"]:
                continue
            rc, out, _ = sh([DRIVER, "views", VARIANT, impl, model], timeout=3000)
            if rc != 0:
                st["broken"].append({"obligation": "model-run " + name, "detail": out[-2000:]})
                continue
            n = count_lines(impl)
            total_lines += n
            d = first_difference(model, impl)
            if d:
                st["broken"].append({"obligation": "correspondence c10 %s" % name, "line": d[0], "model": d[1], "impl": d[2],
                                     "schedule": d[2].split("|")[0].replace(" ", "")})
            # --- the model's own enumeration of the tree has the same size ---
            if margs:
                rc, out, _ = sh([DRIVER, "count", VARIANT] + margs, timeout=3000)
                m = re.search(r"schedules (\d+) crash_points (\d+)", out)
                if not m:
                    st["broken"].append({"obligation": "model-count " + name, "detail": out[-1000:]})
                else:
                    ms, mc = int(m.group(1)), int(m.group(2))
                    stats[name]["model_schedules"] = ms
                    if ms != o["schedules"] or (hargs[3] == "1" and mc != o["crash_points"]):
                        st["broken"].append({"obligation": "correspondence c10 %s tree-size" % name,
                                             "model": "schedules %d crash_points %d" % (ms, mc),
                                             "impl": "schedules %d crash_points %d" % (o["schedules"], o["crash_points"])})
    res.notes["campaigns"] = stats
    res.coverage["traces_validated_against_impl"] = total_lines
    res.coverage["distinct_nontrivial"] = len(nontrivial)
    res.coverage["distinct_schedules"] = len(distinct)
    res.coverage["exhaustive"] = True

    # --- property oracles on the implementation: concrete failing schedules ---
    seen = set()
    for f in oracle_fail:
        if f["oracle"] in seen:
            continue
        seen.add(f["oracle"])
        res.add_violation("oracle-" + f["oracle"],
                          {"kind": "schedule", "signature": f["oracle"], "driver": "c10 replay", "schedule": f["schedule"],
                           "detail": f["detail"], "campaign": f["campaign"],
                           "count_in_this_run": sum(1 for g in oracle_fail if g["oracle"] == f["oracle"])}, True)

    # --- broken obligations (proof, extraction, correspondence) ---
    if st["broken"] and not oracle_fail:
        found = False
        # a diverging schedule is a candidate failing input: replay it with the oracles
        for b in st["broken"]:
            sched = b.get("schedule")
            if sched and st["cargo"]:
                rc, out, _ = sh([HARNESS, "replay", sched], timeout=120)
                if rc == 1:
                    found = True
                    res.add_violation("diverging-schedule", {"kind": "schedule", "signature": "diverging-schedule-fails-oracle",
                                                             "driver": "c10 replay", "schedule": sched, "detail": out.strip()[-1500:],
                                                             "broken": st["broken"]}, True)
                    break
        # the counter-example finder that accompanies the theorems: search the model's schedule
        # tree for a schedule on which the property fails in the model, replay it on the code
        if not found and st["extract"] and st["cargo"]:
            rc, out, _ = sh([DRIVER, "search", VARIANT, "5", "udfr"], timeout=600)
            for ln in out.splitlines():
                if ln.startswith("WITNESS "):
                    _, kind, sched = ln.split()
                    rc2, rout, _ = sh([HARNESS, "replay", sched], timeout=120)
                    if rc2 == 1:
                        found = True
                        res.add_violation("model-witness", {"kind": "schedule", "signature": kind, "driver": "c10 replay", "schedule": sched,
                                                           "detail": rout.strip()[-1500:], "broken": st["broken"]}, True)
                        break
        if not found:
            for b in st["broken"]:
                res.add_violation("obligation-" + b["obligation"].split()[0], {"kind": "obligation", **b}, False)
    elif st["broken"]:
        res.notes["broken_obligations"] = st["broken"]

    res.coverage["rule"] = (
        "one evaluation = one complete schedule (foreground history interleaved with the writer's 7 positions, every step observed: dirty flag, "
        "handle state, dictionary contents, file contents) or one crash point (child process executes the prefix and aborts, file read back by an "
        "independent reader); the exhaustive campaigns enumerate every interleaving of every history within their bound, each schedule once; "
        "non-trivial = a schedule in which a change or the close overlaps an in-flight write, or a crash point during/after a rewrite")
    res.assumptions = [
        "PARTIAL: the theorems are about the protocol model; fs::rename atomicity, sync_data durability across power loss, uniqueness of the "
        "temp name chewing-<usec>.dat, absence of I/O errors, a single process and a single TrieBuf per path are assumed, not exhibited",
        "real thread timing is replaced by interleaving at the named hook points (the foreground calls do not block, the writer touches only "
        "the file system between points); process death is exercised by abort() in a child process, power loss is not",
        "the byte encoding of a snapshot is abstract in this model (C11/C12 own it); the harness's reader checks the DER envelope and Trie::open",
        "model <-> code tie: byte-equal traces over every interleaving within the stated bounds plus seeded longer schedules (VERIF_SEED)",
    ]
    return res.finish()


def replay(path):
    r = json.load(open(path))
    if r.get("schedule"):
        rc, out, _ = sh([HARNESS, "replay", r["schedule"]], timeout=120)
        print(out)
        rc2, out2, _ = sh([DRIVER, "run", VARIANT, r["schedule"]], timeout=120)
        print("model (%s): %s" % (VARIANT, out2.strip()))
        return rc
    print(json.dumps(r, ensure_ascii=False, indent=1))
    return 1
