"""C16: configuration round-trips, rejects bad values, aliases agree; layout by number = by name;
the layout reported is the one in effect (proof + exhaustive correspondence + implementation oracles)."""
import glob
import json
import os

from .common import (BUILD, ROOT, Result, count_lines, driver_path, harness_path, sh, standard_build)

DRIVER = driver_path("c16")
HARNESS = harness_path("c16")
PROP = "C16"
CORPUS = sorted(glob.glob(os.path.join(ROOT, "corpus", "C16-*.json")))


def line_matches(impl, model):
    """equal, or (F/T lines) the model's (keyboard, syllable editor) pair is one of the pairs the
    implementation's behaviour was classified as (several pairs are behaviourally identical)"""
    if impl == model:
        return True
    if not impl or impl[0] not in "FT":
        return False
    a, b = impl.split(), model.split()
    if len(a) != len(b):
        return False
    for x, y in zip(a, b):
        if x != y and not (":" in x and y in x.split(",")):
            return False
    return True


def compare(impl_path, model_path):
    """None if every line matches, else (line number, impl line, model line)"""
    with open(impl_path, encoding="utf-8", errors="replace") as fa, open(model_path, encoding="utf-8", errors="replace") as fb:
        n = 0
        while True:
            la, lb = fa.readline(), fb.readline()
            n += 1
            if not la and not lb:
                return None
            if not line_matches(la.rstrip("\n"), lb.rstrip("\n")):
                return n, la.rstrip("\n")[:1500] or "<eof>", lb.rstrip("\n")[:1500] or "<eof>"


def case_ops_at(cases_path, case_id):
    """the op lines of one case of the case file (for the replay of a correspondence mismatch)"""
    ops, on = [], False
    with open(cases_path, encoding="utf-8", errors="replace") as f:
        for l in f:
            l = l.rstrip("\n")
            if l.startswith("CASE "):
                on = l.split()[1] == str(case_id)
                continue
            if on:
                ops.append(l)
    return ops


def shrink(ops, work):
    """shortest suffix of the history on which `c16 replay` still reports the property failing
    (every op of a case is checked against the observation just before it, so a suffix replayed on a
    fresh context is a history of its own)"""
    tmp = os.path.join(work, "shrink.json")
    for n in (1, 2, 3, 5, 8, 13):
        if n >= len(ops):
            break
        with open(tmp, "w") as f:
            json.dump({"kind": "history", "ops": ops[-n:], "mid": False}, f)
        rc, out, _ = sh([HARNESS, "replay", tmp], timeout=120)
        if rc == 1 and "PROPERTY FAILS" in out:
            return ops[-n:], True
    return ops, False


def run(tier):
    res = Result(PROP, tier, "proof")
    st = standard_build(res, PROP, group="c16", harness_bin="c16", model_deps=["theories/Model/Config.vo"],
                        tablegen_groups=["capi"])
    work = os.path.join(BUILD, "work", "%s-%s" % (PROP, tier))
    os.makedirs(work, exist_ok=True)
    impl, cases, model, orc = (os.path.join(work, x) for x in ("views.impl", "views.cases", "views.model", "oracle.json"))
    for f in (impl, cases, model, orc):
        if os.path.exists(f):
            os.remove(f)

    found = []          # oracle failures (concrete failing inputs)
    # --- corpus first: the replays of the defects found so far (regressions) ---
    if st["cargo"]:
        for c in CORPUS:
            rc, out, _ = sh([HARNESS, "replay", c], timeout=300)
            res.coverage["evaluations"] += 1
            if rc == 1:
                r = json.load(open(c))
                detail = [l for l in out.splitlines() if l.startswith("PROPERTY FAILS")][:3]
                found.append(r.get("signature", os.path.basename(c)))
                res.add_violation("corpus-" + os.path.basename(c)[:-5],
                                  {"kind": "history", "driver": "c16 replay", "signature": r.get("signature", "corpus"),
                                   "ops": r.get("ops", []), "mid": r.get("mid", False), "detail": detail, "corpus": c}, True)
            elif rc != 0:
                st["broken"].append({"obligation": "corpus-replay", "detail": out[-1500:]})

    out = {}
    if st["cargo"]:
        out["impl"] = sh([HARNESS, "views", tier, impl, cases, orc], timeout=3000)
        if st["extract"] and out["impl"][0] == 0:
            out["model"] = sh([DRIVER, "views", cases, model], timeout=3000)

    # --- property oracles on the implementation (failing-input search) ---
    if st["cargo"]:
        try:
            o = json.load(open(orc))
            res.coverage["evaluations"] += o["evaluations"]
            res.coverage["distinct_nontrivial"] += o["distinct_changing_ops"]
            res.notes["oracle"] = {k: o[k] for k in o if k != "failures"}
            res.notes["input_distribution"] = o.get("ops_by_kind", {})
            seen = {}
            for f in o["failures"]:
                seen.setdefault(f["oracle"], []).append(f)
            for name, fs in seen.items():
                found.append(name)
                f = min(fs, key=lambda x: len(x.get("ops", [])) or 10 ** 6)   # the shortest history
                ops, shrunk = shrink(f.get("ops", []), work)
                res.add_violation("oracle-" + name,
                                  {"kind": "history", "driver": "c16 replay", "signature": name, "ops": ops,
                                   "mid": False, "detail": f["detail"], "occurrences": len(fs), "case": f.get("case"),
                                   "shrunk_from": len(f.get("ops", [])) if shrunk else None, "seed": res.seed}, True)
            if not o.get("config_probe_tells_the_engines_apart", False):
                st["broken"].append({"obligation": "configuration-probe", "detail": "the probe key sequences give the same result under the three conversion engines"})
            if "ambiguous" in o.get("refs", "") and not o.get("refs", "").startswith("REFS"):
                st["broken"].append({"obligation": "reference-fingerprints", "detail": o.get("refs")})
        except (OSError, ValueError, KeyError) as e:
            st["broken"].append({"obligation": "oracle-run", "detail": "%r\n%s" % (e, out.get("impl", ("", ""))[1][-2000:])})

    # --- correspondence: extracted model vs implementation, every observation of every op ---
    if st["cargo"] and st["extract"] and out.get("impl", (1,))[0] == 0 and out.get("model", (1,))[0] == 0:
        d = compare(impl, model)
        n = count_lines(impl)
        res.coverage["traces_validated_against_impl"] = n
        res.coverage["evaluations"] += n
        res.coverage["exhaustive"] = True
        with open(impl, encoding="utf-8") as fh:
            lines = [l.strip()[:300] for l in fh.readlines()[40:43]]
        res.coverage["samples"] += [{"observation": l} for l in lines]
        if d:
            b = {"obligation": "correspondence c16 (model vs implementation)", "line": d[0], "impl": d[1], "model": d[2]}
            t = d[1].split()
            if len(t) > 2 and t[0] in "RGFX" and t[1].isdigit():
                b["ops"] = case_ops_at(cases, t[1])[:int(t[2]) + 1] if t[2].isdigit() else []
            st["broken"].append(b)
    elif st["cargo"] and st["extract"]:
        st["broken"].append({"obligation": "correspondence-run",
                             "detail": (out.get("impl", ("", ""))[1] + out.get("model", (0, ""))[1])[-3000:]})

    # --- broken obligations: a violation of their own only if no concrete failing input was found ---
    if st["broken"] and not found:
        for b in st["broken"]:
            res.add_violation("obligation-" + b["obligation"].split()[0], {"kind": "obligation", **b}, False)
    elif st["broken"]:
        res.notes["broken_obligations"] = st["broken"]

    res.coverage["rule"] = (
        "exhaustive: 13 integer options x values -3..45 + outliers (i32::MIN, -1, 0, 1, i32::MAX, 100, 1000%s) x "
        "{by name, through the legacy alias, alternating} x {fresh, mid-composition context}; every getter (13 named, 11 legacy, "
        "KBType, KBString, get_str x2, selKey, bopomofo_Check) read back after EVERY op and compared with the extracted model; "
        "chewing_set_KBType over the same window + byte-wrap outliers; 17 names + malformed names; 17x17 number/name pairs; "
        "%d selection-key strings of length 0..14 (ASCII, multi-byte, invalid UTF-8) each in its own context under a supervisor that "
        "survives aborts; chewing_set_selKey / chewing_Configure; %d seeded histories mixing all of these with key input; the layout "
        "in effect identified behaviourally (95 printable keys + 22 key sequences -> bopomofo / pre-edit / commit) against reference "
        "editors built through the library API for all 8 keyboards x 10 syllable editors.  distinct_nontrivial = distinct ops that "
        "changed the observable configuration" % (", 46..300, +-2^16.." if tier == "thorough" else "", 50, 1500 if tier == "thorough" else 150))
    res.assumptions = [
        "model <-> code tie: every observation line of every op equal between the extracted model and the implementation (no sampling on the finite domains)",
        "CStr::to_string_lossy / CString::new are std behaviour: the model starts from the decoded scalar values and predicts the interior-NUL panic",
        "key handling writes no configuration field other than language mode, character form and the pending syllable (checked as a frame condition on every history)",
        "installed conversion engine object and lookup_strategy are modelled but not observable through the C API",
    ]
    return res.finish()


def replay(path):
    r = json.load(open(path))
    if r.get("kind") == "history" and r.get("ops") is not None:
        rc, out, _ = sh([HARNESS, "replay", path], timeout=300)
        print(out)
        return rc
    print(json.dumps(r, ensure_ascii=False, indent=1))
    return 1
