"""Property oracles evaluated on the IMPLEMENTATION's trace alone (the failing-input search for
the editor properties).  Each returns a list of dict(signature, case_lines, detail)."""
from .edcommon import case_lines_upto, lst

KC = {"Unknown": 0, "Space": 48, "Esc": 49, "Enter": 50, "Del": 51, "Backspace": 52, "Tab": 53, "Left": 54, "Right": 55,
      "Up": 56, "Down": 57, "Home": 58, "End": 59, "PageUp": 60, "PageDown": 61}
PASSTHROUGH = {KC[k] for k in ("Enter", "Esc", "Tab", "Backspace", "Del", "Left", "Right", "Up", "Down", "Home", "End",
                               "PageUp", "PageDown")}
EMPTY_SYL = "32768"


def fail(sig, case, i, detail):
    return {"signature": sig, "case_lines": case_lines_upto(case, i), "detail": detail}


def is_key(step):
    return step.op and step.op[0] == "key"


def key_code(step):
    return int(step.op[2])


def key_mods(step):
    return tuple(int(x) for x in step.op[4:8])      # shift ctrl caps num


def steps_with_prev(case):
    prev = None
    for i, s in enumerate(case["steps"]):
        if s.snap is None:
            break
        yield i, prev, s
        prev = s


def state_of(step):
    return step.snap.get("state", "")


def opts_of(step):
    return [int(x) for x in step.snap.get("opts", "").split(",") if x]


# ---------------------------------------------------------------- C05

def c05(cases, res):
    out = []
    checked = symbol_choices = 0
    for case in cases:
        for i, prev, s in steps_with_prev(case):
            syms = lst(s.snap.get("syms", ""))
            cur = int(s.snap["cursor"])
            if cur > len(syms):
                out.append(fail("cursor-out-of-range", case, i, "cursor=%d len=%d" % (cur, len(syms))))
            if len(lst(s.snap.get("gaps", ""))) != len(syms):
                out.append(fail("gaps-length", case, i, s.raw_s[:300]))
            # the saved cursors never leak (C05_saved_cursors_never_leak): none outside a candidate list or under the
            # symbol table's list, at most one under a list that replaces
            depth = len(lst(s.snap.get("stack", "")))
            if state_of(s) != "Selecting" or s.snap.get("action") == "I":
                if depth != 0:
                    out.append(fail("saved-cursor-leaks", case, i, "state %s stack %s" % (state_of(s), s.snap.get("stack"))))
            elif depth > 1:
                out.append(fail("saved-cursor-leaks", case, i, "state %s stack %s" % (state_of(s), s.snap.get("stack"))))
            if prev is None or not is_key(s):
                continue
            checked += 1
            psyms = lst(prev.snap.get("syms", ""))
            pcur = int(prev.snap["cursor"])
            pstate = state_of(prev)
            code = key_code(s)
            shift, ctrl, caps, num = key_mods(s)
            o = opts_of(s)
            # bounded after a key absorbed in editing mode
            # (an absorbed key that pushes text out answers Commit: the part that stays obeys the limit too)
            if s.res in ("Absorb", "Commit") and state_of(s) == "Entering" and pstate in ("Entering", "EnteringSyllable") \
                    and len(syms) > o[6]:
                out.append(fail("buffer-exceeds-limit", case, i, "len=%d limit=%d" % (len(syms), o[6])))
            if pstate != "Entering":
                continue
            if s.res == "Commit":
                # auto-commit (possible after any absorbed key once the limit was lowered below the
                # buffer length): what remains is a trailing part of the edited buffer - C02's oracle
                # checks the committed part
                continue
            if code == KC["Backspace"] and psyms:
                exp = psyms[:pcur - 1] + psyms[pcur:] if pcur > 0 else psyms
                if syms != exp or cur != max(pcur - 1, 0):
                    out.append(fail("backspace-frame", case, i, "%s@%d -> %s@%d" % (psyms, pcur, syms, cur)))
            elif code == KC["Del"] and pcur < len(psyms):
                exp = psyms[:pcur] + psyms[pcur + 1:]
                if syms != exp or cur != pcur:
                    out.append(fail("delete-frame", case, i, "%s@%d -> %s@%d" % (psyms, pcur, syms, cur)))
            elif code in (KC["Left"], KC["Right"], KC["Home"], KC["End"]) and not shift and psyms:
                want = {KC["Left"]: max(pcur - 1, 0), KC["Right"]: min(pcur + 1, len(psyms)), KC["Home"]: 0,
                        KC["End"]: len(psyms)}[code]
                if syms != psyms or (s.res == "Absorb" and cur != want) or prev.snap.get("sels") != s.snap.get("sels"):
                    out.append(fail("cursor-key-frame", case, i, "%s@%d -> %s@%d" % (psyms, pcur, syms, cur)))
            elif s.res == "Absorb" and len(syms) == len(psyms) + 1 and state_of(s) == "Entering":
                # a symbol was inserted: exactly at the cursor, cursor advanced by one
                if syms[:pcur] != psyms[:pcur] or syms[pcur + 1:] != psyms[pcur:] or cur != pcur + 1:
                    out.append(fail("insert-frame", case, i, "%s@%d -> %s@%d" % (psyms, pcur, syms, cur)))
            elif s.res == "Absorb" and len(syms) > len(psyms) + 1 and state_of(s) == "Entering":
                # several symbols were inserted by one key (an abbreviation of the easy-symbol table expands to its
                # characters): as a block at the cursor, and the cursor ends right after the block
                n = len(syms) - len(psyms)
                if syms[:pcur] != psyms[:pcur] or syms[pcur + n:] != psyms[pcur:] or cur != pcur + n:
                    out.append(fail("insert-frame", case, i, "%s@%d -> %s@%d" % (psyms, pcur, syms, cur)))
        # a symbol chosen from the symbol table (list opened with the backquote key / Ctrl-digit: it INSERTS): exactly at
        # the cursor, and the cursor advances by one - by a key or by a choose call
        for i, prev, s in steps_with_prev(case):
            if prev is None or state_of(prev) != "Selecting" or prev.snap.get("sel") != "Y" or prev.snap.get("action") != "I":
                continue
            if state_of(s) != "Entering" or s.res == "Commit" or not (is_key(s) or s.op[0] in ("select", "cchoose")):
                continue
            psyms, syms = lst(prev.snap.get("syms", "")), lst(s.snap.get("syms", ""))
            pcur, cur = int(prev.snap["cursor"]), int(s.snap["cursor"])
            if len(syms) == len(psyms) + 1:
                symbol_choices += 1
                if syms[:pcur] != psyms[:pcur] or syms[pcur + 1:] != psyms[pcur:] or cur != pcur + 1:
                    out.append(fail("symbol-insert-frame", case, i, "%s@%d -> %s@%d" % (psyms, pcur, syms, cur)))
        # syllable completion (EnteringSyllable -> Entering with one more symbol)
        for i, prev, s in steps_with_prev(case):
            if prev is None or not is_key(s) or state_of(prev) != "EnteringSyllable":
                continue
            psyms, syms = lst(prev.snap.get("syms", "")), lst(s.snap.get("syms", ""))
            pcur, cur = int(prev.snap["cursor"]), int(s.snap["cursor"])
            if len(syms) == len(psyms) + 1 and s.res != "Commit":
                if syms[:pcur] != psyms[:pcur] or syms[pcur + 1:] != psyms[pcur:] or (state_of(s) == "Entering" and cur != pcur + 1):
                    out.append(fail("syllable-insert-frame", case, i, "%s@%d -> %s@%d" % (psyms, pcur, syms, cur)))
    res.notes["oracle_keys_checked"] = checked
    res.notes["oracle_symbol_table_insertions_checked"] = symbol_choices
    return out


# ---------------------------------------------------------------- C06

PERSIST = ("state", "page", "action", "sel", "begin", "end", "orig", "fwd", "symcur", "moving", "syms", "gaps", "sels", "cursor",
           "stack", "nth", "syl", "opts")


def c06(cases, res):
    out = []
    ignored = bells = idle = 0
    for case in cases:
        for i, prev, s in steps_with_prev(case):
            if prev is None or not is_key(s):
                continue
            code = key_code(s)
            if s.res not in ("Ignore", "Absorb", "Commit", "Bell"):
                out.append(fail("result-not-one-of-four", case, i, str(s.res)))
            if s.res == "Ignore":
                ignored += 1
                for k in PERSIST:
                    if prev.snap.get(k) != s.snap.get(k):
                        out.append(fail("ignored-key-changed-" + k, case, i, "%s: %s -> %s" % (k, prev.snap.get(k), s.snap.get(k))))
                        break
                if prev.obs and s.obs:
                    for k in ("display", "cands", "tp", "pg", "user"):
                        if prev.obs.get(k) != s.obs.get(k):
                            out.append(fail("ignored-key-changed-" + k, case, i, "%s: %s -> %s" % (k, prev.obs.get(k), s.obs.get(k))))
                            break
                if prev.snap.get("last") == "Commit" and s.snap.get("commit"):
                    out.append(fail("ignored-key-commits", case, i, s.snap.get("commit")))
            if s.res == "Bell":
                bells += 1
                for k in ("syms", "gaps", "sels", "cursor"):
                    if prev.snap.get(k) != s.snap.get(k):
                        out.append(fail("bell-changed-" + k, case, i, "%s: %s -> %s" % (k, prev.snap.get(k), s.snap.get(k))))
                        break
                else:
                    # the pre-edit TEXT (the displayed conversion, incl. the alternative Tab put on screen)
                    if prev.obs and s.obs and prev.obs.get("display") != s.obs.get("display"):
                        out.append(fail("bell-changed-display", case, i, "%s -> %s" % (prev.obs.get("display"), s.obs.get("display"))))
            if (state_of(prev) == "Entering" and not prev.snap.get("syms") and prev.snap.get("syl") == EMPTY_SYL
                    and code in PASSTHROUGH):
                idle += 1
                if s.res != "Ignore":
                    out.append(fail("not-passed-through", case, i, "code %d answered %s" % (code, s.res)))
    res.notes["oracle_ignored"] = ignored
    res.notes["oracle_bells"] = bells
    res.notes["oracle_idle_passthrough"] = idle
    return out


# ---------------------------------------------------------------- C02

def cps_join(ivs):
    out = []
    for (_, _, _, t) in ivs:
        out += t
    return ".".join(str(x) for x in out)


def auto_commit_accounting(case, i, prev, s, commit, syms, check_alternative):
    """the last conversion logged during the op is the conversion of the over-full buffer: what was pushed out is a
    leading part of it, in order, and nothing is lost or invented.  None when no text was pushed out."""
    out = []
    full = s.convs[-1]
    fsyms = lst(full.get("syms", ""))
    if len(fsyms) <= len(syms):
        return None
    # the conversion that is pushed out is the alternative (Tab) the user was looking at
    if check_alternative and full.get("nth") is not None and prev.snap.get("nth") is not None and full["nth"] != prev.snap["nth"] \
            and not (is_key(s) and key_code(s) == KC["Tab"]):
        out.append(fail("auto-commit-of-another-alternative", case, i,
                        "alternative %s was displayed, alternative %s was committed" % (prev.snap["nth"], full["nth"])))
    ok = False
    acc = []
    removed = 0
    for iv in full["ivs"]:
        acc.append(iv)
        removed += iv[1] - iv[0]
        if cps_join(acc) == commit and fsyms[removed:] == syms:
            ok = True
            break
    ncommit = len([x for x in commit.split(".") if x])
    # the character count presumes C03's contract (one character per symbol); a syllable left
    # without any word is committed by its Bopomofo spelling (fix e6644f0) - several characters
    # for one symbol, outside C02's / C03's dictionary hypothesis: only the count is waived then
    spelled = any(len(iv[3]) != iv[1] - iv[0] for iv in acc)
    if not ok or (not spelled and ncommit + len(syms) != len(fsyms)):
        out.append(fail("auto-commit-not-a-leading-part", case, i,
                        "full %s ivs %s commit %s left %s" % (fsyms, full["ivs"], commit, syms)))
    return out


def c02(cases, res):
    out = []
    commits = autos = 0
    for case in cases:
        api_since_commit = False
        for i, prev, s in steps_with_prev(case):
            if prev is None:
                continue
            if not is_key(s):
                api_since_commit = True
                # a choice made through the API (Editor::select / chewing_cand_choose_by_index) can push text out of a
                # buffer whose limit was lowered meanwhile: the same accounting as for a key
                if s.op[0] in ("select", "cchoose") and s.snap.get("last") == "Commit" and s.convs and lst(s.snap.get("syms", "")):
                    f = auto_commit_accounting(case, i, prev, s, s.snap.get("commit", ""), lst(s.snap.get("syms", "")), check_alternative=False)
                    if f is not None:
                        autos += 1
                        out += f
                # commit_preedit_buf path
                if s.op[0] == "commit" and s.res == "1" and prev.obs is not None:      # (sparsely observed cases: no display to compare)
                    commits += 1
                    if s.snap.get("commit", "") != (prev.obs or {}).get("display", ""):
                        out.append(fail("api-commit-differs-from-display", case, i,
                                        "display %s commit %s" % ((prev.obs or {}).get("display"), s.snap.get("commit"))))
                continue
            code = key_code(s)
            psyms = lst(prev.snap.get("syms", ""))
            syms = lst(s.snap.get("syms", ""))
            commit = s.snap.get("commit", "")
            # whole-buffer commit by Enter
            if state_of(prev) == "Entering" and psyms and code == KC["Enter"] and prev.obs is not None:
                commits += 1
                if s.res != "Commit" or commit != (prev.obs or {}).get("display", "") or syms:
                    out.append(fail("enter-commit-differs-from-display", case, i,
                                    "display %s commit %s left %s" % ((prev.obs or {}).get("display"), commit, syms)))
            # auto-commit: the last conversion logged during the op is the conversion of the over-full buffer
            elif s.res == "Commit" and syms and s.convs:
                f = auto_commit_accounting(case, i, prev, s, commit, syms, check_alternative=True)
                if f is not None:
                    autos += 1
                    out += f
            # a non-empty commit string exactly when the result says commit
            if bool(commit) != (s.res == "Commit"):
                sig = "stale-commit-after-api" if api_since_commit and commit and s.res != "Commit" else "commit-flag-mismatch"
                out.append(fail(sig, case, i, "result %s commit %r" % (s.res, commit)))
            if s.res == "Commit" or not commit:
                api_since_commit = False
    res.notes["oracle_commits"] = commits
    res.notes["oracle_auto_commits"] = autos
    return out


# ---------------------------------------------------------------- C18

def c18(cases, res):
    out = []
    keys = 0
    images = {}
    for case in cases:
        for i, prev, s in steps_with_prev(case):
            if prev is not None and is_key(s) and state_of(prev) != "Entering" and key_code(s) == 0 and key_mods(s)[2] \
                    and not (state_of(prev) == "Selecting" and (key_mods(s)[0] or key_mods(s)[1])):
                # Caps Lock toggles the language mode in every editor state (pending syllable, open list, highlighting)
                # and never alters the text in the buffer.  (The Caps Lock event is the one chewing_handle_Capslock
                # sends: no other modifier.  An event that also carries Shift or Ctrl is refused with a bell while a
                # candidate list is open, like every Shift / Ctrl combination there - not what the property is about.)
                po, o = opts_of(prev), opts_of(s)
                # (an auto-commit after the key - limit lowered below the buffer length - is C02's business)
                same_text = s.res == "Commit" or (prev.snap.get("syms") == s.snap.get("syms") and prev.snap.get("sels") == s.snap.get("sels"))
                if o[8] != 1 - po[8] or o[9] != po[9] or not same_text:
                    out.append(fail("capslock-toggle", case, i, "state %s: %s -> %s" % (state_of(prev), po, o)))
                continue
            if prev is None or not is_key(s) or state_of(prev) != "Entering":
                continue
            po = opts_of(prev)
            code = key_code(s)
            uni = int(s.op[3])
            shift, ctrl, caps, num = key_mods(s)
            psyms, syms = lst(prev.snap.get("syms", "")), lst(s.snap.get("syms", ""))
            pcur, cur = int(prev.snap["cursor"]), int(s.snap["cursor"])
            o = opts_of(s)
            if s.res == "Commit" and psyms:
                # auto-commit after the key (only when the limit was lowered below the buffer
                # length): the committed part is C02's business, the mode change still happened
                if code == 0 and caps and o[8] != 1 - po[8]:
                    out.append(fail("capslock-toggle", case, i, "%s -> %s" % (po, o)))
                continue
            # Caps Lock
            if code == 0 and caps:
                if o[8] != 1 - po[8] or o[9] != po[9] or syms != psyms or prev.snap.get("sels") != s.snap.get("sels"):
                    out.append(fail("capslock-toggle", case, i, "%s -> %s" % (po, o)))
                continue
            if code == KC["Space"] and shift and not ctrl and not caps and po[13]:
                if o[9] != 1 - po[9] or o[8] != po[8] or syms != psyms:
                    out.append(fail("shift-space-toggle", case, i, "%s -> %s" % (po, o)))
                continue
            if not po[8] or ctrl or caps or num or not (1 <= code <= 48) or not (32 <= uni <= 126):
                continue
            if code == KC["Space"] and shift and po[13]:
                continue
            keys += 1
            ch = uni
            if po[9]:
                # full-width: one non-ASCII character, injective
                got = None
                if not psyms and s.res == "Commit":
                    c = [int(x) for x in s.snap.get("commit", "").split(".") if x]
                    got = c[0] if len(c) == 1 else None
                elif psyms and len(syms) == len(psyms) + 1 and syms[pcur].startswith("C"):
                    got = int(syms[pcur][1:])
                if got is None or got <= 127:
                    out.append(fail("fullwidth-not-one-char", case, i, "char %d -> %s" % (uni, s.raw_s[:200])))
                    continue
                if images.setdefault(got, uni) != uni:
                    out.append(fail("fullwidth-not-injective", case, i, "%d and %d -> %d" % (images[got], uni, got)))
                ch = got
            if not psyms:
                if s.res != "Commit" or s.snap.get("commit") != str(ch) or syms:
                    out.append(fail("english-empty-not-committed", case, i, "char %d: %s commit=%s" % (ch, s.res, s.snap.get("commit"))))
            elif s.res == "Commit":
                continue            # auto-commit after the insertion (limit lowered): C02's business
            else:
                exp = psyms[:pcur] + ["C%d" % ch] + psyms[pcur:]
                if syms != exp or cur != pcur + 1 or s.res != "Absorb":
                    out.append(fail("english-not-inserted-at-cursor", case, i, "%s@%d + %d -> %s@%d" % (psyms, pcur, ch, syms, cur)))
    res.notes["oracle_english_keys"] = keys
    res.notes["oracle_fullwidth_images"] = len(images)
    return out


# ---------------------------------------------------------------- C03

def parse_sels(s):
    out = []
    for part in filter(None, (s or "").split(",")):
        rng, kind, text = part.split(":")
        b, e = rng.split("-")
        out.append((int(b), int(e), kind, tuple(int(x) for x in text.split(".") if x)))
    return out


def is_spelling(text):
    """a Bopomofo spelling (letters U+3105..U+3129 and tone marks): what the engines show for a syllable
    that has no word at all (SimpleEngine always did; ChewingEngine since fix e6644f0)"""
    return bool(text) and all(0x3105 <= x <= 0x3129 or x in (0x2D9, 0x2CA, 0x2C7, 0x2CB, 0x2C9) for x in text)


def tiles_apart_from_fallback(ivs, syms):
    """the tiling contract with the one exemption C03's quantifier makes (dictionaries with a word for
    every syllable): a single syllable shown by its spelling"""
    pos = 0
    spelled = 0
    for b, e, kind, text in ivs:
        if b != pos or e <= b:
            return False, spelled
        if len(text) != e - b:
            # one spelled syllable, possibly glued (Tab) to its neighbours: the characters that are not
            # Bopomofo letters / tone marks account for the other symbols of the interval
            plain = [x for x in text if not is_spelling([x])]
            if all(x.startswith("S") for x in syms[b:e]) and len(plain) < e - b and len(plain) < len(text):
                spelled += (e - b) - len(plain)
            else:
                return False, spelled
        pos = e
    return pos == len(syms), spelled


def c03(cases, res):
    out = []
    checked = 0
    spelled_total = 0
    for case in cases:
        for i, prev, s in steps_with_prev(case):
            if not s.obs or s.obs.get("display") is None:
                continue
            checked += 1
            syms = lst(s.snap.get("syms", ""))
            disp = [int(x) for x in s.obs.get("display", "").split(".") if x]
            if s.obs.get("tiling") != "1":
                ok, spelled = tiles_apart_from_fallback((s.dconv or {}).get("ivs") or [], syms) if s.dconv else (False, 0)
                spelled_total += spelled
                if not (ok and spelled):
                    out.append(fail("conversion-not-a-tiling", case, i, "%s / %s" % (s.raw_s[:300], (s.dconv or {}).get("ivs"))))
                continue
            if len(disp) != len(syms):
                out.append(fail("display-length", case, i, "%d symbols, %d characters" % (len(syms), len(disp))))
                continue
            for k, sym in enumerate(syms):
                if sym.startswith("C") and disp[k] != int(sym[1:]):
                    out.append(fail("char-symbol-changed", case, i, "position %d: %s displayed as %d" % (k, sym, disp[k])))
                    break
            if s.dconv is not None:
                joined = [x for iv in s.dconv["ivs"] for x in iv[3]]
                if joined != disp:
                    out.append(fail("display-not-concatenation", case, i, "%s vs %s" % (joined, disp)))
    res.notes["oracle_conversions_checked"] = checked
    res.notes["oracle_spelled_syllables_without_word"] = spelled_total
    return out


# ---------------------------------------------------------------- C04

def c04(cases, res):
    out = []
    checked = honoured = logged = 0
    for case in cases:
        for i, prev, s in steps_with_prev(case):
            sels = parse_sels(s.snap.get("sels", ""))
            syms = lst(s.snap.get("syms", ""))
            gaps = lst(s.snap.get("gaps", ""))
            # every recorded choice covers syllables only, one character per symbol
            for (b, e, _, t) in sels:
                if not (b < e <= len(syms)) or len(t) != e - b or any(not x.startswith("S") for x in syms[b:e]):
                    out.append(fail("selection-malformed", case, i, "%s over %s" % ((b, e, t), syms)))
            # every conversion the implementation computed DURING the op (auto-commit, commit, candidate lists ...: the
            # hook's log carries the composition it was computed for) shows every choice recorded in that composition
            for cv in (s.convs or []):
                ivs = cv.get("ivs") or []
                pos, flat, ok = 0, [], True
                for (b, e, _, text) in ivs:
                    if b != pos or e <= b or len(text) != e - b:
                        ok = False
                        break
                    flat += list(text)
                    pos = e
                if not ok or pos != len(lst(cv.get("syms", ""))):
                    continue
                for (b, e, _, t) in parse_sels(cv.get("sels", "")):
                    logged += 1
                    if len(t) == e - b and tuple(flat[b:e]) != t:
                        out.append(fail("selection-not-displayed", case, i, "during the op: choice %s shown as %s (conversion %s)" % ((b, e, t), flat[b:e], ivs)))
                        break
            # ... and is displayed at its own range; no interval spans a break
            if s.obs and s.obs.get("display") is not None and s.obs.get("tiling") == "1":
                disp = [int(x) for x in s.obs.get("display", "").split(".") if x]
                for (b, e, _, t) in sels:
                    honoured += 1
                    if tuple(disp[b:e]) != t:
                        out.append(fail("selection-not-displayed", case, i, "%s shown as %s" % ((b, e, t), disp[b:e])))
                if s.dconv is not None:
                    for (b, e, _, _) in s.dconv["ivs"]:
                        for k in range(b + 1, e):
                            if k < len(gaps) and gaps[k] == "K":
                                out.append(fail("interval-spans-break", case, i, "interval %d-%d over break at %d" % (b, e, k)))
            # the moment of choosing: the chosen candidate becomes a recorded choice for the highlighted range
            if prev is not None and state_of(prev) == "Selecting" and prev.snap.get("sel") == "P" and prev.obs \
                    and prev.obs.get("cands", "-") not in ("-", "PANIC") and state_of(s) == "Entering":
                pn_s, _, pbody = prev.obs["cands"].partition(":")
                pcands = pbody.split(",") if pbody else []
                idx = None
                if s.op[0] == "select" and s.res == "1":
                    idx = int(s.op[1])
                elif is_key(s) and 1 <= key_code(s) <= 10 and not any(key_mods(s)[:2]) and s.res == "Absorb":
                    idx = int(prev.obs["pg"]) * opts_of(prev)[7] + key_code(s) - 1
                if idx is not None and idx < len(pcands) and s.snap.get("last") != "Commit":
                    want = (int(prev.snap["begin"]), int(prev.snap["end"]), "P", tuple(text_key(pcands[idx])))
                    if want not in sels:
                        out.append(fail("choice-not-recorded", case, i, "chose %s; recorded choices %s" % (want, sels)))
                    # a choice joins the symbols INSIDE its range; breaks / glue at its start and elsewhere stay
                    pgaps = lst(prev.snap.get("gaps", ""))
                    if len(pgaps) == len(gaps):
                        for k in range(len(gaps)):
                            if not (want[0] < k < want[1]) and pgaps[k] != gaps[k]:
                                out.append(fail("choice-changed-a-gap-outside-its-range", case, i,
                                                "chose %s; gap %d was %s, is %s" % (want, k, pgaps[k], gaps[k])))
                                break
            if prev is None or not is_key(s) or state_of(prev) not in ("Entering", "EnteringSyllable") \
                    or state_of(s) not in ("Entering", "EnteringSyllable"):
                continue
            psels = parse_sels(prev.snap.get("sels", ""))
            psyms = lst(prev.snap.get("syms", ""))
            pcur = int(prev.snap["cursor"])
            exp = None
            if s.res == "Commit":
                # auto-commit (or full commit): what is left is a trailing part; later choices shift
                # (the key may have added one symbol at the cursor before the front was pushed out: n counts the
                # symbols of the PREVIOUS buffer that left; with repeated symbols both readings can fit the
                # symbols that remain - then either expectation is accepted)
                alts = []
                n0 = len(psyms) - len(syms)
                if n0 > 0 and psyms[n0:] == syms:
                    alts.append([(b - n0, e - n0, k, t) for (b, e, k, t) in psels if b >= n0])
                n1 = len(psyms) + 1 - len(syms)
                if n1 > 0 and len(syms) >= 1 and n1 <= pcur and psyms[n1:pcur] == syms[:pcur - n1] and psyms[pcur:] == syms[pcur - n1 + 1:]:
                    kept = [((b + 1, e + 1, k, t) if b >= pcur else (b, e, k, t)) for (b, e, k, t) in psels if not (b < pcur < e)]
                    alts.append([(b - n1, e - n1, k, t) for (b, e, k, t) in kept if b >= n1])
                if alts:
                    checked += 1
                    if all(sorted(a) != sorted(sels) for a in alts):
                        out.append(fail("choice-not-preserved", case, i, "expected %s got %s" % (" or ".join(str(sorted(a)) for a in alts), sorted(sels))))
                continue
            elif len(syms) == len(psyms) + 1 and syms[:pcur] == psyms[:pcur] and syms[pcur + 1:] == psyms[pcur:]:
                exp = [((b + 1, e + 1, k, t) if b >= pcur else (b, e, k, t)) for (b, e, k, t) in psels
                       if not (b < pcur < e)]
            elif len(syms) == len(psyms) - 1 and pcur > 0 and syms == psyms[:pcur - 1] + psyms[pcur:] \
                    and key_code(s) == KC["Backspace"]:
                j = pcur - 1
                exp = [((b, e, k, t) if b <= j else (b - 1, e - 1, k, t)) for (b, e, k, t) in psels if not (b <= j < e)]
            elif len(syms) == len(psyms) - 1 and syms == psyms[:pcur] + psyms[pcur + 1:] and key_code(s) == KC["Del"]:
                j = pcur
                exp = [((b, e, k, t) if b <= j else (b - 1, e - 1, k, t)) for (b, e, k, t) in psels if not (b <= j < e)]
            elif syms == psyms and key_code(s) != KC["Tab"]:
                exp = list(psels)
            elif syms == psyms:
                # Tab: a break drops only the choices it cuts through
                cut = [x for x in psels if x not in sels]
                if any(not (b < pcur < e) for (b, e, _, _) in cut) or any(x not in psels for x in sels):
                    out.append(fail("tab-dropped-unrelated-choice", case, i, "%s -> %s at %d" % (psels, sels, pcur)))
                continue
            if exp is not None:
                checked += 1
                if sorted(exp) != sorted(sels):
                    out.append(fail("choice-not-preserved", case, i, "expected %s got %s" % (sorted(exp), sorted(sels))))
    res.notes["oracle_edit_steps_checked"] = checked
    res.notes["oracle_choices_checked_in_display"] = honoured
    res.notes["oracle_choices_checked_in_logged_conversions"] = logged
    return out


# ---------------------------------------------------------------- C07

def case_dict(case):
    sys_, usr = {}, {}
    for l in case["setup"]:
        tag, _, rest = l.partition(" ")
        if tag == "SYS":
            k, t, f = rest.split("|")
            sys_.setdefault(k, {}).setdefault(t, int(f))       # add_phrase: first one wins
    return sys_


def user_dict_of(step):
    d = {}
    for ent in filter(None, (step.obs or {}).get("user", "").split(";")):
        k, t, f, tm = ent.split("|")
        d.setdefault(k, {})[t] = int(f)
    return d


def text_key(t):
    return [int(x) for x in t.split(".") if x]


def expected_candidates(sys_, usr, key, file_order=False):
    # an in-memory system dictionary (TrieBuf) answers in the order of the phrase text; a trie FILE (capi cases) in its
    # leaf order, which is the order the case setup lists the entries of a key in
    out = list(sys_.get(key, {})) if file_order else sorted(sys_.get(key, {}), key=text_key)
    out += [t for t in sorted(usr.get(key, {}), key=text_key) if t not in sys_.get(key, {})]
    return out


def syl_starts_with(a, b):
    # Syllable::starts_with over the u16 codes (initial 7 bits, medial 2, rime 4, tone 3)
    tz = (b & -b).bit_length() - 1 if b else 16
    mask = 9 if tz >= 9 else 7 if tz >= 7 else 3 if tz >= 3 else 0
    return (a >> mask) == (b >> mask)


def expected_candidates_prefix(sys_, usr, key):
    # a trie FILE under the prefix lookup (the fuzzy engine): every key of the same length that matches syllable by
    # syllable, keys in the order of the file's sibling records - the order the setup lists them in (ascending codes
    # for a file as TrieBuilder writes it) -, each key's phrases in file order; a text is listed once
    q = text_key(key)
    keys = [k for k in sys_ if len(text_key(k)) == len(q) and all(x != 0 and syl_starts_with(x, y) for x, y in zip(text_key(k), q))]
    out = []
    for k in keys:
        out += [t for t in sys_[k] if t not in out]
    out += [t for t in sorted(usr.get(key, {}), key=text_key) if t not in out]
    return out


def c07(cases, res):
    out = []
    lists = chooses = rejected = prefix_lists = 0
    for case in cases:
        sys_ = case_dict(case)
        strategies = set()
        # the phonetic layout in effect (setup line LAYOUT, `layout k` ops): Hsu (1) and ET26 (5) add the words of a
        # syllable's alternative readings to its one-syllable list ("defined to include that reading's characters")
        layout = 0
        capi = any(l.split(" ")[0] == "CAPI" for l in case["setup"])
        for l in case["setup"]:
            if l.startswith("LAYOUT "):
                layout = int(l.split()[1])
        for i, prev, s in steps_with_prev(case):
            if s.op and s.op[0] == "layout":
                layout = int(s.op[1])
            if s.op and s.op[0] == "kbtype":
                # chewing_set_KBType: KB_HSU (1) and KB_DVORAK_HSU (7) are Hsu, KB_ET26 (5) is ET26; the others
                # (and every unknown number: the default layout) have no alternative readings
                layout = {1: 1, 7: 1, 5: 5}.get(int(s.op[1]), 0)
            o = opts_of(s)
            per = o[7]
            # a phrase selector keeps the lookup strategy it was created with (at the opening of the list, at j / k):
            # the strategies in effect at some step since the list was opened
            if state_of(s) != "Selecting":
                strategies = set()
            else:
                if prev is None or state_of(prev) != "Selecting":
                    strategies = set()
                strategies.add(o[11])
            if state_of(s) == "Selecting" and s.obs and s.obs.get("cands", "-") not in ("-", "PANIC"):
                lists += 1
                n_s, _, body = s.obs["cands"].partition(":")
                n = int(n_s)
                cands = [x for x in body.split(",")] if body else []
                if len(cands) != n:
                    out.append(fail("total-differs-from-enumeration", case, i, "%d vs %d" % (n, len(cands))))
                tp, pg = int(s.obs["tp"]), int(s.obs["pg"])
                if per > 0 and tp != (n + per - 1) // per:
                    out.append(fail("page-count", case, i, "total %d per page %d pages %d" % (n, per, tp)))
                # unconditional since fix 68d3a38 (page size / user dictionary may change while the list is open)
                if per > 0 and ((n > 0 and pg >= tp) or (n == 0 and pg != 0)):
                    out.append(fail("page-index-out-of-range", case, i, "page %d of %d (%s)" % (pg, tp, " ".join(s.op))))
                if s.snap.get("sel") == "P":
                    b, e = int(s.snap["begin"]), int(s.snap["end"])
                    syms = lst(s.snap.get("syms", ""))
                    if any(not x.startswith("S") for x in syms[b:e]) or not (b < e <= len(syms)):
                        out.append(fail("range-covers-non-syllable", case, i, "range %d-%d over %s" % (b, e, syms)))
                        continue
                    key = ".".join(x[1:] for x in syms[b:e])
                    exp = expected_candidates(sys_, user_dict_of(s), key, file_order=capi)
                    if capi and 1 in strategies:
                        # "contains every phrase held for exactly the highlighted syllables": under the prefix lookup
                        # the list holds those and the phrases of the other matching keys (what those are is decided
                        # here independently of the model)
                        if any(t not in cands for t in exp):
                            out.append(fail("candidate-list-incomplete", case, i, "range %d-%d lacks %s in %s" % (b, e, [t for t in exp if t not in cands], cands)))
                        exp_p = expected_candidates_prefix(sys_, user_dict_of(s), key)
                        prefix_lists += 1
                        if 0 not in strategies or cands[:len(exp_p)] == exp_p:
                            exp = exp_p
                    if layout in (1, 5) and e - b == 1 and cands[:len(exp)] == exp:
                        # the rest: words of one-syllable keys (the alternative readings; which readings is the
                        # layout's table, compared exactly by the model correspondence), each once
                        usr_ = user_dict_of(s)
                        singles = set()
                        for d in (sys_, usr_):
                            for kk, ws in d.items():
                                if "." not in kk:
                                    singles.update(ws)
                        rest = cands[len(exp):]
                        # a character that has the main reading AND an alternative one is listed under both (the
                        # property does not ask for a list without repetitions; the model lists it twice as well)
                        if all(x in singles for x in rest):
                            exp = cands
                    if exp != cands:
                        out.append(fail("candidate-list-incomplete", case, i, "range %d-%d expected %s got %s" % (b, e, exp, cands)))
            # choosing
            if prev is None or state_of(prev) != "Selecting" or not prev.obs or prev.obs.get("cands", "-") in ("-", "PANIC"):
                continue
            idx = None
            po = opts_of(prev)
            pn_s, _, pbody = prev.obs["cands"].partition(":")
            pcands = pbody.split(",") if pbody else []
            if s.op[0] == "select":
                idx = int(s.op[1])
                ok = s.res == "1"
            elif is_key(s) and 1 <= key_code(s) <= 10 and not any(key_mods(s)[:2]):
                idx = int(prev.obs["pg"]) * po[7] + key_code(s) - 1
                ok = s.res in ("Absorb", "Commit") and state_of(s) != "Selecting"
            if idx is None:
                continue
            if idx >= len(pcands):
                rejected += 1
                changed = [k for k in PERSIST if prev.snap.get(k) != s.snap.get(k)]
                if (s.op[0] == "select" and s.res != "0") or (is_key(s) and s.res != "Bell") or changed:
                    out.append(fail("out-of-range-choice-not-rejected", case, i,
                                    "index %d of %d answered %s, changed %s" % (idx, len(pcands), s.res, changed)))
                continue
            if prev.snap.get("sel") != "P":
                continue            # symbol menus: a category opens a sub-list (checked by the correspondence)
            chooses += 1
            b, e = int(prev.snap["begin"]), int(prev.snap["end"])
            want = (b, e, "P", tuple(text_key(pcands[idx])))
            sels = parse_sels(s.snap.get("sels", ""))
            if s.res == "Commit" and is_key(s) or (s.op[0] == "select" and s.snap.get("last") == "Commit"):
                continue            # the choice was followed by an auto-commit
            if not ok or state_of(s) != "Entering" or want not in sels:
                out.append(fail("chose-wrong-item", case, i, "index %d should record %s, selections now %s (result %s)" % (idx, want, sels, s.res)))
            elif s.obs and s.obs.get("tiling") == "1":
                disp = text_key(s.obs.get("display", ""))
                if tuple(disp[b:e]) != want[3]:
                    out.append(fail("chosen-item-not-displayed", case, i, "%s shown as %s" % (want, disp[b:e])))
    res.notes["oracle_lists"] = lists
    res.notes["oracle_lists_under_prefix_lookup_of_a_trie_file"] = prefix_lists
    res.notes["oracle_choices"] = chooses
    res.notes["oracle_rejected_choices"] = rejected
    return out


def c17(cases, res):
    """queries pure (impl side): a `get` op leaves the hook snapshot untouched, repeated query
    calls return equal values; a twin editor that executes the same ops but is never queried returns the same
    results and has the same hook snapshot after every op; reset: the reset context and a fresh twin with the same
    configuration and user dictionary agree after the reset and after every later op"""
    out = []
    gets = repeated = twins = sparse_cases = qtwins = 0
    for case in cases:
        if any(l.startswith("MODE sparse") for l in case["setup"]):
            sparse_cases += 1
        for i, prev, s in steps_with_prev(case):
            if s.op[0] == "get":
                gets += 1
                if prev is not None and prev.raw_s and s.raw_s and prev.raw_s != s.raw_s:
                    out.append(fail("query-changed-state", case, i, "before: %s after: %s" % (prev.raw_s[:300], s.raw_s[:300])))
                if len(s.gets) >= 2:
                    repeated += 1
                    if any(g != s.gets[0] for g in s.gets[1:]):
                        out.append(fail("repeated-query-differs", case, i, " | ".join(x[:200] for x in s.gets)))
                if len(s.all_o) >= 2 and any(o != s.all_o[0] for o in s.all_o[1:]):
                    out.append(fail("repeated-query-differs", case, i, " | ".join(x[:200] for x in s.all_o)))
            if s.qtwin is not None:
                qtwins += 1
                if not s.qtwin.startswith("ok"):
                    out.append(fail("queries-change-later-results", case, i, s.qtwin[:1500]))
            if s.twin is not None:
                twins += 1
                if not s.twin.startswith("ok"):
                    out.append(fail("reset-differs-from-fresh", case, i, s.twin[:1500]))
    res.notes["oracle_get_ops"] = gets
    res.notes["oracle_repeated_queries"] = repeated
    res.notes["oracle_twin_comparisons"] = twins
    res.notes["oracle_query_twin_comparisons"] = qtwins
    res.notes["oracle_sparse_cases"] = sparse_cases
    return out


# ---------------------------------------------------------------- C01

SPACE_CODE = 48


def event_consistent(step):
    """the key events the C API can produce (Model: event_ok): a printable ASCII character or U+FFFD,
    and the Space key carries ' '.  The generator also sends arbitrary events through the Rust API;
    for those the two full_width_symbol_input(..).unwrap() sites of Chinese mode are outside C01."""
    if not is_key(step):
        return True
    code, uni = key_code(step), int(step.op[3])
    if code == SPACE_CODE:
        return uni == 32
    return 32 <= uni <= 126 or uni == 0xFFFD


def c01(cases, res):
    """no call panics (the Rust API is driven under catch_unwind: a panic is an `R PANIC` / `O PANIC`
    line; through the C API it would abort the process)"""
    out = []
    ops = panics = excluded = 0
    for case in cases:
        consistent = True
        for i, prev, s in steps_with_prev(case):
            ops += 1
            consistent = consistent and event_consistent(s)
            per_page = opts_of(s)[7] if s.snap else 1
            if s.res == "PANIC" or (s.all_o and s.all_o[-1].startswith("PANIC")) or (s.raw_o or "").startswith("PANIC"):
                panics += 1
                if not consistent:
                    excluded += 1
                    break
                out.append(fail("panic", case, i, "the call panicked: %s" % " ".join(s.op)))
                break
            if s.op[0] == "opts" and s.op[1].split(",")[7] == "0":
                consistent = False          # candidates_per_page = 0 is rejected by the C API (Model: opts_ok)
            _ = per_page
    res.notes["oracle_ops"] = ops
    res.notes["oracle_panics_seen"] = panics
    res.notes["oracle_panics_outside_the_c_api_domain"] = excluded
    return out


# ---------------------------------------------------------------- C08

_BREAK = None


def break_words():
    """the one-character break words of the editor, read from the regenerated table (Gen/Editor_gen.v)"""
    global _BREAK
    if _BREAK is None:
        import os
        import re
        from .common import GEN
        txt = open(os.path.join(GEN, "Editor_gen.v"), encoding="utf-8").read()
        m = re.search(r"Definition break_words[^:]*:[^=]*:=\s*\[(.*?)\]\.", txt, re.S)
        _BREAK = set(int(x) for x in re.findall(r"\[(\d+)\]", m.group(1))) if m else set()
    return _BREAK


def c08(cases, res):
    """learning on the editor histories: a whole-buffer commit (Enter / commit_preedit_buf) with learning
    enabled leaves every multi-character phrase of the displayed conversion in the user dictionary under
    the syllables it covers with a frequency not below the one it had (in either layer); with learning
    disabled the user dictionary is untouched by the commit"""
    out = []
    commits = learned = disabled = singles = quiet = 0
    for case in cases:
        sys_ = case_dict(case)
        for i, prev, s in steps_with_prev(case):
            # with learning disabled NO key event and no choice changes the user dictionary - the two explicit
            # add-phrase gestures excepted (Ctrl-digit while editing, Enter over a marked range); the statement of
            # Proofs/DictFrame.process_keyevent_dk, checked on the implementation's own snapshots
            if prev is not None and prev.obs is not None and s.obs is not None and "user" in prev.obs and "user" in s.obs \
                    and len(opts_of(prev)) > 5 and opts_of(prev)[5] and (is_key(s) or s.op[0] in ("select", "cchoose")):
                gesture = is_key(s) and ((state_of(prev) == "Entering" and 1 <= key_code(s) <= 10 and key_mods(s)[1])
                                         or (state_of(prev) == "Highlighting" and key_code(s) == KC["Enter"]))
                if not gesture:
                    quiet += 1
                    if user_dict_of(prev) != user_dict_of(s):
                        out.append(fail("learned-although-disabled", case, i, "a key in state %s: before %s after %s" % (state_of(prev), user_dict_of(prev), user_dict_of(s))))
            if prev is None or prev.obs is None or s.obs is None or prev.dconv is None:
                continue
            whole = (is_key(s) and key_code(s) == KC["Enter"] and state_of(prev) == "Entering" and lst(prev.snap.get("syms", ""))
                     and s.res == "Commit" and not lst(s.snap.get("syms", ""))) or (s.op[0] == "commit" and s.res == "1")
            if not whole:
                continue
            commits += 1
            before, after = user_dict_of(prev), user_dict_of(s)
            if opts_of(prev)[5]:
                disabled += 1
                if before != after:
                    out.append(fail("learned-although-disabled", case, i, "before %s after %s" % (before, after)))
                continue
            syms = lst(prev.snap.get("syms", ""))
            for b, e, kind, text in prev.dconv["ivs"]:
                if kind != "P" or e - b < 2 or len(text) != e - b or not all(x.startswith("S") for x in syms[b:e]):
                    continue
                key = ".".join(x[1:] for x in syms[b:e])
                t = ".".join(str(x) for x in text)
                was = max(before.get(key, {}).get(t, 0), sys_.get(key, {}).get(t, 0))
                now = after.get(key, {}).get(t)
                learned += 1
                if now is None:
                    out.append(fail("committed-phrase-not-recorded", case, i, "%s under %s; user dictionary %s" % (t, key, after.get(key))))
                elif now < was and was <= 99999999:
                    out.append(fail("frequency-lowered", case, i, "%s under %s: %d -> %d" % (t, key, was, now)))
            # "... and an explicitly chosen single character": a one-character interval the user chose (a selection of
            # exactly that range and text) that is not a break word and whose neighbours are not such characters either
            # (adjacent single characters are recorded together as one run) is in the user dictionary under its syllable
            ivs = prev.dconv["ivs"]
            bw = break_words()

            def single(iv):
                # a member of a run: one symbol wide, from the dictionary side of the conversion, not a break word.  (A
                # syllable left without any word is converted to its spelling - one symbol, several characters - and
                # joins a run like any other: a run with such a neighbour is outside C08's dictionary hypothesis.)
                b, e, kind, text = iv
                return kind == "P" and e - b == 1 and not (len(text) == 1 and text[0] in bw)
            chosen = set(x for x in prev.snap.get("sels", "").split(",") if x)
            for j, iv in enumerate(ivs):
                if not single(iv) or len(iv[3]) != 1 or not syms[iv[0]].startswith("S") \
                        or (j > 0 and single(ivs[j - 1])) or (j + 1 < len(ivs) and single(ivs[j + 1])):
                    continue
                b, e, _, text = iv
                if "%d-%d:P:%d" % (b, e, text[0]) not in chosen:
                    continue
                singles += 1
                key, t = syms[b][1:], str(text[0])
                was = max(before.get(key, {}).get(t, 0), sys_.get(key, {}).get(t, 0))
                now = after.get(key, {}).get(t)
                if now is None:
                    out.append(fail("chosen-character-not-recorded", case, i, "%s under %s; user dictionary %s" % (t, key, after.get(key))))
                elif now < was and was <= 99999999:
                    out.append(fail("frequency-lowered", case, i, "%s under %s: %d -> %d" % (t, key, was, now)))
    res.notes["oracle_chosen_single_characters_checked"] = singles
    res.notes["oracle_whole_buffer_commits"] = commits
    res.notes["oracle_phrases_checked"] = learned
    res.notes["oracle_commits_with_learning_disabled"] = disabled
    res.notes["oracle_keys_with_learning_disabled"] = quiet
    return out
