"""C15: C-API memory safety and string well-formedness (proof on the ownership model, partial;
trace correspondence with a layout-checking allocator; valgrind replays as runtime support)."""
import json
import os
import re
import shutil
import subprocess
import tempfile
from concurrent.futures import ThreadPoolExecutor

from .common import (BUILD, ENV, GEN, ROOT, Lock, Result, count_lines, driver_path, first_difference, harness_path, sh,
                     standard_build)

PROP = "C15"
DRIVER = driver_path("c15")
HARNESS = harness_path("c15")
HARNESS_DBG = harness_path("c15", debug=True)
DATA = os.path.join(BUILD, "data", "c15")
CORPUS = os.path.join(ROOT, "corpus", "C15-witnesses.seqs")
VALGRIND = ["valgrind", "--error-exitcode=9", "-q", "--num-callers=12"]


def caps_arg():
    side = json.load(open(os.path.join(GEN, "tablegen_side.json")))["capi_mem"]
    b = side["buffers"]
    return "%d,%d,%d,%d,%d,%d,%d,%d" % (b["commit_buf"], b["preedit_buf"], b["bopomofo_buf"], b["cand_buf"], b["aux_buf"],
                                        b["kbtype_buf"], 1 if side["free_removes"] else 0, 1 if side["up_get_checks"] else 0), side


def split_seqs(text):
    parts = [p for p in re.split(r"(?m)^(?=# seq \d)", text) if p.strip() and p.lstrip().startswith("# seq")]
    return parts


def seq_of_line(path, lineno):
    """index of the sequence (number of 'C' context lines before line lineno) in a result file"""
    n = -1
    with open(path, encoding="utf-8", errors="replace") as f:
        for i, l in enumerate(f, 1):
            if l.startswith("C"):
                n += 1
            if i >= lineno:
                break
    return max(n, 0)


def valgrind_one(seqtext, work, tag, caps):
    f = os.path.join(work, "vg-%s.seqs" % tag)
    with open(f, "w", encoding="utf-8") as fh:
        fh.write(seqtext)
    p = subprocess.run(VALGRIND + [HARNESS_DBG, "run", f, DATA, work, os.path.join(work, "vg-%s" % tag), caps],
                       stdout=subprocess.PIPE, stderr=subprocess.STDOUT, timeout=900)
    out = p.stdout.decode("utf-8", "replace")
    keep = [l for l in out.splitlines() if re.search(r"Invalid|free'd|panicked|at 0x.*(io\.rs|trie\.rs|trie_buf\.rs)|Mismatched|uninitialised", l)]
    return p.returncode, "\n".join(keep[:12])[:3000]


def run(tier):
    res = Result(PROP, tier, "proof")
    st = standard_build(res, PROP, group="c15", harness_bin="c15", debug_harness=True,
                        model_deps=["theories/Model/CapiMem.vo", "theories/Gen/CapiMem_gen.vo"])
    work = os.path.join(BUILD, "work", "%s-%s" % (PROP, tier))
    shutil.rmtree(work, ignore_errors=True)
    os.makedirs(work, exist_ok=True)
    tmp = tempfile.mkdtemp(prefix="c15-", dir="/tmp")
    found_input = False
    try:
        caps, side = caps_arg()
    except (OSError, KeyError, ValueError) as e:
        st["broken"].append({"obligation": "tablegen capi_mem side data", "detail": repr(e)})
        caps, side = "256,256,16,256,256,32,0,0", {}
    res.notes["code_facts"] = {k: side.get(k) for k in ("up_owns", "free_elem", "free_removes", "cstr_reserve", "up_get_checks", "buffers", "bounds")}

    prefix = os.path.join(work, "gen")
    if st["cargo"]:
        with Lock("c15data"):
            rc, out, _ = sh([HARNESS, "mkdata", DATA], timeout=300)
        if rc != 0:
            st["broken"].append({"obligation": "mkdata", "detail": out[-2000:]})
            st["cargo"] = False

    # ---------------- generated + fixed + witness sequences on the implementation (release build)
    seqs = []
    if st["cargo"]:
        env = dict(ENV)
        env["VERIF_C15_PHONE_SWEEP"] = "1"
        rc, out, dt = sh([HARNESS, "gen", tier, DATA, tmp, prefix, caps], timeout=3000, env=env)
        res.notes["gen_s"] = round(dt, 1)
        try:
            seqs = split_seqs(open(prefix + ".seqs", encoding="utf-8").read())
        except OSError:
            seqs = []
        if rc != 0:
            # the process died inside a call sequence: the last sequence written is a concrete failing history
            last = seqs[-1] if seqs else ""
            m = re.search(r"panicked at ([^\n]*)\n?([^\n]*)", out)
            found_input = True
            res.add_violation("abort-in-call-sequence", {
                "kind": "history", "signature": "abort-in-call-sequence", "driver": "c15 run", "calls": last,
                "detail": "harness exit status %d while executing this call sequence (a panic inside an extern \"C\" function aborts the process)" % rc,
                "panic": (m.group(1) + " " + m.group(2))[:400] if m else out[-400:]}, True)
        else:
            try:
                o = json.load(open(prefix + ".json", encoding="utf-8"))
            except (OSError, ValueError) as e:
                o = None
                st["broken"].append({"obligation": "oracle-run", "detail": "%r\n%s" % (e, out[-1500:])})
            if o:
                res.coverage["evaluations"] += o["calls"] + o.get("stats", {}).get("phone_to_bopomofo_calls", 0)
                res.coverage["distinct_nontrivial"] += o["interrupted_protocols"]
                res.coverage["traces_validated_against_impl"] = o["sequences"]
                res.notes["oracle"] = {k: o[k] for k in o if k != "failures"}
                for f in o["failures"][:6]:
                    found_input = True
                    calls = seqs[f["seq"]] if f["seq"] < len(seqs) else ""
                    res.add_violation("oracle-" + f["oracle"], {
                        "kind": "history", "signature": f["oracle"], "driver": "c15 run", "calls": calls,
                        "failing_call_no": f["call"], "detail": f["detail"]}, True)

    # ---------------- correspondence: the model on the same abstract calls
    model_faults = []
    if st["cargo"] and st["extract"] and os.path.exists(prefix + ".trace"):
        rc, out, dt = sh([DRIVER, "run", "current", prefix + ".trace", prefix + ".model"], timeout=3000)
        res.notes["model_s"] = round(dt, 1)
        if rc != 0:
            st["broken"].append({"obligation": "correspondence-run (model driver)", "detail": out[-2000:]})
        else:
            n = count_lines(prefix + ".impl")
            res.coverage["evaluations"] += n
            d = first_difference(prefix + ".model", prefix + ".impl")
            with open(prefix + ".impl", encoding="utf-8") as fh:
                res.coverage["samples"] += [{"observed": fh.readline().strip()[:200]} for _ in range(4)]
            with open(prefix + ".model", encoding="utf-8") as fh:
                for i, l in enumerate(fh, 1):
                    if l.startswith("F "):
                        model_faults.append((i, l.strip()))
            if d:
                k = seq_of_line(prefix + ".impl", d[0])
                st["broken"].append({"obligation": "correspondence c15 trace (model vs implementation)", "line": d[0],
                                     "model": d[1][:400], "impl": d[2][:400], "sequence": k,
                                     "calls": seqs[k] if k < len(seqs) else ""})
    res.notes["model_predicted_faults"] = len(model_faults)

    # ---------------- valgrind: model-derived witness sequences (+ generated ones in thorough) on the debug build
    vg_clean = 0
    if st.get("cargo_debug") and st["cargo"]:
        wfile = os.path.join(work, "witness.seqs")
        rc, out, _ = sh([HARNESS_DBG, "witness", wfile, tier], timeout=300)
        wseqs = []
        try:
            wseqs = split_seqs(open(CORPUS, encoding="utf-8").read())
        except OSError:
            st["broken"].append({"obligation": "corpus", "detail": "missing " + CORPUS})
        if rc == 0:
            extra = split_seqs(open(wfile, encoding="utf-8").read())
            wseqs += [s for s in extra if s not in wseqs]
        # sequences in which the model of the current code predicts a fault are replayed too
        for (ln, _) in model_faults[:5]:
            k = seq_of_line(prefix + ".model", ln)
            if k < len(seqs) and seqs[k] not in wseqs:
                wseqs.append(seqs[k])
        res.notes["valgrind_sequences"] = len(wseqs)

        def one(iq):
            i, q = iq
            try:
                return i, q, valgrind_one(q, tmp, str(i), caps)
            except subprocess.TimeoutExpired:
                return i, q, (124, "timeout")

        with ThreadPoolExecutor(max_workers=4) as ex:
            for i, q, (rc, detail) in ex.map(one, list(enumerate(wseqs))):
                if rc == 0:
                    vg_clean += 1
                    continue
                found_input = True
                sig = "valgrind-invalid-access" if rc == 9 else "abort-in-call-sequence"
                res.add_violation("%s-%d" % (sig, i), {
                    "kind": "history", "signature": sig, "driver": "c15 run (valgrind, debug build)", "calls": q,
                    "detail": "valgrind/harness exit status %d" % rc, "report": detail}, True)
        res.coverage["evaluations"] += len(wseqs)
        res.notes["valgrind_clean"] = vg_clean
    elif st["cargo"]:
        st["broken"].append({"obligation": "harness-build-debug (valgrind replays not run)", "detail": ""})

    # a fault the model of the current code predicts, not reproduced on the implementation
    if model_faults and not found_input:
        ln, l = model_faults[0]
        k = seq_of_line(prefix + ".model", ln)
        st["broken"].append({"obligation": "model of the current code predicts a fault: " + l, "sequence": k,
                             "calls": seqs[k] if k < len(seqs) else ""})

    if st["broken"] and not found_input:
        for b in st["broken"]:
            res.add_violation("obligation-" + re.sub(r"\W+", "-", b["obligation"])[:40], {"kind": "obligation", **b}, False)
    elif st["broken"]:
        res.notes["broken_obligations"] = [{k: (v if not isinstance(v, str) else v[:600]) for k, v in b.items()} for b in st["broken"]]

    res.coverage["rule"] = ("call sequences over the exported functions: 3 fixed string/registry sequences, 15 model-derived interruption "
                            "sequences, %s seeded sequences of 10..%d calls; every call compared with the model's prediction (bytes of the "
                            "static buffers up to capacity, heap strings, registry/dealloc layouts seen by a layout-checking allocator, "
                            "has_next/get protocol results); non-trivial = a sequence in which an enumeration is interrupted by a mutating "
                            "call before it is drained (distinct by call list); witness + corpus sequences additionally under valgrind"
                            % (("4000", 120) if tier == "thorough" else ("160", 60)))
    res.assumptions = [
        "PARTIAL: the theorems are about the ownership/lifetime/string contract of Model/CapiMem.v; actual loads and stores, the allocator and races with the background dictionary writer are outside the model",
        "valgrind (memcheck) runs of the debug harness and the layout-checking allocator are runtime support, not proof",
        "what the editor computes (texts, candidate lists, whether a key learned a phrase, writer timing) is an oracle of the model: universally quantified in the theorems, instantiated by the observed values in the correspondence",
        "reachable-string bounds rest on C05 (pre-edit length <= 39 + one phrase) and on dict_wf (phrases <= 11 characters); the harness checks NUL-within-capacity on every returned buffer",
        "which iterator owns/borrows, the element type used by chewing_free, and the shape of copy_cstr are read textually from capi/src/io.rs by tablegen/gen_capi_mem.py",
    ]
    shutil.rmtree(tmp, ignore_errors=True)
    return res.finish()


def replay(path):
    r = json.load(open(path))
    if r.get("kind") != "history" or not r.get("calls"):
        print(json.dumps(r, ensure_ascii=False, indent=1)[:6000])
        return 1
    caps, _ = caps_arg()
    tmp = tempfile.mkdtemp(prefix="c15r-", dir="/tmp")
    f = os.path.join(tmp, "replay.seqs")
    with open(f, "w", encoding="utf-8") as fh:
        fh.write(r["calls"])
    bad = 0
    rc, out, _ = sh([HARNESS, "run", f, DATA, tmp, os.path.join(tmp, "r"), caps], timeout=600)
    print("release run: exit %d" % rc)
    if rc != 0:
        print(out[-1500:])
        bad = 1
    else:
        o = json.load(open(os.path.join(tmp, "r.json"), encoding="utf-8"))
        for fl in o["failures"]:
            print("ORACLE FAILURE:", json.dumps(fl, ensure_ascii=False))
            bad = 1
        rc2, out2, _ = sh([DRIVER, "run", "current", os.path.join(tmp, "r.trace"), os.path.join(tmp, "r.model")])
        d = first_difference(os.path.join(tmp, "r.model"), os.path.join(tmp, "r.impl")) if rc2 == 0 else None
        if d:
            print("MODEL/IMPLEMENTATION DIFFER at result %d:\n  model %s\n  impl  %s" % (d[0], d[1][:300], d[2][:300]))
            bad = 1
    if os.path.exists(HARNESS_DBG):
        rc, rep = valgrind_one(r["calls"], tmp, "replay", caps)
        print("valgrind run: exit %d\n%s" % (rc, rep))
        if rc != 0:
            bad = 1
    shutil.rmtree(tmp, ignore_errors=True)
    print("REPRODUCED" if bad else "not reproduced")
    return 1 if bad else 0
