"""C17: queries pure, contexts independent, reset clean; theorems in coq/theories/Properties/C17.v"""
from . import edcommon, edoracles

PROP = "C17"
RULE = ("seeded generated editor histories in which query calls (`get n`: every public query function, n times) are "
        "inserted at random positions; a third of the cases is observed sparsely (only at `get` ops), so that executions "
        "with and without queries both have to agree with the model, which ignores queries; after every reset (`clear`, "
        "issued in every editor state incl. open candidate lists) a fresh twin editor with the same configuration and user "
        "dictionary runs alongside and is compared after every later op; non-trivial = history visiting >= 2 states and "
        "changing the buffer >= 2 times")


def run(tier):
    return edcommon.run_check(PROP, tier, edoracles.c17, RULE, edcommon.ED_ASSUMPTIONS)


def replay(path):
    return edcommon.replay(path)
