"""C17: queries pure, contexts independent, reset clean; theorems in coq/theories/Properties/C17.v"""
import os

from . import capicommon, edcommon, edoracles

PROP = "C17"
RULE = ("seeded generated editor histories in which query calls (`get n`: every public query function, n times) are "
        "inserted at random positions; a third of the cases is observed sparsely (only at `get` ops), so that executions "
        "with and without queries both have to agree with the model, which ignores queries; after every reset (`clear`, "
        "issued in every editor state incl. open candidate lists) a fresh twin editor with the same configuration and user "
        "dictionary runs alongside and is compared after every later op; non-trivial = history visiting >= 2 states and "
        "changing the buffer >= 2 times")


C17_SIGNATURES = ("repeated-query-differs", "queries-changes-results", "queries-changes-final-state",
                  "other-context-changes-results", "other-context-changes-final-state",
                  "other-thread-changes-results", "other-thread-changes-final-state", "reset-differs-from-fresh")


def capi_part(res, st, tier, work):
    """paired executions through the C API (vharness `capi`): full / bare / random query calls, alone vs
    interleaved with another context (also from a second thread), reset vs fresh"""
    fails = []
    if not capicommon.build(st):
        return fails
    summary, corpus = capicommon.run(tier, os.path.join(work, "capi"))
    if summary is None:
        st["broken"].append({"obligation": "capi harness run", "detail": corpus})
        return fails
    res.coverage["evaluations"] += summary.get("ops", 0)
    res.coverage["traces_validated_against_impl"] += summary.get("variants", 0)
    res.notes["capi"] = {k: summary.get(k) for k in ("cases", "ops", "variants", "crashes", "hangs", "workers_spawned", "wall_s")}
    for f in summary.get("failures", []):
        if f["signature"] in C17_SIGNATURES:
            fails.append({"signature": "capi-" + f["signature"], "detail": f["detail"], "case_lines": [], "ops": f["ops"]})
    return fails


def run(tier):
    return edcommon.run_check(PROP, tier, edoracles.c17, RULE + "; plus seeded C-API histories executed in paired variants "
                              "(every query after every op twice / no queries / random queries; alone / interleaved with a second "
                              "context / second context on another thread; reset vs fresh context with the same configuration)",
                              edcommon.ED_ASSUMPTIONS, extra=capi_part)


def replay(path):
    import json
    r = json.load(open(path))
    if r.get("ops"):
        return capicommon.replay(path)
    return edcommon.replay(path)
