"""C11: a trie dictionary file returns exactly what was put in, in the documented order
(proof on the DER / trie codec model + byte-exact writer and reader differential +
independent reader / writer oracles on the implementation)."""
import json
import os

from .common import Result, count_lines, sh, standard_build
from . import triecommon as tc

PROP = "C11"


def run(tier):
    res = Result(PROP, tier, "proof")
    st = standard_build(res, PROP, group="c11", harness_bin="c11", model_deps=["theories/Model/TrieCodec.vo"])
    work = tc.workdir(PROP, tier)
    cases, impl, model, orc = (os.path.join(work, x) for x in ("cases.txt", "views.impl", "views.model", "oracle.json"))
    for f in (cases, impl, model, orc):
        if os.path.exists(f):
            os.remove(f)
    found = False
    oracle_fail = []
    if st["cargo"]:
        rc, out, _ = sh([tc.HARNESS, "gen", tier, "c11", cases], timeout=600)
        try:
            res.notes["input_distribution"] = json.loads(out.strip().splitlines()[-1])
        except (ValueError, IndexError):
            st["broken"].append({"obligation": "case-generation", "detail": out[-2000:]})
        # --- property oracles on the implementation alone (independent reader / writer, spec) ---
        rc, out, _ = sh([tc.HARNESS, "oracle", tier, orc], timeout=3000)
        try:
            o = json.load(open(orc))
            res.coverage["evaluations"] += o["evaluations"]
            res.coverage["distinct_nontrivial"] += o["nontrivial"]
            res.notes["oracle"] = {k: o[k] for k in o if k != "failures"}
            oracle_fail = o["failures"]
        except (OSError, ValueError) as e:
            st["broken"].append({"obligation": "oracle-run", "detail": "%r\n%s" % (e, out[-2000:])})
    for i, f in enumerate(oracle_fail[:5]):
        lines = f["input"].split("\n")
        small = tc_shrink_oracle(lines, work, "o%d" % i)
        found = True
        res.add_violation("oracle-" + f["oracle"], {"kind": "input", "signature": f["oracle"], "driver": "c11 views + c11 check",
                                                     "oracle": True, "cases": small, "detail": f["detail"]}, True)

    # --- correspondence: model vs implementation on the generated command file ---
    if st["cargo"] and st["extract"] and os.path.exists(cases):
        out = tc.run_both(cases, impl, model)
        if out["impl"][0] == 0 and out["model"][0] == 0:
            n = count_lines(impl)
            res.coverage["traces_validated_against_impl"] = n
            res.coverage["evaluations"] += n
            h = tc.histogram(impl)
            res.notes["output_classes"] = h
            res.coverage["distinct_nontrivial"] += h.get("W", 0) + h.get("Q OK", 0)
            with open(impl, encoding="utf-8") as fh:
                res.coverage["samples"] += [{"view_line": fh.readline().strip()[:300]} for _ in range(4)]
            for k, d in enumerate(tc.differences(cases, impl, model)):
                small = tc.shrink(d, work, "m%d" % k)
                a, b = tc.eval_lines(small, work, "m%d" % k)
                rep = {"kind": "input", "signature": tc.signature(d), "driver": "c11 views", "cases": small,
                       "impl": [x[:500] for x in a][-6:], "model": [x[:500] for x in b][-6:], "case": d["name"]}
                # does the property itself fail on the implementation for this entry set?
                fails = tc.c11_oracle_on(small, work, "m%d" % k) or tc.c11_oracle_on(d["lines"], work, "m%dfull" % k)
                if fails or d["bad"]:
                    rep["oracle"] = True
                    rep["detail"] = fails[:3] if fails else d["bad"][:3]
                    if fails and not tc.c11_oracle_on(small, work, "m%d" % k):
                        rep["cases"] = d["lines"]
                    res.add_violation("correspondence-" + d["name"], rep, True)
                    found = True
                else:
                    st["broken"].append({"obligation": "correspondence c11 " + d["name"], "replay": rep})
        else:
            st["broken"].append({"obligation": "correspondence-run", "detail": (out["impl"][1] + out["model"][1])[-3000:]})

    if st["broken"] and not found:
        for b in st["broken"]:
            rep = dict(b.get("replay") or {"kind": "obligation"})
            rep.update({k: v for k, v in b.items() if k != "replay"})
            res.add_violation("obligation-" + b["obligation"].split()[0] + "-" + str(abs(hash(b["obligation"])) % 1000), rep, False)
    elif st["broken"]:
        res.notes["broken_obligations"] = [{k: v for k, v in b.items() if k != "replay"} for b in st["broken"]]

    res.coverage["rule"] = ("correspondence: generated entry sets (0..200 entries quick, ..2000 thorough; shared prefixes, prefix-of-other keys, "
                            "re-inserted phrases, up to 11 syllables, freq 0..2^32-1, multi-byte phrases, timestamps, metadata) + boundary shapes "
                            "(300 children, depth 11, leaf of 65535/65536/70000 bytes) + the .dat files of /repo; per set: byte-equal write, "
                            "open, exact/fuzzy lookups of inserted and non-inserted keys with several `first`, sorted entries. "
                            "oracles: independent reader and writer of the documented format + map specification on the implementation "
                            "(up to 3000 entries quick, 20000 thorough). non-trivial = entry set with >= 2 keys / write / non-error lookup")
    res.assumptions = ["model <-> code tie: byte-equal files and equal reader results on seeded generated entry sets (sampled, not exhaustive)",
                       "the builder arena is modelled by the tree it denotes (arena ids are unobservable in the output)",
                       "Vec::sort_by = stable sort; modelled as stable insertion sort (same result for a consistent comparator)",
                       "usize is 64 bit; DER items as implemented by the `der` crate 0.7 (modelled by Model/Der.v, cross-checked byte for byte)"]
    return res.finish()


def tc_shrink_oracle(lines, work, tag, budget=80):
    """shrink an oracle failure by dropping entries while some oracle still fails"""
    if len(lines) > 3000:
        return lines
    tries = 0
    es = [i for i, l in enumerate(lines) if l.startswith("E ")]
    chunk = max(1, len(es) // 2)
    while chunk >= 1 and tries < budget:
        i = 0
        while i < len(es) and tries < budget:
            drop = set(es[i:i + chunk])
            cand = [l for j, l in enumerate(lines) if j not in drop]
            tries += 1
            if tc.c11_oracle_on(cand, work, tag):
                lines = cand
                es = [k for k, l in enumerate(lines) if l.startswith("E ")]
            else:
                i += chunk
        chunk //= 2
    return lines


def replay(path):
    return tc.replay(path)
