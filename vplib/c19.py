"""C19: legacy user data is migrated completely, exactly once, and never destroyed.

Proof: Properties/C19.v over Model/{Uhash,LegacySqlite,Loader}.v.
Tie: (1) harness-side writers of the legacy formats vs the Coq printers, byte for byte;
     (2) hook-level try_load_bin / try_load_text and the real UserDictionaryLoader on generated
         legacy files vs the extracted model; (3) every single-byte overwrite x 7 values + every
         truncation of small valid files (shared with C12: `c19 corrupt`).
Oracles (implementation alone): generated user directories in all four legacy formats, first
start-up, repeated start-ups interleaved with learning (Rust API and chewing_new2), legacy
store before/after."""
import json
import os
import threading

from .common import (BUILD, ENV, ROOT, Result, count_lines, driver_path, first_difference, harness_path, sh, standard_build)

PROP = "C19"
DRIVER = driver_path("c19")
HARNESS = harness_path("c19")


def _case_of(cases_path, lineno_out):
    """the case line that produced output line `lineno_out` (B lines produce no output)"""
    n = 0
    with open(cases_path, encoding="utf-8") as fh:
        for line in fh:
            if line.startswith("B "):
                continue
            n += 1
            if n == lineno_out:
                return line.rstrip("\n")
    return ""


def run(tier):
    res = Result(PROP, tier, "proof")
    st = standard_build(res, PROP, group="c19", harness_bin="c19", model_deps=["theories/Model/Loader.vo"])
    work = os.path.join(BUILD, "work", "%s-%s" % (PROP, tier))
    os.makedirs(work, exist_ok=True)
    cases, impl, model, orc, cor = (os.path.join(work, x) for x in ("cases.txt", "views.impl", "views.model", "oracle.json", "corrupt.json"))
    for f in (cases, impl, model, orc, cor):
        if os.path.exists(f):
            os.remove(f)
    env = dict(ENV)
    env.update({"VERIF_SCRATCH": os.path.join(work, "scratch"), "VERIF_WORK": os.path.join(BUILD, "work"),
                "VERIF_SEED": str(res.seed)})
    out = {}

    # --- property oracles on the implementation (failing-input search), in parallel with the views ---
    def run_oracle():
        out["oracle"] = sh([HARNESS, "oracle", tier, orc], timeout=2400, env=env) if st["cargo"] else (1, "no harness", 0)

    th = threading.Thread(target=run_oracle)
    th.start()
    if st["cargo"]:
        out["views"] = sh([HARNESS, "views", tier, cases, impl], timeout=2400, env=env)
        if st["extract"] and out["views"][0] == 0:
            out["model"] = sh([DRIVER, "views", cases, model], timeout=2400, env=env)
            out["corrupt"] = sh([HARNESS, "corrupt", tier, cor], timeout=2400, env=env)
    th.join()

    oracle_fail = []
    if st["cargo"]:
        try:
            o = json.load(open(orc))
            res.coverage["evaluations"] += o["evaluations"]
            res.coverage["distinct_nontrivial"] += o["nontrivial"]
            res.notes["oracle"] = {k: o[k] for k in o if k != "failures"}
            oracle_fail = o["failures"]
        except (OSError, ValueError) as e:
            st["broken"].append({"obligation": "oracle-run", "detail": "%r\n%s" % (e, out.get("oracle", ("", ""))[1][-2000:])})
    for f in oracle_fail[:5]:
        res.add_violation("oracle-" + f["oracle"], {"kind": "history", "signature": f["oracle"], "driver": "c19 replay",
                                                     "replay_args": f["replay"], "seed": res.seed, "input": f["input"],
                                                     "detail": f["detail"]}, True)

    # --- correspondence 1+2: printers, loaders, migration on generated legacy files ---
    found_by_tie = False
    if st["cargo"] and st["extract"] and out.get("views", (1,))[0] == 0 and out.get("model", (1,))[0] == 0:
        d = first_difference(model, impl)
        n = count_lines(impl)
        res.coverage["traces_validated_against_impl"] += n
        res.coverage["evaluations"] += n
        with open(impl, encoding="utf-8") as fh:
            res.coverage["samples"] += [{"view_line": fh.readline().strip()[:300]} for _ in range(3)]
        if d:
            case = _case_of(cases, d[0])
            b = {"obligation": "correspondence c19 views", "line": d[0], "case": case[:3000], "model": d[1], "impl": d[2]}
            if case.startswith("M ") and not oracle_fail:
                # a VALID generated legacy store on which the real loader disagrees with the model that is
                # proved complete: the store itself is the failing input
                found_by_tie = True
                res.add_violation("migration-differs-from-model",
                                  {"kind": "input", "signature": "migration-incomplete-vs-model", "driver": "c19 replay",
                                   "replay_args": ["migrate", case.split(" ")[2]], "expected_model": d[1], "observed": d[2]}, True)
            st["broken"].append(b)
    elif st["cargo"] and st["extract"]:
        st["broken"].append({"obligation": "correspondence-run", "detail": (out.get("views", ("", ""))[1] + out.get("model", ("", ""))[1])[-3000:]})

    # --- correspondence 3: exhaustive single-byte corruptions / truncations (shared with C12) ---
    if st["cargo"] and st["extract"] and "corrupt" in out:
        try:
            c = json.load(open(cor))
            res.coverage["evaluations"] += c["evaluations"]
            res.coverage["traces_validated_against_impl"] += c["evaluations"]
            res.coverage["exhaustive_corruptions"] = {k: c[k] for k in ("evaluations", "base_files", "outcomes")}
            if c["n_mismatches"] or c["n_panics"] or c["n_hangs"] or c["n_aborts"]:
                st["broken"].append({"obligation": "correspondence c19 corrupt (legacy loaders on corrupted files)",
                                     "n_mismatches": c["n_mismatches"], "n_panics": c["n_panics"], "n_hangs": c["n_hangs"],
                                     "first": (c["mismatches"] or c["panics"] or c["hangs"] or c["aborts"])[:2]})
        except (OSError, ValueError) as e:
            st["broken"].append({"obligation": "corrupt-run", "detail": "%r\n%s" % (e, out["corrupt"][1][-2000:])})

    # --- broken obligations without a concrete failing input ---
    if st["broken"] and not oracle_fail and not found_by_tie:
        for b in st["broken"]:
            res.add_violation("obligation-" + b["obligation"].split()[0], {"kind": "obligation", **b}, False)
    elif st["broken"]:
        res.notes["broken_obligations"] = st["broken"]

    res.coverage["rule"] = ("generated user directories in 4 legacy formats (binary/text uhash.dat, SQLite v1, SQLite v2), "
                            "<= %d records, 1..11 syllables, 1-4 byte characters, deleted/negative records interspersed (binary), "
                            "lifetimes 0..2^31, 1-3 learning sessions + 2 plain restarts each, every 5th through chewing_new2; "
                            "non-trivial = a history with at least one live legacy record and at least one learned phrase "
                            "(distinct by seed); plus every single-byte overwrite x {00,01,7f,80,ff,+1,-1} and every truncation of "
                            "the small base files (exhaustive)" % (2000 if tier == "thorough" else 50))
    res.assumptions = ["model <-> code tie: printers byte-equal, hook-level loader results equal on generated and exhaustively corrupted files, "
                       "UserDictionaryLoader entries equal (sorted)",
                       "persistence of the new dictionary (flush + close + reopen) is the subject of C10/C11; the loader model keeps the map",
                       "SQLite semantics modelled relationally (INSERT OR REPLACE = upsert on the primary key, rowid = max+1)"]
    return res.finish()


def replay(path):
    from .common import Lock, stage_cargo
    with Lock():
        stage_cargo("c19")
    r = json.load(open(path))
    args = r.get("replay_args")
    if args:
        env = dict(ENV)
        if "seed" in r:
            env["VERIF_SEED"] = str(r["seed"])
        rc, out, _ = sh([HARNESS, "replay"] + [str(a) for a in args], env=env)
        print(out)
        if r.get("expected_model"):
            print("model expects: " + r["expected_model"][:2000])
        return rc
    if r.get("driver", "").startswith("c19 replay") and "input" in r:
        rc, out, _ = sh([HARNESS, "replay", r["driver"].split()[-1], r["input"]])
        print(out)
        if "expect" in r:
            ok = out.strip() == r["expect"]
            print("expected: " + r["expect"])
            return 0 if ok else 1
        return rc
    print(json.dumps(r, ensure_ascii=False, indent=1))
    return 1
