"""C18: English / full-width modes; theorems in coq/theories/Properties/C18.v"""
from . import edcommon, edoracles

PROP = "C18"
RULE = ("exhaustive sweep: 95 printable ASCII x both forms x both language modes x {empty buffer, every cursor position of a "
        "3-symbol buffer} on the Qwerty keyboard, followed by Caps Lock and Shift-Space toggles (1900 cases); plus the seeded "
        "generated editor histories with mode toggles at arbitrary points")


def run(tier):
    return edcommon.run_check(PROP, tier, edoracles.c18, RULE, edcommon.ED_ASSUMPTIONS, extra_gen=[("c18",)])


def replay(path):
    return edcommon.replay(path)
