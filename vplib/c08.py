"""C08: committed choices are learned, persist, and eventually become the default.
Theorems in coq/theories/Properties/C08.v.  Ties: (a) the editor correspondence (the user dictionary with
every frequency is compared after every op) + the learning oracle on those histories; (b) vharness `c08`:
learning scenarios on the real Editor with a file-backed user dictionary - every observed (freq, max) ->
new freq triple is evaluated by the Coq model (`estimate`, vm_compute), close + reopen, the default
conversion of the bare syllables within 64 repetitions, learning disabled."""
import json
import os

from . import edcommon, edoracles
from .common import BUILD, COQ, Lock, harness_path, sh, stage_cargo

PROP = "C08"
RULE = ("(a) seeded editor histories (as C05) - whole-buffer commits with learning on / off; (b) learning scenarios: a key of "
        "1..4 syllables, X at f0 in the system dictionary / only in the user dictionary / nowhere, 1-3 homophones up to "
        "m < 1,000,000 (incl. 999,99x), every syllable with its own words; 64 repetitions of type-choose-commit each; "
        "non-trivial = every scenario (each changes the user dictionary file)")


def model_check(cases, work):
    """every observed (freq, max, new freq) triple against the Coq model of estimate, evaluated by vm_compute"""
    uniq = sorted({tuple(c) for c in cases})
    f = os.path.join(work, "C08cases.v")
    with open(f, "w") as fh:
        fh.write("From Coq Require Import NArith List Bool.\nFrom LC Require Import Base.Lib Model.Editor.\nImport ListNotations.\nOpen Scope N_scope.\n")
        fh.write("Definition chk (c : N * N * N) : bool := let '(pf, mf, g) := c in match estimate pf pf mf with Ok u => N.eqb u g | _ => false end.\n")
        for k in range(0, len(uniq), 2000):
            fh.write("Definition cases%d : list (N * N * N) := [%s].\n" % (k // 2000, "; ".join("(%d, %d, %d)" % c for c in uniq[k:k + 2000])))
        n = (len(uniq) + 1999) // 2000
        fh.write("Definition bad : list (N * N * N) := %s.\n" % (" ++ ".join("filter (fun c => negb (chk c)) cases%d" % k for k in range(n)) or "[]"))
        fh.write('Goal True. idtac "@@BAD". Abort.\nEval vm_compute in bad.\n')
    rc, out, dt = sh(["coqc", "-Q", os.path.join(COQ, "theories"), "LC", "-noglob", f, "-o", f + "o"], cwd=work, timeout=900)
    if rc != 0:
        return None, out[-2000:], len(uniq)
    tail = out.split("@@BAD", 1)[-1]
    ok = "= []" in tail.replace("\n", " ")
    return ok, " ".join(tail.split())[:1500], len(uniq)


def scenarios(res, st, tier, work):
    fails = []
    with Lock():
        ok, out, dt = stage_cargo("c08", debug=False)
    if not ok:
        st["broken"].append({"obligation": "harness-build c08", "detail": out[-4000:]})
        return fails
    os.makedirs(work, exist_ok=True)
    js = os.path.join(work, "c08.json")
    rc, out, dt = sh([harness_path("c08"), "run", tier, js], timeout=3000)
    if rc != 0 or not os.path.exists(js):
        st["broken"].append({"obligation": "c08 scenarios", "detail": out[-3000:]})
        return fails
    d = json.load(open(js))
    res.coverage["evaluations"] += d["repetitions"]
    res.coverage["distinct_nontrivial"] += d["scenarios"]
    res.coverage["traces_validated_against_impl"] += d["scenarios"]
    res.notes["scenarios"] = {k: d[k] for k in ("scenarios", "repetitions", "reopen_checks", "never_default", "by_len", "default_after")}
    res.notes["scenarios"]["max_repetitions_until_default"] = max([int(k) for k in d["default_after"]] or [0])
    seen = set()
    for f in d["failures"]:
        if f["signature"] in seen:
            continue
        seen.add(f["signature"])
        fails.append({"signature": "scenario-" + f["signature"], "detail": f["detail"], "case_lines": [], "scenario": f["scenario"]})
    ok, detail, n = model_check(d["cases"], work)
    res.notes["estimate_triples_evaluated_by_the_model"] = n
    if ok is None:
        st["broken"].append({"obligation": "coqc C08cases.v", "detail": detail})
    elif not ok:
        fails.append({"signature": "model-estimate-differs", "detail": "triples (freq, max, new freq) the Coq model of estimate does not reproduce: " + detail, "case_lines": []})
    return fails


def run(tier):
    return edcommon.run_check(PROP, tier, edoracles.c08, RULE, edcommon.ED_ASSUMPTIONS + [
        "which 0->len path the engine ranks first is an oracle of the model: 'X becomes the default conversion' is decided by the scenario runs",
        "file system: the user dictionary is a real file in a temporary directory; durability across crashes is C10's"],
        extra=scenarios)


def replay(path):
    r = json.load(open(path))
    if r.get("case_lines"):
        return edcommon.replay(path)
    print(json.dumps(r, ensure_ascii=False, indent=1)[:4000])
    return 1
