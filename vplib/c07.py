"""C07: candidate lists; theorems in coq/theories/Properties/C07.v"""
import os

from . import capicommon, edcommon, edoracles

PROP = "C07"
RULE = ("seeded generated editor histories dense in candidate-list operations: page sizes 1..10, forward/rearward choice, "
        "Down/Space cycling, j/k, list first/last/next/prev, Left/Right/PageUp/PageDown paging, choices by selection key and by "
        "index (in and out of range), phrase, symbol-table and special-symbol lists; candidates compared with an independent "
        "dictionary lookup; non-trivial = history visiting >= 2 states and changing the buffer >= 2 times")


def capi_part(res, st, tier, work):
    """the paging clauses on every observation of the C-API campaign (all 17 keyboard layouts incl. the ones
    with alternate syllables, which the editor correspondence - Standard layout - does not reach)"""
    fails = []
    if not capicommon.build(st):
        return fails
    summary, corpus = capicommon.run(tier, os.path.join(work, "capi"))
    if summary is None:
        st["broken"].append({"obligation": "capi harness run", "detail": corpus})
        return fails
    res.coverage["evaluations"] += summary.get("ops", 0)
    res.notes["capi"] = {k: summary.get(k) for k in ("cases", "ops", "variants", "crashes", "hangs", "wall_s")}
    for f in summary.get("failures", []):
        if f["signature"] == "paging":
            fails.append({"signature": "capi-paging", "detail": f["detail"], "case_lines": [], "ops": f["ops"]})
            break
    return fails


def run(tier):
    return edcommon.run_check(PROP, tier, edoracles.c07, RULE + "; plus total / page count / current page / enumeration consistency on "
                              "every observation of the C-API campaign (all keyboard layouts)", edcommon.ED_ASSUMPTIONS, extra=capi_part)


def replay(path):
    import json
    r = json.load(open(path))
    if r.get("ops"):
        return capicommon.replay(path)
    return edcommon.replay(path)
