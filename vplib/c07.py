"""C07: candidate lists; theorems in coq/theories/Properties/C07.v"""
from . import edcommon, edoracles

PROP = "C07"
RULE = ("seeded generated editor histories dense in candidate-list operations: page sizes 1..10, forward/rearward choice, "
        "Down/Space cycling, j/k, list first/last/next/prev, Left/Right/PageUp/PageDown paging, choices by selection key and by "
        "index (in and out of range), phrase, symbol-table and special-symbol lists; candidates compared with an independent "
        "dictionary lookup; non-trivial = history visiting >= 2 states and changing the buffer >= 2 times")


def run(tier):
    return edcommon.run_check(PROP, tier, edoracles.c07, RULE, edcommon.ED_ASSUMPTIONS)


def replay(path):
    return edcommon.replay(path)
