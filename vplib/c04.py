"""C04: selections and breaks honoured; theorems in coq/theories/Properties/C04.v"""
from . import edcommon, edoracles

PROP = "C04"
RULE = ("seeded generated editor histories dense in candidate choices, typing/deleting at arbitrary cursor positions, Tab "
        "(break / glue / next alternative), auto-commit, forward and rearward choice, three engines; composition snapshot "
        "(symbols, gaps, selections) through the guarded hook after every op; non-trivial = history visiting >= 2 states and "
        "changing the buffer >= 2 times")


def run(tier):
    return edcommon.run_check(PROP, tier, edoracles.c04, RULE, edcommon.ED_ASSUMPTIONS)


def replay(path):
    return edcommon.replay(path)
