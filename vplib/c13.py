"""C13: syllable code / components / spelling round trips (proof + exhaustive correspondence)."""
import json
import os
import threading

from .common import (BUILD, Result, count_lines, driver_path, first_difference, harness_path, sh, standard_build)

DRIVER = driver_path("c13")
HARNESS = harness_path("c13")

PROP = "C13"


def run(tier):
    res = Result(PROP, tier, "proof")
    st = standard_build(res, PROP, group="c13", harness_bin="c13",
                        model_deps=["theories/Model/SyllableViews.vo", "theories/Model/SyllableSearch.vo"],
                        tablegen_groups=("bopomofo",))
    work = os.path.join(BUILD, "work", "%s-%s" % (PROP, tier))
    os.makedirs(work, exist_ok=True)
    impl, model, orc = (os.path.join(work, x) for x in ("views.impl", "views.model", "oracle.json"))
    for f in (impl, model, orc):
        if os.path.exists(f):
            os.remove(f)
    out = {}

    def run_model():
        out["model"] = sh([DRIVER, "views", tier, model], timeout=3000) if st["extract"] else (1, "no driver", 0)

    th = threading.Thread(target=run_model)
    th.start()
    if st["cargo"]:
        out["impl"] = sh([HARNESS, "views", tier, impl], timeout=3000)
        out["oracle"] = sh([HARNESS, "oracle", tier, orc], timeout=3000)
    th.join()

    # --- property oracles on the implementation (failing-input search) ---
    oracle_fail = []
    if st["cargo"]:
        try:
            o = json.load(open(orc))
            res.coverage["evaluations"] += o["evaluations"]
            res.coverage["distinct_nontrivial"] += o["compositions"] + o["accepted_strings"]
            res.notes["oracle"] = {k: o[k] for k in o if k != "failures"}
            oracle_fail = o["failures"]
        except (OSError, ValueError) as e:
            st["broken"].append({"obligation": "oracle-run", "detail": "%r\n%s" % (e, out.get("oracle", ("", ""))[1][-2000:])})
    for f in oracle_fail[:5]:
        res.add_violation("oracle-" + f["oracle"], {"kind": "input", "signature": f["oracle"], "driver": "c13 replay",
                                                     "input": f["input"], "detail": f["detail"]}, True)

    # --- correspondence: model views vs implementation views (exhaustive) ---
    if st["cargo"] and st["extract"] and out["impl"][0] == 0 and out["model"][0] == 0:
        d = first_difference(model, impl)
        n = count_lines(impl)
        res.coverage["traces_validated_against_impl"] = n
        res.coverage["evaluations"] += n
        res.coverage["exhaustive"] = True
        with open(impl, encoding="utf-8") as fh:
            lines = [fh.readline().strip()[:300] for _ in range(3)]
        res.coverage["samples"] += [{"view_line": l} for l in lines]
        if d:
            st["broken"].append({"obligation": "correspondence c13 views", "line": d[0], "model": d[1], "impl": d[2]})
    elif st["cargo"] and st["extract"]:
        st["broken"].append({"obligation": "correspondence-run", "detail": (out.get("impl", ("", ""))[1] + out.get("model", ("", ""))[1])[-3000:]})

    # --- broken obligations: search model side for a witness, replay on the implementation ---
    if st["broken"] and not oracle_fail:
        found = False
        if st["extract"] and st["cargo"]:
            rc, sout, _ = sh([DRIVER, "search"], timeout=600)
            for line in sout.splitlines():
                if line.startswith("WITNESS parse-not-canonical"):
                    chars = ",".join(line.split()[2:])
                    rc2, rout, _ = sh([HARNESS, "replay", chars], timeout=60)
                    if rc2 == 1:
                        found = True
                        res.add_violation("model-witness", {"kind": "input", "signature": "parse-not-canonical", "driver": "c13 replay",
                                                           "input": chars, "detail": rout.strip(), "broken": st["broken"]}, True)
        if not found:
            for b in st["broken"]:
                res.add_violation("obligation-" + b["obligation"].split()[0], {"kind": "obligation", **b}, False)
    elif st["broken"]:
        res.notes["broken_obligations"] = st["broken"]

    res.coverage["rule"] = ("exhaustive: all 65536 codes x (try_from, 4 accessors, is_empty, to_string, 4 remove_*, pop, 42 updates); all strings over "
                            "42 symbols + 1 foreign char up to length %d; prefix relation over all composable s x %s composable prefixes; "
                            "non-trivial = a component tuple or an accepted string (each distinct by construction)"
                            % (5 if tier == "thorough" else 4, "all" if tier == "thorough" else "every 12th"))
    res.assumptions = ["model <-> code tie: byte-equal view dumps over the full finite domain (no sampling)",
                       "Bopomofo enum discriminants are read by tablegen and asserted by the harness"]
    return res.finish()


def replay(path):
    r = json.load(open(path))
    if r.get("kind") == "input" and r.get("signature") in ("parse-not-canonical",):
        rc, out, _ = sh([HARNESS, "replay", r["input"]])
        print(out)
        return rc
    print(json.dumps(r, ensure_ascii=False, indent=1))
    return 1
