"""C14: phonetic layouts sound and complete for word.src readings; keyboard ASCII identity
(proof + exhaustive correspondence of the transition tables + oracles on the implementation)."""
import collections
import glob
import json
import os
import threading

from .common import (BUILD, GEN, REPLAYS, Result, count_lines, driver_path, first_difference, harness_path, sh, standard_build)
from .c14_cases import gen_cases

DRIVER = driver_path("c14")
HARNESS = harness_path("c14")
PROP = "C14"
LAYOUTS = ["standard", "hsu", "ibm", "ginyieh", "et", "et26", "dc26", "hanyu", "thl", "mps2"]
TABLEGEN_GROUPS = ["bopomofo", "keyboard", "layout", "readings"]


def _paths(tier):
    work = os.path.join(BUILD, "work", "%s-%s" % (PROP, tier))
    os.makedirs(work, exist_ok=True)
    names = ("cases.txt", "views.impl", "views.model", "oracle.json", "witness.txt", "witness.json")
    return work, {n: os.path.join(work, n) for n in names}


def _behaviour_histogram(path):
    """distribution of the Pinyin cases by the behaviour of their last operation (measured on the implementation dump)"""
    names = {"0": "ignore", "1": "absorb", "2": "commit", "3": "key_error", "4": "error", "5": "no_word", "P": "panic"}
    hist = collections.Counter()
    kinds = collections.Counter()
    with open(path, encoding="utf-8") as f:
        for line in f:
            c = line[0]
            kinds[c] += 1
            if c == "P":
                last = line.rsplit(" ", 1)[-1].strip()
                hist[names.get(last.split(":")[0], "other")] += 1
    return dict(hist), dict(kinds)


def run(tier):
    res = Result(PROP, tier, "proof")
    # replays of earlier runs of this tier are stale
    for f in glob.glob(os.path.join(REPLAYS, PROP, tier + "-*.json")):
        os.remove(f)
    st = standard_build(res, PROP, group="c14", harness_bin="c14",
                        model_deps=["theories/Model/LayoutSearch.vo"], tablegen_groups=TABLEGEN_GROUPS)
    work, p = _paths(tier)
    for f in p.values():
        if os.path.exists(f):
            os.remove(f)
    side = os.path.join(GEN, "tablegen_side.json")
    try:
        dist = gen_cases(tier, res.seed, side, p["cases.txt"])
        res.notes["pinyin_cases"] = dist
    except (OSError, KeyError, ValueError) as e:
        st["broken"].append({"obligation": "pinyin-case-generation", "detail": repr(e)})
        open(p["cases.txt"], "w").close()
    out = {}

    def run_model():
        if st["extract"]:
            out["model"] = sh([DRIVER, "views", tier, p["cases.txt"], p["views.model"]], timeout=3000)
            out["witness_model"] = sh([DRIVER, "witness", p["witness.txt"]], timeout=3000)
        else:
            out["model"] = out["witness_model"] = (1, "no driver", 0)

    th = threading.Thread(target=run_model)
    th.start()
    if st["cargo"]:
        out["impl"] = sh([HARNESS, "views", tier, p["cases.txt"], p["views.impl"]], timeout=3000)
        out["oracle"] = sh([HARNESS, "oracle", tier, p["cases.txt"], p["oracle.json"]], timeout=3000)
    th.join()

    # --- property oracles on the implementation (failing-input search) ---
    found = False
    if st["cargo"]:
        try:
            o = json.load(open(p["oracle.json"]))
            res.coverage["evaluations"] += o["evaluations"]
            res.notes["oracle"] = {k: o[k] for k in o if k != "failures"}
            res.coverage["distinct_nontrivial"] += sum(l.get("raw_states", 0) + l.get("committable", 0) for l in o["layouts"])
            for f in o["failures"][:40]:
                found = True
                res.add_violation("oracle-" + "-".join(f["signature"].split(":")[:2]), {
                    "kind": "input", "signature": f["signature"], "oracle": f["oracle"], "driver": "c14 replay",
                    "input": f["input"], "detail": f["detail"]}, True)
        except (OSError, ValueError, KeyError) as e:
            st["broken"].append({"obligation": "oracle-run", "detail": "%r\n%s" % (e, out.get("oracle", ("", ""))[1][-2000:])})

    # --- the model's completeness witnesses replayed on the implementation ---
    if st["cargo"] and st["extract"] and out["witness_model"][0] == 0:
        rc, wout, _ = sh([HARNESS, "witness", p["witness.txt"], p["witness.json"]], timeout=1200)
        try:
            w = json.load(open(p["witness.json"]))
            res.notes["witnesses"] = {k: w[k] for k in w if k != "failures"}
            res.coverage["traces_validated_against_impl"] += w["validated"]
            res.coverage["evaluations"] += w["witnesses"]
            res.coverage["distinct_nontrivial"] += w["validated"]
            for f in w["failures"][:5]:
                # the model says this text enters the reading, the implementation disagrees: a
                # correspondence failure with a concrete text; whether the reading is enterable at all
                # is decided by the implementation-side search above
                st["broken"].append({"obligation": "correspondence c14 witness", "input": f["input"], "detail": f["detail"]})
        except (OSError, ValueError, KeyError) as e:
            st["broken"].append({"obligation": "witness-run", "detail": "%r\n%s" % (e, wout[-2000:])})
    elif st["cargo"] and st["extract"]:
        st["broken"].append({"obligation": "witness-model-run", "detail": out["witness_model"][1][-2000:]})

    # --- correspondence: model views vs implementation views (exhaustive for keyboards and the 7 syllable layouts) ---
    if st["cargo"] and st["extract"] and out["impl"][0] == 0 and out["model"][0] == 0:
        d = first_difference(p["views.model"], p["views.impl"])
        n = count_lines(p["views.impl"])
        res.coverage["traces_validated_against_impl"] += n
        res.coverage["evaluations"] += n
        hist, kinds = _behaviour_histogram(p["views.impl"])
        res.notes["view_lines"] = {"map_ascii": kinds.get("A", 0), "map_ascii_numlock": kinds.get("N", 0),
                                   "map_with_mod": kinds.get("M", 0), "layout_states (x127 operations each)": kinds.get("S", 0),
                                   "alt_syllables": kinds.get("L", 0), "pinyin_cases": kinds.get("P", 0)}
        res.notes["pinyin_last_behaviour_histogram"] = hist
        # the schema wants one boolean: Pinyin's tie is sampled beyond 3-letter strings, so the whole is not exhaustive
        res.coverage["exhaustive"] = False
        res.notes["exhaustive_parts"] = {"keyboards": True, "syllable_layouts": True, "pinyin_strings_upto_3_and_table_product": True,
                                         "pinyin_longer_strings": False}
        with open(p["views.impl"], encoding="utf-8") as fh:
            for line in fh:
                if line.startswith("S 1 ") or line.startswith("P 0 20000 "):
                    res.coverage["samples"].append({"view_line": line.strip()[:300]})
                    if len(res.coverage["samples"]) >= 4:
                        break
        if d:
            st["broken"].append({"obligation": "correspondence c14 views", "line": d[0], "model": d[1][:600], "impl": d[2][:600]})
    elif st["cargo"] and st["extract"]:
        st["broken"].append({"obligation": "correspondence-run",
                             "detail": (out.get("impl", ("", ""))[1] + out.get("model", ("", ""))[1])[-3000:]})

    # --- broken obligations: if the oracles found nothing, ask the model's counter-example finder and
    #     replay what it finds on the implementation ---
    if st["broken"] and not found:
        if st["extract"] and st["cargo"]:
            rc, sout, _ = sh([DRIVER, "search"], timeout=900)
            for line in sout.splitlines():
                t = line.split()
                if len(t) >= 3 and t[0] == "U" and int(t[1]) < 7:
                    rc2, rout, _ = sh([HARNESS, "replay", "reach", t[1]] + t[2:], timeout=300)
                    bad = [l for l in rout.splitlines() if "UNREACHABLE" in l]
                    if rc2 == 1 and bad:
                        # already known (and reported by the oracle path as KNOWN-FINDING) unless the oracle failed to run
                        res.add_violation("model-witness-unreachable-%s" % LAYOUTS[int(t[1])], {
                            "kind": "input", "signature": "model-unreachable:%s" % LAYOUTS[int(t[1])], "driver": "c14 replay",
                            "input": "reach %s %s" % (t[1], " ".join(t[2:])), "detail": "\n".join(bad[:20]), "broken": st["broken"]}, True)
                        found = True
        if not found:
            for b in st["broken"]:
                res.add_violation("obligation-" + b["obligation"].replace(" ", "-"), {"kind": "obligation", **b}, False)
    elif st["broken"]:
        res.notes["broken_obligations"] = st["broken"]

    res.coverage["rule"] = (
        "exhaustive: map_ascii/map_ascii_numlock over 256 bytes x 8 keyboards, map_with_mod over 63 key codes x 16 modifier masks x 8 "
        "keyboards; for each of the 7 syllable-state layouts every state reachable on the implementation (BFS with clone) x "
        "(63 key classes x key_press and fuzzy_key_press, remove_last), alt_syllables over all composable codes; Pinyin: all strings "
        "<= 3 letters + the initial x final table product + special keys, each x 6 tone keys x 3 variants, + seeded random strings "
        "<= 12 and operation sequences (sampled); every completeness witness of the model (8 keyboards x 10 layouts x readings) "
        "replayed on the implementation. non-trivial = a distinct reachable layout state (each exercised with all 127 operations), "
        "a distinct committable syllable, or a validated (keyboard, layout, reading) witness")
    res.assumptions = [
        "model <-> code tie: byte-equal dumps of the full transition tables of the 7 syllable-state layouts and of the keyboard maps; "
        "Pinyin tied on all strings <= 3, the table product and sampled longer strings / operation sequences",
        "a layout object's state is its syllable (plus key string and alt syllable for Pinyin), as observed through read()/key_seq()/alt()",
        "KeyCode / KeyIndex discriminants are read by tablegen and asserted by the harness",
        "the dictionary guard of EnteringSyllable::next is taken from reading the source (C14_buffer_never_empty is stated over an abstract dict_has)",
    ]
    return res.finish()


def replay(path):
    r = json.load(open(path))
    sig = r.get("signature", "")
    if r.get("kind") == "input" and sig.startswith("unreachable:"):
        toks = r["input"].split()
        if int(toks[0]) < 7:
            rc, out, _ = sh([HARNESS, "replay", "reach"] + toks)
            print(out)
            return rc
        # Pinyin: re-run the case-file search of the oracle
        work, p = _paths("replay")
        gen_cases("quick", int(os.environ.get("VERIF_SEED", "1") or 1), os.path.join(GEN, "tablegen_side.json"), p["cases.txt"])
        sh([HARNESS, "oracle", "quick", p["cases.txt"], p["oracle.json"]])
        o = json.load(open(p["oracle.json"]))
        hit = [f for f in o["failures"] if f["signature"].split(":")[:2] == sig.split(":")[:2]]
        for f in hit:
            print(f["detail"])
        return 1 if hit else 0
    if r.get("kind") == "input" and sig.startswith("model-unreachable:"):
        rc, out, _ = sh([HARNESS, "replay"] + r["input"].split())
        print(out)
        return rc
    if r.get("kind") == "input" and sig.split(":")[0] in ("handed", "panic", "state", "fields"):
        # input: "<layout> keys k,k,.." (key classes) or "<layout> bytes b,b,.." (Pinyin, typed on Qwerty)
        toks = r["input"].split()
        if len(toks) >= 3 and toks[0] in LAYOUTS:
            l = str(LAYOUTS.index(toks[0]))
            vals = [x for x in toks[2].split(",") if x]
            cmd = ["classes", l] + vals if toks[1] == "keys" else ["keys", "0", l] + vals
            rc, out, _ = sh([HARNESS, "replay"] + cmd)
            print(out)
            return rc
    if r.get("kind") == "input" and sig.startswith("ascii-identity:"):
        rc, out, _ = sh([HARNESS, "replay", "ascii"] + r["input"].split())
        print(out)
        return rc
    print(json.dumps(r, ensure_ascii=False, indent=1))
    return 1
