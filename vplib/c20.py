"""C20: the dictionary compiler (chewing-cli init-database) and dumper (chewing-cli dump) are inverse
on well-formed sources; malformed lines are reported with their line number.

Proof: Properties/C20.v over Model/Cli.v (parse_line, the two dump printers, run).
Tie: the REAL chewing-cli binary built from /repo's working tree, on generated sources and every
single-line corruption by class x both back ends x --csv x --keep-word-freq x --skip-invalid:
exit status, reported line numbers, output file, sorted dump, and the dump compiled again, against the
extracted model.  Oracles (implementation alone): dump(compile src) = the generator's records,
recompile equivalence, surely-malformed lines reported / no output / --skip-invalid."""
import json
import os

from .common import (BUILD, CARGO_TARGET, ENV, REPO, Lock, Result, count_lines, driver_path, first_difference,
                     harness_path, sh, standard_build)

PROP = "C20"
DRIVER = driver_path("c20")
HARNESS = harness_path("c20")
CLI = os.path.join(CARGO_TARGET, "release", "chewing-cli")


def build_cli():
    """the tool itself, from the current working tree"""
    with Lock():
        rc, out, dt = sh(["cargo", "build", "--offline", "--release", "-j", "4", "--manifest-path", os.path.join(REPO, "Cargo.toml"),
                          "-p", "chewing-cli"], timeout=2400, cwd=REPO)
    return rc == 0 and os.path.exists(CLI), out, dt


def _line(path, n):
    with open(path, encoding="utf-8") as fh:
        for i, l in enumerate(fh, 1):
            if i == n:
                return l.rstrip("\n")
    return ""


def run(tier):
    res = Result(PROP, tier, "proof")
    st = standard_build(res, PROP, group="c20", harness_bin="c20", model_deps=["theories/Model/Cli.vo"])
    ok, out_cli, dt = build_cli()
    res.notes["cli_build_s"] = round(dt, 1)
    if not ok:
        st["broken"].append({"obligation": "chewing-cli-build", "detail": out_cli[-3000:]})
    work = os.path.join(BUILD, "work", "%s-%s" % (PROP, tier))
    os.makedirs(work, exist_ok=True)
    cases, impl, model, orc = (os.path.join(work, x) for x in ("cases.txt", "views.impl", "views.model", "oracle.json"))
    for f in (cases, impl, model, orc):
        if os.path.exists(f):
            os.remove(f)
    env = dict(ENV)
    env.update({"VERIF_SCRATCH": os.path.join(work, "scratch"), "VERIF_CLI": CLI, "VERIF_SEED": str(res.seed)})
    out = {}
    if st["cargo"] and ok:
        out["run"] = sh([HARNESS, "run", tier, cases, impl, orc], timeout=2400, env=env)
        if st["extract"] and os.path.exists(cases):
            out["model"] = sh([DRIVER, "views", cases, model], timeout=2400, env=env)

    # --- property oracles on the implementation ---
    oracle_fail = []
    if "run" in out:
        try:
            o = json.load(open(orc))
            res.coverage["evaluations"] += o["evaluations"]
            res.coverage["distinct_nontrivial"] += o["nontrivial"]
            res.notes["oracle"] = {k: o[k] for k in o if k != "failures"}
            oracle_fail = o["failures"]
        except (OSError, ValueError) as e:
            st["broken"].append({"obligation": "oracle-run", "detail": "%r\n%s" % (e, out["run"][1][-2000:])})
    for i, f in enumerate(oracle_fail[:5]):
        cf = os.path.join(work, "fail-%d.case" % i)
        with open(cf, "w", encoding="utf-8") as fh:
            fh.write(f["case"] + "\n")
        res.add_violation("oracle-" + f["oracle"], {"kind": "input", "signature": f["oracle"], "driver": "c20 replay",
                                                     "case_file": cf, "case": f["case"][:4000], "detail": f["detail"]}, True)

    # --- correspondence: model vs the real tool ---
    if "model" in out and out["run"][0] in (0, 1) and out["model"][0] == 0:
        d = first_difference(model, impl)
        n = count_lines(impl)
        res.coverage["traces_validated_against_impl"] = n
        with open(impl, encoding="utf-8") as fh:
            res.coverage["samples"] += [{"view_line": fh.readline().strip()[:300]} for _ in range(3)]
        if d:
            st["broken"].append({"obligation": "correspondence c20 (chewing-cli vs model)", "line": d[0],
                                 "case": _line(cases, d[0])[:3000], "model": d[1], "impl": d[2]})
    elif st["cargo"] and st["extract"] and ok:
        st["broken"].append({"obligation": "correspondence-run", "detail": (out.get("run", ("", ""))[1] + out.get("model", ("", ""))[1])[-3000:]})

    if st["broken"] and not oracle_fail:
        for b in st["broken"]:
            res.add_violation("obligation-" + b["obligation"].split()[0], {"kind": "obligation", **b}, False)
    elif st["broken"]:
        res.notes["broken_obligations"] = st["broken"]

    res.coverage["rule"] = ("generated sources (<= %d lines; space- and comma-separated styles, quoted fields, trailing comments, "
                            "duplicate keys, single-character phrases, freq 0..2^32-1, 1..11 syllables) and every single-line "
                            "corruption of small bases by 25 classes, each through the real chewing-cli x {trie,sqlite} x --csv x "
                            "--keep-word-freq x --skip-invalid, then dump, compile the dump, dump again; non-trivial = a run of a "
                            "well-formed source in its own input mode or of a surely-malformed corruption" % (5000 if tier == "thorough" else 100))
    res.assumptions = ["model <-> code tie: exit status, reported line numbers, output file existence, sorted dump lines and the re-compiled dump "
                       "equal to the extracted model for every run (the tool is the binary built from the working tree)",
                       "the dictionary builders are modelled by their map-level effect (insert or overwrite on (syllables, phrase)); "
                       "file formats are C11 (trie) / C09 (SQLite)",
                       "lines are sequences of Unicode scalar values (invalid UTF-8 input is outside parse_line's domain)"]
    return res.finish()


def replay(path):
    from .common import stage_cargo
    with Lock():
        stage_cargo("c20")
    build_cli()
    r = json.load(open(path))
    cf = r.get("case_file")
    if r.get("case"):
        cf = cf or os.path.join(BUILD, "work", "C20-replay.case")
        if not os.path.exists(cf):
            with open(cf, "w", encoding="utf-8") as fh:
                fh.write(r["case"] + "\n")
    if cf:
        env = dict(ENV)
        env.update({"VERIF_CLI": CLI})
        rc, out, _ = sh([HARNESS, "replay", cf], env=env)
        print(out[:6000])
        print("expected (oracle %s): %s" % (r.get("signature"), r.get("detail")))
        return 1
    print(json.dumps(r, ensure_ascii=False, indent=1))
    return 1
