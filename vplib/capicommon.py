"""C-API histories in supervised worker processes (vharness `capi`): shared by C01 (crash / hang)
and C17 (paired executions: with/without queries, alone/interleaved/threaded, reset/fresh)."""
import json
import os

from .common import BUILD, ROOT, harness_path, sh, stage_cargo, Lock

HARNESS = harness_path("capi")
CORPUS = os.path.join(ROOT, "corpus", "capi")


def build(st):
    with Lock():
        ok, out, dt = stage_cargo("capi", debug=False)
    if not ok:
        st["broken"].append({"obligation": "harness-build capi", "detail": out[-4000:]})
    return ok


def run(tier, work):
    """-> (summary dict incl. failures, corpus results) or (None, error text)"""
    os.makedirs(work, exist_ok=True)
    out = os.path.join(work, "capi.json")
    rc, txt, dt = sh([HARNESS, "gen", tier, out], timeout=3000)
    if rc != 0 or not os.path.exists(out):
        return None, txt[-3000:]
    summary = json.load(open(out))
    summary["wall_s"] = round(dt, 1)
    # corpus replays (pinned-tree failures): must not fail any more
    corpus = []
    if os.path.isdir(CORPUS):
        for name in sorted(os.listdir(CORPUS)):
            if name.endswith(".json"):
                rc, txt, _ = sh([HARNESS, "replay", os.path.join(CORPUS, name)], timeout=300)
                corpus.append((name, rc, txt[-600:]))
    return summary, corpus


def replay(path):
    r = json.load(open(path))
    tmp = os.path.join(BUILD, "work", "capi-replay.json")
    os.makedirs(os.path.dirname(tmp), exist_ok=True)
    json.dump({"ops": r.get("ops", [])}, open(tmp, "w"), ensure_ascii=False)
    rc, txt, _ = sh([HARNESS, "replay", tmp], timeout=600)
    print(txt[-6000:])
    print("recorded:", r.get("signature"), r.get("detail", "")[:2000])
    return 1
