"""C03: conversion tiles the buffer; theorems in coq/theories/Properties/C03.v"""
import os

from . import edcommon, edoracles
from .common import sh

PROP = "C03"
RULE = ("(a) ConversionEngine::convert called directly on generated compositions (public Composition API: symbols, breaks, glue, "
        "dictionary selections) for the three engines, every alternative (<=100) validated by the model's checker and the tiling "
        "predicate; (b) every conversion logged during the generated editor histories validated the same way; "
        "non-trivial = composition with >= 1 selection (a) / history visiting >= 2 states (b)")


def conv_cases(res, st, tier, work):
    out = []
    if not (st.get("cargo") and st.get("extract")):
        return out
    ti = os.path.join(work, "conv.impl")
    tm = os.path.join(work, "conv.model")
    rc, o, _ = sh([edcommon.HARNESS, "conv", tier, ti], timeout=3000)
    if rc != 0:
        st["broken"].append({"obligation": "conv-cases-run", "detail": o[-2000:]})
        return out
    rc, o2, _ = sh([edcommon.DRIVER, "conv", ti, tm], timeout=3000)
    if rc != 0:
        st["broken"].append({"obligation": "conv-cases-model", "detail": o2[-2000:]})
        return out
    import json
    try:
        stats = json.loads(o.strip().splitlines()[-1])
        res.coverage["evaluations"] += stats["ops"]
        res.coverage["distinct_nontrivial"] += stats["nontrivial_cases"]
        res.coverage["traces_validated_against_impl"] += stats["cases"]
        res.notes["conv_cases"] = stats
    except (ValueError, KeyError, IndexError):
        pass
    # walk both files in step: the k-th ALT of a case corresponds to the k-th V line
    cases = edcommon.split_cases(ti)
    mcases = dict(edcommon.split_cases(tm))
    for n, lines in cases:
        alts = [l for l in lines if l.startswith("ALT ")]
        vs = [l for l in mcases.get(n, []) if l.startswith("V ")]
        for k, a in enumerate(alts):
            v = vs[k] if k < len(vs) else "V ? missing"
            inp = [l for l in lines if not l.startswith("ALT ")] + [a]
            if " PANIC" in a:
                out.append({"signature": "convert-panics", "case_lines": inp, "detail": a[:300]})
            elif "tiling=1" not in v:
                out.append({"signature": "direct-conversion-not-a-tiling", "case_lines": inp, "detail": a[:300]})
            elif "valid=1" not in v:
                st["broken"].append({"obligation": "correspondence: returned segmentation is not a path of the model's graph",
                                     "case_lines": inp, "detail": a[:300]})
                return out
    return out


def run(tier):
    return edcommon.run_check(PROP, tier, edoracles.c03, RULE, edcommon.ED_ASSUMPTIONS, extra=conv_cases)


def replay(path):
    return edcommon.replay(path)
