"""C03: conversion tiles the buffer; theorems in coq/theories/Properties/C03.v"""
import os

from . import edcommon, edoracles
from .common import sh

PROP = "C03"
RULE = ("(a) ConversionEngine::convert called directly on generated compositions (public Composition API: symbols, breaks, glue, "
        "dictionary selections) for the three engines, every alternative (<=100) validated by the model's checker and the tiling "
        "predicate; (b) every conversion logged during the generated editor histories validated the same way; "
        "non-trivial = composition with >= 1 selection (a) / history visiting >= 2 states (b)")


def conv_cases(res, st, tier, work):
    out = []
    if not (st.get("cargo") and st.get("extract")):
        return out
    ti = os.path.join(work, "conv.impl")
    tm = os.path.join(work, "conv.model")
    rc, o, _ = sh([edcommon.HARNESS, "conv", tier, ti], timeout=3000)
    if rc != 0:
        st["broken"].append({"obligation": "conv-cases-run", "detail": o[-2000:]})
        return out
    rc, o2, _ = sh([edcommon.DRIVER, "conv", ti, tm], timeout=3000)
    if rc != 0:
        st["broken"].append({"obligation": "conv-cases-model", "detail": o2[-2000:]})
        return out
    import json
    try:
        stats = json.loads(o.strip().splitlines()[-1])
        res.coverage["evaluations"] += stats["ops"]
        res.coverage["distinct_nontrivial"] += stats["nontrivial_cases"]
        res.coverage["traces_validated_against_impl"] += stats["cases"]
        res.notes["conv_cases"] = stats
    except (ValueError, KeyError, IndexError):
        pass
    # walk both files in step: the k-th ALT of a case corresponds to the k-th V line
    cases = edcommon.split_cases(ti)
    mcases = dict(edcommon.split_cases(tm))
    exact = inexact = multi = 0
    for n, lines in cases:
        alts = [l for l in lines if l.startswith("ALT ")]
        vs = [l for l in mcases.get(n, []) if l.startswith("V ")]
        # the engine model (Model/Engine.v) against the implementation: every alternative, in rank order
        for k in "012":
            mx = [l for l in mcases.get(n, []) if l.startswith("MX %s " % k)]
            ia = [l[6:] for l in alts if l.startswith("ALT %s " % k)]
            ma = [l[7:] for l in mcases.get(n, []) if l.startswith("MALT %s " % k)]
            if not mx or any(" PANIC" in a for a in alts if a.startswith("ALT %s " % k)):
                continue
            inp = [l for l in lines if not l.startswith("ALT ")]
            if "exact=1" in mx[0]:
                exact += 1
                multi += 1 if len(ia) > 1 else 0
                if ia != ma:
                    st["broken"].append({"obligation": "correspondence: the engine model (find_k_paths / trim_paths / ranking) and "
                                         "the implementation return different alternatives for engine %s" % k,
                                         "case_lines": inp, "detail": "impl %s | model %s" % (ia[:4], ma[:4])})
                    return out
            elif "exact=0" in mx[0]:
                inexact += 1
            else:
                st["broken"].append({"obligation": "correspondence: the engine model does not return normally (%s) where the "
                                     "implementation does" % mx[0], "case_lines": inp, "detail": mx[0]})
                return out
        res.notes["engine_model_exact_runs"] = exact
        res.notes["engine_model_inexact_runs"] = inexact
        res.notes["engine_model_runs_with_alternatives"] = multi
        for k, a in enumerate(alts):
            v = vs[k] if k < len(vs) else "V ? missing"
            inp = [l for l in lines if not l.startswith("ALT ")] + [a]
            if " PANIC" in a:
                out.append({"signature": "convert-panics", "case_lines": inp, "detail": a[:300]})
            elif "tiling=1" not in v:
                out.append({"signature": "direct-conversion-not-a-tiling", "case_lines": inp, "detail": a[:300]})
            elif "valid=1" not in v:
                st["broken"].append({"obligation": "correspondence: returned segmentation is not a path of the model's graph",
                                     "case_lines": inp, "detail": a[:300]})
                return out
    return out


def run(tier):
    return edcommon.run_check(PROP, tier, edoracles.c03, RULE, edcommon.ED_ASSUMPTIONS, extra=conv_cases)


def replay(path):
    return edcommon.replay(path)
