"""C01: no call sequence, key or configuration can crash or hang the engine.
Theorems in coq/theories/Properties/C01.v; editor model tied by the ed correspondence (a panic of the
Rust API is an outcome both sides must agree on); the C API is driven in supervised worker processes
(vharness `capi`): a worker that dies or does not answer within the watchdog limit is the violation."""
import os

from . import c03, capicommon, edcommon, edoracles
from .common import BUILD

PROP = "C01"
RULE = ("(a) seeded editor histories (all ops of the Rust API incl. option / engine switches at any moment, scenario "
        "productions: syllables left without a word, reset while a list is open, page-size and dictionary changes "
        "under an open list) - non-trivial = >= 2 states visited and >= 2 buffer changes; (b) seeded C-API histories "
        "(all chewing_handle_* with key codes 0..255 and out-of-range ints, candidate ops, every option setter with "
        "in- and out-of-range values, keyboard / engine switches mid-composition, user-phrase ops, reset) executed in "
        "worker processes in 7 variants each under a 20 s per-call watchdog")


def capi_part(res, st, tier, work):
    fails = []
    if not capicommon.build(st):
        return fails
    summary, corpus = capicommon.run(tier, os.path.join(work, "capi"))
    if summary is None:
        st["broken"].append({"obligation": "capi harness run", "detail": corpus})
        return fails
    res.coverage["evaluations"] += summary.get("ops", 0) * 1
    res.coverage["traces_validated_against_impl"] += summary.get("variants", 0)
    res.notes["capi"] = {k: summary.get(k) for k in ("cases", "ops", "variants", "crashes", "hangs", "workers_spawned", "op_kinds", "wall_s")}
    for f in summary.get("failures", []):
        if f["signature"] in ("crash", "hang"):
            fails.append({"signature": "capi-" + f["signature"], "detail": f["detail"], "case_lines": [], "ops": f["ops"]})
    for name, rc, txt in corpus:
        if rc != 0:
            fails.append({"signature": "capi-corpus-" + name, "detail": txt, "case_lines": [], "ops": []})
    res.notes["capi_corpus"] = [(n, rc) for n, rc, _ in corpus]
    return fails


def engine_part(res, st, tier, work):
    """ConversionEngine::convert called directly (dense graphs, frequencies beyond i32): a panic is the violation; the
    engine model of C01_conversion_engine_never_panics is compared with the implementation alternative by alternative"""
    return [f for f in c03.conv_cases(res, st, tier, work) if f["signature"] == "convert-panics"]


def checked_part(res, st, tier, work):
    """the same histories and conversions once more on a build of the implementation WITH overflow checks and debug
    assertions (the profile `cargo test` runs in): an arithmetic overflow is a panic there and a silent wrap in the
    release build - either way the two traces differ, and the case is the failing input"""
    import glob
    from .common import harness_path, sh, stage_cargo
    fails = []
    if not st.get("cargo"):
        return fails
    ok, out, dt = stage_cargo("ed", debug=True)
    res.notes["checked_build_s"] = round(dt, 1)
    if not ok:
        st["broken"].append({"obligation": "harness-build-with-overflow-checks", "detail": out[-3000:]})
        return fails
    dbg = harness_path("ed", debug=True)
    histories = ops = 0
    for t in sorted(glob.glob(os.path.join(work, "*.impl"))):
        name = os.path.basename(t)
        if name.startswith(("shrink", "shrunk", "one", "conv", "checked")):
            continue
        td = os.path.join(work, "checked-" + name)
        rc, o, _ = sh([dbg, "run", t, td], timeout=3000)
        if rc != 0:
            fails.append({"signature": "checked-build-run-dies", "detail": o[-1500:], "case_lines": edcommon.case_input_lines(open(t, encoding="utf-8").read().splitlines())[:400]})
            continue
        rel = dict(edcommon.split_cases(t))
        for n, lines in edcommon.split_cases(td):
            histories += 1
            ops += sum(1 for l in lines if l.startswith("OP "))
            a, b = lines, rel.get(n, [])
            if a != b:
                k = next((i for i in range(min(len(a), len(b))) if a[i] != b[i]), min(len(a), len(b)))
                fails.append({"signature": "panics-or-differs-with-overflow-checks", "case_lines": edcommon.case_input_lines(lines),
                              "detail": "checked build: %s | release build: %s" % ((a[k] if k < len(a) else "<end>")[:300], (b[k] if k < len(b) else "<end>")[:300])})
                break
    # the direct engine runs (same seed, same generated compositions)
    ti = os.path.join(work, "conv.impl")
    if os.path.exists(ti):
        td = os.path.join(work, "checked-conv.impl")
        rc, o, _ = sh([dbg, "conv", tier, td], timeout=3000)
        if rc == 0:
            rel = dict(edcommon.split_cases(ti))
            for n, lines in edcommon.split_cases(td):
                if lines != rel.get(n):
                    bad = [l for l in lines if l not in rel.get(n, [])]
                    fails.append({"signature": "convert-panics-or-differs-with-overflow-checks", "case_lines": [l for l in lines if not l.startswith("ALT ")],
                                  "detail": (bad[0] if bad else "fewer lines")[:300]})
                    break
        else:
            st["broken"].append({"obligation": "conv-cases-run-with-overflow-checks", "detail": o[-2000:]})
    res.notes["checked_build"] = {"histories": histories, "ops": ops, "profile": "dev: opt-level 1, overflow-checks, debug-assertions"}
    res.coverage["evaluations"] += ops
    return fails


def both_parts(res, st, tier, work):
    return engine_part(res, st, tier, work) + checked_part(res, st, tier, work) + capi_part(res, st, tier, work)


def run(tier):
    return edcommon.run_check(PROP, tier, edoracles.c01, RULE + "; (c) ConversionEngine::convert on generated compositions "
        "(all three engines, dense phrase graphs, frequencies up to 2^32-1), every ranked alternative compared with the engine model",
        edcommon.ED_ASSUMPTIONS + [
        "C API glue (capi/src/io.rs) is not modelled beyond Config.v / CapiMem.v: it is exercised by the supervised-worker campaign only"],
        extra=both_parts)


def replay(path):
    import json
    r = json.load(open(path))
    if r.get("ops"):
        return capicommon.replay(path)
    return edcommon.replay(path)
