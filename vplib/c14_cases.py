"""Pinyin correspondence cases for C14 (shared by the harness and the OCaml driver).

One case per line: space-separated byte values.  Bytes 32..126 are typed through
Qwerty map_ascii, 8 = remove_last, 27 = clear.  A case without any tone key
(space, 1-5), 8 or 27 is run once per tone key appended."""
import itertools
import json
import os
import random

LETTERS = "abcdefghijklmnopqrstuvwxyz"


def gen_cases(tier, seed, side_path, out_path):
    side = json.load(open(side_path))["layout"]["pinyin"]
    cases = []
    seen = set()

    def add(s):
        if s not in seen:
            seen.add(s)
            cases.append(s)

    # 1. all strings of length <= 3 (the empty string included)
    for n in range(0, 4):
        for t in itertools.product(LETTERS, repeat=n):
            add("".join(t))
    # 2. the table product: (no initial | initial) x (no final | final), and the special keys
    for i in [""] + side["initial"]:
        for f in [""] + side["final"]:
            add(i + f)
    for s in side["special"]:
        add(s)
    n_plain = len(cases)
    # 3. seeded random strings up to length 12 (the buffer holds 10), pinyin-biased letters, some capitals
    rng = random.Random(seed * 1000003 + 14)
    n_rand = 30000 if tier == "thorough" else 6000
    syll = side["initial"] + side["final"] + side["special"]
    for _ in range(n_rand):
        kind = rng.random()
        if kind < 0.4:
            s = "".join(rng.choice(syll) for _ in range(rng.randint(1, 3)))[:12]
        elif kind < 0.8:
            s = "".join(rng.choice(LETTERS) for _ in range(rng.randint(4, 12)))
        else:
            s = "".join(rng.choice(LETTERS + LETTERS.upper()) for _ in range(rng.randint(1, 10)))
        add(s)
    # 4. operation sequences: tone keys inside, remove_last, clear, non-letters, several syllables in a row
    ops = []
    alphabet = list(LETTERS) + [" ", "1", "2", "3", "4", "5"] * 2 + ["\x08"] * 4 + ["\x1b"] + list("6-;A,Z")
    for _ in range(n_rand // 2):
        n = rng.randint(2, 24)
        parts = []
        while len(parts) < n:
            if rng.random() < 0.5:
                parts.extend(rng.choice(syll))
                if rng.random() < 0.7:
                    parts.append(rng.choice(" 12345"))
            else:
                parts.append(rng.choice(alphabet))
        ops.append("".join(parts[:n]))
    with open(out_path, "w") as f:
        for s in cases + ops:
            f.write(" ".join(str(ord(c)) for c in s) + "\n")
    return {"plain_strings": n_plain, "random_strings": len(cases) - n_plain, "op_sequences": len(ops)}


if __name__ == "__main__":
    import sys
    print(gen_cases(sys.argv[1], int(sys.argv[2]), sys.argv[3], sys.argv[4]))
