"""Editor group (C01-C08, C17, C18): shared correspondence run (vharness `ed` vs extracted model
`driver-ed`), trace parser, shrinker and the generic check skeleton."""
import json
import os
import re
import shutil

from .common import (BUILD, ROOT, Result, count_lines, driver_path, harness_path, sh, standard_build)

DRIVER = driver_path("ed")
HARNESS = harness_path("ed")
CORPUS = os.path.join(ROOT, "corpus", "ed")
KEEP = ("CASE", "R ", "S ", "O ", "OC ", "X ")

MODEL_DEPS = ["theories/Model/EdInst.vo", "theories/Model/EditorRun.vo"]


def filtered(path):
    out = []
    with open(path, encoding="utf-8", errors="replace") as f:
        for line in f:
            if line.startswith(KEEP):
                out.append(line.rstrip("\n"))
    return out


def split_cases(path):
    """-> list of (case number, [lines])"""
    cases = []
    cur = None
    with open(path, encoding="utf-8", errors="replace") as f:
        for line in f:
            line = line.rstrip("\n")
            if line.startswith("CASE "):
                cur = (int(line.split()[1]), [line])
                cases.append(cur)
            elif cur is not None:
                cur[1].append(line)
    return cases


def case_input_lines(lines):
    """the lines that define a case (setup + ops), without observations"""
    return [l for l in lines if l.split(" ", 1)[0] in ("CASE", "CAPI", "SYS", "USR", "ABBR", "SYMSEL", "MODE", "LAYOUT", "INIT", "OP")]


def run_case_lines(lines, work, tag="one"):
    """run explicit case lines on implementation and model; -> (impl filtered, model filtered, impl trace path)"""
    cf = os.path.join(work, tag + ".case")
    ti = os.path.join(work, tag + ".impl")
    tm = os.path.join(work, tag + ".model")
    with open(cf, "w", encoding="utf-8") as f:
        f.write("\n".join(lines) + "\n")
    rc, out, _ = sh([HARNESS, "run", cf, ti], timeout=600)
    if rc != 0:
        return None, None, ti
    rc, out, _ = sh([DRIVER, ti, tm], timeout=600)
    if rc != 0:
        return filtered(ti), None, ti
    return filtered(ti), filtered(tm), ti


def first_mismatch(fi, fm):
    n = min(len(fi), len(fm))
    for i in range(n):
        if fi[i] != fm[i]:
            return i
    if len(fi) != len(fm):
        return n
    return None


def shrink(lines, work, still_fails, budget=250):
    """ddmin over the OP lines of one case; still_fails(lines) -> bool"""
    setup = [l for l in lines if not l.startswith("OP ")]
    ops = [l for l in lines if l.startswith("OP ")]
    n = 2
    tries = 0
    while len(ops) >= 2 and tries < budget:
        chunk = max(1, len(ops) // n)
        reduced = False
        for i in range(0, len(ops), chunk):
            cand = ops[:i] + ops[i + chunk:]
            tries += 1
            if cand and still_fails(setup + cand):
                ops = cand
                n = max(n - 1, 2)
                reduced = True
                break
            if tries >= budget:
                break
        if not reduced:
            if chunk == 1:
                break
            n = min(len(ops), n * 2)
    return setup + ops


def correspondence(res, st, tier, work, extra_gen=()):
    """corpus first, then generated histories; returns dict(stats=..., trace=impl trace path,
    mismatch=None|dict).  A mismatch is recorded in st['broken'] by the caller."""
    info = {"stats": {}, "trace": None, "mismatch": None, "cases": 0, "lines": 0}
    if not (st.get("cargo") and st.get("extract")):
        return info
    os.makedirs(work, exist_ok=True)
    traces = []
    # corpus
    if os.path.isdir(CORPUS):
        for name in sorted(os.listdir(CORPUS)):
            if name.endswith(".case"):
                lines = open(os.path.join(CORPUS, name), encoding="utf-8").read().splitlines()
                fi, fm, ti = run_case_lines(lines, work, "corpus-" + name[:-5])
                if fi is None or fm is None:
                    info["mismatch"] = {"where": "corpus/" + name, "detail": "could not run"}
                    return info
                traces.append(ti)
                k = first_mismatch(fi, fm)
                if k is not None and not info["mismatch"]:
                    # remembered, but the run goes on: the oracles look for a failing input on every trace
                    info["mismatch"] = {"where": "corpus/" + name, "line": k, "impl": fi[k] if k < len(fi) else "<eof>",
                                        "model": fm[k] if k < len(fm) else "<eof>", "case_lines": lines}
    # property-specific exhaustive sweeps (same trace format, same model replay)
    for k, args in enumerate(extra_gen):
        xi = os.path.join(work, "extra%d.impl" % k)
        xm = os.path.join(work, "extra%d.model" % k)
        rc, out, dt = sh([HARNESS] + list(args) + [xi], timeout=3000)
        if rc != 0:
            info["mismatch"] = {"where": "harness " + " ".join(args), "detail": out[-2000:]}
            return info
        try:
            info.setdefault("extra_stats", []).append(json.loads(out.strip().splitlines()[-1]))
        except (ValueError, IndexError):
            pass
        rc, out, dt = sh([DRIVER, xi, xm], timeout=3000)
        if rc != 0:
            info["mismatch"] = {"where": "model driver on " + " ".join(args), "detail": out[-2000:]}
            return info
        traces.append(xi)
        fi, fm = filtered(xi), filtered(xm)
        k2 = first_mismatch(fi, fm)
        if k2 is not None and not info["mismatch"]:
            caseno = None
            for j in range(min(k2, len(fi) - 1), -1, -1):
                if fi[j].startswith("CASE "):
                    caseno = int(fi[j].split()[1])
                    break
            cases = dict(split_cases(xi))
            info["mismatch"] = {"where": "sweep %s case %s" % (" ".join(args), caseno), "line": k2,
                                "impl": fi[k2][:1500] if k2 < len(fi) else "<eof>", "model": fm[k2][:1500] if k2 < len(fm) else "<eof>",
                                "case_lines": case_input_lines(cases.get(caseno, []))}
    ti = os.path.join(work, "trace.impl")
    tm = os.path.join(work, "trace.model")
    env_cases = os.environ.get("VERIF_ED_CASES")
    info["traces"] = list(traces)
    rc, out, dt = sh([HARNESS, "gen", tier, ti], timeout=3000)
    if rc != 0:
        info["mismatch"] = info["mismatch"] or {"where": "harness gen", "detail": out[-2000:]}
        return info
    try:
        info["stats"] = json.loads(out.strip().splitlines()[-1])
    except (ValueError, IndexError):
        info["stats"] = {"raw": out[-500:]}
    res.notes["ed_gen_s"] = round(dt, 1)
    info["trace"] = ti
    info["traces"] = traces + [ti]
    rc, out, dt = sh([DRIVER, ti, tm], timeout=3000)
    res.notes["ed_model_s"] = round(dt, 1)
    if rc != 0:
        info["mismatch"] = info["mismatch"] or {"where": "model driver", "detail": out[-2000:]}
        return info
    fi, fm = filtered(ti), filtered(tm)
    info["lines"] = len(fi)
    k = first_mismatch(fi, fm)
    if k is not None and not info["mismatch"]:
        # locate the case, shrink it
        caseno = None
        for j in range(min(k, len(fi) - 1), -1, -1):
            if fi[j].startswith("CASE "):
                caseno = int(fi[j].split()[1])
                break
        cases = dict(split_cases(ti))
        lines = case_input_lines(cases.get(caseno, []))

        def still(ls):
            a, b, _ = run_case_lines(ls, work, "shrink")
            return a is not None and b is not None and first_mismatch(a, b) is not None

        small = shrink(lines, work, still) if lines else lines
        a, b, _ = run_case_lines(small, work, "shrunk") if small else (None, None, None)
        kk = first_mismatch(a, b) if a is not None and b is not None else None
        info["mismatch"] = {"where": "generated case %s" % caseno, "line": k,
                            "impl": (a[kk] if a and kk is not None and kk < len(a) else fi[k] if k < len(fi) else "<eof>")[:1500],
                            "model": (b[kk] if b and kk is not None and kk < len(b) else fm[k] if k < len(fm) else "<eof>")[:1500],
                            "case_lines": small}
        # the shrunk history is another input the oracles look at (it may show the property failing where the original
        # history's differing step was none of an oracle's business)
        sp = os.path.join(work, "shrunk.impl")
        if small and os.path.exists(sp):
            info["traces"] = list(info.get("traces", [])) + [sp]
    return info


# ------------------------------------------------------------------ trace parsing for the oracles

class Step:
    __slots__ = ("op", "raw_op", "res", "snap", "obs", "convs", "dconv", "raw_s", "raw_o", "gets", "all_o", "twin", "qtwin")

    def __init__(self, op):
        self.op = op.split()
        self.raw_op = list(self.op)     # as written in the case file (replays); `op` may be normalised below
        self.res = None
        self.snap = None
        self.obs = None
        self.convs = []
        self.dconv = None
        self.raw_s = ""
        self.raw_o = ""
        self.gets = []      # G lines (all query functions, one line per repetition)
        self.all_o = []     # every O line of the step
        self.twin = None    # T line: reset context vs fresh twin
        self.qtwin = None   # Q line: the never-queried twin vs the queried editor


def kv(line):
    d = {}
    for f in line.split(" "):
        if "=" in f:
            k, v = f.split("=", 1)
            d[k] = v
    return d


def parse_conv(line):
    lhs, _, rhs = line.partition(" => ")
    if not _ and line.endswith(" =>"):
        lhs, rhs = line[:-3], ""
    d = kv(lhs)
    ivs = []
    for part in filter(None, rhs.strip().split(",")):
        rng, kind, text = part.split(":")
        b, e = rng.split("-")
        ivs.append((int(b), int(e), kind, [int(x) for x in text.split(".") if x]))
    d["ivs"] = ivs
    return d


def parse_cases(path):
    """-> list of dict(n, setup lines, steps[list of Step])"""
    cases = []
    cur = None
    step = None
    with open(path, encoding="utf-8", errors="replace") as f:
        for line in f:
            line = line.rstrip("\n")
            tag, _, rest = line.partition(" ")
            if tag == "CASE":
                cur = {"n": int(rest), "setup": [line], "steps": []}
                cases.append(cur)
                step = None
            elif cur is None:
                continue
            elif tag in ("CAPI", "SYS", "USR", "ABBR", "SYMSEL", "MODE", "LAYOUT", "INIT"):
                cur["setup"].append(line)
            elif tag == "OP":
                step = Step(rest)
                cur["steps"].append(step)
            elif step is None:
                continue
            elif tag == "CONV":
                step.convs.append(parse_conv(rest))
            elif tag == "DCONV":
                step.dconv = parse_conv(rest)
            elif tag == "R":
                step.res = rest
            elif tag == "S":
                step.raw_s = rest
                step.snap = kv(rest)
            elif tag == "O":
                step.raw_o = rest
                step.obs = kv(rest)
                step.all_o.append(rest)
            elif tag == "G":
                step.gets.append(rest)
            elif tag == "T":
                step.twin = rest
            elif tag == "Q":
                step.qtwin = rest
    for c in cases:
        normalise_c_keys(c)
    return cases


def normalise_c_keys(case):
    """capi cases: the key-entry C calls read as key steps, so that the key oracles of every property see them too.
    `ckey code mods` (chewing_handle_Space ... Capslock: the named key, Shift for mods 1, the Caps Lock event for 4) and
    `cdefault ch` for a printable ch (a character key carrying ch; Space for 32) become
    `key code code uni shift ctrl caps num`, and the step's result is the KEY result (snapshot field last), not the C
    return code.  Which key code a character has on the current keyboard is not reconstructed (999): the oracles use
    the code of named keys only."""
    remaps = False      # KB_DVORAK_HSU (7) is Dvorak-on-Qwerty: the character a key event carries is not the one passed in
    for s in case["steps"]:
        if not s.op or s.snap is None:
            continue
        if s.op[0] == "kbtype" and len(s.op) >= 2:
            remaps = s.op[1] == "7"
        if s.op[0] == "cdefault" and remaps:
            continue
        if s.op[0] == "ckey" and len(s.op) >= 3:
            code, m = int(s.op[1]), int(s.op[2])
            uni = 32 if code == 48 else 65533
            s.op = ["key", str(code), str(code), str(uni), "1" if m == 1 else "0", "0", "1" if m == 4 else "0", "0"]
            s.res = s.snap.get("last", s.res)
        elif s.op[0] == "cdefault" and len(s.op) >= 2 and 32 <= int(s.op[1]) <= 126:
            ch = int(s.op[1])
            code = 48 if ch == 32 else 999
            s.op = ["key", str(code), str(code), str(ch), "0", "0", "0", "0"]
            s.res = s.snap.get("last", s.res)


def lst(s):
    return [x for x in s.split(",") if x] if s else []


def case_lines_upto(case, idx):
    """input lines of a case truncated after step idx (for replays)"""
    return case["setup"] + ["OP " + " ".join(s.raw_op) for s in case["steps"][:idx + 1]]


# ------------------------------------------------------------------ generic check skeleton

def run_check(prop, tier, oracle, rule, assumptions, extra=None, extra_gen=()):
    """oracle(cases, res) -> list of dict(signature, case_lines, detail)"""
    res = Result(prop, tier, "proof")
    st = standard_build(res, prop, group="ed", harness_bin="ed", model_deps=MODEL_DEPS, tablegen_groups=("bopomofo", "editor"))
    work = os.path.join(BUILD, "work", "%s-%s" % (prop, tier))
    if os.path.isdir(work):
        shutil.rmtree(work, ignore_errors=True)
    os.makedirs(work, exist_ok=True)
    info = correspondence(res, st, tier, work, extra_gen)
    failures = []
    ncases = 0
    if info.get("traces"):
        for t in info["traces"]:
            cases = parse_cases(t)
            ncases += len(cases)
            failures += oracle(cases, res)
    if extra:
        failures += extra(res, st, tier, work)
    stats = info.get("stats", {})
    for xs in info.get("extra_stats", []):
        res.coverage["evaluations"] += xs.get("ops", 0)
        res.coverage["distinct_nontrivial"] += xs.get("nontrivial_cases", 0)
        res.coverage["traces_validated_against_impl"] += xs.get("cases", 0)
        if xs.get("exhaustive"):
            res.coverage["exhaustive_sweeps"] = res.coverage.get("exhaustive_sweeps", 0) + 1
    res.coverage["evaluations"] += stats.get("ops", 0)
    res.coverage["distinct_nontrivial"] += stats.get("nontrivial_cases", 0)
    res.coverage["traces_validated_against_impl"] += stats.get("cases", 0)
    res.coverage["input_distribution"] = {k: stats.get(k) for k in ("op_kinds", "cases_visiting_state", "max_buffer_len", "impl_panics")}
    res.coverage["rule"] = rule
    if info.get("trace"):
        try:
            cs = parse_cases(info["trace"])
            if cs:
                c0 = cs[min(3, len(cs) - 1)]
                res.coverage["samples"].append({"history": ["OP " + " ".join(s.op) for s in c0["steps"][:25]],
                                                "last_snapshot": c0["steps"][-1].raw_s[:400] if c0["steps"] else ""})
        except (OSError, ValueError):
            pass
    seen = set()
    for f in failures:
        if f["signature"] in seen:
            continue
        seen.add(f["signature"])
        res.add_violation("oracle-" + f["signature"], {"kind": "history", "signature": f["signature"],
                                                       "driver": "capi replay" if f.get("ops") else "ed run",
                                                       "case_lines": f.get("case_lines", []), "ops": f.get("ops", []),
                                                       "detail": f.get("detail", "")}, True)
    if info.get("mismatch"):
        st["broken"].append({"obligation": "correspondence editor model vs implementation", **info["mismatch"]})
    if st["broken"]:
        concrete = [f for f in failures]
        if concrete:
            res.notes["broken_obligations"] = st["broken"]
        else:
            for b in st["broken"]:
                res.add_violation("obligation-" + re.sub(r"\W+", "-", b["obligation"])[:40], {"kind": "obligation", **b}, False)
    res.assumptions = assumptions
    return res.finish()


def replay(path):
    r = json.load(open(path))
    work = os.path.join(BUILD, "work", "replay")
    os.makedirs(work, exist_ok=True)
    if r.get("case_lines"):
        fi, fm, ti = run_case_lines(r["case_lines"], work, "replay")
        print(open(ti, encoding="utf-8").read()[-6000:])
        if fi is not None and fm is not None:
            k = first_mismatch(fi, fm)
            print("model/implementation: %s" % ("agree" if k is None else "differ at filtered line %d" % k))
        print("recorded:", r.get("signature"), r.get("detail"))
        return 1
    print(json.dumps(r, ensure_ascii=False, indent=1)[:6000])
    return 1


ED_ASSUMPTIONS = [
    "editor model <-> code tie: seeded generated histories (and the corpus) replayed on the Rust Editor API with an in-memory layered dictionary and the Standard layout; every observable (result, hook snapshot, display, candidates, user dictionary) compared after every op",
    "the choice among valid segmentations is an oracle fed from the implementation's logged conversions, each validated by the model (Conversion.valid_conversion / exact SimpleEngine)",
    "hooks: Editor::verif_snapshot and the conversion log (feature verif-hooks, add-only)",
]
