"""Shared machinery of bin/vp-check: build stages (tablegen, Coq, extraction,
cargo), Print Assumptions gate, hygiene gate, file comparison, known findings,
evidence and the VIOLATION protocol."""
import fcntl
import hashlib
import json
import os
import re
import subprocess
import sys
import time

ROOT = "/verif"
REPO = os.environ.get("VERIF_REPO", "/repo")
BUILD = os.path.join(ROOT, "_build")
COQ = os.path.join(ROOT, "coq")
GEN = os.path.join(COQ, "theories", "Gen")
EXTRACT = os.path.join(BUILD, "extract")
CARGO_TARGET = os.path.join(BUILD, "cargo")
REPLAYS = os.path.join(BUILD, "replays")
EVIDENCE = os.path.join(ROOT, "evidence")
KNOWN = os.path.join(ROOT, "KNOWN_FINDINGS.json")

ENV = dict(os.environ)
ENV.update({"CARGO_NET_OFFLINE": "true", "CARGO_TARGET_DIR": CARGO_TARGET, "LC_ALL": "C.UTF-8", "OCAMLRUNPARAM": "l=8M"})

ALLOWED_AXIOMS = set()   # nothing beyond the kernel is expected; see DESIGN.md section 3

FORBIDDEN = re.compile(
    r"\b(Admitted|admit|Axiom|Axioms|Parameter|Parameters|Conjecture|Hypothesis|Variable|Variables|Hypotheses)\b"
    r"|Unset\s+Guard|bypass_check|type-in-type|impredicative-set|Admit\s+Obligations|Unset\s+Positivity|Unset\s+Universe")


def log(msg):
    print("[vp-check] " + msg, flush=True)


def sh(cmd, timeout=1200, cwd=None, env=None, stdin=None):
    t0 = time.time()
    try:
        p = subprocess.run(cmd, shell=isinstance(cmd, str), cwd=cwd, env=env or ENV, timeout=timeout,
                           stdout=subprocess.PIPE, stderr=subprocess.STDOUT, input=stdin)
        out = p.stdout.decode("utf-8", "replace")
        return p.returncode, out, time.time() - t0
    except subprocess.TimeoutExpired as e:
        out = (e.stdout or b"").decode("utf-8", "replace")
        return 124, out + "\n[timeout after %ss]" % timeout, time.time() - t0


class Lock:
    def __init__(self, name="build"):
        os.makedirs(BUILD, exist_ok=True)
        self.path = os.path.join(BUILD, name + ".lock")

    def __enter__(self):
        self.f = open(self.path, "w")
        fcntl.flock(self.f, fcntl.LOCK_EX)
        return self

    def __exit__(self, *a):
        fcntl.flock(self.f, fcntl.LOCK_UN)
        self.f.close()


def file_hash(paths):
    h = hashlib.sha256()
    for p in sorted(paths):
        h.update(p.encode())
        try:
            with open(p, "rb") as f:
                h.update(f.read())
        except FileNotFoundError:
            h.update(b"<missing>")
    return h.hexdigest()


def glob_files(d, suffix):
    out = []
    for base, _, files in os.walk(d):
        for f in files:
            if f.endswith(suffix):
                out.append(os.path.join(base, f))
    return sorted(out)


# ------------------------------------------------------------------ stages

def stage_tablegen():
    """T1: regenerate Gen/*.v from /repo's working tree."""
    rc, out, dt = sh([sys.executable, os.path.join(ROOT, "tablegen", "tablegen.py"), REPO, GEN], timeout=300)
    return rc == 0, out, dt


def coq_project_files():
    files = []
    for sub in ("Base", "Gen", "Model", "Proofs", "Properties"):
        files += glob_files(os.path.join(COQ, "theories", sub), ".v")
    return [os.path.relpath(f, COQ) for f in files]


def ensure_coq_makefile():
    files = coq_project_files()
    content = "-Q theories LC\n-arg -w -arg -notation-overridden,-deprecated-syntactic-definition,-deprecated-hint-rewrite-without-locality\n" + "\n".join(files) + "\n"
    p = os.path.join(COQ, "_CoqProject")
    old = open(p).read() if os.path.exists(p) else ""
    if old != content or not os.path.exists(os.path.join(COQ, "Makefile")):
        with open(p, "w") as f:
            f.write(content)
        rc, out, _ = sh("coq_makefile -f _CoqProject -o Makefile", cwd=COQ, timeout=120)
        if rc != 0:
            raise RuntimeError("coq_makefile failed: " + out)


def stage_coq(targets, timeout=2400):
    """full .vo build (never -vos) of the given targets (paths relative to coq/)."""
    ensure_coq_makefile()
    cmd = ["make", "-j16", "-k"] + targets
    rc, out, dt = sh(cmd, cwd=COQ, timeout=timeout)
    failed = re.findall(r'File "\./([^"]+)", line (\d+), characters [^\n]*\n((?:.|\n)*?)(?=\nmake|\nFile |\Z)', out)
    return rc == 0, out, dt, failed


def theorem_names(vfile):
    src = strip_coq_comments(open(vfile, encoding="utf-8").read())      # a statement quoted in a comment is not an obligation
    return re.findall(r"^\s*(?:Theorem|Corollary)\s+([A-Za-z0-9_']+)", src, re.M)


def stage_assumptions(prop_id, extra_modules=()):
    """Print Assumptions for every Theorem of Properties/<id>.v, parsed from a fresh coqc run
    against the compiled .vo (so it is re-checked on every run, cached build or not)."""
    vfile = os.path.join(COQ, "theories", "Properties", prop_id + ".v")
    names = theorem_names(vfile)
    work = os.path.join(BUILD, "work", "assume")
    os.makedirs(work, exist_ok=True)
    f = os.path.join(work, "Assume_%s.v" % prop_id)
    with open(f, "w") as fh:
        fh.write("From LC Require Import Properties.%s.\n" % prop_id)
        for n in names:
            fh.write('Goal True. idtac "@@THEOREM %s". Abort.\nPrint Assumptions %s.\nCheck %s.\n' % (n, n, n))
    rc, out, dt = sh(["coqc", "-Q", os.path.join(COQ, "theories"), "LC", "-noglob", f, "-o", f + "o"], cwd=work, timeout=600)
    res = {}
    if rc != 0:
        return False, res, out
    parts = out.split("@@THEOREM ")
    for part in parts[1:]:
        name, _, body = part.partition("\n")
        body = body.strip()
        ass, _, stmt = body.partition("\n%s\n" % name.strip())
        if not stmt:
            m = re.search(r"^%s\s*$" % re.escape(name.strip()), body, re.M)
            if m:
                ass, stmt = body[:m.start()], body[m.end():]
        res[name.strip()] = {"assumptions": " ".join(ass.split()), "statement": " ".join(stmt.split())[:1500]}
    ok = all(v["assumptions"] == "Closed under the global context" or
             all(a in ALLOWED_AXIOMS for a in re.findall(r"^\s*([A-Za-z0-9_.']+)\s*:", v["assumptions"]))
             for v in res.values()) and len(res) == len(names)
    return ok, res, out


def stage_coqchk(prop_id):
    """coqchk -o on Properties/<id>.vo and everything it depends on (thorough tier): the independent checker
    re-checks the compiled files and lists the axioms they rely on; cached on the hash of the .vo files."""
    vo = os.path.join(COQ, "theories", "Properties", prop_id + ".vo")
    if not os.path.exists(vo):
        return False, "no " + vo, 0.0
    h = file_hash(glob_files(os.path.join(COQ, "theories"), ".vo"))
    stamp = os.path.join(BUILD, "coqchk-%s.stamp" % prop_id)
    if os.path.exists(stamp):
        try:
            old = json.load(open(stamp))
            if old.get("hash") == h:
                return old["ok"], old["summary"], 0.0
        except (ValueError, KeyError):
            pass
    rc, out, dt = sh(["coqchk", "-silent", "-o", "-Q", os.path.join(COQ, "theories"), "LC", "LC.Properties." + prop_id],
                     cwd=COQ, timeout=3000)
    summary = out[out.find("CONTEXT SUMMARY"):] if "CONTEXT SUMMARY" in out else out[-2000:]
    summary = " ".join(summary.split())
    clean = (rc == 0 and "* Axioms: <none>" in summary and "type-in-type: <none>" in summary and
             "unsafe (co)fixpoints: <none>" in summary and "positivity is assumed: <none>" in summary)
    with open(stamp, "w") as f:
        json.dump({"hash": h, "ok": clean, "summary": summary}, f)
    return clean, summary, dt


def stage_hygiene():
    bad = []
    for f in glob_files(os.path.join(COQ, "theories"), ".v"):
        if "/Gen/" in f:
            continue
        src = open(f, encoding="utf-8").read()
        src_nc = strip_coq_comments(src)
        for m in FORBIDDEN.finditer(src_nc):
            # Section-local Variable/Hypothesis are allowed only inside a Section
            word = m.group(0)
            if word in ("Variable", "Variables", "Hypothesis", "Hypotheses"):
                if inside_section(src_nc, m.start()):
                    continue
            bad.append("%s: %s" % (os.path.relpath(f, ROOT), word))
    return bad


def strip_coq_comments(src):
    out = []
    depth = 0
    i = 0
    n = len(src)
    while i < n:
        if src.startswith("(*", i):
            depth += 1
            i += 2
        elif src.startswith("*)", i) and depth > 0:
            depth -= 1
            i += 2
        else:
            if depth == 0:
                out.append(src[i])
            i += 1
    return "".join(out)


def inside_section(src, pos):
    """is position pos inside an open Section (Module/End pairs are tracked too)?"""
    stack = []
    for m in re.finditer(r"^\s*(Section|Module(?:\s+Type)?|End)\s+([A-Za-z0-9_']+)[^.\n]*\.", src[:pos], re.M):
        kw, name = m.group(1), m.group(2)
        if kw == "End":
            for i in range(len(stack) - 1, -1, -1):
                if stack[i][1] == name:
                    del stack[i:]
                    break
        else:
            stack.append(("Section" if kw == "Section" else "Module", name))
    return any(k == "Section" for k, _ in stack)


def driver_path(group):
    return os.path.join(BUILD, "driver-" + group)


def harness_path(binname, debug=False):
    return os.path.join(CARGO_TARGET, "debug" if debug else "release", binname)


def stage_extract(group, force=False):
    """extract one group of the model (coq/extract/<group>.v; ExtrOcamlBasic only) and build its
    OCaml driver (ocaml/<group>/), when the model, the generated tables or the driver changed."""
    srcs = (glob_files(os.path.join(COQ, "theories", "Model"), ".v") + glob_files(GEN, ".v") +
            glob_files(os.path.join(COQ, "theories", "Base"), ".v") +
            [os.path.join(COQ, "extract", group + ".v"), os.path.join(ROOT, "ocaml", "conv.ml"), os.path.join(ROOT, "ocaml", "convz.ml")] +
            glob_files(os.path.join(ROOT, "ocaml", group), ".ml") + [os.path.join(ROOT, "bin", "build-ocaml")])
    exdir = os.path.join(EXTRACT, group)
    stamp = os.path.join(BUILD, "extract-%s.stamp" % group)
    h = file_hash(srcs)
    if not force and os.path.exists(stamp) and open(stamp).read() == h and os.path.exists(driver_path(group)):
        return True, "extraction up to date", 0.0
    t0 = time.time()
    sh(["rm", "-rf", exdir])
    os.makedirs(exdir, exist_ok=True)
    rc, out, _ = sh(["coqc", "-Q", os.path.join(COQ, "theories"), "LC", "-noglob",
                     os.path.join(COQ, "extract", group + ".v"), "-o", os.path.join(exdir, group + ".vo")],
                    cwd=exdir, timeout=900)
    if rc != 0:
        return False, out, time.time() - t0
    rc, out2, _ = sh([os.path.join(ROOT, "bin", "build-ocaml"), group, exdir, driver_path(group)], timeout=900)
    if rc != 0:
        return False, out + out2, time.time() - t0
    with open(stamp, "w") as f:
        f.write(h)
    return True, out + out2, time.time() - t0


def stage_cargo(binname, debug=False, features=("hooks",)):
    """rebuild one harness binary against /repo's current working tree (path dependency)."""
    cmd = ["cargo", "build", "--offline", "--manifest-path", os.path.join(ROOT, "harness", "Cargo.toml"), "--bin", binname]
    if not debug:
        cmd.append("--release")
    if features:
        cmd += ["--features", ",".join(features)]
    rc, out, dt = sh(cmd, timeout=2400, cwd=os.path.join(ROOT, "harness"))
    return rc == 0, out, dt


# ------------------------------------------------------------------ comparison

def first_difference(a, b):
    """None if the two text files are identical, else (line number, line a, line b)."""
    rc, _, _ = sh(["cmp", "-s", a, b])
    if rc == 0:
        return None
    with open(a, encoding="utf-8", errors="replace") as fa, open(b, encoding="utf-8", errors="replace") as fb:
        n = 0
        while True:
            la = fa.readline()
            lb = fb.readline()
            n += 1
            if la != lb:
                return n, la.rstrip("\n")[:2000], lb.rstrip("\n")[:2000]
            if not la:
                return n, "<eof>", "<eof>"


def count_lines(p):
    rc, out, _ = sh(["wc", "-l", p])
    try:
        return int(out.split()[0])
    except (ValueError, IndexError):
        return 0


# ------------------------------------------------------------------ findings / evidence

def load_known():
    try:
        with open(KNOWN) as f:
            return json.load(f).get("findings", [])
    except FileNotFoundError:
        return []


class Result:
    """accumulates what one check run did; finish() writes the evidence and speaks the protocol"""

    def __init__(self, prop, tier, level="proof"):
        self.prop = prop
        self.tier = tier
        self.level = level
        self.seed = int(os.environ.get("VERIF_SEED", "1") or 1)
        self.t0 = time.time()
        self.violations = []        # (replay dict, found_input: bool)
        self.known_hits = []
        self.coverage = {"evaluations": 0, "distinct_nontrivial": 0, "rule": "", "samples": [],
                         "obligations": 0, "discharged": 0, "checker_cmd": "", "trusted_base": [],
                         "traces_validated_against_impl": 0}
        self.assumptions = []
        self.notes = {}
        os.makedirs(os.path.join(REPLAYS, prop), exist_ok=True)

    def add_violation(self, name, replay, found_input):
        """replay: dict describing the failing input/history, or the broken obligation."""
        replay = dict(replay)
        replay.setdefault("property", self.prop)
        replay["found_failing_input"] = bool(found_input)
        sig = replay.get("signature", name)
        for k in load_known():
            if k.get("property") == self.prop and k.get("status", "open") == "open" and found_input and \
                    re.fullmatch(k["signature"], sig):
                if k["id"] not in [h["id"] for h in self.known_hits]:
                    self.known_hits.append(k)
                return
        path = os.path.join(REPLAYS, self.prop, "%s-%s.json" % (self.tier, re.sub(r"[^A-Za-z0-9_.-]", "_", name)[:80]))
        if path in [v[0] for v in self.violations]:
            return
        with open(path, "w") as f:
            json.dump(replay, f, ensure_ascii=False, indent=1)
        self.violations.append((path, found_input))

    def finish(self):
        cov = self.coverage
        cov["samples"] = cov["samples"][:12]
        if not cov.get("discharged"):
            # nothing proved on this run: fall back to the generic coverage keys
            cov["obligations_total"] = cov.pop("obligations", 0)
            cov["obligations_discharged"] = cov.pop("discharged", 0)
        ev = {
            "property_id": self.prop,
            "tier": self.tier,
            "seed": self.seed,
            "level": self.level,
            "coverage": cov,
            "assumptions": self.assumptions,
            "wall_s": round(time.time() - self.t0, 2),
            "violations": len(self.violations),
            "known_findings_reproduced": [k["id"] for k in self.known_hits],
            "notes": self.notes,
        }
        os.makedirs(EVIDENCE, exist_ok=True)
        tmp = os.path.join(EVIDENCE, self.prop + ".json.tmp")
        with open(tmp, "w") as f:
            json.dump(ev, f, ensure_ascii=False, indent=1)
        os.replace(tmp, os.path.join(EVIDENCE, self.prop + ".json"))
        for k in self.known_hits:
            print("KNOWN-FINDING: property=%s %s" % (self.prop, k["what"]), flush=True)
        # a violation backed by a concrete failing input comes first
        self.violations.sort(key=lambda v: not v[1])
        for path, found in self.violations:
            print("VIOLATION property=%s replay=%s%s" % (self.prop, path, "" if found else " no-failing-input-found"), flush=True)
        return 1 if self.violations else 0


TRUSTED_BASE = [
    "Coq 8.16.1 kernel incl. its vm_compute machine (finite sweeps use vm_cast_no_check, re-checked by the kernel at Qed); no native_compute",
    "axioms: none declared; Print Assumptions of every property theorem is parsed on every run and must be 'Closed under the global context'",
    "tablegen (python translator of literal tables from /repo sources into coq/theories/Gen), cross-checked behaviourally by the correspondence",
    "extraction to OCaml with ExtrOcamlBasic only (no Extract Constant / Extract Inductive of our own; N, Z, positive stay datatypes) and the OCaml driver (ocaml/*.ml)",
    "vharness (Rust) drives the implementation built from /repo's working tree and prints canonical views",
]


def standard_build(res, prop, group=None, harness_bin=None, coq_targets=None, debug_harness=False, model_deps=None,
                   tablegen_groups=None):
    """tablegen -> coq -> assumptions -> hygiene -> extraction -> cargo.  Records obligations
    in res; returns dict of stage flags.  Broken obligations become violations only after the
    caller has searched for a failing input (see decide())."""
    st = {"tablegen": None, "coq": None, "assume": None, "hygiene": None, "extract": None, "cargo": None,
          "broken": []}
    with Lock():
        ok, out, dt = stage_tablegen()
        st["tablegen"] = ok
        res.notes["tablegen_s"] = round(dt, 1)
        if not ok:
            # only the groups this property depends on count (other builders' groups may be in flux;
            # a group whose tables the property's theories import still fails the Coq build below)
            bad_groups = re.findall(r"TABLEGEN-ERROR group=(\w+)", out)
            relevant = [g for g in bad_groups if tablegen_groups is None or g in tablegen_groups]
            if relevant or not bad_groups:
                st["broken"].append({"obligation": "tablegen", "groups": relevant, "detail": out[-3000:]})
            else:
                st["tablegen"] = True
                res.notes["tablegen_unrelated_errors"] = bad_groups
        targets = coq_targets or ["theories/Properties/%s.vo" % prop]
        ok, out, dt, failed = stage_coq(targets)
        st["coq"] = ok
        res.notes["coq_s"] = round(dt, 1)
        if not ok:
            st["broken"].append({"obligation": "coq-build", "files": [f[0] + ":" + f[1] for f in failed],
                                 "detail": out[-4000:]})
        thms = {}
        if ok:
            ok2, thms, out2 = stage_assumptions(prop)
            st["assume"] = ok2
            if not ok2:
                st["broken"].append({"obligation": "print-assumptions", "detail": out2[-3000:],
                                     "theorems": {k: v["assumptions"] for k, v in thms.items()}})
        names = theorem_names(os.path.join(COQ, "theories", "Properties", prop + ".v"))
        res.coverage["obligations"] = len(names)
        res.coverage["discharged"] = sum(1 for n in names if n in thms and
                                         thms[n]["assumptions"] == "Closed under the global context")
        res.coverage["theorems"] = {n: thms.get(n, {}).get("assumptions", "NOT CHECKED") for n in names}
        res.notes["statements"] = {n: thms.get(n, {}).get("statement", "") for n in names}
        if ok and res.tier == "thorough":
            okc, summary, dtc = stage_coqchk(prop)
            res.notes["coqchk"] = summary
            res.notes["coqchk_s"] = round(dtc, 1)
            if not okc:
                st["broken"].append({"obligation": "coqchk", "detail": summary[-3000:]})
        bad = stage_hygiene()
        st["hygiene"] = not bad
        if bad:
            st["broken"].append({"obligation": "hygiene", "detail": bad})
        if group:
            # the extracted model needs the Model/*.vo of the group compiled
            if model_deps:
                stage_coq(model_deps)
            ok, out, dt = stage_extract(group)
            st["extract"] = ok
            res.notes["extract_s"] = round(dt, 1)
            if not ok:
                st["broken"].append({"obligation": "extraction", "detail": out[-3000:]})
        if harness_bin:
            ok, out, dt = stage_cargo(harness_bin, debug=False)
            st["cargo"] = ok
            res.notes["cargo_s"] = round(dt, 1)
            if not ok:
                st["broken"].append({"obligation": "harness-build", "detail": out[-4000:]})
            if debug_harness and ok:
                ok, out, dt = stage_cargo(harness_bin, debug=True)
                st["cargo_debug"] = ok
                if not ok:
                    st["broken"].append({"obligation": "harness-build-debug", "detail": out[-4000:]})
    res.coverage["checker_cmd"] = "make -j16 theories/Properties/%s.vo (coq_makefile, full .vo) + coqc Print Assumptions per theorem" % prop
    res.coverage["trusted_base"] = list(TRUSTED_BASE)
    return st
