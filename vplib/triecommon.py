"""Shared machinery of the C11 / C12 checks (trie file codec): case generation, the model /
implementation differential over a command file, localisation and shrinking of a mismatch,
replays.  The command language is documented in ocaml/c11/c11.ml."""
import json
import os
import re
import threading

from .common import BUILD, count_lines, driver_path, harness_path, sh

DRIVER = driver_path("c11")
HARNESS = harness_path("c11")
PRODUCES = set("TWOQNX")
BAD = re.compile(r" (PANIC|HANG|CRASH|UNBOUNDED)\b")


def workdir(prop, tier):
    w = os.path.join(BUILD, "work", "%s-%s" % (prop, tier))
    os.makedirs(w, exist_ok=True)
    return w


def run_both(cases, impl, model, ctx_work=None, timeout=3000):
    """run the command file on the implementation (worker + watchdog) and on the extracted model"""
    out = {}

    def run_model():
        out["model"] = sh([DRIVER, "views", cases, model], timeout=timeout)

    th = threading.Thread(target=run_model)
    th.start()
    if ctx_work:
        out["impl"] = sh([HARNESS, "ctx", cases, impl, ctx_work], timeout=timeout)
    else:
        out["impl"] = sh([HARNESS, "views", cases, impl], timeout=timeout)
    th.join()
    return out


def split_cases(cases_path):
    """[(name, [lines])] - a case starts at a T line (X lines are one-line cases)"""
    cases = []
    with open(cases_path, encoding="utf-8") as fh:
        for line in fh:
            line = line.rstrip("\n")
            if not line:
                continue
            if line.startswith("T ") or line.startswith("X ") or not cases:
                cases.append((line[2:90], [line]))
            else:
                cases[-1][1].append(line)
    return cases


def out_count(lines):
    return sum(1 for l in lines if l[:1] in PRODUCES)


def differences(cases_path, impl_path, model_path, limit=6):
    """cases whose output differs, and cases where the implementation panicked / hung.
    -> list of dicts {name, lines, impl, model, first (index of first differing output), bad}"""
    cases = split_cases(cases_path)
    with open(impl_path, encoding="utf-8", errors="replace") as f:
        impl = f.read().split("\n")
    with open(model_path, encoding="utf-8", errors="replace") as f:
        model = f.read().split("\n")
    res = []
    pos = 0
    for name, lines in cases:
        n = out_count(lines)
        a, b = impl[pos:pos + n], model[pos:pos + n]
        pos += n
        bad = [x for x in a if BAD.search(x)]
        if a != b or bad:
            first = next((i for i in range(min(len(a), len(b))) if a[i] != b[i]), None)
            res.append({"name": name, "lines": lines, "impl": a, "model": b, "first": first, "bad": bad})
            if len(res) >= limit:
                break
    return res


def eval_lines(lines, work, tag, ctx=False):
    """run a small command list on both sides -> (impl outputs, model outputs)"""
    c = os.path.join(work, "shrink-%s.cases" % tag)
    i = os.path.join(work, "shrink-%s.impl" % tag)
    m = os.path.join(work, "shrink-%s.model" % tag)
    with open(c, "w", encoding="utf-8") as fh:
        fh.write("\n".join(lines) + "\n")
    run_both(c, i, m, ctx_work=os.path.join(work, "ctxwork-shrink") if ctx else None, timeout=300)
    rd = lambda p: open(p, encoding="utf-8", errors="replace").read().split("\n") if os.path.exists(p) else []
    return rd(i), rd(m)


def still_fails(lines, work, tag):
    a, b = eval_lines(lines, work, tag)
    return a != b or any(BAD.search(x) for x in a)


def shrink(d, work, tag, budget=120):
    """greedy shrink of a failing case: first keep only the output commands up to the first
    failing one plus the state commands, then drop E (entry) lines one at a time."""
    lines = list(d["lines"])
    if len(lines) > 4000:
        return lines
    # 1. cut after the first failing output command
    k = d["first"]
    if k is None and d["bad"]:
        k = next(i for i, x in enumerate(d["impl"]) if BAD.search(x))
    if k is not None:
        seen = -1
        cut = len(lines)
        for idx, l in enumerate(lines):
            if l[:1] in PRODUCES:
                seen += 1
                if seen == k:
                    cut = idx + 1
                    break
        cand = lines[:cut]
        # drop earlier pure queries (Q / N) and earlier corruption attempts (P..O groups)
        keep = [l for l in cand[:-1] if l[:1] not in "QN"] + [cand[-1]]
        for c in (keep, cand):
            if still_fails(c, work, tag):
                lines = c
                break
    # keep only the last P/C/A before the end (earlier ones are overwritten anyway)
    ps = [i for i, l in enumerate(lines) if l[:1] in "PCA"]
    if len(ps) > 1:
        last = ps[-1]
        cand = [l for i, l in enumerate(lines) if not (l[:1] in "PCAO" and i < last)]
        if still_fails(cand, work, tag):
            lines = cand
    # 2. drop entries
    tries = 0
    changed = True
    while changed and tries < budget:
        changed = False
        es = [i for i, l in enumerate(lines) if l.startswith("E ")]
        chunk = max(1, len(es) // 2)
        while chunk >= 1 and tries < budget:
            i = 0
            while i < len(es) and tries < budget:
                drop = set(es[i:i + chunk])
                cand = [l for j, l in enumerate(lines) if j not in drop]
                tries += 1
                if still_fails(cand, work, tag):
                    lines = cand
                    es = [k for k, l in enumerate(lines) if l.startswith("E ")]
                    changed = True
                else:
                    i += chunk
            chunk //= 2
    return lines


def signature(d):
    """stable label of a failure: command + outcome class of the first bad / differing output"""
    if d["bad"]:
        x = d["bad"][0].split(" ")
        return "%s-%s" % (x[0], x[1])
    if d["first"] is not None:
        a = d["impl"][d["first"]].split(" ")
        b = d["model"][d["first"]].split(" ")
        return "mismatch-%s-%s-vs-%s" % (a[0], a[1] if len(a) > 1 else "", b[1] if len(b) > 1 else "")
    return "mismatch-length"


def c11_oracle_on(lines, work, tag):
    """the C11 implementation-side oracles (independent reader/writer, spec) on the entry set of
    one case -> list of failures"""
    c = os.path.join(work, "check-%s.cases" % tag)
    o = os.path.join(work, "check-%s.json" % tag)
    with open(c, "w", encoding="utf-8") as fh:
        fh.write("\n".join(l for l in lines if l[:1] in "TIE") + "\n")
    rc, out, _ = sh([HARNESS, "check", c, o], timeout=600)
    try:
        return json.load(open(o))["failures"]
    except (OSError, ValueError):
        return [{"oracle": "check-run-failed", "input": "", "detail": out[-500:]}] if rc != 0 else []


def replay(path):
    r = json.load(open(path))
    if r.get("kind") == "input" and r.get("cases"):
        work = workdir(r.get("property", "C11"), "replay")
        a, b = eval_lines(r["cases"], work, "replay", ctx=r.get("driver", "").startswith("c11 ctx"))
        print("implementation:")
        print("\n".join(x[:400] for x in a))
        print("model:")
        print("\n".join(x[:400] for x in b))
        fails = a != b or any(BAD.search(x) for x in a)
        if r.get("oracle"):
            f = c11_oracle_on(r["cases"], work, "replay")
            print("oracles:", json.dumps(f, ensure_ascii=False)[:2000])
            fails = fails or bool(f)
        return 1 if fails else 0
    print(json.dumps(r, ensure_ascii=False, indent=1)[:6000])
    return 1


def histogram(path):
    """distribution of output classes of an output file (for the evidence)"""
    h = {}
    with open(path, encoding="utf-8", errors="replace") as fh:
        for line in fh:
            w = line.split(" ", 3)
            k = w[0] + " " + (w[1] if len(w) > 1 and w[0] not in ("T", "W") else "")
            if w[0] == "W" and len(w) > 1 and w[1].strip() in ("ERR", "PANIC", "HANG"):
                k = "W " + w[1].strip()
            if w[0] == "X" and len(w) > 2:
                k = "X %s %s" % (w[1], w[2].strip())
            h[k.strip()] = h.get(k.strip(), 0) + 1
    return h


def distinct_accepted(cases_path, impl_path):
    """walk the command file and the implementation output in lockstep: the set of distinct
    (file contents) that the implementation accepted (O OK), keyed by base file + mutation command;
    plus a few written-out samples of accepted corruptions"""
    with open(impl_path, encoding="utf-8", errors="replace") as f:
        impl = f.read().split("\n")
    seen = set()
    samples = []
    pos = 0
    base = mut = name = None
    cur = []
    with open(cases_path, encoding="utf-8") as fh:
        for line in fh:
            line = line.rstrip("\n")
            if not line:
                continue
            t = line[:1]
            if t == "T":
                name = line[2:]
            if t in "FW":
                base, mut = (name, line[:80]), None
            if t in "PCAR":
                mut = line
                cur = [line]
            elif t in "OQN":
                cur.append(line)
            if t in PRODUCES:
                o = impl[pos] if pos < len(impl) else ""
                pos += 1
                if t == "O" and o.startswith("O OK") and mut is not None and mut != "R":
                    key = (base, mut)
                    if key not in seen:
                        seen.add(key)
                        if len(samples) < 3 and len(seen) % 97 == 1:
                            samples.append({"case": name, "commands": cur[:2], "impl": [o[:120]] + impl[pos:pos + 2]})
    return len(seen), samples
