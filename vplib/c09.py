"""C09: mutable dictionaries behave as a map under any update history
(refinement proof + seeded history correspondence on every back end + reference-map oracle)."""
import hashlib
import json
import os
import re
import shutil

from .common import (BUILD, ROOT, Lock, Result, driver_path, harness_path, sh, stage_cargo, stage_coq, stage_extract, standard_build)

DRIVER = driver_path("c09")
HARNESS = harness_path("c09")
PROP = "C09"
CORPUS = os.path.join(ROOT, "corpus", "c09")
TABLEGEN_GROUPS = {"bopomofo"}

MODEL_DEPS = ["theories/Model/Dict.vo", "theories/Model/TrieBuf.vo", "theories/Model/Layered.vo",
              "theories/Model/SqliteDict.vo"]


def split_cases(text):
    """case file text -> list of (name, text of that case)"""
    out, cur, name = [], [], None
    for line in text.splitlines():
        if line.startswith("CASE "):
            cur, name = [line], line.split()[1]
        elif name is not None:
            cur.append(line)
            if line.strip() == "END":
                out.append((name, "\n".join(cur) + "\n"))
                cur, name = [], None
    return out


def split_views(text):
    """views output -> {case name: [lines]}"""
    out, name = {}, None
    for line in text.splitlines():
        if line.startswith("CASE "):
            name = line.split()[1]
            out[name] = []
        elif name is not None:
            out[name].append(line)
    return out


def run_both(work, tag, case_text, env):
    """run one case file on the implementation and on the extracted model; returns
    (impl views dict, model views dict, oracle json or None, error text)"""
    cases = os.path.join(work, tag + ".cases")
    impl, model, orc = (os.path.join(work, tag + x) for x in (".impl", ".model", ".oracle.json"))
    with open(cases, "w", encoding="utf-8") as f:
        f.write(case_text)
    for p in (impl, model, orc):
        if os.path.exists(p):
            os.remove(p)
    rc1, o1, _ = sh([HARNESS, "run", cases, impl, orc], timeout=3000, env=env)
    rc2, o2, _ = sh([DRIVER, "views", cases, model], timeout=3000, env=env)
    if rc1 != 0 or rc2 != 0:
        return None, None, None, (o1 + o2)[-3000:]
    try:
        o = json.load(open(orc, encoding="utf-8"))
    except (OSError, ValueError) as e:
        return None, None, None, repr(e)
    return (split_views(open(impl, encoding="utf-8").read()), split_views(open(model, encoding="utf-8").read()), o, "")


def diverges(work, case_text, env):
    iv, mv, _, err = run_both(work, "ddmin", case_text, env)
    return (not err) and iv != mv


def ddmin_case(work, case_text, env, budget=250):
    """ddmin over the op lines (then the T lines) of one diverging case"""
    lines = case_text.strip().split("\n")
    head, end = lines[0], lines[-1]
    init = [l for l in lines[1:-1] if l.startswith("T ")]
    ops = [l for l in lines[1:-1] if not l.startswith("T ") and not l.startswith("#")]

    def text(i, o):
        return "\n".join([head] + i + o + [end]) + "\n"

    n = 2
    while len(ops) >= 2 and budget > 0:
        chunk = (len(ops) + n - 1) // n
        reduced = False
        for start in range(0, len(ops), chunk):
            cand = ops[:start] + ops[start + chunk:]
            budget -= 1
            if diverges(work, text(init, cand), env):
                ops, n, reduced = cand, max(n - 1, 2), True
                break
            if budget <= 0:
                break
        if not reduced:
            if chunk == 1:
                break
            n = min(n * 2, len(ops))
    i = 0
    while i < len(init) and budget > 0:
        cand = init[:i] + init[i + 1:]
        budget -= 1
        if diverges(work, text(cand, ops), env):
            init = cand
        else:
            i += 1
    return text(init, ops)


def corpus_text():
    parts = []
    if os.path.isdir(CORPUS):
        for f in sorted(os.listdir(CORPUS)):
            if f.endswith(".case"):
                parts.append(open(os.path.join(CORPUS, f), encoding="utf-8").read())
    return "\n".join(parts)


def run(tier):
    res = Result(PROP, tier, "proof")
    st = standard_build(res, PROP, group="c09", harness_bin="c09", model_deps=MODEL_DEPS)
    # standard_build regenerates every tablegen group; C09's theories depend on the Bopomofo tables only
    # (Model/Syllable.starts_with for the fuzzy predicate), so a table of another property that cannot be
    # read (e.g. somebody's edit of capi/src/io.rs) is not an obligation of this check
    kept = []
    for b in st["broken"]:
        if b.get("obligation") == "tablegen":
            groups = set(re.findall(r"TABLEGEN-ERROR group=(\w+)", b.get("detail", "")))
            if groups and not (groups & TABLEGEN_GROUPS):
                res.notes["tablegen_errors_in_unrelated_groups"] = sorted(groups)
                continue
        kept.append(b)
    st["broken"] = kept
    work = os.path.join(BUILD, "work", "%s-%s" % (PROP, tier))
    os.makedirs(work, exist_ok=True)
    env = dict(os.environ)
    env.update({"VERIF_TMP": os.path.join(work, "tmp"), "VERIF_SEED": str(res.seed), "LC_ALL": "C.UTF-8",
                "OCAMLRUNPARAM": "l=8M"})
    oracle_fail = []
    mismatches = []          # (stage, case name, case text, impl lines, model lines)
    dist = {}
    if st["cargo"] and st["extract"]:
        gen_cases = os.path.join(work, "generated.cases")
        rc, out, _ = sh([HARNESS, "gen", tier, gen_cases], timeout=600, env=env)
        stages = [("corpus", corpus_text())]
        if rc == 0:
            stages.append(("generated", open(gen_cases, encoding="utf-8").read()))
        else:
            st["broken"].append({"obligation": "harness-gen", "detail": out[-2000:]})
        for stage, text in stages:          # the corpus runs first
            if not text.strip():
                continue
            iv, mv, o, err = run_both(work, stage, text, env)
            if err:
                st["broken"].append({"obligation": "correspondence-run " + stage, "detail": err})
                continue
            res.coverage["evaluations"] += o["evaluations"]
            res.coverage["distinct_nontrivial"] += o["distinct_nontrivial"]
            res.coverage["traces_validated_against_impl"] += o["cases"]
            for k, v in o["distribution"].items():
                dist[k] = dist.get(k, 0) + v
            res.notes.setdefault("oracle", {})[stage] = {k: o[k] for k in o if k not in ("failures", "distribution")}
            oracle_fail += [dict(f, stage=stage) for f in o["failures"]]
            if iv != mv:
                cases = dict(split_cases(text))
                for name in iv:
                    if iv.get(name) != mv.get(name):
                        mismatches.append((stage, name, cases.get(name, ""), iv.get(name), mv.get(name)))
                        break
            if stage == "generated":
                for name, ctext in split_cases(text)[:3]:
                    res.coverage["samples"].append({"history": ctext[:600]})
    res.notes["distribution"] = dist

    # --- the property evaluated on the implementation against the reference map ---
    for f in oracle_fail[:12]:
        res.add_violation("oracle-" + f["oracle"],
                          {"kind": "history", "signature": f["oracle"], "driver": "c09 replay", "history": f["history"],
                           "detail": f["detail"], "from_case": f["case"], "seed": res.seed, "stage": f["stage"]}, True)

    # --- correspondence: exact result lists of model and implementation after every operation ---
    for stage, name, ctext, il, ml in mismatches:
        small = ddmin_case(work, ctext, env) if ctext else ctext
        iv, mv, o, err = run_both(work, "shrunk", small, env)
        sname = small.split()[1] if small else name
        h = hashlib.sha256(small.encode()).hexdigest()[:10]
        try:
            os.makedirs(CORPUS, exist_ok=True)
            autos = [f for f in os.listdir(CORPUS) if f.startswith("auto-")]
            if len(autos) < 24:
                with open(os.path.join(CORPUS, "auto-%s.case" % h), "w", encoding="utf-8") as fh:
                    fh.write("# shrunk model/implementation divergence found by vp-check C09 %s (seed %s, case %s)\n" % (tier, res.seed, name))
                    fh.write(small)
        except OSError:
            pass
        b = {"obligation": "correspondence c09 %s" % stage, "case": name, "history": small,
             "impl": (iv or {}).get(sname), "model": (mv or {}).get(sname)}
        st["broken"].append(b)
        # focused search for a failing input: the oracle on the shrunk history
        if o and o["failures"] and not oracle_fail:
            for f in o["failures"][:3]:
                oracle_fail.append(f)
                res.add_violation("oracle-" + f["oracle"],
                                  {"kind": "history", "signature": f["oracle"], "driver": "c09 replay", "history": f["history"],
                                   "detail": f["detail"], "from_case": name, "seed": res.seed, "stage": "shrunk-divergence"}, True)

    # only findings that are not known count as "a failing input was found"
    unknown_fail = bool(res.violations)
    if st["broken"] and not unknown_fail:
        for b in st["broken"]:
            res.add_violation("obligation-" + b["obligation"].split()[0] + "-" + b["obligation"].split()[-1],
                              {"kind": "obligation", **b}, False)
    elif st["broken"]:
        res.notes["broken_obligations"] = st["broken"]

    shutil.rmtree(os.path.join(work, "tmp"), ignore_errors=True)
    res.coverage["exhaustive"] = False
    res.coverage["rule"] = ("seeded histories (VERIF_SEED) over <= 6 keys / 17 phrases on 7 back ends (in-memory and file-backed TrieBuf, "
                            "SQLite in memory and on file, Layered over TrieBuilder-built system Tries with in-memory and file-backed "
                            "user TrieBuf, read-only Trie), <= %d ops each, every result list compared exactly (order, frequency, time; "
                            "entries as a sorted multiset) with the extracted model after every op; corpus/c09 first. evaluations = ops "
                            "executed; non-trivial = history contains a remove, or a flush followed by a further change; distinct = "
                            "distinct (back end, op list)" % (300 if tier == "thorough" else 40))
    res.assumptions = [
        "model <-> code tie: exact agreement of every operation result on generated histories (sampled, not exhaustive)",
        "SQLite/rusqlite semantics of the six transcribed statements (two relational tables); BTreeMap order = slice order of keys; "
        "slice::sort_by stable; a Vec holds < 2^64 elements",
        "the background writer is modelled as 'finished or not when sync() looks': the harness waits for it (hook verif_writer_state / "
        "Debug output) so only the finished branch is exercised by the tie; durability itself is C10",
        "the read-only Trie is modelled abstractly (key -> ordered leaf); its byte codec is C11",
    ]
    return res.finish()


def replay(path):
    r = json.load(open(path, encoding="utf-8"))
    hist = r.get("history")
    # replays run against /repo's current working tree too
    with Lock():
        stage_coq(MODEL_DEPS)
        ok1, out1, _ = stage_extract("c09")
        ok2, out2, _ = stage_cargo("c09")
    if not (ok1 and ok2):
        print((out1 + out2)[-3000:])
        return 2
    if hist:
        work = os.path.join(BUILD, "work", "%s-replay" % PROP)
        os.makedirs(work, exist_ok=True)
        env = dict(os.environ)
        env.update({"VERIF_TMP": os.path.join(work, "tmp")})
        cf = os.path.join(work, "replay.case")
        with open(cf, "w", encoding="utf-8") as f:
            f.write(hist)
        rc, out, _ = sh([HARNESS, "replay", cf], env=env)
        print(out)
        iv, mv, _, err = run_both(work, "replay", hist, env)
        if err:
            print(err)
        elif iv != mv:
            print("model and implementation DISAGREE:")
            for name in iv:
                if iv[name] != mv.get(name):
                    print(" implementation:", iv[name])
                    print(" model         :", mv.get(name))
            rc = rc or 1
        else:
            print("model and implementation agree on every operation of this history")
        shutil.rmtree(os.path.join(work, "tmp"), ignore_errors=True)
        return rc
    print(json.dumps(r, ensure_ascii=False, indent=1))
    return 1
