"""C05: see DESIGN.md section 7; theorems in coq/theories/Properties/C05.v"""
from . import edcommon, edoracles

PROP = "C05"
RULE = ("seeded generated editor histories (20-70 ops quick, 40-200 thorough) over generated dictionaries with homophones, "
        "syllables without words, all option toggles, candidate lists, symbols, learning and API calls; "
        "non-trivial = visits >= 2 editor states and changes the symbol buffer >= 2 times (counted by the harness)")


def run(tier):
    return edcommon.run_check(PROP, tier, edoracles.c05, RULE, edcommon.ED_ASSUMPTIONS)


def replay(path):
    return edcommon.replay(path)
