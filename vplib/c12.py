"""C12: corrupt dictionary files never crash or hang the host (proof of totality of the reader
model for every byte string + exhaustive single-byte corruption differential with a worker
process and watchdog + context creation over corrupt files).  The legacy uhash loader part is
proved in Proofs/UhashProofs.v (group c19) and re-exported in Properties/C12.v; its
implementation-side corruption campaign is `c19 corrupt`."""
import json
import os

from .common import CARGO_TARGET, Result, count_lines, harness_path, sh, stage_cargo, standard_build, Lock
from . import triecommon as tc

PROP = "C12"


def run(tier):
    res = Result(PROP, tier, "proof")
    st = standard_build(res, PROP, group="c11", harness_bin="c11", model_deps=["theories/Model/TrieCodec.vo"])
    work = tc.workdir(PROP, tier)
    cases, impl, model = (os.path.join(work, x) for x in ("cases.txt", "views.impl", "views.model"))
    ccases, cimpl, cmodel = (os.path.join(work, x) for x in ("ctx.txt", "ctx.impl", "ctx.model"))
    for f in (cases, impl, model, ccases, cimpl, cmodel):
        if os.path.exists(f):
            os.remove(f)
    found = False
    if st["cargo"]:
        rc, out, _ = sh([tc.HARNESS, "gen", tier, "c12", cases], timeout=600)
        try:
            res.notes["input_distribution"] = json.loads(out.strip().splitlines()[-1])
        except (ValueError, IndexError):
            st["broken"].append({"obligation": "case-generation", "detail": out[-2000:]})
        rc, out, _ = sh([tc.HARNESS, "ctxgen", tier, ccases], timeout=600)
        try:
            res.notes["input_distribution"].update(json.loads(out.strip().splitlines()[-1]))
        except (ValueError, IndexError, KeyError):
            st["broken"].append({"obligation": "ctx-case-generation", "detail": out[-2000:]})

    def handle(kind, cases_p, impl_p, model_p, ctx):
        nonlocal found
        n = count_lines(impl_p)
        res.coverage["traces_validated_against_impl"] += n
        res.coverage["evaluations"] += n
        h = tc.histogram(impl_p)
        res.notes["output_classes_" + kind] = h
        for k, d in enumerate(tc.differences(cases_p, impl_p, model_p)):
            small = d["lines"] if ctx else tc.shrink(d, work, "%s%d" % (kind, k))
            a, b = tc.eval_lines(small, work, "%s%d" % (kind, k), ctx=ctx)
            rep = {"kind": "input", "signature": tc.signature(d), "driver": "c11 ctx" if ctx else "c11 views", "cases": small,
                   "impl": [x[:500] for x in a][-6:], "model": [x[:500] for x in b][-6:], "case": d["name"]}
            if d["bad"]:
                # the implementation panicked / hung / ran out of memory on this input: the property fails
                res.add_violation("%s-%s" % (kind, d["name"]), rep, True)
                found = True
            else:
                st["broken"].append({"obligation": "correspondence c12 %s %s" % (kind, d["name"]), "replay": rep})
                # the implementation ACCEPTS a file the model rejects: search the neighbourhood of the patched byte for
                # a file on which it then crashes or hangs (the 8-byte index record around it rewritten as a node whose
                # child range points back at the root / an early record) - DESIGN 2.5, focused campaign
                if not ctx and not found and rep["signature"] == "mismatch-O-OK-vs-ERR":
                    hit = hunt(small, work, "%s%d" % (kind, k))
                    if hit:
                        rep2 = dict(rep)
                        rep2.update({"signature": "accepted-corrupt-index-then-" + hit[1], "cases": hit[0], "impl": hit[2]})
                        res.add_violation("%s-hunt-%s" % (kind, d["name"]), rep2, True)
                        found = True

    def hunt(lines, work_, tag):
        head = [l for l in lines if l.startswith(("T ", "F "))][:2]
        pl = [l for l in lines if l.startswith("P ")]
        if len(head) < 2 or not pl:
            return None
        pos = int(pl[0].split()[1])
        tries = []
        for start in (pos - 7, pos - 6, pos - 5, pos - 4):
            if start < 0:
                continue
            for begin in (0, 1, 2):
                for ln in (1, 2, 3, 8):
                    for tail in ("0001", "0100", "2e53"):
                        tries.append("P %d %08x%04x%s" % (start, begin, ln, tail))
        cases_ = list(head)
        for t in tries:
            cases_ += [t, "O", "N", "Q S 18446744073709551615 11859", "Q F 18446744073709551615 11776"]
        a, _b = tc.eval_lines(cases_, work_, "hunt-" + tag)
        outs_per = 4      # O, N, Q, Q (P produces no output line; T produced the first one)
        for i, t in enumerate(tries):
            chunk = a[1 + i * outs_per:1 + (i + 1) * outs_per]
            bad = [x for x in chunk if tc.BAD.search(x)]
            if bad:
                kind_ = "hang" if any("HANG" in x.upper() or "TIMEOUT" in x.upper() for x in bad) else "crash"
                return (head + [t, "O", "N", "Q S 18446744073709551615 11859", "Q F 18446744073709551615 11776"], kind_, [x[:300] for x in chunk])
        return None

    if st["cargo"] and st["extract"] and os.path.exists(cases):
        out = tc.run_both(cases, impl, model)
        if out["impl"][0] == 0 and out["model"][0] == 0:
            handle("file", cases, impl, model, False)
            # non-trivial: a corruption that the DER layer and the index validation did not reject (the
            # lookups / entries ran on corrupted contents); distinct by (base file, mutation)
            nd, samples = tc.distinct_accepted(cases, impl)
            res.coverage["distinct_nontrivial"] += nd
            res.coverage["exhaustive"] = False
            res.coverage["exhaustive_part"] = ("every single-byte overwrite x {00,01,7f,80,ff,+1,-1}, every truncation and 6 extensions "
                                               "of the 8 small corpus files; larger files, structured index attacks and random byte strings are sampled")
            res.coverage["samples"] += samples
        else:
            st["broken"].append({"obligation": "correspondence-run", "detail": (out["impl"][1] + out["model"][1])[-3000:]})
    if st["cargo"] and st["extract"] and os.path.exists(ccases):
        out = tc.run_both(ccases, cimpl, cmodel, ctx_work=os.path.join(work, "ctxwork"))
        if out["impl"][0] == 0 and out["model"][0] == 0:
            handle("ctx", ccases, cimpl, cmodel, True)
            res.coverage["distinct_nontrivial"] += res.notes.get("output_classes_ctx", {}).get("X user ctx", 0)
        else:
            st["broken"].append({"obligation": "ctx-correspondence-run", "detail": (out["impl"][1] + out["model"][1])[-3000:]})
        sh(["rm", "-rf", os.path.join(work, "ctxwork")])

    # --- legacy uhash loader part (owned by group c19): run its corruption campaign if it exists ---
    c19 = harness_path("c19")
    if st["cargo"] and os.path.exists(os.path.join(os.path.dirname(os.path.dirname(__file__)), "harness", "src", "bin", "c19.rs")):
        with Lock():
            ok, out, _ = stage_cargo("c19", debug=False)
        if ok:
            uj = os.path.join(work, "uhash.json")
            rc, out, _ = sh([c19, "corrupt", tier, uj], timeout=2400)
            try:
                u = json.load(open(uj))
                res.coverage["evaluations"] += u.get("evaluations", 0)
                res.notes["uhash_corrupt"] = {k: (v if not isinstance(v, list) else len(v)) for k, v in u.items()}
                for kind in ("panics", "hangs"):
                    for i, f in enumerate(u.get(kind, [])[:3]):
                        res.add_violation("uhash-%s-%d" % (kind, i), {"kind": "input", "signature": "uhash-" + kind, "driver": "c19 corrupt",
                                                                      "detail": f}, True)
                        found = True
                for i, f in enumerate(u.get("mismatches", [])[:3]):
                    st["broken"].append({"obligation": "correspondence c12 uhash %d" % i, "replay": {"kind": "input", "driver": "c19 corrupt", "detail": f}})
            except (OSError, ValueError) as e:
                res.notes["uhash_corrupt"] = "not available: %r %s" % (e, out[-300:])

    if st["broken"] and not found:
        for b in st["broken"]:
            rep = dict(b.get("replay") or {"kind": "obligation"})
            rep.update({k: v for k, v in b.items() if k != "replay"})
            res.add_violation("obligation-" + b["obligation"].split()[0] + "-" + str(abs(hash(b["obligation"])) % 1000), rep, False)
    elif st["broken"]:
        res.notes["broken_obligations"] = [{k: v for k, v in b.items() if k != "replay"} for b in st["broken"]]

    res.coverage["rule"] = ("per corrupted file: Trie::new, 6 lookups (exact + fuzzy, two `first`), entries() in a worker process "
                            "(catch_unwind, 4 GB address-space limit, per-command watchdog) compared with the model's Ok/Err/Panic/OutOfFuel "
                            "and values; chewing_new2 over a system path / user path holding such files (word.dat, tsi.dat, drop-in, "
                            "chewing.dat) compared with the model's context/NULL prediction. "
                            "non-trivial = corruption accepted by the DER layer (index or phrase data reached) / context created on a corrupted user file")
    res.assumptions = ["model <-> code tie: exhaustive over single-byte corruptions of the small corpus, sampled beyond",
                       "wall-clock: the watchdog (5 s per command) stands for 'hangs'; the theorem states fuel linear in the index size",
                       "usize is 64 bit; DER items as implemented by the `der` crate 0.7 (modelled by Model/Der.v)",
                       "legacy uhash loader: theorems from Proofs/UhashProofs.v (group c19)"]
    return res.finish()


def replay(path):
    return tc.replay(path)
