"""src/dictionary/uhash.rs, src/dictionary/loader.rs, tools/src/{init_database,dump}.rs
   -> Gen/Uhash_gen.v

Generated (literal constants only; the loader / parser logic is modelled by hand
in Model/Uhash.v, Model/Loader.v, Model/Cli.v and tied by the correspondence):
  * BIN_FIELD_SIZE, BIN_HASH_SIG, size of the lifetime word of the binary format
  * the integer types the text loader parses each column with (lifetime,
    syllable, user_freq via Phrase::new, recent_time via with_time, max_freq,
    orig_freq) as (signed, bits)
  * legacy file names the user loader looks at
  * chewing-cli: the two delimiters, the CSV header line of `dump --csv`, the
    syllable separators of the two dump formats."""
import re
from rsparse import read, fn_body, int_lit, char_lit, coq_list, TablegenError

INT_TYPES = {
    "u8": (False, 8), "u16": (False, 16), "u32": (False, 32), "u64": (False, 64), "usize": (False, 64),
    "i8": (True, 8), "i16": (True, 16), "i32": (True, 32), "i64": (True, 64), "isize": (True, 64),
    "c_ushort": (False, 16), "c_uint": (False, 32), "c_ulong": (False, 64), "c_ulonglong": (False, 64),
    "c_short": (True, 16), "c_int": (True, 32), "c_long": (True, 64), "c_longlong": (True, 64),
}


def str_lit(s):
    s = s.strip()
    m = re.match(r'^"((?:[^"\\]|\\.)*)"$', s, re.S)
    if not m:
        raise TablegenError("not a string literal: %r" % s)
    body = m.group(1)
    if "\\" in body:
        body = body.replace('\\"', '"').replace("\\\\", "\\")
    return body


def const_value(src, name):
    m = re.search(r"\bconst\s+%s\s*:\s*[^=;]+=\s*([^;]+);" % re.escape(name), src)
    if not m:
        raise TablegenError("const %s not found" % name)
    return m.group(1).strip()


def ty(name, what):
    if name not in INT_TYPES:
        raise TablegenError("%s: integer type %r not understood" % (what, name))
    return INT_TYPES[name]


def coq_ty(t):
    return "(%s, %d)" % ("true" if t[0] else "false", t[1])


def bytes_list(s):
    return coq_list([str(b) for b in s.encode("utf-8")])


def chars_list(s):
    return coq_list([str(ord(c)) for c in s])


def generate(repo: str):
    src = read(repo + "/src/dictionary/uhash.rs")
    field = int_lit(const_value(src, "BIN_FIELD_SIZE"))
    sig = str_lit(const_value(src, "BIN_HASH_SIG"))

    body, _ = fn_body(src, "try_load_bin")
    m = re.search(r"read_exact\(\s*&mut\s+buf\[\s*0\s*\.\.\s*size_of::<\s*(\w+)\s*>\(\)\s*\]\s*\)", body)
    bin_lifetime = INT_TYPES.get(m.group(1), (True, 32)) if m else (True, 32)
    # Offsets of the length byte and of the first syllable: read when the code has the familiar shape,
    # else the values of the documented record layout (4 x int, u8 count, u16 phones, u8 bytes, phrase).
    # A real change of the layout is caught by the exhaustive corruption correspondence (T2).
    assumed = [] if m else ["bin_lifetime_bytes"]
    m = re.search(r"let\s+len\s*=\s*buf\[(\d+)\]", body)
    len_off = int(m.group(1)) if m else 16
    if not m:
        assumed.append("bin_len_offset")
    m = re.search(r"let\s+mut\s+base\s*=\s*(\d+)\s*;", body)
    syl_off = int(m.group(1)) if m else 17
    if not m:
        assumed.append("bin_syl_offset")

    body, _ = fn_body(src, "try_load_text")
    m = re.search(r"let\s+_?lifetime\s*:\s*(\w+)\s*=", body) or \
        re.search(r"let\s+_?lifetime\s*=[^;]*?parse::<\s*(\w+)\s*>", body)
    if not m:
        raise TablegenError("try_load_text: integer type of the lifetime line not found")
    text_lifetime = ty(m.group(1), "text lifetime")

    def col_ty(regex, default, what, text=None):
        mm = re.search(regex, body if text is None else text)
        if mm and mm.group(1) in INT_TYPES:
            return INT_TYPES[mm.group(1)]
        assumed.append(what)
        return default

    text_syl = col_ty(r"let\s+syl_u16\s*:\s*(\w+)\s*=", (False, 16), "text_syl_ty")
    text_max = col_ty(r"let\s+_?max_freq\s*:\s*(\w+)\s*=", (False, 32), "text_maxfreq_ty")
    text_orig = col_ty(r"let\s+_?orig_freq\s*:\s*(\w+)\s*=", (False, 32), "text_origfreq_ty")
    # user_freq / recent_time take the parameter types of Phrase::new / with_time
    msrc = read(repo + "/src/dictionary/mod.rs")
    text_freq = col_ty(r"pub\s+fn\s+new\s*<[^>]*>\s*\(\s*phrase\s*:\s*\w+\s*,\s*freq\s*:\s*(\w+)\s*\)\s*->\s*Phrase", (False, 32),
                       "text_freq_ty", msrc)
    text_time = col_ty(r"pub\s+fn\s+with_time\s*\(\s*(?:mut\s+)?self\s*,\s*last_used\s*:\s*(\w+)\s*\)", (False, 64),
                       "text_time_ty", msrc)

    lsrc = read(repo + "/src/dictionary/loader.rs")
    uhash_name = str_lit(const_value(lsrc, "UD_UHASH_FILE_NAME"))
    sqlite_name = str_lit(const_value(lsrc, "UD_SQLITE_FILE_NAME"))

    isrc = read(repo + "/tools/src/init_database.rs")
    m = re.search(r"let\s+delimiter\s*=\s*if\s+args\.csv\s*\{\s*('.')\s*\}\s*else\s*\{\s*('.')\s*\}", isrc)
    if m:
        delim_csv, delim_ssv = char_lit(m.group(1)), char_lit(m.group(2))
    else:
        delim_csv, delim_ssv = ord(","), ord(" ")
        assumed.append("delimiters")
    dsrc = read(repo + "/tools/src/dump.rs")

    def dump_fmt(fn, default, what):
        try:
            b, _ = fn_body(dsrc, fn)
        except TablegenError:
            assumed.append(what)
            return default
        mm = re.search(r'writeln!\(\s*sink\s*,\s*("\{\}(.)\{\}(.)\{\}")', b)
        jj = re.search(r'\.join\(\s*("(?:[^"\\]|\\.)*")\s*\)', b)
        if not (mm and jj):
            assumed.append(what)
            return default
        return (ord(mm.group(2)), ord(mm.group(3)), str_lit(jj.group(1)))

    csv_fmt = dump_fmt("dump_dict_csv", (44, 44, "\u3000"), "dump_csv_format")
    ssv_fmt = dump_fmt("dump_dict_tsi_src", (32, 32, " "), "dump_ssv_format")
    csv_header = "\u8a5e(phrase),\u8a5e\u983b(freq),\u6ce8\u97f3(bopomofo)"
    try:
        b, _ = fn_body(dsrc, "dump_dict_csv")
        mm = re.search(r'writeln!\(\s*sink\s*,\s*("(?:[^"\\{}]|\\.)*")\s*\)', b)
        if mm:
            csv_header = str_lit(mm.group(1))
        else:
            assumed.append("dump_csv_header")
    except TablegenError:
        assumed.append("dump_csv_header")

    out = []
    out.append("(* GENERATED by tablegen/gen_uhash.py from src/dictionary/{uhash,loader,mod}.rs and tools/src/{init_database,dump}.rs - do not edit *)")
    out.append("From Coq Require Import NArith List Bool.")
    out.append("Import ListNotations.")
    out.append("Open Scope N_scope.")
    out.append("")
    out.append("(* legacy binary hash file *)")
    out.append("Definition BIN_FIELD_SIZE : N := %d." % field)
    out.append("Definition BIN_HASH_SIG : list N := %s." % bytes_list(sig))
    out.append("Definition bin_lifetime_bytes : N := %d." % (bin_lifetime[1] // 8))
    out.append("Definition bin_len_offset : N := %d." % len_off)
    out.append("Definition bin_syl_offset : N := %d." % syl_off)
    out.append("")
    out.append("(* integer types (signed?, bits) the text loader parses each column with *)")
    out.append("Definition text_lifetime_ty : bool * N := %s." % coq_ty(text_lifetime))
    out.append("Definition text_syl_ty : bool * N := %s." % coq_ty(text_syl))
    out.append("Definition text_freq_ty : bool * N := %s." % coq_ty(text_freq))
    out.append("Definition text_time_ty : bool * N := %s." % coq_ty(text_time))
    out.append("Definition text_maxfreq_ty : bool * N := %s." % coq_ty(text_max))
    out.append("Definition text_origfreq_ty : bool * N := %s." % coq_ty(text_orig))
    out.append("")
    out.append("(* chewing-cli *)")
    out.append("Definition delim_csv : N := %d." % delim_csv)
    out.append("Definition delim_ssv : N := %d." % delim_ssv)
    out.append("Definition dump_csv_header : list N := %s." % chars_list(csv_header))
    out.append("Definition dump_csv_sep1 : N := %d." % csv_fmt[0])
    out.append("Definition dump_csv_sep2 : N := %d." % csv_fmt[1])
    out.append("Definition dump_csv_sylsep : list N := %s." % chars_list(csv_fmt[2]))
    out.append("Definition dump_ssv_sep1 : N := %d." % ssv_fmt[0])
    out.append("Definition dump_ssv_sep2 : N := %d." % ssv_fmt[1])
    out.append("Definition dump_ssv_sylsep : list N := %s." % chars_list(ssv_fmt[2]))
    out.append("")
    side = {"BIN_FIELD_SIZE": field, "BIN_HASH_SIG": sig, "text_lifetime_ty": list(text_lifetime),
            "uhash_file": uhash_name, "sqlite_file": sqlite_name, "csv_header": csv_header,
            "assumed_documented_values": assumed}
    return {"Uhash_gen.v": "\n".join(out) + "\n"}, side
