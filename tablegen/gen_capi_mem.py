"""capi/src/public.rs, capi/src/io.rs, src/editor/zhuyin_layout/mod.rs, data/*  -> Gen/CapiMem_gen.v   (C15)

Generated (facts and literal constants only; the ownership logic is modelled by
hand in Model/CapiMem.v and tied by the c15 correspondence + valgrind replays):
  * sizes of the six static buffers of ChewingContext
  * does chewing_userphrase_enumerate store an iterator that OWNS a collected
    Vec (entries().collect::<Vec<_>>().into_iter()) or one that BORROWS the
    dictionary (entries().peekable())
  * the element type with which chewing_free rebuilds an Owned::CUShortSlice
    (c_void = 1/1, c_ushort = 2/2) and whether it removes the registry entry
  * does copy_cstr reserve the terminator byte / cut on a char boundary
  * does chewing_userphrase_get check the caller's buffer lengths
  * Display strings of KeyboardLayoutCompat in TryFrom<u8> order
  * data bounds: longest category name in data/symbols.dat, longest expansion
    in data/swkb.dat, longest phrase of data/word.src and data/mini.src (bytes)
A shape this reader does not recognise raises TablegenError (never a guess)."""
import os
import re
from rsparse import read, fn_body, impl_body, match_arms, coq_list, TablegenError


def str_lit(s):
    m = re.search(r'"((?:[^"\\]|\\.)*)"', s, re.S)
    if not m:
        raise TablegenError("no string literal in %r" % s)
    return m.group(1)


def bytes_list(s):
    return coq_list([str(b) for b in s.encode("utf-8")], per_line=24)


def buffer_sizes(pub):
    m = re.search(r"\bstruct\s+ChewingContext\s*\{", pub)
    if not m:
        raise TablegenError("struct ChewingContext not found")
    sizes = {}
    for name in ("commit_buf", "preedit_buf", "bopomofo_buf", "cand_buf", "aux_buf", "kbtype_buf"):
        mm = re.search(r"\b%s\s*:\s*\[\s*u8\s*;\s*(\d+)\s*\]" % name, pub[m.end():])
        if not mm:
            raise TablegenError("ChewingContext.%s: [u8; N] not found" % name)
        sizes[name] = int(mm.group(1))
    return sizes


def up_iter_owns(io):
    body, _ = fn_body(io, "chewing_userphrase_enumerate")
    flat = re.sub(r"\s+", "", body)
    if re.search(r"entries\(\)\.collect::<Vec<[^;]*>\(\)\.into_iter\(\)", flat) or \
            re.search(r"let\w+:Vec<[^=]*=[^;]*entries\(\)\.collect\(\);", flat):
        return True
    if re.search(r"entries\(\)\.peekable\(\)", flat):
        return False
    raise TablegenError("chewing_userphrase_enumerate: cannot tell whether the stored iterator owns or borrows")


def free_facts(io):
    body, _ = fn_body(io, "chewing_free")
    flat = re.sub(r"\s+", "", body)
    m = re.search(r"Owned::CUShortSlice\((\w+)\)=>(.*)", flat)
    if not m:
        raise TablegenError("chewing_free: CUShortSlice arm not found")
    arm = m.group(2)
    mm = re.search(r"Vec(::<(\w+)>)?::from_raw_parts\(([^,]+),", arm)
    mb = re.search(r"slice::from_raw_parts_mut\(([^,]+),", arm)
    if mm:
        ty, arg = mm.group(2), mm.group(3)
    elif mb:
        ty, arg = None, mb.group(1)
    else:
        raise TablegenError("chewing_free: how the u16 slice is rebuilt was not recognised")
    u16 = ("c_ushort", "u16")
    if ty in u16 or re.search(r"cast::<(c_ushort|u16)>\(\)|as\*mut(c_ushort|u16)", arg):
        elem = (2, 2)
    elif ty is None and arg == "ptr":
        elem = (1, 1)        # *mut c_void: Vec<c_void>, size 1 align 1
    elif ty in ("c_void", "u8", "c_char"):
        elem = (1, 1)
    else:
        raise TablegenError("chewing_free: element type of the rebuilt slice not recognised (%r, %r)" % (ty, arg))
    if re.search(r"map\.remove\(&\(ptrasusize\)\)", flat):
        removes = True
    elif re.search(r"map\.get\(&\(ptrasusize\)\)", flat):
        removes = False
    else:
        raise TablegenError("chewing_free: registry access not recognised")
    return elem, removes


def cstr_reserve(io):
    body, _ = fn_body(io, "copy_cstr")
    flat = re.sub(r"\s+", "", body)
    if "is_char_boundary" in flat and re.search(r"buf\.len\(\)\.saturating_sub\(1\)|buf\.len\(\)-1", flat):
        return True
    if re.search(r"min\(buf\.len\(\),buffer\.len\(\)\)", flat) and "is_char_boundary" not in flat:
        return False
    raise TablegenError("copy_cstr: shape not recognised")


def up_get_checks(io):
    body, _ = fn_body(io, "chewing_userphrase_get")
    flat = re.sub(r"\s+", "", body)
    if re.search(r"phrase_buf\[\.\.phrase\.len\(\)\]\.copy_from_slice", flat) and \
            not re.search(r"phrase_lenasusize\)?<=phrase\.len\(\)|phrase\.len\(\)>=\(?phrase_lenasusize", flat):
        return False
    if re.search(r"phrase_lenasusize\)?<=phrase\.len\(\)|phrase\.len\(\)>=\(?phrase_lenasusize", flat) and \
            re.search(r"bopomofo_lenasusize\)?<=bopomofo\.len\(\)|bopomofo\.len\(\)>=\(?bopomofo_lenasusize", flat):
        return True
    raise TablegenError("chewing_userphrase_get: shape not recognised")


def kb_names(layout_src):
    disp = impl_body(layout_src, r"impl\s+Display\s+for\s+KeyboardLayoutCompat")
    names = {}
    for pat, expr in match_arms(disp, r"self"):
        v = pat.split("::")[-1].strip()
        names[v] = str_lit(expr)
    tf = impl_body(layout_src, r"impl\s+TryFrom<u8>\s+for\s+KeyboardLayoutCompat")
    ids = {}
    for pat, expr in match_arms(tf, r"value"):
        if re.fullmatch(r"\d+", pat.strip()):
            ids[int(pat.strip())] = expr.split("::")[-1].strip()
    out = []
    for i in range(len(ids)):
        if i not in ids or ids[i] not in names:
            raise TablegenError("KeyboardLayoutCompat: id %d has no Display string" % i)
        out.append(names[ids[i]])
    if not out:
        raise TablegenError("KeyboardLayoutCompat: no ids")
    return out


def data_bounds(repo):
    d = {}
    p = os.path.join(repo, "data", "symbols.dat")
    mx = 0
    with open(p, encoding="utf-8") as f:
        for line in f:
            line = line.rstrip("\n")
            if not line:
                continue
            name = line.split("=", 1)[0]
            mx = max(mx, len(name.encode("utf-8")))
    d["symbols_max_name_bytes"] = mx
    p = os.path.join(repo, "data", "swkb.dat")
    mx = 0
    with open(p, encoding="utf-8") as f:
        for line in f:
            line = line.rstrip("\n")
            if " " not in line:
                continue
            mx = max(mx, len(line.split(" ", 1)[1].encode("utf-8")))
    d["swkb_max_value_bytes"] = mx
    for fn in ("word.src", "mini.src"):
        mx = 0
        mc = 0
        with open(os.path.join(repo, "data", fn), encoding="utf-8") as f:
            for line in f:
                parts = line.split()
                if len(parts) < 3 or line.startswith("#"):
                    continue
                mx = max(mx, len(parts[0].encode("utf-8")))
                mc = max(mc, len(parts[0]))
        d[fn.replace(".", "_") + "_max_phrase_bytes"] = mx
        d[fn.replace(".", "_") + "_max_phrase_chars"] = mc
    return d


def generate(repo: str):
    pub = read(os.path.join(repo, "capi", "src", "public.rs"))
    io = read(os.path.join(repo, "capi", "src", "io.rs"))
    lay = read(os.path.join(repo, "src", "editor", "zhuyin_layout", "mod.rs"))
    sizes = buffer_sizes(pub)
    owns = up_iter_owns(io)
    elem, removes = free_facts(io)
    reserve = cstr_reserve(io)
    getchk = up_get_checks(io)
    names = kb_names(lay)
    bounds = data_bounds(repo)
    m = re.search(r"\bconst\s+MAX_PHRASE_LEN\s*:\s*usize\s*=\s*(\d+)\s*;", pub)
    if not m:
        raise TablegenError("MAX_PHRASE_LEN not found")
    max_phrase_len = int(m.group(1))
    io_raw = io
    m = re.search(r'"chewing\.auto_commit_threshold"\s*=>\s*\{\s*if\s*!\(0\.\.=(\d+)\)\.contains', io_raw)
    if not m:
        raise TablegenError("auto_commit_threshold range not found in chewing_config_set_int")
    max_threshold = int(m.group(1))

    b = lambda x: "true" if x else "false"
    out = []
    out.append("(* GENERATED by tablegen/gen_capi_mem.py from capi/src/{public,io}.rs, src/editor/zhuyin_layout/mod.rs, data/* - do not edit *)")
    out.append("From Coq Require Import NArith List.")
    out.append("From LC Require Import Base.Lib Model.CapiMem.")
    out.append("Import ListNotations.")
    out.append("Open Scope N_scope.")
    out.append("")
    out.append("Definition kb_names_gen : list (list N) :=\n  [" + ";\n   ".join(bytes_list(n) for n in names) + "].")
    out.append("")
    out.append("Definition cfg_current : config :=")
    out.append("  {| up_owns := %s; free_elem_size := %d; free_elem_align := %d; free_removes := %s;" % (b(owns), elem[0], elem[1], b(removes)))
    out.append("     cstr_reserve := %s; up_get_checks := %s;" % (b(reserve), b(getchk)))
    out.append("     cap_commit := %d; cap_preedit := %d; cap_bopomofo := %d; cap_cand := %d; cap_aux := %d; cap_kbtype := %d;" % (
        sizes["commit_buf"], sizes["preedit_buf"], sizes["bopomofo_buf"], sizes["cand_buf"], sizes["aux_buf"], sizes["kbtype_buf"]))
    out.append("     kb_names := kb_names_gen |}.")
    out.append("")
    out.append("Definition max_phrase_len : N := %d.        (* public.rs MAX_PHRASE_LEN *)" % max_phrase_len)
    out.append("Definition max_auto_commit_threshold : N := %d.   (* chewing_config_set_int range *)" % max_threshold)
    for k in sorted(bounds):
        out.append("Definition %s : N := %d." % (k, bounds[k]))
    out.append("")
    side = {"buffers": sizes, "up_owns": owns, "free_elem": list(elem), "free_removes": removes,
            "cstr_reserve": reserve, "up_get_checks": getchk, "kb_names": names, "bounds": bounds,
            "max_phrase_len": max_phrase_len, "max_auto_commit_threshold": max_threshold}
    return {"CapiMem_gen.v": "\n".join(out)}, side
