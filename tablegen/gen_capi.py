"""capi/src/io.rs, capi/src/public.rs, src/editor/mod.rs, src/editor/zhuyin_layout/mod.rs,
src/editor/keyboard/mod.rs  ->  Gen/Capi_gen.v        (property C16)

Generated (literal tables and constants only; the logic is modelled by hand in
Model/Config.v and tied behaviourally by the c16 correspondence):
  * io.rs constants OK/ERROR/TRUE/FALSE, public.rs constants (mode constants, MAX_SELKEY, buffer limits)
  * option-name lists of chewing_config_has_option / get_int / set_int / get_str / set_str
  * per option of set_int: the field written and the literal acceptance check
      - `ensure_bool!(value)` options + the literal patterns of the macro
      - `if <cond> { return ERROR }` options: <cond> transcribed as a Coq boolean over Z
      - `match value { K => Enum::V, .. }` options: (K, discriminant of V) rows
      - conversion_engine: (K, engine kind, installed engine, lookup strategy) rows
    whether `ctx.editor.set_editor_options(options)` follows the match, the global `value < 0` guard
  * per option of get_int: the field read, and for enum-valued options the (discriminant, K) rows
  * legacy aliases chewing_set_X / chewing_get_X: the function forwarded to and the option literal
  * the TWO keyboard tables (match in chewing_config_set_str / match in chewing_set_KBType) as rows
      (KeyboardLayoutCompat discriminant, keyboard constructor, syllable editor constructor)
  * KeyboardLayoutCompat order and its FromStr / Display / TryFrom<u8> tables
  * enum orders (LanguageMode, CharacterForm, UserPhraseAddDirection, ConversionEngineKind, LookupStrategy),
    EditorOptions::default, the initial context of chewing_new2 (kb_compat, keyboard, selection keys),
    Editor::new's initial syllable editor."""
import re
from rsparse import (read, enum_variants, fn_body, match_arms, impl_body, balanced, split_top,
                     int_lit, coq_list, TablegenError)


# ------------------------------------------------------------------ helpers

def coq_str(s: str) -> str:
    if '"' in s or "\\" in s or any(ord(ch) < 32 or ord(ch) > 126 for ch in s):
        raise TablegenError("string %r cannot be written as a plain Coq string literal" % s)
    return '"%s"' % s


def coq_z(n: int) -> str:
    return "(%d)" % n if n < 0 else "%d" % n


def str_lit(s: str) -> str:
    s = s.strip()
    m = re.match(r'^c?"((?:[^"\\]|\\.)*)"$', s)
    if not m:
        raise TablegenError("not a string literal: %r" % s)
    if "\\" in m.group(1):
        raise TablegenError("escape in string literal %r" % s)
    return m.group(1)


def consts_of(src: str):
    """`const NAME: T = expr;` with integer literals, references to earlier/later constants, + and -"""
    raw = {}
    for m in re.finditer(r"\bconst\s+([A-Z][A-Z0-9_]*)\s*:\s*([A-Za-z0-9_]+)\s*=\s*([^;]+);", src):
        raw[m.group(1)] = (m.group(2), m.group(3).strip())
    out = {}

    def ev(name, depth=0):
        if name in out:
            return out[name]
        if name not in raw or depth > 10:
            raise TablegenError("constant %s not found" % name)
        expr = raw[name][1]
        toks = re.findall(r"[A-Za-z_][A-Za-z0-9_]*|-?\d[\d_]*|[+\-]", expr)
        if "".join(toks).replace(" ", "") != expr.replace(" ", ""):
            raise TablegenError("constant %s: unsupported expression %r" % (name, expr))
        val, sign, first = 0, 1, True
        for t in toks:
            if t == "+":
                sign = 1
            elif t == "-" and not first:
                sign = -1
            else:
                v = int_lit(t) if re.match(r"^-?\d", t) else ev(t, depth + 1)
                val += sign * v
                sign = 1
            first = False
        out[name] = val
        return val

    for k in raw:
        try:
            ev(k)
        except TablegenError:
            pass  # constants with shapes we do not need
    return out


def value_of(tok: str, consts) -> int:
    tok = tok.strip()
    if re.match(r"^-?\d", tok):
        return int_lit(tok)
    if tok in consts:
        return consts[tok]
    raise TablegenError("unknown integer constant %r" % tok)


def name_match(body: str):
    """the `match name.as_ref() { "chewing.x" => ..., _ => ... }` of a config function"""
    return match_arms(body, r"name\.as_ref\(\)")


def cond_to_coq(cond: str, consts) -> str:
    """Rust boolean over `value` -> Coq boolean over (value : Z).  Supports ||, &&, !, parentheses,
    value <op> K, K <op> value, (A..=B).contains(&value), (A..B).contains(&value)."""
    cond = cond.strip()
    parts = split_top_op(cond, "||")
    if len(parts) > 1:
        return "(" + " || ".join(cond_to_coq(p, consts) for p in parts) + ")"
    parts = split_top_op(cond, "&&")
    if len(parts) > 1:
        return "(" + " && ".join(cond_to_coq(p, consts) for p in parts) + ")"
    if cond.startswith("!"):
        return "(negb %s)" % cond_to_coq(cond[1:], consts)
    m = re.match(r"^\(\s*(\S+?)\s*\.\.(=?)\s*(\S+?)\s*\)\s*\.contains\(\s*&value\s*\)$", cond)
    if m:
        lo, hi = value_of(m.group(1), consts), value_of(m.group(3), consts)
        return "((%s <=? value) && (value %s %s))" % (coq_z(lo), "<=?" if m.group(2) else "<?", coq_z(hi))
    if cond.startswith("(") and balanced(cond, 0, "(", ")") == len(cond):
        return cond_to_coq(cond[1:-1], consts)
    m = re.match(r"^(\S+)\s*(==|!=|<=|>=|<|>)\s*(\S+)$", cond)
    if m:
        a, op, b = m.group(1), m.group(2), m.group(3)
        ca = "value" if a == "value" else coq_z(value_of(a, consts))
        cb = "value" if b == "value" else coq_z(value_of(b, consts))
        if "value" not in (ca, cb):
            raise TablegenError("condition %r does not mention value" % cond)
        ops = {"==": "=?", "<=": "<=?", ">=": ">=?", "<": "<?", ">": ">?"}
        if op == "!=":
            return "(negb (%s =? %s))" % (ca, cb)
        return "(%s %s %s)" % (ca, ops[op], cb)
    raise TablegenError("unsupported range condition %r" % cond)


def split_top_op(s: str, op: str):
    parts, depth, cur, i = [], 0, [], 0
    while i < len(s):
        c = s[i]
        if c in "([{":
            depth += 1
        elif c in ")]}":
            depth -= 1
        if depth == 0 and s.startswith(op, i):
            parts.append("".join(cur))
            cur = []
            i += len(op)
            continue
        cur.append(c)
        i += 1
    parts.append("".join(cur))
    return [p.strip() for p in parts]


def strip_block(expr: str) -> str:
    expr = expr.strip()
    if expr.startswith("{") and balanced(expr, 0, "{", "}") == len(expr):
        return expr[1:-1].strip()
    return expr


def variant(expr: str, enum: str, orders) -> int:
    expr = expr.strip().rstrip(",").strip()
    m = re.match(r"^%s::([A-Za-z0-9_]+)$" % re.escape(enum), expr)
    if not m or m.group(1) not in orders[enum]:
        raise TablegenError("expected a variant of %s, found %r" % (enum, expr))
    return orders[enum].index(m.group(1))


FIELD_ENUM = {"user_phrase_add_dir": "UserPhraseAddDirection", "language_mode": "LanguageMode",
              "character_form": "CharacterForm", "conversion_engine": "ConversionEngineKind",
              "lookup_strategy": "LookupStrategy"}


# ------------------------------------------------------------------ set_int / get_int

def read_set_int(io: str, consts, orders):
    body, _ = fn_body(io, "chewing_config_set_int")
    m = re.search(r"if\s+([^{]+?)\s*\{\s*return\s+ERROR\s*;\s*\}\s*let\s+mut\s+options", body)
    if not m:
        raise TablegenError("set_int: global `if <cond> { return ERROR; }` guard before `let mut options` not found")
    global_reject = cond_to_coq(m.group(1), consts)
    m = re.search(r"macro_rules!\s*ensure_bool\s*\{", body)
    if not m:
        raise TablegenError("set_int: ensure_bool! macro not found")
    mac = body[m.end() - 1:balanced(body, m.end() - 1, "{", "}")]
    arms = match_arms(mac, r"\$expr")
    bool_values = []
    for pat, expr in arms:
        if pat == "_":
            if "return ERROR" not in expr:
                raise TablegenError("ensure_bool!: default arm does not return ERROR")
            continue
        if strip_block(expr) != "":
            raise TablegenError("ensure_bool!: accepting arm is not empty: %r" % expr)
        bool_values += [value_of(p, consts) for p in pat.split("|")]
    mm = re.search(r"\bmatch\s+name\.as_ref\(\)\s*\{", body)
    if not mm:
        raise TablegenError("set_int: match on name not found")
    end = balanced(body, mm.end() - 1, "{", "}")
    tail = body[end:]
    calls_set_options = bool(re.search(r"ctx\s*\.\s*editor\s*\.\s*set_editor_options\s*\(\s*options\s*\)", tail))
    names, fields, bools, ranges, enums, engine = [], [], [], {}, {}, None
    default_err = False
    for pat, expr in name_match(body):
        if pat == "_":
            default_err = "return ERROR" in expr
            continue
        name = str_lit(pat)
        names.append(name)
        e = strip_block(expr)
        # (a) match value { K => options.F = Enum::V, ..., _ => return ERROR }
        m1 = re.match(r"^match\s+value\s*\{", e)
        # (d) options.F = match value { K => Enum::V | { ...; Enum::V }, _ => return ERROR }
        m4 = re.match(r"^options\s*\.\s*([a-z_]+)\s*=\s*match\s+value\s*\{", e)
        if m1:
            rows, field = [], None
            for p, x in match_arms(e, "value"):
                if p == "_":
                    if "return ERROR" not in x:
                        raise TablegenError("set_int %s: default arm does not return ERROR" % name)
                    continue
                mx = re.match(r"^options\s*\.\s*([a-z_]+)\s*=\s*(.+)$", x.strip())
                if not mx or (field and mx.group(1) != field):
                    raise TablegenError("set_int %s: unexpected arm %r" % (name, x))
                field = mx.group(1)
                for pp in p.split("|"):
                    rows.append((value_of(pp, consts), variant(mx.group(2), FIELD_ENUM[field], orders)))
            fields.append((name, field))
            enums[name] = rows
        elif m4:
            field = m4.group(1)
            rows, eng_rows = [], []
            for p, x in match_arms(e, "value"):
                if p == "_":
                    if "return ERROR" not in x:
                        raise TablegenError("set_int %s: default arm does not return ERROR" % name)
                    continue
                xb = strip_block(x)
                stmts = [s.strip() for s in split_top(xb, ";") if s.strip()]
                v = variant(stmts[-1], FIELD_ENUM[field], orders)
                extra = stmts[:-1]
                for pp in p.split("|"):
                    k = value_of(pp, consts)
                    rows.append((k, v))
                    if extra:
                        inst, strat = None, None
                        for s in extra:
                            s1 = re.sub(r"\s+", "", s)
                            ma = re.match(r"^ctx\.editor\.set_conversion_engine\(Box::new\(([A-Za-z0-9_]+)::new\(\)\)\)$", s1)
                            mb = re.match(r"^options\.lookup_strategy=(LookupStrategy::[A-Za-z0-9_]+)$", s1)
                            if ma:
                                inst = ma.group(1)
                            elif mb:
                                strat = variant(mb.group(1), "LookupStrategy", orders)
                            else:
                                raise TablegenError("set_int %s: unexpected statement %r" % (name, s))
                        if inst is None or strat is None or inst not in orders["ConversionEngineKind"]:
                            raise TablegenError("set_int %s: engine arm without engine/strategy: %r" % (name, xb))
                        eng_rows.append((k, v, orders["ConversionEngineKind"].index(inst), strat))
            fields.append((name, field))
            if eng_rows:
                if len(eng_rows) != len(rows) or engine is not None:
                    raise TablegenError("set_int %s: mixed engine arms" % name)
                engine = (name, eng_rows)
            else:
                enums[name] = rows
        elif "ensure_bool!" in e:
            stmts = [re.sub(r"\s+", "", s) for s in split_top(e, ";") if s.strip()]
            if len(stmts) != 2 or stmts[0] != "ensure_bool!(value)":
                raise TablegenError("set_int %s: unexpected bool arm %r" % (name, e))
            mx = re.match(r"^options\.([a-z_]+)=value>0$", stmts[1])
            if not mx:
                raise TablegenError("set_int %s: unexpected bool assignment %r" % (name, stmts[1]))
            fields.append((name, mx.group(1)))
            bools.append(name)
        else:
            mx = re.match(r"^if\s+(.+?)\s*\{\s*return\s+ERROR\s*;?\s*\}\s*options\s*\.\s*([a-z_]+)\s*=\s*value\s+as\s+usize\s*;?$", e, re.S)
            if not mx:
                raise TablegenError("set_int %s: unsupported arm %r" % (name, e))
            fields.append((name, mx.group(2)))
            ranges[name] = cond_to_coq(mx.group(1), consts)
    if not default_err:
        raise TablegenError("set_int: unknown names do not return ERROR")
    if engine is None:
        raise TablegenError("set_int: conversion engine arm not found")
    return dict(global_reject=global_reject, bool_values=bool_values, names=names, fields=fields, bools=bools,
                ranges=ranges, enums=enums, engine=engine, calls_set_options=calls_set_options)


def read_get_int(io: str, consts, orders):
    body, _ = fn_body(io, "chewing_config_get_int")
    names, fields, enums = [], [], {}
    default = None
    for pat, expr in name_match(body):
        if pat == "_":
            default = expr.strip()
            continue
        name = str_lit(pat)
        names.append(name)
        e = expr.strip()
        m = re.match(r"^option\s*\.\s*([a-z_]+)\s+as\s+c_int$", e)
        if m:
            fields.append((name, m.group(1)))
            continue
        m = re.match(r"^match\s+option\s*\.\s*([a-z_]+)\s*\{", e)
        if not m:
            raise TablegenError("get_int %s: unsupported arm %r" % (name, e))
        field = m.group(1)
        rows = []
        for p, x in match_arms(e, r"option\s*\.\s*[a-z_]+"):
            rows.append((variant(p, FIELD_ENUM[field], orders), value_of(x, consts)))
        fields.append((name, field))
        enums[name] = rows
    if default != "ERROR":
        raise TablegenError("get_int: unknown names do not return ERROR")
    return dict(names=names, fields=fields, enums=enums)


def read_has_option(io: str):
    body, _ = fn_body(io, "chewing_config_has_option")
    m = re.search(r"matches!\s*\(", body)
    if not m:
        raise TablegenError("has_option: matches! not found")
    inner = body[m.end():balanced(body, m.end() - 1, "(", ")") - 1]
    parts = split_top(inner, ",")
    if len(parts) < 2 or re.sub(r"\s+", "", parts[0]) != "name.as_ref()":
        raise TablegenError("has_option: unexpected matches! shape")
    return [str_lit(p) for p in ",".join(parts[1:]).split("|") if p.strip()]


# ------------------------------------------------------------------ keyboard tables

def kb_rows(match_src: str, scrutinee: str, kbvars, ctor_variant):
    rows = {}
    for pat, expr in match_arms(match_src, scrutinee):
        e = re.sub(r"\s+", "", expr).rstrip(",")
        m = re.match(r"^\(AnyKeyboardLayout::([a-z_0-9]+)\(\),Box::new\(([A-Za-z0-9_]+)::([a-z_0-9]+)\(\)\),?\)$", e)
        if not m:
            raise TablegenError("keyboard table: unexpected row %r => %r" % (pat, expr))
        if m.group(1) not in ctor_variant:
            raise TablegenError("keyboard table: unknown AnyKeyboardLayout constructor %s" % m.group(1))
        row = (ctor_variant[m.group(1)], "%s::%s" % (m.group(2), m.group(3)))
        pats = [p.strip() for p in pat.split("|")]
        for p in pats:
            if p == "_":
                for i in range(len(kbvars)):
                    rows.setdefault(i, row)
                continue
            mm = re.match(r"^(?:KB|KeyboardLayoutCompat)::([A-Za-z0-9_]+)$", p)
            if not mm or mm.group(1) not in kbvars:
                raise TablegenError("keyboard table: unknown layout %r" % p)
            i = kbvars.index(mm.group(1))
            if i in rows:
                raise TablegenError("keyboard table: duplicate row for %s" % p)
            rows[i] = row
    if sorted(rows) != list(range(len(kbvars))):
        raise TablegenError("keyboard table does not cover every KeyboardLayoutCompat variant")
    return [(i, rows[i][0], rows[i][1]) for i in range(len(kbvars))]


def read_kb_tables(io: str, kbvars, ctor_variant):
    body, _ = fn_body(io, "chewing_config_set_str")
    arm = None
    for pat, expr in name_match(body):
        if pat != "_" and str_lit(pat) == "chewing.keyboard_type":
            arm = expr
    if arm is None:
        raise TablegenError("set_str: chewing.keyboard_type arm not found")
    by_name = kb_rows(arm, r"ctx\s*\.\s*kb_compat", kbvars, ctor_variant)
    body2, _ = fn_body(io, "chewing_set_KBType")
    by_number = kb_rows(body2, r"kb_compat", kbvars, ctor_variant)
    return by_name, by_number


# ------------------------------------------------------------------ aliases

def read_aliases(io: str):
    setters, getters = [], []
    for m in re.finditer(r"\bfn\s+(chewing_(set|get)_[A-Za-z0-9_]+)\s*\(", io):
        fname, kind = m.group(1), m.group(2)
        body, _ = fn_body(io, fname, m.start())
        b = re.sub(r"\s+", "", body)
        if kind == "set":
            mm = re.match(r'^unsafe\{(chewing_config_set_int)\(ctx,c"([^"]+)"\.as_ptr\(\)\.cast\(\),([a-z_]+),?\)\};?$', b)
        else:
            mm = re.match(r'^unsafe\{(chewing_config_get_int)\(ctx,c"([^"]+)"\.as_ptr\(\)\.cast\(\),?\)\}$', b)
        if mm:
            (setters if kind == "set" else getters).append((fname, mm.group(1), mm.group(2)))
    return setters, getters


# ------------------------------------------------------------------ main

def generate(repo: str):
    io = read(repo + "/capi/src/io.rs")
    pub = read(repo + "/capi/src/public.rs")
    ed = read(repo + "/src/editor/mod.rs")
    zl = read(repo + "/src/editor/zhuyin_layout/mod.rs")
    kbm = read(repo + "/src/editor/keyboard/mod.rs")
    dic = read(repo + "/src/dictionary/mod.rs")

    consts = consts_of(pub)
    consts.update(consts_of(io))
    for need in ("OK", "ERROR", "TRUE", "FALSE", "CHINESE_MODE", "SYMBOL_MODE", "FULLSHAPE_MODE", "HALFSHAPE_MODE",
                 "SIMPLE_CONVERSION_ENGINE", "CHEWING_CONVERSION_ENGINE", "FUZZY_CHEWING_CONVERSION_ENGINE",
                 "MAX_SELKEY", "MIN_SELKEY", "MAX_CHI_SYMBOL_LEN", "MIN_CHI_SYMBOL_LEN", "MAX_PHONE_SEQ_LEN", "MAX_PHRASE_LEN",
                 "AUTOLEARN_DISABLED", "AUTOLEARN_ENABLED"):
        if need not in consts:
            raise TablegenError("constant %s not found" % need)

    orders = {}
    for en in ("LanguageMode", "CharacterForm", "UserPhraseAddDirection", "ConversionEngineKind"):
        orders[en] = [v for v, _ in enum_variants(ed, en)]
    orders["LookupStrategy"] = [v for v, _ in enum_variants(dic, "LookupStrategy")]

    # KeyboardLayoutCompat
    kbv = enum_variants(zl, "KeyboardLayoutCompat")
    kbvars, nxt = [], 0
    for v, d in kbv:
        if d is not None:
            nxt = int_lit(d)
        if nxt != len(kbvars):
            raise TablegenError("KeyboardLayoutCompat discriminants are not 0..n-1 in order")
        kbvars.append(v)
        nxt += 1
    b = impl_body(zl, r"impl\s+FromStr\s+for\s+KeyboardLayoutCompat")
    from_str = []
    for pat, expr in match_arms(b, "kb_str"):
        if pat == "_":
            continue
        m = re.match(r"^Self::([A-Za-z0-9_]+)$", expr.strip())
        if not m:
            raise TablegenError("FromStr: unexpected arm %r" % expr)
        from_str.append((str_lit(pat), kbvars.index(m.group(1))))
    b = impl_body(zl, r"impl\s+Display\s+for\s+KeyboardLayoutCompat")
    display = {}
    for pat, expr in match_arms(b, "self"):
        m = re.match(r"^KeyboardLayoutCompat::([A-Za-z0-9_]+)$", pat.strip())
        mm = re.match(r'^f\.write_str\(("[^"]*")\)$', re.sub(r"\s+", "", expr))
        if not m or not mm:
            raise TablegenError("Display: unexpected arm %r => %r" % (pat, expr))
        display[kbvars.index(m.group(1))] = str_lit(mm.group(1))
    if sorted(display) != list(range(len(kbvars))):
        raise TablegenError("Display does not cover every KeyboardLayoutCompat variant")
    b = impl_body(zl, r"impl\s+TryFrom<u8>\s+for\s+KeyboardLayoutCompat")
    try_from = []
    for pat, expr in match_arms(b, "value"):
        if pat == "_":
            continue
        m = re.match(r"^Self::([A-Za-z0-9_]+)$", expr.strip())
        if not m:
            raise TablegenError("TryFrom<u8>: unexpected arm %r" % expr)
        try_from.append((int_lit(pat), kbvars.index(m.group(1))))

    # AnyKeyboardLayout constructors -> variant
    m0 = re.search(r"\benum\s+AnyKeyboardLayout\s*\{", kbm)
    if not m0:
        raise TablegenError("enum AnyKeyboardLayout not found")
    anyv = []
    for part in split_top(kbm[m0.end():balanced(kbm, m0.end() - 1, "{", "}") - 1], ","):
        part = re.sub(r"#\[[^\]]*\]", "", part).strip()
        if not part:
            continue
        mv = re.match(r"^([A-Za-z_][A-Za-z0-9_]*)\s*(\(.*\))?$", part, re.S)
        if not mv:
            raise TablegenError("enum AnyKeyboardLayout: cannot read variant %r" % part)
        anyv.append(mv.group(1))
    ib = impl_body(kbm, r"impl\s+AnyKeyboardLayout")
    ctor_variant = {}
    for m in re.finditer(r"\bfn\s+([a-z_0-9]+)\s*\(\s*\)\s*->\s*AnyKeyboardLayout\s*\{\s*AnyKeyboardLayout::([A-Za-z0-9_]+)\(", ib):
        if m.group(2) not in anyv:
            raise TablegenError("AnyKeyboardLayout::%s: unknown variant" % m.group(2))
        ctor_variant[m.group(1)] = m.group(2)

    by_name, by_number = read_kb_tables(io, kbvars, ctor_variant)
    si = read_set_int(io, consts, orders)
    gi = read_get_int(io, consts, orders)
    has = read_has_option(io)
    body, _ = fn_body(io, "chewing_config_get_str")
    get_str = [str_lit(p) for p, _ in name_match(body) if p != "_"]
    body, _ = fn_body(io, "chewing_config_set_str")
    set_str = [str_lit(p) for p, _ in name_match(body) if p != "_"]
    setters, getters = read_aliases(io)

    # EditorOptions::default
    b = impl_body(ed, r"impl\s+Default\s+for\s+EditorOptions")
    db, _ = fn_body(b, "default")
    m = re.search(r"Self\s*\{", db)
    if not m:
        raise TablegenError("EditorOptions::default: Self { .. } not found")
    inner = db[m.end():balanced(db, m.end() - 1, "{", "}") - 1]
    defaults = {}
    for part in split_top(inner, ","):
        if ":" not in part:
            continue
        k, v = part.split(":", 1)
        k, v = k.strip(), v.strip()
        if v in ("true", "false"):
            defaults[k] = ("bool", v == "true")
        elif re.match(r"^\d+$", v):
            defaults[k] = ("int", int(v))
        elif k in FIELD_ENUM:
            defaults[k] = ("enum", variant(v, FIELD_ENUM[k], orders))
        else:
            raise TablegenError("EditorOptions::default: unsupported field %s: %r" % (k, v))

    # chewing_new2 initial context
    nb, _ = fn_body(io, "chewing_new2")
    m = re.search(r"let\s+kb_compat\s*=\s*KeyboardLayoutCompat::([A-Za-z0-9_]+)\s*;", nb)
    m2 = re.search(r"let\s+keyboard\s*=\s*AnyKeyboardLayout::([A-Za-z0-9_]+)\(", nb)
    m3 = re.search(r"SelKeys\s*\(\s*\[", nb)
    m4 = re.search(r"let\s+conversion_engine\s*=\s*Box::new\(\s*([A-Za-z0-9_]+)::new\(\)\s*\)", nb)
    if not (m and m2 and m3 and m4) or m2.group(1) not in anyv or m4.group(1) not in orders["ConversionEngineKind"]:
        raise TablegenError("chewing_new2: initial kb_compat / keyboard / sel_keys / conversion engine not found")
    selb = nb[m3.end():balanced(nb, m3.end() - 1, "[", "]") - 1]
    init_sel = []
    for p in split_top(selb, ","):
        p = p.strip()
        if not p:
            continue
        mm = re.match(r"^b'(.)'\s+as\s+i32$", p)
        if not mm:
            raise TablegenError("chewing_new2: unexpected selection key %r" % p)
        init_sel.append(ord(mm.group(1)))
    eb, _ = fn_body(ed, "new", ed.find("impl Editor"))
    m5 = re.search(r"syl\s*:\s*Box::new\(\s*([A-Za-z0-9_]+)::([a-z_0-9]+)\(\)\s*\)", eb)
    if not m5:
        raise TablegenError("Editor::new: initial syllable editor not found")

    short = lambda n: n.split(".", 1)[1] if n.startswith("chewing.") else n  # noqa: E731
    o = []
    o.append("(* GENERATED by tablegen/gen_capi.py from capi/src/io.rs, capi/src/public.rs, src/editor/mod.rs,")
    o.append("   src/editor/zhuyin_layout/mod.rs, src/editor/keyboard/mod.rs - do not edit *)")
    o.append("From Coq Require Import ZArith NArith List String Bool.")
    o.append("Import ListNotations.")
    o.append("Open Scope string_scope.")
    o.append("Open Scope Z_scope.")
    o.append("")
    o.append("(* constants of io.rs and public.rs *)")
    for k in sorted(consts):
        o.append("Definition c_%s : Z := %s." % (k, coq_z(consts[k])))
    o.append("")
    o.append("(* enum orders (a value is its discriminant) *)")
    for en in sorted(orders):
        o.append("Definition enum_%s : list string := %s." % (en, coq_list([coq_str(v) for v in orders[en]], 6)))
        for i, v in enumerate(orders[en]):
            o.append("Definition %s_%s : N := %d%%N." % (en, v, i))
    o.append("")
    o.append("(* option-name lists, in source order *)")
    o.append("Definition has_option_names : list string :=\n  %s." % coq_list([coq_str(n) for n in has], 3))
    o.append("Definition get_int_names : list string :=\n  %s." % coq_list([coq_str(n) for n in gi["names"]], 3))
    o.append("Definition set_int_names : list string :=\n  %s." % coq_list([coq_str(n) for n in si["names"]], 3))
    o.append("Definition get_str_names : list string := %s." % coq_list([coq_str(n) for n in get_str], 3))
    o.append("Definition set_str_names : list string := %s." % coq_list([coq_str(n) for n in set_str], 3))
    o.append("")
    o.append("(* chewing_config_set_int *)")
    o.append("Definition set_int_global_reject (value : Z) : bool := %s." % si["global_reject"])
    o.append("Definition set_int_calls_set_editor_options : bool := %s." % ("true" if si["calls_set_options"] else "false"))
    o.append("Definition ensure_bool_values : list Z := %s." % coq_list([coq_z(v) for v in si["bool_values"]]))
    o.append("Definition set_int_bool_names : list string :=\n  %s." % coq_list([coq_str(n) for n in si["bools"]], 3))
    o.append("Definition set_int_fields : list (string * string) :=\n  %s." %
             coq_list(["(%s, %s)" % (coq_str(n), coq_str(f)) for n, f in si["fields"]], 2))
    for n, c in si["ranges"].items():
        o.append("Definition set_int_reject_%s (value : Z) : bool := %s." % (short(n), c))
    for n, rows in si["enums"].items():
        o.append("Definition set_int_enum_%s : list (Z * N) := %s." %
                 (short(n), coq_list(["(%s, %d%%N)" % (coq_z(k), v) for k, v in rows], 6)))
    o.append("(* value -> (ConversionEngineKind stored, engine installed, LookupStrategy stored) *)")
    o.append("Definition set_int_engine_name : string := %s." % coq_str(si["engine"][0]))
    o.append("Definition set_int_engine : list (Z * (N * (N * N))) := %s." %
             coq_list(["(%s, (%d%%N, (%d%%N, %d%%N)))" % (coq_z(k), a, b2, c) for k, a, b2, c in si["engine"][1]], 3))
    o.append("")
    o.append("(* chewing_config_get_int *)")
    o.append("Definition get_int_fields : list (string * string) :=\n  %s." %
             coq_list(["(%s, %s)" % (coq_str(n), coq_str(f)) for n, f in gi["fields"]], 2))
    for n, rows in gi["enums"].items():
        o.append("Definition get_int_enum_%s : list (N * Z) := %s." %
                 (short(n), coq_list(["(%d%%N, %s)" % (v, coq_z(k)) for v, k in rows], 6)))
    o.append("")
    o.append("(* legacy aliases: (alias, function forwarded to, option literal) *)")
    o.append("Definition legacy_setters : list (string * (string * string)) :=\n  %s." %
             coq_list(["(%s, (%s, %s))" % (coq_str(a), coq_str(f), coq_str(n)) for a, f, n in setters], 1))
    o.append("Definition legacy_getters : list (string * (string * string)) :=\n  %s." %
             coq_list(["(%s, (%s, %s))" % (coq_str(a), coq_str(f), coq_str(n)) for a, f, n in getters], 1))
    o.append("")
    o.append("(* enum KeyboardLayoutCompat, declaration order = discriminant *)")
    o.append("Definition n_kb : N := %d%%N." % len(kbvars))
    o.append("Definition kb_variants : list string := %s." % coq_list([coq_str(v) for v in kbvars], 6))
    for i, v in enumerate(kbvars):
        o.append("Definition KB_%s : N := %d%%N." % (v, i))
    o.append("(* FromStr: (name, discriminant) in source order *)")
    o.append("Definition kb_from_str : list (string * N) :=\n  %s." %
             coq_list(["(%s, %d%%N)" % (coq_str(s), d) for s, d in from_str], 4))
    o.append("(* Display: indexed by discriminant *)")
    o.append("Definition kb_display : list string :=\n  %s." % coq_list([coq_str(display[i]) for i in range(len(kbvars))], 4))
    o.append("(* TryFrom<u8>: (number, discriminant) in source order *)")
    o.append("Definition kb_try_from_u8 : list (N * N) :=\n  %s." %
             coq_list(["(%d%%N, %d%%N)" % (n, d) for n, d in try_from], 6))
    o.append("")
    o.append("(* the two keyboard-layout tables: discriminant -> (AnyKeyboardLayout variant, syllable editor constructor) *)")
    o.append("Definition any_keyboard_variants : list string := %s." % coq_list([coq_str(v) for v in anyv], 6))
    for nm, rows in (("kb_table_by_name", by_name), ("kb_table_by_number", by_number)):
        o.append("Definition %s : list (N * (string * string)) :=\n  %s." %
                 (nm, coq_list(["(%d%%N, (%s, %s))" % (i, coq_str(k), coq_str(s)) for i, k, s in rows], 2)))
    o.append("")
    o.append("(* EditorOptions::default, chewing_new2, Editor::new *)")
    for k in sorted(defaults):
        kind, v = defaults[k]
        if kind == "bool":
            o.append("Definition default_%s : bool := %s." % (k, "true" if v else "false"))
        elif kind == "int":
            o.append("Definition default_%s : Z := %d." % (k, v))
        else:
            o.append("Definition default_%s : N := %d%%N." % (k, v))
    o.append("Definition init_kb_compat : N := %d%%N." % kbvars.index(m.group(1)))
    o.append("Definition init_keyboard : string := %s." % coq_str(m2.group(1)))
    o.append("Definition init_syllable_editor : string := %s." % coq_str("%s::%s" % (m5.group(1), m5.group(2))))
    o.append("Definition init_engine_installed : N := %d%%N." % orders["ConversionEngineKind"].index(m4.group(1)))
    o.append("Definition init_sel_keys : list Z := %s." % coq_list([str(k) for k in init_sel]))
    o.append("")
    side = {"consts": consts, "kb_variants": kbvars, "by_name": by_name, "by_number": by_number,
            "set_int": {"names": si["names"], "fields": si["fields"], "bools": si["bools"], "ranges": si["ranges"],
                        "enums": si["enums"], "engine": si["engine"][1]},
            "get_int": gi, "has_option": has, "legacy_setters": setters, "legacy_getters": getters,
            "defaults": {k: v[1] for k, v in defaults.items()}, "init_sel_keys": init_sel}
    return {"Capi_gen.v": "\n".join(o) + "\n"}, side
