"""src/editor/keyboard/*.rs -> Gen/Keyboard_gen.v   (shared by C14, C16, C18)

Generated (literal tables only; generic_map_keycode / DvorakOnQwerty / map_ascii
logic is modelled by hand in Model/Keyboard.v):

  * enum KeyCode / KeyIndex in declaration order (a value is its discriminant),
  * MATRIX_SIZE, INDEX_MAP (matrix position -> KeyIndex),
  * per keyboard file that has them: KEYCODE_INDEX (position -> KeyCode),
    UNICODE_MAP, SHIFT_MAP (position -> Unicode scalar value),
  * KEYCODE_MAP and NUMLOCK_MAP (ASCII byte -> (KeyCode, Modifiers)), with the
    Modifiers constructors read from `impl Modifiers`,
  * the AnyKeyboardLayout variant order (keyboard ids) and which keyboards are
    table keyboards (own KEYCODE_INDEX/UNICODE_MAP/SHIFT_MAP) vs. remapping ones.

Modifiers are encoded as a bit mask: shift=1, ctrl=2, capslock=4, numlock=8."""
import os
import re
from rsparse import (read, enum_variants, const_array, char_lit, int_lit, coq_list, balanced, split_top,
                     fn_body, impl_body, TablegenError)

# AnyKeyboardLayout variant -> source file (module) name
def snake(name):
    return re.sub(r"(?<!^)(?=[A-Z])", "_", name).lower()


MOD_BITS = {"shift": 1, "ctrl": 2, "capslock": 4, "numlock": 8}


def enum_discriminants(src, name):
    """variants in order with their discriminants (explicit `= n` honoured)"""
    out = []
    nxt = 0
    for v, d in enum_variants(src, name):
        if d is not None:
            nxt = int_lit(d)
        out.append((v, nxt))
        nxt += 1
    return out


def struct_literal_mask(expr):
    """Modifiers { shift: true, ctrl: false, ... } -> bit mask"""
    m = re.search(r"Modifiers\s*\{([^}]*)\}", expr)
    if not m:
        raise TablegenError("not a Modifiers literal: %r" % expr)
    mask = 0
    seen = set()
    for part in m.group(1).split(","):
        part = part.strip()
        if not part:
            continue
        k, _, v = part.partition(":")
        k, v = k.strip(), v.strip()
        if k not in MOD_BITS or v not in ("true", "false"):
            raise TablegenError("Modifiers literal: unexpected field %r" % part)
        seen.add(k)
        if v == "true":
            mask |= MOD_BITS[k]
    if seen != set(MOD_BITS):
        raise TablegenError("Modifiers literal does not set all four fields: %r" % expr)
    return mask


def modifier_constructors(src):
    body = impl_body(src, r"impl\s+Modifiers")
    ctors = {}
    for m in re.finditer(r"\bfn\s+([a-z_]+)\s*\(\s*\)\s*->\s*Modifiers", body):
        fb, _ = fn_body(body, m.group(1))
        ctors[m.group(1)] = struct_literal_mask(fb)
    if "new" not in ctors or "shift" not in ctors:
        raise TablegenError("Modifiers::new/shift not found")
    return ctors


def modifiers_value(expr, ctors):
    expr = expr.strip()
    m = re.match(r"^Modifiers::([a-z_]+)\(\)$", expr)
    if m:
        if m.group(1) == "default":
            return 0
        if m.group(1) not in ctors:
            raise TablegenError("unknown Modifiers constructor %r" % expr)
        return ctors[m.group(1)]
    return struct_literal_mask(expr)


def byte_lit(s):
    s = s.strip()
    if not s.startswith("b'"):
        raise TablegenError("not a byte literal: %r" % s)
    return char_lit(s[1:])


def ascii_map(src, name, code_disc, ctors):
    m = re.search(r"\bstatic\s+%s\s*:[^=]*=\s*keycode_map!\s*\{" % name, src)
    if not m:
        raise TablegenError("static %s = keycode_map!{..} not found" % name)
    end = balanced(src, m.end() - 1, "{", "}")
    body = src[m.end():end - 1]
    declared = re.search(r"\bstatic\s+%s\s*:\s*\[[^;]*;\s*(\d+)\s*\]" % name, src)
    out = []
    for part in split_top(body, ","):
        part = part.strip()
        if not part:
            continue
        k, _, v = part.partition("=>")
        v = v.strip()
        if not (v.startswith("(") and v.endswith(")")):
            raise TablegenError("%s: unexpected entry %r" % (name, part))
        fields = split_top(v[1:-1], ",")
        if len(fields) != 2:
            raise TablegenError("%s: unexpected entry %r" % (name, part))
        code = fields[0].strip().replace("KeyCode::", "")
        if code not in code_disc:
            raise TablegenError("%s: unknown KeyCode %r" % (name, code))
        out.append((byte_lit(k), code_disc[code], modifiers_value(fields[1], ctors)))
    if declared and int(declared.group(1)) != len(out):
        raise TablegenError("%s: declared length %s, read %d entries" % (name, declared.group(1), len(out)))
    return out


def generate(repo: str):
    kdir = repo + "/src/editor/keyboard"
    src = read(kdir + "/mod.rs")
    keycodes = enum_discriminants(src, "KeyCode")
    keyindexes = enum_discriminants(src, "KeyIndex")
    for nm, vs in (("KeyCode", keycodes), ("KeyIndex", keyindexes)):
        if [d for _, d in vs] != list(range(len(vs))):
            raise TablegenError("%s discriminants are not 0..n-1" % nm)
    code_disc = dict(keycodes)
    index_disc = dict(keyindexes)
    m = re.search(r"\bconst\s+MATRIX_SIZE\s*:\s*usize\s*=\s*([0-9_]+)\s*;", src)
    if not m:
        raise TablegenError("MATRIX_SIZE not found")
    matrix = int_lit(m.group(1))
    index_map = []
    for e in const_array(src, "INDEX_MAP"):
        e = e.replace("KeyIndex::", "")
        if e not in index_disc:
            raise TablegenError("INDEX_MAP: unknown %r" % e)
        index_map.append(index_disc[e])
    if len(index_map) != matrix:
        raise TablegenError("INDEX_MAP has %d entries, MATRIX_SIZE = %d" % (len(index_map), matrix))
    ctors = modifier_constructors(src)
    keycode_map = ascii_map(src, "KEYCODE_MAP", code_disc, ctors)
    numlock_map = ascii_map(src, "NUMLOCK_MAP", code_disc, ctors)

    m = re.search(r"\benum\s+AnyKeyboardLayout\s*\{", src)
    if not m:
        raise TablegenError("enum AnyKeyboardLayout not found")
    body = src[m.end():balanced(src, m.end() - 1, "{", "}") - 1]
    kbs = []
    for part in split_top(body, ","):
        part = re.sub(r"#\[[^\]]*\]", "", part).strip()
        if not part:
            continue
        mm = re.match(r"^([A-Za-z_][A-Za-z0-9_]*)\s*\(\s*([A-Za-z_][A-Za-z0-9_]*)\s*\)$", part)
        if not mm:
            raise TablegenError("AnyKeyboardLayout: cannot read variant %r" % part)
        kbs.append(mm.group(1))
    if not kbs:
        raise TablegenError("AnyKeyboardLayout has no variants")
    tables = {}
    remapping = []
    for kb in kbs:
        path = "%s/%s.rs" % (kdir, snake(kb))
        if not os.path.exists(path):
            raise TablegenError("keyboard source %s not found" % path)
        ksrc = read(path)
        if not re.search(r"\bstatic\s+KEYCODE_INDEX\b", ksrc):
            remapping.append(kb)
            continue
        ki = []
        for e in const_array(ksrc, "KEYCODE_INDEX"):
            e = e.replace("KeyCode::", "")
            if e not in code_disc:
                raise TablegenError("%s KEYCODE_INDEX: unknown %r" % (kb, e))
            ki.append(code_disc[e])
        um = [char_lit(e) for e in const_array(ksrc, "UNICODE_MAP")]
        sm = [char_lit(e) for e in const_array(ksrc, "SHIFT_MAP")]
        for nm, t in (("KEYCODE_INDEX", ki), ("UNICODE_MAP", um), ("SHIFT_MAP", sm)):
            if len(t) != matrix:
                raise TablegenError("%s %s has %d entries, MATRIX_SIZE = %d" % (kb, nm, len(t), matrix))
        if not re.search(r"generic_map_keycode\s*\(\s*&KEYCODE_INDEX\s*,\s*&UNICODE_MAP\s*,\s*&SHIFT_MAP\s*,\s*keycode\s*,\s*modifiers\s*\)", ksrc):
            raise TablegenError("%s: map_with_mod is not the generic table mapping" % kb)
        tables[kb] = (ki, um, sm)
    if remapping != ["DvorakOnQwerty"]:
        raise TablegenError("keyboards without own tables changed: %r (the hand model knows DvorakOnQwerty only)" % remapping)

    o = []
    o.append("(* GENERATED by tablegen/gen_keyboard.py from src/editor/keyboard/*.rs - do not edit.")
    o.append("   Shared by C14 / C16 / C18.  Conventions:")
    o.append("     - a KeyCode / KeyIndex value is its enum discriminant (an N);")
    o.append("     - a keyboard is its AnyKeyboardLayout variant number (kb_Qwerty = 0, ...);")
    o.append("     - modifiers are a bit mask: shift = 1, ctrl = 2, capslock = 4, numlock = 8;")
    o.append("     - characters are Unicode scalar values; 65533 (U+FFFD) marks a non-printable key.")
    o.append("   The mapping logic (generic_map_keycode, DvorakOnQwerty, map_ascii, map_ascii_numlock)")
    o.append("   is in Model/Keyboard.v:  map_keycode kb keycode mods, map_ascii kb byte, key_unicode ... *)")
    o.append("From Coq Require Import NArith List.")
    o.append("Import ListNotations.")
    o.append("Open Scope N_scope.")
    o.append("")
    o.append("Definition MATRIX_SIZE : N := %d." % matrix)
    o.append("Definition REPLACEMENT_CHAR : N := 65533.")
    o.append("Definition MOD_SHIFT : N := 1.")
    o.append("Definition MOD_CTRL : N := 2.")
    o.append("Definition MOD_CAPSLOCK : N := 4.")
    o.append("Definition MOD_NUMLOCK : N := 8.")
    o.append("")
    o.append("(* enum KeyCode in declaration order *)")
    o.append("Definition n_keycode : N := %d." % len(keycodes))
    for v, d in keycodes:
        o.append("Definition kc%s : N := %d." % (v, d))
    o.append("")
    o.append("(* enum KeyIndex in declaration order *)")
    o.append("Definition n_keyindex : N := %d." % len(keyindexes))
    for v, d in keyindexes:
        o.append("Definition ki%s : N := %d." % (v, d))
    o.append("")
    o.append("(* INDEX_MAP: matrix position -> KeyIndex *)")
    o.append("Definition index_map : list N :=\n  %s." % coq_list(map(str, index_map)))
    o.append("")
    o.append("(* enum AnyKeyboardLayout in declaration order *)")
    o.append("Definition n_keyboard : N := %d." % len(kbs))
    for i, kb in enumerate(kbs):
        o.append("Definition kb_%s : N := %d." % (kb, i))
    o.append("")
    for kb in kbs:
        if kb not in tables:
            continue
        ki, um, sm = tables[kb]
        s = snake(kb)
        o.append("(* %s.rs *)" % s)
        o.append("Definition %s_keycode_index : list N :=\n  %s." % (s, coq_list(map(str, ki))))
        o.append("Definition %s_unicode_map : list N :=\n  %s." % (s, coq_list(map(str, um))))
        o.append("Definition %s_shift_map : list N :=\n  %s." % (s, coq_list(map(str, sm))))
        o.append("")
    o.append("(* table keyboards: keyboard id -> (KEYCODE_INDEX, UNICODE_MAP, SHIFT_MAP).  The keyboards")
    o.append("   absent from this list remap keys by hand-modelled logic (DvorakOnQwerty). *)")
    o.append("Definition keyboard_tables : list (N * (list N * list N * list N)) :=")
    rows = ["(kb_%s, (%s_keycode_index, %s_unicode_map, %s_shift_map))" % (kb, snake(kb), snake(kb), snake(kb))
            for kb in kbs if kb in tables]
    o.append("  [" + ";\n   ".join(rows) + "].")
    o.append("")
    for nm, tab in (("keycode_map", keycode_map), ("numlock_map", numlock_map)):
        o.append("(* %s: (ASCII byte, (KeyCode, modifier mask)) in source order *)" % nm.upper())
        o.append("Definition %s : list (N * (N * N)) :=\n  %s." % (
            nm, coq_list(["(%d, (%d, %d))" % e for e in tab], 6)))
    o.append("")
    side = {"keycodes": [v for v, _ in keycodes], "keyindexes": [v for v, _ in keyindexes], "keyboards": kbs,
            "remapping": remapping, "keycode_map_len": len(keycode_map), "numlock_map_len": len(numlock_map)}
    return {"Keyboard_gen.v": "\n".join(o) + "\n"}, side
