"""Tiny Rust source readers used by tablegen (translator T1).

These are *not* a Rust parser: they locate a named item textually and read the
literal table out of it.  Every reader raises TablegenError when the item is not
found or does not have the expected literal shape, so a change the translator
cannot follow is reported (never silently skipped).  The tables they produce are
cross-checked behaviourally by the correspondence harness (T2).
"""
import re


class TablegenError(Exception):
    pass


def strip_comments(src: str) -> str:
    out = []
    i = 0
    n = len(src)
    while i < n:
        c = src[i]
        if src.startswith("//", i):
            j = src.find("\n", i)
            if j < 0:
                j = n
            i = j
        elif src.startswith("/*", i):
            j = src.find("*/", i + 2)
            if j < 0:
                raise TablegenError("unterminated block comment")
            i = j + 2
        elif c == '"':
            j = i + 1
            while j < n and src[j] != '"':
                if src[j] == "\\":
                    j += 1
                j += 1
            out.append(src[i:j + 1])
            i = j + 1
        elif c == "'":
            # char literal or lifetime
            m = re.match(r"'(\\.[^']*|[^'\\])'", src[i:])
            if m:
                out.append(m.group(0))
                i += len(m.group(0))
            else:
                out.append(c)
                i += 1
        else:
            out.append(c)
            i += 1
    return "".join(out)


def read(path: str) -> str:
    with open(path, encoding="utf-8") as f:
        return strip_comments(f.read())


def balanced(src: str, start: int, open_ch: str, close_ch: str) -> int:
    """src[start] == open_ch; return index just past the matching close."""
    assert src[start] == open_ch, (src[start:start + 20], open_ch)
    depth = 0
    i = start
    n = len(src)
    while i < n:
        c = src[i]
        if c == '"':
            j = i + 1
            while j < n and src[j] != '"':
                if src[j] == "\\":
                    j += 1
                j += 1
            i = j + 1
            continue
        if c == "'":
            m = re.match(r"'(\\.[^']*|[^'\\])'", src[i:])
            if m:
                i += len(m.group(0))
                continue
        if c == open_ch:
            depth += 1
        elif c == close_ch:
            depth -= 1
            if depth == 0:
                return i + 1
        i += 1
    raise TablegenError("unbalanced %s%s" % (open_ch, close_ch))


def enum_variants(src: str, name: str):
    m = re.search(r"\benum\s+%s\s*\{" % re.escape(name), src)
    if not m:
        raise TablegenError("enum %s not found" % name)
    end = balanced(src, m.end() - 1, "{", "}")
    body = src[m.end():end - 1]
    body = re.sub(r"#\[[^\]]*\]", "", body)
    vs = []
    for part in split_top(body, ","):
        part = part.strip()
        if not part:
            continue
        mm = re.match(r"^([A-Za-z_][A-Za-z0-9_]*)\s*(=\s*(.+))?$", part, re.S)
        if not mm:
            raise TablegenError("enum %s: cannot read variant %r" % (name, part))
        vs.append((mm.group(1), mm.group(3).strip() if mm.group(3) else None))
    return vs


def split_top(s: str, sep: str):
    parts = []
    depth = 0
    cur = []
    i = 0
    n = len(s)
    while i < n:
        c = s[i]
        if c == '"':
            j = i + 1
            while j < n and s[j] != '"':
                if s[j] == "\\":
                    j += 1
                j += 1
            cur.append(s[i:j + 1])
            i = j + 1
            continue
        if c == "'":
            m = re.match(r"'(\\.[^']*|[^'\\])'", s[i:])
            if m:
                cur.append(m.group(0))
                i += len(m.group(0))
                continue
        if c in "([{":
            depth += 1
        elif c in ")]}":
            depth -= 1
        if c == sep and depth == 0:
            parts.append("".join(cur))
            cur = []
        else:
            cur.append(c)
        i += 1
    parts.append("".join(cur))
    return parts


def const_array(src: str, name: str):
    """const NAME: [T; N] = [a, b, ...];  -> list of element strings"""
    m = re.search(r"\b(?:const|static)\s+%s\s*:\s*[^=]*=\s*\[" % re.escape(name), src)
    if not m:
        raise TablegenError("const array %s not found" % name)
    end = balanced(src, m.end() - 1, "[", "]")
    body = src[m.end():end - 1]
    return [p.strip() for p in split_top(body, ",") if p.strip()]


def fn_body(src: str, name: str, after: int = 0):
    m = re.compile(r"\bfn\s+%s\s*(<[^>]*>)?\s*\(" % re.escape(name)).search(src, after)
    if not m:
        raise TablegenError("fn %s not found" % name)
    i = src.find("{", balanced(src, m.end() - 1, "(", ")"))
    end = balanced(src, i, "{", "}")
    return src[i + 1:end - 1], end


def impl_body(src: str, header_regex: str):
    m = re.search(header_regex + r"\s*\{", src)
    if not m:
        raise TablegenError("impl %s not found" % header_regex)
    end = balanced(src, m.end() - 1, "{", "}")
    return src[m.end():end - 1]


def match_arms(body: str, scrutinee_regex: str = None):
    """first `match <scrutinee> { ... }` in body -> [(pattern string, expr string)]"""
    rx = r"\bmatch\s+" + (scrutinee_regex if scrutinee_regex else r"[^{]+?") + r"\s*\{"
    m = re.search(rx, body)
    if not m:
        raise TablegenError("match %s not found" % scrutinee_regex)
    end = balanced(body, m.end() - 1, "{", "}")
    inner = body[m.end():end - 1]
    arms = []
    for part in split_arms(inner):
        if "=>" not in part:
            continue
        pat, expr = split_arrow(part)
        arms.append((pat.strip(), expr.strip().rstrip(",").strip()))
    return arms


def split_arrow(s: str):
    depth = 0
    i = 0
    n = len(s)
    while i < n - 1:
        c = s[i]
        if c == "'":
            m = re.match(r"'(\\.[^']*|[^'\\])'", s[i:])
            if m:
                i += len(m.group(0))
                continue
        if c in "([{":
            depth += 1
        elif c in ")]}":
            depth -= 1
        if depth == 0 and s.startswith("=>", i):
            return s[:i], s[i + 2:]
        i += 1
    raise TablegenError("no => in arm %r" % s)


def split_arms(inner: str):
    """split a match body into arms (handles `pat => expr,` and `pat => { .. }`)"""
    arms = []
    i = 0
    n = len(inner)
    cur_start = 0
    depth = 0
    seen_arrow = False
    while i < n:
        c = inner[i]
        if c == '"':
            j = i + 1
            while j < n and inner[j] != '"':
                if inner[j] == "\\":
                    j += 1
                j += 1
            i = j + 1
            continue
        if c == "'":
            m = re.match(r"'(\\.[^']*|[^'\\])'", inner[i:])
            if m:
                i += len(m.group(0))
                continue
        if depth == 0 and inner.startswith("=>", i):
            seen_arrow = True
            i += 2
            # block body?
            j = i
            while j < n and inner[j].isspace():
                j += 1
            if j < n and inner[j] == "{":
                end = balanced(inner, j, "{", "}")
                # optional trailing comma
                k = end
                while k < n and inner[k].isspace():
                    k += 1
                if k < n and inner[k] == ",":
                    k += 1
                arms.append(inner[cur_start:k])
                cur_start = k
                i = k
                seen_arrow = False
            continue
        if c in "([{":
            depth += 1
        elif c in ")]}":
            depth -= 1
        elif c == "," and depth == 0 and seen_arrow:
            arms.append(inner[cur_start:i + 1])
            cur_start = i + 1
            seen_arrow = False
        i += 1
    tail = inner[cur_start:].strip()
    if tail:
        arms.append(tail)
    return arms


def char_lit(s: str) -> int:
    s = s.strip()
    m = re.match(r"^'(.*)'$", s, re.S)
    if not m:
        raise TablegenError("not a char literal: %r" % s)
    b = m.group(1)
    if b.startswith("\\"):
        esc = {"\\n": 10, "\\t": 9, "\\r": 13, "\\\\": 92, "\\'": 39, '\\"': 34, "\\0": 0}
        if b in esc:
            return esc[b]
        mm = re.match(r"^\\u\{([0-9a-fA-F_]+)\}$", b)
        if mm:
            return int(mm.group(1).replace("_", ""), 16)
        mm = re.match(r"^\\x([0-9a-fA-F]{2})$", b)
        if mm:
            return int(mm.group(1), 16)
        raise TablegenError("unknown escape %r" % s)
    if len(b) != 1:
        raise TablegenError("multi-char literal %r" % s)
    return ord(b)


def int_lit(s: str) -> int:
    s = s.strip().replace("_", "")
    s = re.sub(r"(u8|u16|u32|u64|usize|i8|i16|i32|i64|isize)$", "", s)
    if s.startswith("0x"):
        return int(s, 16)
    if s.startswith("0b"):
        return int(s, 2)
    if s.startswith("0o"):
        return int(s, 8)
    return int(s)


# ---------------------------------------------------------------- Coq writers

def coq_N(n: int) -> str:
    return "%d" % n


def coq_list(items, per_line=12) -> str:
    items = list(items)
    if not items:
        return "[]"
    lines = []
    for i in range(0, len(items), per_line):
        lines.append("; ".join(items[i:i + per_line]))
    return "[" + ";\n   ".join(lines) + "]"


def coq_pairs(pairs, per_line=6) -> str:
    return coq_list(["(%d, %d)" % (a, b) for a, b in pairs], per_line)


def write_if_changed(path: str, content: str) -> bool:
    try:
        with open(path, encoding="utf-8") as f:
            if f.read() == content:
                return False
    except FileNotFoundError:
        pass
    with open(path, "w", encoding="utf-8") as f:
        f.write(content)
    return True
