"""src/editor/zhuyin_layout/*.rs -> Gen/Layout_gen.v   (C14; also used by C16/C01/C05)

Generated (literal tables only; the context rules are modelled by hand in
Model/Layout*.v and tied to the code by the exhaustive correspondence):

  * standard / et / ibm / ginyieh: the KeyIndex -> Bopomofo arms of key_press;
  * hsu / et26 / dc26: the end-key set, the end-key -> tone arms, the arms of
    `let bopomofo = match key.code|index {..}` classified by shape
        0  Bopomofo::X                                              (x = y = X)
        1  if self.has_initial_or_medial() { X } else { Y }
        2  if self.syllable.has_medial() { X } else { Y }
        3  default_or_alt(self.syllable.initial(), X, Y)            (x = default, y = alt)
        4  default_or_alt(self.syllable.rime(), X, Y)
        9  anything else (hand-modelled arm; the set of such keys is asserted here)
    and the ALT_TABLE of hsu / et26 as Bopomofo symbol lists;
  * pinyin: MAX_PINYIN_LEN, the tone-key list and tone arms, COMMON / HANYU / THL /
    MPS2 mappings (key string, primary symbols, alt symbols), INITIAL_MAPPING,
    FINAL_MAPPING (strings as lists of scalar values);
  * KeyboardLayoutCompat in declaration order.

Syllable literals (syl![..]) are emitted as lists of Bopomofo discriminants; the
model turns them into codes with its own builder (Model/Syllable.parse_syms)."""
import re
from rsparse import (read, enum_variants, fn_body, match_arms, balanced, split_top, int_lit, coq_list,
                     TablegenError)

LDIR = "/src/editor/zhuyin_layout"
TABLE_LAYOUTS = ["standard", "et", "ibm", "ginyieh"]
COMPLEX_ARMS = {"hsu": [], "et26": [], "dc26": ["K21", "K44"]}


def norm(s):
    return " ".join(s.split())


class Ctx:
    def __init__(self, repo):
        self.bopo = {v: i for i, (v, _) in enumerate(enum_variants(read(repo + "/src/zhuyin/bopomofo.rs"), "Bopomofo"))}
        ksrc = read(repo + "/src/editor/keyboard/mod.rs")
        self.keycode = {v: i for i, (v, _) in enumerate(enum_variants(ksrc, "KeyCode"))}
        self.keyindex = {v: i for i, (v, _) in enumerate(enum_variants(ksrc, "KeyIndex"))}

    def b(self, name):
        name = name.strip().replace("Bopomofo::", "")
        if name not in self.bopo:
            raise TablegenError("unknown Bopomofo %r" % name)
        return self.bopo[name]

    def key(self, name):
        name = name.strip()
        if name.startswith("KeyCode::"):
            d = self.keycode
            name = name[len("KeyCode::"):]
        elif name.startswith("KeyIndex::"):
            d = self.keyindex
            name = name[len("KeyIndex::"):]
        else:
            raise TablegenError("key pattern without enum prefix: %r" % name)
        if name not in d:
            raise TablegenError("unknown key %r" % name)
        return d[name], name


def key_press_body(src, struct):
    m = re.search(r"impl\s+SyllableEditor\s+for\s+%s\s*\{" % struct, src)
    if not m:
        raise TablegenError("impl SyllableEditor for %s not found" % struct)
    body, _ = fn_body(src, "key_press", m.end())
    return body


def bopomofo_match(body, what):
    """arms of `let bopomofo = match key.<what> { .. }`"""
    m = re.search(r"let\s+bopomofo\s*=\s*match\s+key\.%s\s*\{" % what, body)
    if not m:
        raise TablegenError("`let bopomofo = match key.%s` not found" % what)
    end = balanced(body, m.end() - 1, "{", "}")
    return match_arms(body[m.start():end], r"key\.%s" % what)


def table_layout(ctx, repo, name, struct):
    src = read(repo + LDIR + "/%s.rs" % name)
    arms = bopomofo_match(key_press_body(src, struct), "index")
    rows = []
    default = None
    for pat, expr in arms:
        if pat == "_":
            default = norm(expr)
            continue
        for p in pat.split("|"):
            k, _ = ctx.key(p)
            rows.append((k, ctx.b(expr)))
    if default != "return KeyBehavior::KeyError":
        raise TablegenError("%s: default arm is %r" % (name, default))
    if len(set(k for k, _ in rows)) != len(rows):
        raise TablegenError("%s: duplicate key arm" % name)
    return rows


def classify(ctx, expr):
    e = norm(expr)
    m = re.match(r"^Bopomofo::(\w+)$", e)
    if m:
        return (0, ctx.b(m.group(1)), ctx.b(m.group(1)))
    m = re.match(r"^\{ if self\.has_initial_or_medial\(\) \{ Bopomofo::(\w+) \} else \{ Bopomofo::(\w+) \} \}$", e)
    if m:
        return (1, ctx.b(m.group(1)), ctx.b(m.group(2)))
    m = re.match(r"^\{ if self\.syllable\.has_medial\(\) \{ Bopomofo::(\w+) \} else \{ Bopomofo::(\w+) \} \}$", e)
    if m:
        return (2, ctx.b(m.group(1)), ctx.b(m.group(2)))
    m = re.match(r"^default_or_alt\(self\.syllable\.(initial|rime)\(\), Bopomofo::(\w+), Bopomofo::(\w+)\)$", e)
    if m:
        return (3 if m.group(1) == "initial" else 4, ctx.b(m.group(2)), ctx.b(m.group(3)))
    return (9, 0, 0)


def compact_layout(ctx, repo, name, struct, what, endfn, default_arm):
    src = read(repo + LDIR + "/%s.rs" % name)
    # end keys: first arm of the match in is_*end_key
    fb, _ = fn_body(src, endfn)
    arms = match_arms(fb)
    if len(arms) != 2 or arms[1][0] != "_" or norm(arms[1][1]) != "false":
        raise TablegenError("%s: %s has an unexpected shape" % (name, endfn))
    if norm(arms[0][1]) != "{ !self.syllable.is_empty() }":
        raise TablegenError("%s: %s end-key arm is %r" % (name, endfn, norm(arms[0][1])))
    end_keys = [ctx.key(p)[0] for p in arms[0][0].split("|")]
    body = key_press_body(src, struct)
    # tone arms: the first match on key.<what> (inside the end-key branch)
    tarms = match_arms(body, r"key\.%s" % what)
    tones = []
    for pat, expr in tarms:
        e = norm(expr)
        if pat == "_":
            if e != "{ self.syllable.remove_tone(); }":
                raise TablegenError("%s: tone default arm is %r" % (name, e))
            continue
        m = re.match(r"^self\.syllable\.update\(Bopomofo::(TONE\d)\)$", e)
        if not m:
            raise TablegenError("%s: tone arm %r => %r not understood" % (name, pat, e))
        for p in pat.split("|"):
            tones.append((ctx.key(p)[0], ctx.b(m.group(1))))
    for k, _ in tones:
        if k not in end_keys:
            raise TablegenError("%s: tone key %d is not an end key" % (name, k))
    rows = []
    complex_keys = []
    default = None
    for pat, expr in bopomofo_match(body, what):
        if pat == "_":
            default = norm(expr)
            continue
        shape = classify(ctx, expr)
        for p in pat.split("|"):
            k, kname = ctx.key(p)
            rows.append((k, shape))
            if shape[0] == 9:
                complex_keys.append(kname)
    if default != default_arm:
        raise TablegenError("%s: default arm is %r" % (name, default))
    if sorted(complex_keys) != sorted(COMPLEX_ARMS[name]):
        raise TablegenError("%s: arms that are not plain tables changed: %r (hand model covers %r)" %
                            (name, complex_keys, COMPLEX_ARMS[name]))
    if len(set(k for k, _ in rows)) != len(rows):
        raise TablegenError("%s: duplicate key arm" % name)
    return end_keys, tones, rows, src


def syl_macro(ctx, s):
    s = s.strip()
    m = re.match(r"^syl!\s*\[(.*)\]$", s, re.S)
    if not m:
        raise TablegenError("not a syl![..] literal: %r" % s)
    return [ctx.b(x) for x in split_top(m.group(1), ",") if x.strip()]


def alt_table(ctx, src, name):
    m = re.search(r"\bconst\s+ALT_TABLE\s*:[^=]*=\s*&\s*\[", src)
    if not m:
        raise TablegenError("%s: ALT_TABLE not found" % name)
    end = balanced(src, m.end() - 1, "[", "]")
    out = []
    for part in split_top(src[m.end():end - 1], ","):
        part = part.strip()
        if not part:
            continue
        if not (part.startswith("(") and part.endswith(")")):
            raise TablegenError("%s ALT_TABLE: entry %r" % (name, part))
        f = split_top(part[1:-1], ",")
        f = [x for x in f if x.strip()]
        if len(f) != 2:
            raise TablegenError("%s ALT_TABLE: entry %r" % (name, part))
        alts = f[1].strip()
        mm = re.match(r"^&\s*\[(.*)\]$", alts, re.S)
        if not mm:
            raise TablegenError("%s ALT_TABLE: alternatives %r" % (name, alts))
        out.append((syl_macro(ctx, f[0]), [syl_macro(ctx, x) for x in split_top(mm.group(1), ",") if x.strip()]))
    return out


def str_lit(s):
    s = s.strip()
    m = re.match(r'^"([^"\\]*)"$', s)
    if not m:
        raise TablegenError("not a plain string literal: %r" % s)
    return [ord(c) for c in m.group(1)]


def const_table(src, name, macro):
    m = re.search(r"\bconst\s+%s\s*:\s*\[[^;]*;\s*(\d+)\s*\]\s*=\s*\[" % name, src)
    if not m:
        raise TablegenError("pinyin table %s not found" % name)
    end = balanced(src, m.end() - 1, "[", "]")
    rows = []
    for part in split_top(src[m.end():end - 1], ","):
        part = part.strip()
        if not part:
            continue
        mm = re.match(r"^%s!\s*\((.*)\)$" % macro, part, re.S)
        if not mm:
            raise TablegenError("%s: entry %r" % (name, part))
        rows.append([x for x in split_top(mm.group(1), ",") if x.strip()])
    if len(rows) != int(m.group(1)):
        raise TablegenError("%s: declared %s entries, read %d" % (name, m.group(1), len(rows)))
    return rows


def opt_b(ctx, s):
    s = s.strip()
    if s == "None":
        return None
    m = re.match(r"^Some\((\w+)\)$", s)
    if not m:
        raise TablegenError("not an Option<Bopomofo>: %r" % s)
    return ctx.b(m.group(1))


def pinyin(ctx, repo):
    src = read(repo + LDIR + "/pinyin.rs")
    m = re.search(r"\bconst\s+MAX_PINYIN_LEN\s*:\s*usize\s*=\s*([0-9_]+)\s*;", src)
    if not m:
        raise TablegenError("MAX_PINYIN_LEN not found")
    maxlen = int_lit(m.group(1))
    body = key_press_body(src, "Pinyin")
    m = re.search(r"if\s*!\s*\[([^\]]*)\]\s*\.contains\(&key\.code\)", body)
    if not m:
        raise TablegenError("pinyin: tone key list not found")
    tone_keys = [ctx.key(x)[0] for x in m.group(1).split(",") if x.strip()]
    m = re.search(r"let\s+tone\s*=\s*match\s+key\.code\s*\{", body)
    if not m:
        raise TablegenError("pinyin: tone match not found")
    end = balanced(body, m.end() - 1, "{", "}")
    tones = []
    for pat, expr in match_arms(body[m.start():end], r"key\.code"):
        if pat == "_":
            if norm(expr) != "None":
                raise TablegenError("pinyin: tone default arm %r" % expr)
            continue
        mm = re.match(r"^Some\(Bopomofo::(TONE\d)\)$", norm(expr))
        if not mm:
            raise TablegenError("pinyin: tone arm %r" % expr)
        for p in pat.split("|"):
            tones.append((ctx.key(p)[0], ctx.b(mm.group(1))))
    variants = [v for v, _ in enum_variants(src, "PinyinVariant")]
    if variants != ["HanyuPinyin", "ThlPinyin", "Mps2Pinyin"]:
        raise TablegenError("PinyinVariant changed: %r" % variants)
    amb = {}
    for nm in ("COMMON_MAPPING", "HANYU_PINYIN_MAPPING", "THL_PINYIN_MAPPING", "MPS2_PINYIN_MAPPING"):
        amb[nm] = [(str_lit(r[0]), syl_macro(ctx, r[1]), syl_macro(ctx, r[2])) for r in const_table(src, nm, "amb")]
    ini = [(str_lit(r[0]), ctx.b(r[1])) for r in const_table(src, "INITIAL_MAPPING", "ini")]
    fin = [(str_lit(r[0]), opt_b(ctx, r[1]), opt_b(ctx, r[2])) for r in const_table(src, "FINAL_MAPPING", "fin")]
    return maxlen, tone_keys, tones, amb, ini, fin


def nlist(l):
    return "[" + "; ".join(str(x) for x in l) + "]"


def copt(x):
    return "None" if x is None else "Some %d" % x


def generate(repo: str):
    ctx = Ctx(repo)
    o = []
    o.append("(* GENERATED by tablegen/gen_layout.py from src/editor/zhuyin_layout/*.rs - do not edit.")
    o.append("   Keys are KeyIndex / KeyCode discriminants (see Gen/Keyboard_gen.v), symbols are Bopomofo")
    o.append("   discriminants (Gen/Bopomofo_gen.v); syl![..] literals are lists of symbols. *)")
    o.append("From Coq Require Import NArith List.")
    o.append("Import ListNotations.")
    o.append("Open Scope N_scope.")
    o.append("")
    side = {}
    structs = {"standard": "Standard", "et": "Et", "ibm": "Ibm", "ginyieh": "GinYieh"}
    for name in TABLE_LAYOUTS:
        rows = table_layout(ctx, repo, name, structs[name])
        o.append("(* %s.rs: KeyIndex -> Bopomofo; any other key is KeyError *)" % name)
        o.append("Definition %s_table : list (N * N) :=\n  %s." % (name, coq_list(["(%d, %d)" % r for r in rows], 8)))
        o.append("")
        side[name] = rows
    for name, struct, what, endfn, dflt in (("hsu", "Hsu", "code", "is_hsu_end_key", "return KeyBehavior::NoWord"),
                                            ("et26", "Et26", "code", "is_end_key", "return KeyBehavior::NoWord"),
                                            ("dc26", "DaiChien26", "index", "is_end_key", "return KeyBehavior::KeyError")):
        end_keys, tones, rows, src = compact_layout(ctx, repo, name, struct, what, endfn, dflt)
        o.append("(* %s.rs (keys are Key%s values) *)" % (name, "Code" if what == "code" else "Index"))
        o.append("Definition %s_end_keys : list N := %s." % (name, nlist(end_keys)))
        o.append("(* end key -> tone it sets; the other end keys remove the tone *)")
        o.append("Definition %s_tone_keys : list (N * N) := %s." % (name, coq_list(["(%d, %d)" % t for t in tones], 8)))
        o.append("(* key -> (shape, x, y): see tablegen/gen_layout.py for the shapes *)")
        o.append("Definition %s_key_arms : list (N * (N * N * N)) :=\n  %s." % (
            name, coq_list(["(%d, (%d, %d, %d))" % (k, s[0], s[1], s[2]) for k, s in rows], 6)))
        if name in ("hsu", "et26"):
            at = alt_table(ctx, src, name)
            o.append("(* ALT_TABLE: (syllable, alternatives), as symbol lists *)")
            o.append("Definition %s_alt_table_syms : list (list N * list (list N)) :=\n  %s." % (
                name, coq_list(["(%s, [%s])" % (nlist(a), "; ".join(nlist(x) for x in b)) for a, b in at], 3)))
            side[name + "_alt"] = at
        o.append("")
        side[name] = {"end_keys": end_keys, "tones": tones, "arms": rows}
    maxlen, tone_keys, tones, amb, ini, fin = pinyin(ctx, repo)
    o.append("(* pinyin.rs *)")
    o.append("Definition MAX_PINYIN_LEN : N := %d." % maxlen)
    o.append("Definition pinyin_tone_keys : list N := %s." % nlist(tone_keys))
    o.append("Definition pinyin_tone_table : list (N * N) := %s." % coq_list(["(%d, %d)" % t for t in tones], 8))
    for nm, rows in amb.items():
        o.append("(* %s: (key string, primary symbols, alt symbols) *)" % nm)
        o.append("Definition pinyin_%s_syms : list (list N * (list N * list N)) :=\n  %s." % (
            nm.lower(), coq_list(["(%s, (%s, %s))" % (nlist(a), nlist(b), nlist(c)) for a, b, c in rows], 2)))
    o.append("(* INITIAL_MAPPING: (key string, initial) in source order *)")
    o.append("Definition pinyin_initial_mapping : list (list N * N) :=\n  %s." % coq_list(
        ["(%s, %d)" % (nlist(a), b) for a, b in ini], 5))
    o.append("(* FINAL_MAPPING: (key string, (medial, rime)) in source order *)")
    o.append("Definition pinyin_final_mapping : list (list N * (option N * option N)) :=\n  %s." % coq_list(
        ["(%s, (%s, %s))" % (nlist(a), copt(b), copt(c)) for a, b, c in fin], 3))
    o.append("")
    compat = [v for v, _ in enum_variants(read(repo + LDIR + "/mod.rs"), "KeyboardLayoutCompat")]
    o.append("(* enum KeyboardLayoutCompat in declaration order *)")
    o.append("Definition n_kbcompat : N := %d." % len(compat))
    for i, v in enumerate(compat):
        o.append("Definition kbc_%s : N := %d." % (v, i))
    o.append("")
    side["pinyin"] = {"initial": ["".join(map(chr, a)) for a, _ in ini], "final": ["".join(map(chr, a)) for a, _, _ in fin],
                      "special": sorted(set("".join(map(chr, a)) for rows in amb.values() for a, _, _ in rows))}
    side["kbcompat"] = compat
    return {"Layout_gen.v": "\n".join(o) + "\n"}, side
