#!/usr/bin/env python3
"""tablegen: translator T1.  Re-reads /repo's current sources and data and
regenerates coq/theories/Gen/*.v (written only when the content changed, so
that `make` rebuilds exactly the dependants).  Usage:
    tablegen.py <repo> <outdir> [group ...]
Exit status 0 = ok, 3 = a table could not be located/read (reported by
vp-check as a broken obligation of the translator)."""
import importlib
import json
import os
import sys

sys.path.insert(0, os.path.dirname(os.path.abspath(__file__)))
from rsparse import TablegenError, write_if_changed  # noqa: E402

GROUPS = ["bopomofo", "editor", "keyboard", "layout", "symbols", "capi", "readings", "uhash", "trie", "capi_mem", "durability"]


def main():
    repo, outdir = sys.argv[1], sys.argv[2]
    groups = sys.argv[3:] or GROUPS
    os.makedirs(outdir, exist_ok=True)
    side_all = {}
    status = 0
    for g in groups:
        try:
            mod = importlib.import_module("gen_" + g)
        except ModuleNotFoundError:
            continue
        try:
            files, side = mod.generate(repo)
        except TablegenError as e:
            print("TABLEGEN-ERROR group=%s %s" % (g, e))
            status = 3
            continue
        except (KeyError, ValueError, IndexError) as e:
            print("TABLEGEN-ERROR group=%s %s: %r" % (g, type(e).__name__, e))
            status = 3
            continue
        for name, content in files.items():
            changed = write_if_changed(os.path.join(outdir, name), content)
            print("tablegen: %s %s" % (name, "updated" if changed else "unchanged"))
        side_all[g] = side
    write_if_changed(os.path.join(outdir, "tablegen_side.json"), json.dumps(side_all, ensure_ascii=False, indent=1, sort_keys=True))
    sys.exit(status)


if __name__ == "__main__":
    main()
