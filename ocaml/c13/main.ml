(* Runs the extracted Coq model (group c13) on the same cases as the Rust harness. *)
let () =
  let args = match Array.to_list Sys.argv with _ :: rest -> rest | [] -> [] in
  exit (C13.main args)
