(* model side of the C13 views (mirrors harness/src/c13.rs) *)
open Conv

let composable v =
  match Syllable.try_from_u16 v with
  | None -> false
  | Some s -> (
      match Syllable.compose (Syllable.initial s) (Syllable.medial s) (Syllable.rime s) (Syllable.tone s) with
      | Datatypes.Coq_inl w -> int_of_n w = int_of_n v
      | Datatypes.Coq_inr _ -> false)

let rec pow b e = if e = 0 then 1 else b * pow b (e - 1)

let views tier out =
  let oc = open_out out in
  for v = 0 to 65535 do
    print_n_list oc "C" (SyllableViews.view_code (n_of_int v))
  done;
  let base = int_of_n Bopomofo_gen.n_bopomofo + 1 in
  let maxlen = if tier = "thorough" then 5 else 4 in
  for len = 0 to maxlen do
    for idx = 0 to pow base len - 1 do
      print_n_list oc "P" (SyllableViews.view_parse (n_of_int len) (n_of_int idx))
    done
  done;
  let comp = ref [] in
  for v = 65535 downto 1 do
    if composable (n_of_int v) then comp := v :: !comp
  done;
  let comp = Array.of_list !comp in
  let compn = Array.map n_of_int comp in
  let stride = if tier = "thorough" then 1 else 5 in   (* = prefix_stride in harness/src/bin/c13.rs *)
  let buf = Bytes.create (Array.length comp) in
  Array.iteri
    (fun k p ->
      if k mod stride = 0 then begin
        let pn = n_of_int p in
        Array.iteri
          (fun j sn -> Bytes.set buf j (if int_of_n (SyllableViews.view_starts sn pn) = 1 then '1' else '0'))
          compn;
        Printf.fprintf oc "S %d %s\n" p (Bytes.to_string buf)
      end)
    comp;
  close_out oc

let search () =
  (match SyllableSearch.c13_search with
   | Some l -> print_string "WITNESS parse-not-canonical"; Stdlib.List.iter (fun c -> Printf.printf " %d" (int_of_n c)) l; print_newline ()
   | None -> print_endline "NONE parse-not-canonical");
  (match SyllableSearch.undecodable_tone with
   | Some b -> Printf.printf "WITNESS undecodable-tone %d\n" (int_of_n b)
   | None -> print_endline "NONE undecodable-tone")

let main args =
  match args with
  | [ "views"; tier; out ] -> views tier out; 0
  | [ "search" ] -> search (); 0
  | _ -> prerr_endline "usage: driver c13 views <tier> <out>"; 2
