(* Runs the extracted Coq model (group c09) on the same case file as the Rust harness. *)
let () =
  let args = match Array.to_list Sys.argv with _ :: rest -> rest | [] -> [] in
  exit (C09.main args)
