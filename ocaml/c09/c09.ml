(* model side of the C09 views (mirrors harness/src/bin/c09.rs: same case file, same
   output lines) *)
open Conv
open BinNums

(* decimal <-> N without going through OCaml ints when the number is large *)
let ten = n_of_int 10

let n_of_dec (s : string) : coq_N =
  if String.length s <= 17 then n_of_int (int_of_string s)
  else begin
    let acc = ref N0 in
    String.iter (fun c -> acc := BinNat.N.add (BinNat.N.mul !acc ten) (n_of_int (Char.code c - 48))) s;
    !acc
  end

let rec small = function
  | N0 -> true
  | Npos p -> (let rec bits p n = if n > 60 then false else match p with Coq_xH -> true | Coq_xO q | Coq_xI q -> bits q (n + 1) in bits p 1)

let rec dec_of_n (n : coq_N) : string =
  if small n then string_of_int (int_of_n n)
  else
    let q, r = BinNat.N.div_eucl n ten in
    dec_of_n q ^ string_of_int (int_of_n r)

let parse_seq s = if s = "-" then [] else Stdlib.List.map n_of_dec (String.split_on_char ',' s)
let parse_opt s = if s = "-" then None else Some (n_of_dec s)
let fmt_seq (l : string list) = if l = [] then "-" else String.concat "," l
let fmt_nseq l = fmt_seq (Stdlib.List.map dec_of_n l)
let fmt_opt = function None -> "-" | Some n -> dec_of_n n

let fmt_phrase (p : Dict.phrase) =
  Printf.sprintf "%s:%s:%s" (fmt_nseq p.Dict.ph_text) (dec_of_n p.Dict.ph_freq) (fmt_opt p.Dict.ph_time)

type state =
  | Buf of TrieBuf.triebuf
  | Sql of SqliteDict.sqdb
  | Lay of Layered.layered
  | Ro of Dict.trie

let cfg = ref TrieBuf.current

let parse_op (t : string list) : TrieBuf.op =
  match t with
  | [ "A"; k; p; f; tm ] -> TrieBuf.OAdd (parse_seq k, { Dict.ph_text = parse_seq p; ph_freq = n_of_dec f; ph_time = parse_opt tm })
  | [ "U"; k; p; f; uf; tm ] -> TrieBuf.OUpdate (parse_seq k, parse_seq p, n_of_dec f, n_of_dec uf, n_of_dec tm)
  | [ "R"; k; p ] -> TrieBuf.ORemove (parse_seq k, parse_seq p)
  | [ "L"; k; n; s ] ->
      TrieBuf.OLookup
        (parse_seq k, (if n = "max" then Dict.coq_USIZE_MAX else n_of_dec n), if s = "F" then Dict.FuzzyPartialPrefix else Dict.Standard)
  | [ "E" ] -> TrieBuf.OEntries
  | [ "F" ] -> TrieBuf.OFlush
  | [ "W" ] -> TrieBuf.OReopen TrieBuf.FinishedOk
  | _ -> failwith ("bad op line: " ^ String.concat " " t)

let print_out oc (o : TrieBuf.out) =
  match o with
  | TrieBuf.RUnit -> output_string oc "ok\n"
  | TrieBuf.RAdd b -> output_string oc (if b then "ok\n" else "err\n")
  | TrieBuf.RLookup l -> Printf.fprintf oc "L %s\n" (fmt_seq (Stdlib.List.map fmt_phrase l))
  | TrieBuf.REntries l ->
      let v = Stdlib.List.map (fun (k, p) -> fmt_nseq k ^ "/" ^ fmt_phrase p) l in
      Printf.fprintf oc "E %s\n" (fmt_seq (Stdlib.List.sort compare v))

let step (st : state) (o : TrieBuf.op) : state * TrieBuf.out =
  match st with
  | Buf tb -> let tb', r = TrieBuf.tb_step !cfg tb o in (Buf tb', r)
  | Sql db -> let db', r = SqliteDict.sq_step db o in (Sql db', r)
  | Lay d -> let d', r = Layered.ly_step !cfg d o in (Lay d', r)
  | Ro t -> (
      match o with
      | TrieBuf.OLookup (k, n, s) -> (st, TrieBuf.RLookup (TrieBuf.trie_lookup !cfg t k n s))
      | TrieBuf.OEntries -> (st, TrieBuf.REntries (Dict.trie_entries t))
      | TrieBuf.OFlush | TrieBuf.OReopen _ -> (st, TrieBuf.RUnit)
      | _ -> (st, TrieBuf.RAdd false))

let open_backend backend (init : (string * (coq_N list * Dict.phrase)) list) : state =
  let layer n = Stdlib.List.filter_map (fun (l, e) -> if l = n then Some e else None) init in
  let names = Stdlib.List.sort_uniq compare (Stdlib.List.filter (fun n -> n <> "u") (Stdlib.List.map fst init)) in
  let sys () = Stdlib.List.map (fun n -> Dict.trie_build (layer n)) names in
  match backend with
  | "mem" -> Buf TrieBuf.tb_new_in_memory
  | "file" -> Buf (TrieBuf.tb_open (Dict.trie_build (layer "u")))
  | "sqlite" | "sqlitefile" -> Sql SqliteDict.sq_empty
  | "layered" -> Lay { Layered.ly_sys = sys (); ly_user = TrieBuf.tb_new_in_memory }
  | "layeredfile" -> Lay { Layered.ly_sys = sys (); ly_user = TrieBuf.tb_open (Dict.trie_build (layer "u")) }
  | "trie" -> Ro (Dict.trie_build (layer "0"))
  | b -> failwith ("unknown backend " ^ b)

let views cases out =
  let ic = open_in cases in
  let oc = open_out out in
  let backend = ref "" and init = ref [] and ops = ref [] in
  (try
     while true do
       let line = input_line ic in
       let t = Stdlib.List.filter (fun s -> s <> "") (String.split_on_char ' ' (String.trim line)) in
       match t with
       | [] -> ()
       | "CASE" :: name :: b :: _ ->
           backend := b; init := []; ops := [];
           Printf.fprintf oc "CASE %s\n" name
       | [ "T"; l; k; p; f; tm ] ->
           init := (l, (parse_seq k, { Dict.ph_text = parse_seq p; ph_freq = n_of_dec f; ph_time = parse_opt tm })) :: !init
       | [ "END" ] ->
           let st = ref (open_backend !backend (Stdlib.List.rev !init)) in
           Stdlib.List.iter
             (fun o -> let st', r = step !st o in st := st'; print_out oc r)
             (Stdlib.List.rev !ops)
       | s :: _ when String.length s > 0 && s.[0] = '#' -> ()
       | _ -> ops := parse_op t :: !ops
     done
   with End_of_file -> ());
  close_in ic;
  close_out oc

let main args =
  match args with
  | [ "views"; cases; out ] -> views cases out; 0
  | [ "views"; c; cases; out ] ->
      cfg := (match c with "pinned" -> TrieBuf.pinned | "fixed" -> TrieBuf.fixed | _ -> TrieBuf.current);
      views cases out; 0
  | _ -> prerr_endline "usage: driver-c09 views [pinned|fixed|current] <cases> <out>"; 2
