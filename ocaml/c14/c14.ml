(* model side of the C14 views (mirrors harness/src/bin/c14.rs) *)
open Conv

let n = n_of_int
let i = int_of_n

let event_view o =
  match Stdlib.List.map i (Keyboard.view_event o) with
  | 0 :: rest -> "0 " ^ String.concat " " (Stdlib.List.map string_of_int rest)
  | _ -> "1"

let beh b = String.concat ":" (Stdlib.List.map (fun x -> string_of_int (i x)) (LayoutBase.behavior_code b))

let n_syl_layouts = 7

(* result of one operation: "ns:beh" or "P" *)
let res o =
  match o with
  | Lib.Ok (st, b) -> (Some st, Printf.sprintf "%d:%s" (i st.LayoutBase.ls_syl) (beh b))
  | _ -> (None, "P")

let dump_layout oc l =
  let ln = n l in
  let seen : (int, string) Hashtbl.t = Hashtbl.create 8192 in
  let queue = Queue.create () in
  let s0 = LayoutBase.lstate_empty in
  Hashtbl.replace seen (i s0.LayoutBase.ls_syl) "";
  Queue.add s0 queue;
  while not (Queue.is_empty queue) do
    let st = Queue.pop queue in
    let v = i st.LayoutBase.ls_syl in
    let buf = Buffer.create 2048 in
    Buffer.add_string buf (Printf.sprintf "S %d %d %d" l v (if Layout.l_is_empty ln st then 1 else 0));
    let next = ref [] in
    Stdlib.List.iter
      (fun fuzzy ->
        Buffer.add_string buf " |";
        for k = 0 to 62 do
          let ev = LayoutSearch.class_event (n k) in
          let o = if fuzzy then Layout.fuzzy_key_press ln st ev else Layout.key_press ln st ev in
          let ns, s = res o in
          Buffer.add_char buf ' ';
          Buffer.add_string buf s;
          (match ns with Some x -> next := x :: !next | None -> ())
        done)
      [ false; true ];
    let r = Layout.l_remove_last ln st in
    Buffer.add_string buf (Printf.sprintf " | %d" (i r.LayoutBase.ls_syl));
    next := r :: !next;
    Hashtbl.replace seen v (Buffer.contents buf);
    Stdlib.List.iter
      (fun (x : LayoutBase.lstate) ->
        let nv = i x.LayoutBase.ls_syl in
        if not (Hashtbl.mem seen nv) then begin
          Hashtbl.replace seen nv "";
          Queue.add x queue
        end)
      (Stdlib.List.rev !next)
  done;
  let lines = Hashtbl.fold (fun k v acc -> (k, v) :: acc) seen [] in
  let lines = Stdlib.List.sort (fun (a, _) (b, _) -> compare a b) lines in
  Stdlib.List.iter (fun (_, s) -> output_string oc s; output_char oc '\n') lines;
  for v = 1 to 65535 do
    match Layout.l_alt_syllables ln (n v) with
    | [] -> ()
    | l' -> Printf.fprintf oc "L %d %d %s\n" l v (String.concat " " (Stdlib.List.map (fun x -> string_of_int (i x)) l'))
  done

let read_cases path =
  let ic = open_in path in
  let acc = ref [] in
  (try
     while true do
       let line = input_line ic in
       let toks = Stdlib.List.filter (fun s -> s <> "") (String.split_on_char ' ' line) in
       acc := Stdlib.List.map int_of_string toks :: !acc
     done
   with End_of_file -> close_in ic);
  Stdlib.List.rev !acc

let tone_bytes = [ 32; 49; 50; 51; 52; 53 ]

let pinyin_case variant case =
  let ln = n (7 + variant) in
  let buf = Buffer.create 256 in
  let st = ref LayoutBase.lstate_empty in
  (try
     Stdlib.List.iter
       (fun c ->
         let b =
           if c = 8 then begin st := Layout.l_remove_last ln !st; "1" end
           else if c = 27 then begin st := Layout.l_clear ln !st; "1" end
           else
             match Keyboard.map_ascii (n 0) (n c) with
             | Lib.Ok ev -> (
                 match Layout.key_press ln !st ev with
                 | Lib.Ok (s', b) -> st := s'; beh b
                 | _ -> Buffer.add_string buf " P"; raise Exit)
             | _ -> Buffer.add_string buf " P"; raise Exit
         in
         let s = !st in
         Buffer.add_string buf
           (Printf.sprintf " %s:%d:%d:[%s]" b (i s.LayoutBase.ls_syl) (i s.LayoutBase.ls_alt)
              (String.concat "," (Stdlib.List.map (fun x -> string_of_int (i x)) s.LayoutBase.ls_keys))))
       case
   with Exit -> ());
  Buffer.contents buf

let views _tier cases out =
  let oc = open_out out in
  let nkb = i Keyboard_gen.n_keyboard in
  for kb = 0 to nkb - 1 do
    for byte = 0 to 255 do
      Printf.fprintf oc "A %d %d %s\n" kb byte (event_view (Keyboard.map_ascii (n kb) (n byte)));
      Printf.fprintf oc "N %d %d %s\n" kb byte (event_view (Keyboard.map_ascii_numlock (n kb) (n byte)))
    done;
    for code = 0 to 62 do
      for mask = 0 to 15 do
        Printf.fprintf oc "M %d %d %d %s\n" kb code mask (event_view (Keyboard.map_keycode (n kb) (n code) (n mask)))
      done
    done
  done;
  for l = 0 to n_syl_layouts - 1 do
    dump_layout oc l
  done;
  let cases = read_cases cases in
  for variant = 0 to 2 do
    Stdlib.List.iteri
      (fun idx case ->
        if Stdlib.List.exists (fun c -> Stdlib.List.mem c tone_bytes || c = 8 || c = 27) case then
          Printf.fprintf oc "P %d %d -%s\n" variant idx (pinyin_case variant case)
        else
          Stdlib.List.iter
            (fun t -> Printf.fprintf oc "P %d %d %d%s\n" variant idx t (pinyin_case variant (case @ [ t ])))
            tone_bytes)
      cases
  done;
  close_out oc

(* completeness witnesses of the model: one line per (keyboard, layout, reading) *)
let witness out =
  let oc = open_out out in
  let nkb = i Keyboard_gen.n_keyboard in
  for kb = 0 to nkb - 1 do
    for l = 0 to i Layout.n_layouts - 1 do
      let ctx = LayoutSearch.make_ctx (n kb) (n l) in
      Stdlib.List.iter
        (fun r ->
          match LayoutSearch.witness_with ctx (n l) r with
          | Some bytes ->
              Printf.fprintf oc "W %d %d %d %s\n" kb l (i r)
                (String.concat " " (Stdlib.List.map (fun x -> string_of_int (i x)) bytes))
          | None -> Printf.fprintf oc "W %d %d %d NONE\n" kb l (i r))
        Readings_gen.readings
    done
  done;
  close_out oc

(* counter-example finder of the completeness sweep *)
let search () =
  for l = 0 to i Layout.n_layouts - 1 do
    let u = LayoutSearch.unreachable_readings (n 0) (n l) in
    Printf.printf "U %d%s\n" l (String.concat "" (Stdlib.List.map (fun x -> " " ^ string_of_int (i x)) u))
  done

let main args =
  match args with
  | [ "views"; tier; cases; out ] -> views tier cases out; 0
  | [ "witness"; out ] -> witness out; 0
  | [ "search" ] -> search (); 0
  | _ -> prerr_endline "usage: driver c14 views <tier> <cases> <out> | witness <out> | search"; 2
