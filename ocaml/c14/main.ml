(* Runs the extracted Coq model (group c14) on the same cases as the Rust harness. *)
let () =
  let args = match Array.to_list Sys.argv with _ :: rest -> rest | [] -> [] in
  exit (C14.main args)
