(* c16 driver: reads the case file of `c16 views` (harness/src/bin/c16.rs), runs every op on the
   extracted model (Model/Config.v) and prints one observation per op in the harness' format.
   Trusted glue: line parser, int/string conversions, printer. *)
open Config

let zi = Convz.z_of_int
let iz = Convz.int_of_z
let ni = Conv.n_of_int
let inn = Conv.int_of_n

(* OCaml string <-> extracted Coq string (ascii = Ascii of 8 bools, least significant first) *)
let ascii_of_char (ch : char) =
  let c = Char.code ch in
  let b i = (c lsr i) land 1 = 1 in
  Ascii.Ascii (b 0, b 1, b 2, b 3, b 4, b 5, b 6, b 7)

let char_of_ascii = function
  | Ascii.Ascii (b0, b1, b2, b3, b4, b5, b6, b7) ->
    let v b i = if b then 1 lsl i else 0 in
    Char.chr (v b0 0 + v b1 1 + v b2 2 + v b3 3 + v b4 4 + v b5 5 + v b6 6 + v b7 7)

let coq_string (s : string) =
  let rec go i = if i >= Stdlib.String.length s then String.EmptyString else String.String (ascii_of_char (Stdlib.String.get s i), go (i + 1)) in
  go 0

let rec ocaml_string = function
  | String.EmptyString -> ""
  | String.String (a, r) -> Stdlib.String.make 1 (char_of_ascii a) ^ ocaml_string r

let untok s = if s = "-" then "" else s
let tok s = if s = "" then "-" else s

let ints_of l = Stdlib.List.map int_of_string l
let join l = Stdlib.String.concat " " l

let rec take n l = if n <= 0 then [] else match l with [] -> [] | x :: r -> x :: take (n - 1) r

let ocaml_string_of_codes l =
  Stdlib.String.concat "" (Stdlib.List.map (fun n -> Stdlib.String.make 1 (Char.chr ((inn n) land 255))) l)

let obs_line c =
  let ints = Stdlib.List.map (fun z -> string_of_int (iz z)) (view_ints c) in
  let kbstring = ocaml_string_of_codes (get_KBString c)
  and kbstr = match config_get_str name_keyboard_type c with
    | SOk s -> "0:" ^ tok (ocaml_string_of_codes s)
    | SError -> "-1:-" in
  let sel = Stdlib.List.map (fun z -> string_of_int (iz z)) (get_selKey c) in
  Printf.sprintf "I %s K %d %s %s S %s P %d" (join ints) (iz (get_KBType c)) (tok kbstring) kbstr (join sel)
    (if syl_pending c then 1 else 0)

let pair_str (p : String.string * String.string) = ocaml_string (fst p) ^ ":" ^ ocaml_string (snd p)

let main args =
  match args with
  | [ "views"; cases; out ] ->
    let ic = open_in cases and oc = open_out out in
    let c = ref init_config and id = ref 0 and idx = ref 0 and skipping = ref false in
    let after rc =
      Printf.fprintf oc "R %d %d %d %s\n" !id !idx rc (obs_line !c);
      (match config_get_str name_selection_keys !c with
       | SOk s ->
         let cps = Stdlib.List.map (fun n -> string_of_int (inn n)) s in
         output_string oc (Stdlib.String.trim (Printf.sprintf "G %d %d OK %d %s" !id !idx (Stdlib.List.length cps) (join cps)));
         output_char oc '\n'
       | SError -> Printf.fprintf oc "G %d %d ERR\n" !id !idx);
      incr idx in
    (try
       while true do
         let line = input_line ic in
         let t = Stdlib.String.split_on_char ' ' line |> Stdlib.List.filter (fun s -> s <> "") in
         match t with
         | "CASE" :: i :: p :: _ ->
           id := int_of_string i; idx := 0; skipping := false;
           c := with_pending (p = "1") init_config
         | [ "ABORTED" ] -> skipping := true
         | "T" :: k :: _ ->
           let k' = ni (int_of_string k) in
           Printf.fprintf oc "T %s %s %s\n" k (pair_str (row_by_number k')) (pair_str (row_by_name k'))
         | "H" :: n :: _ -> Printf.fprintf oc "H %s %d\n" n (iz (config_has_option (coq_string (untok n))))
         | [ "N" ] ->
           Printf.fprintf oc "N %d %s\n" (iz kbtype_Total) (join (Stdlib.List.map ocaml_string kbtype_Strings))
         | "Z" :: _ :: cps -> Printf.fprintf oc "Z %d\n" (iz (coq_KBStr2Num (Stdlib.List.map (fun x -> ni (int_of_string x)) cps)))
         | _ when !skipping -> ()
         | [ "I"; n; v ] ->
           let (rc, c') = config_set_int (coq_string (untok n)) (zi (int_of_string v)) !c in
           c := c'; after (iz rc)
         | [ "L"; a; v ] ->
           c := legacy_set (Stdlib.List.nth all_legacy (int_of_string a)) (zi (int_of_string v)) !c; after 0
         | "S" :: n :: _ :: cps ->
           let (rc, c') = config_set_str (coq_string (untok n)) (Stdlib.List.map (fun x -> ni (int_of_string x)) cps) !c in
           c := c'; after (iz rc)
         | [ "K"; v ] ->
           let (rc, c') = set_KBType (zi (int_of_string v)) !c in
           c := c'; after (iz rc)
         | "E" :: null :: len :: _ :: keys ->
           let ks = if null = "1" then None else Some (Stdlib.List.map (fun x -> zi (int_of_string x)) keys) in
           c := set_selKey ks (zi (int_of_string len)) !c; after 0
         | "C" :: v ->
           let v = Array.of_list (ints_of v) in
           let p = { cd_cand_per_page = zi v.(0); cd_max_chi_symbol_len = zi v.(1);
                     cd_sel_key = Stdlib.List.map zi (Array.to_list (Array.sub v 2 10));
                     cd_add_phrase_forward = zi v.(12); cd_space_as_selection = zi v.(13);
                     cd_esc_clean_all_buf = zi v.(14); cd_auto_shift_cur = zi v.(15);
                     cd_easy_symbol_input = zi v.(16); cd_phrase_choice_rearward = zi v.(17) } in
           c := chewing_Configure p !c; after 0
         | [ "A"; tl; tf; p ] ->
           c := editor_activity (tl = "1") (tf = "1") (p = "1") !c; after 0
         | [ "F" ] ->
           let eff = in_effect !c and k = kb_compat !c in
           Printf.fprintf oc "F %d %d %s %d %d\n" !id !idx (pair_str eff)
             (if pair_str eff = pair_str (row_by_number k) then 1 else 0)
             (if pair_str eff = pair_str (row_by_name k) then 1 else 0);
           c := editor_activity false false false !c; after 0
         | [] -> ()
         | _ -> Printf.fprintf oc "?? %s\n" line
       done
     with End_of_file -> ());
    close_out oc; 0
  | _ -> prerr_endline "usage: driver-c16 views <cases> <out>"; 2
