(* Runs the extracted Coq model (group c16) on the case file written by the Rust harness. *)
let () =
  let args = match Array.to_list Sys.argv with _ :: rest -> rest | [] -> [] in
  exit (C16.main args)
