(* Runs the extracted Coq model (group c10) on the schedules the Rust harness executed. *)
let () =
  let args = match Array.to_list Sys.argv with _ :: rest -> rest | [] -> [] in
  exit (C10.main args)
