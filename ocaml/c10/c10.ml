(* model side of the C10 traces (mirrors harness/src/bin/c10.rs).
     driver-c10 views <pinned|fixed> <in.trace> <out.trace>
         for every line of in.trace take the schedule tokens before '|', run the extracted
         model on them and print the line the implementation should have printed
     driver-c10 count <pinned|fixed> <max foreground ops incl. close> <alphabet e.g. udfr>
         enumerate the schedule tree with the model's own enabledness; print the number of
         complete schedules and of crash points (cross-check of the harness's exploration)
     driver-c10 search <pinned|fixed> <max ops> <alphabet>
         counter-example finder on the model: WITNESS <oracle> <schedule> lines, or NONE
     driver-c10 run <pinned|fixed> <tokens>                                                  *)
open Conv
open Durability

let nkeys = nat_of_int 8
let d0 : dict = [ (n_of_int 0, n_of_int 1); (n_of_int 1, n_of_int 1) ]

let fmt_table (t : (BinNums.coq_N * BinNums.coq_N) list) =
  "[" ^ String.concat "," (Stdlib.List.map (fun (k, v) -> Printf.sprintf "%d=%d" (int_of_n k) (int_of_n v)) t) ^ "]"

let fmt_disk s = match disk_table s nkeys with None -> "!" | Some t -> fmt_table t

type sim = { st : state; n_u : int }

let closing s = match s.st_pc with Running -> false | _ -> true

(* one schedule token, exactly as the harness interprets it *)
let apply v (m : sim) (index : int) (tok : char) : sim =
  let fg o = { m with st = step v (Fg o) m.st } in
  match tok with
  | 'W' ->
      let st = step v Wr m.st in
      let st = if closing st then run_drop v (nat_of_int 8) st else st in
      { m with st }
  | 'x' ->
      if closing m.st then m
      else { m with st = run_drop v (nat_of_int 8) (step v (Fg Close) m.st) }
  | '!' -> { m with st = step v Crash m.st }
  | _ when closing m.st -> m
  | 'f' -> fg Flush
  | 'r' -> fg Reopen
  | 'u' ->
      let k = 2 + m.n_u and x = 10 + m.n_u in
      { st = step v (Fg (Change (Upd (n_of_int (k mod 8), n_of_int x)))) m.st; n_u = m.n_u + 1 }
  | 'v' -> fg (Change (Upd (n_of_int 1, n_of_int (20 + index))))
  | 'd' -> fg (Change (Rem (n_of_int 0)))
  | 'a' -> fg (Change (Add (n_of_int 1, n_of_int 99)))
  | 'b' -> fg (Change (Add (n_of_int 7, n_of_int 5)))
  | 'e' -> fg (Change (Rem (n_of_int 7)))
  | _ -> m

let observe (m : sim) : string =
  match m.st.st_pc with
  | Running ->
      Printf.sprintf "D%dH%dM%sP%s"
        (if m.st.st_mem.m_dirty then 1 else 0)
        (int_of_n (handle_code m.st.st_mem))
        (fmt_table (mem_table m.st nkeys))
        (fmt_disk m.st)
  | Closing _ -> "C0P" ^ fmt_disk m.st
  | Closed -> "C1P" ^ fmt_disk m.st
  | Crashed -> "P" ^ fmt_disk m.st

let tokens_of (s : string) : char list =
  let l = ref [] in
  String.iter (fun c -> if c <> ' ' && c <> '\t' then l := c :: !l) s;
  Stdlib.List.rev !l

let trace v (toks : char list) : string =
  let crash = Stdlib.List.mem '!' toks in
  let m = ref { st = init d0; n_u = 0 } in
  let obs =
    Stdlib.List.mapi
      (fun i t ->
        m := apply v !m i t;
        if crash && t <> '!' then "_" else observe !m)
      toks
  in
  String.concat " " (Stdlib.List.map (String.make 1) toks) ^ " | " ^ String.concat " " obs

let variant_of = function "pinned" -> Pinned | _ -> Fixed

let views v inp out =
  let ic = open_in inp and oc = open_out out in
  (try
     while true do
       let l = input_line ic in
       let sched = match String.index_opt l '|' with Some i -> String.sub l 0 i | None -> l in
       output_string oc (trace v (tokens_of sched));
       output_char oc '\n'
     done
   with End_of_file -> ());
  close_in ic;
  close_out oc

(* the model's own exploration of the same tree *)
let parked (s : state) =
  match s.st_mem.m_handle with Some w -> not (is_finished w) | None -> false

let count v max_ops alphabet =
  let max_ops = int_of_string max_ops in
  let alphabet = tokens_of alphabet in
  let leaves = ref 0 and nodes = ref 0 and crash = ref 0 in
  let rec go (m : sim) depth ops rewrote =
    incr nodes;
    if rewrote then incr crash;
    let en =
      (if parked m.st then [ 'W' ] else [])
      @ (if closing m.st then [] else (if ops + 1 < max_ops then alphabet else []) @ [ 'x' ])
    in
    if en = [] then incr leaves
    else
      Stdlib.List.iter
        (fun c -> go (apply v m depth c) (depth + 1) (if c = 'W' then ops else ops + 1) (rewrote || c = 'f' || c = 'x'))
        en
  in
  go { st = init d0; n_u = 0 } 0 0 false;
  Printf.printf "schedules %d crash_points %d nodes %d\n" !leaves !crash !nodes

(* counter-example finder that accompanies the theorems: walk the same tree on the model and
   report the first schedule on which the file does not load, or on which drop has returned and
   the file differs from what the dictionary showed at close *)
let search v max_ops alphabet =
  let max_ops = int_of_string max_ops in
  let alphabet = tokens_of alphabet in
  let found = ref 0 in
  let report kind path =
    if !found < 3 then begin
      incr found;
      Printf.printf "WITNESS %s %s\n" kind (String.concat "" (Stdlib.List.rev_map (String.make 1) path))
    end
  in
  let rec go (m : sim) path depth ops at_close =
    if !found < 3 then begin
      (match disk_table m.st nkeys with
       | None -> report "not-loadable" path
       | Some t -> (
           match (m.st.st_pc, at_close) with
           | Closed, Some c when c <> t -> report "lost-after-close" path
           | _ -> ()));
      let en =
        (if parked m.st then [ 'W' ] else [])
        @ (if closing m.st then [] else (if ops + 1 < max_ops then alphabet else []) @ [ 'x' ])
      in
      Stdlib.List.iter
        (fun c ->
          let at_close' = if c = 'x' && at_close = None then Some (mem_table m.st nkeys) else at_close in
          go (apply v m depth c) (c :: path) (depth + 1) (if c = 'W' then ops else ops + 1) at_close')
        en
    end
  in
  go { st = init d0; n_u = 0 } [] 0 0 None;
  if !found = 0 then print_endline "NONE"

let main args =
  match args with
  | [ "views"; v; inp; out ] -> views (variant_of v) inp out; 0
  | [ "count"; v; max_ops; alphabet ] -> count (variant_of v) max_ops alphabet; 0
  | [ "search"; v; max_ops; alphabet ] -> search (variant_of v) max_ops alphabet; 0
  | "run" :: v :: rest -> print_endline (trace (variant_of v) (tokens_of (String.concat "" rest))); 0
  | _ -> prerr_endline "usage: driver-c10 views <pinned|fixed> <in> <out> | count <variant> <max_ops> <alphabet> | run <variant> <tokens>"; 2
