(* model side of the C19 / C12-legacy views (mirrors harness/src/bin/c19.rs).
   Trusted glue: case-line parsing, hex, sorting of map-level output. *)
open Conv
open Convz

let unhex s =
  if s = "-" then []
  else Stdlib.List.init (String.length s / 2) (fun i -> int_of_string ("0x" ^ String.sub s (2 * i) 2))

let hex_of_ints l =
  if l = [] then "-"
  else String.concat "" (Stdlib.List.map (fun b -> Printf.sprintf "%02x" b) l)

let bytes_to_model l = Stdlib.List.map n_of_int l
let bytes_of_model l = Stdlib.List.map int_of_n l

(* big numbers: frequencies < 2^32 and times < 2^64 do not fit OCaml's 63-bit int
   in general, so N is printed through a decimal string routine on the datatype *)
let rec n_to_string n =
  (* n is BinNums.coq_N *)
  let open BinNums in
  match n with
  | N0 -> "0"
  | Npos _ ->
    let (q, r) = BinNat.N.div_eucl n (n_of_int 1000000000) in
    if q = N0 then string_of_int (int_of_n r)
    else n_to_string q ^ Printf.sprintf "%09d" (int_of_n r)

let fmt_entry with_time (e : Uhash.uentry) =
  let syls = bytes_of_model e.Uhash.ue_syls in
  let s = if syls = [] then "-" else String.concat "," (Stdlib.List.map string_of_int syls) in
  let base = Printf.sprintf "%s;%s;%s" s (hex_of_ints (bytes_of_model e.Uhash.ue_phrase)) (n_to_string e.Uhash.ue_freq) in
  if with_time then base ^ ";" ^ n_to_string e.Uhash.ue_time else base

let fmt_outcome sep (o : Uhash.uentry list Lib.outcome) =
  match o with
  | Lib.Ok es ->
    String.concat sep (("ok" :: [string_of_int (Stdlib.List.length es)]) @ Stdlib.List.map (fmt_entry true) es)
  | Lib.Err _ -> "err"
  | Lib.Panic _ -> "panic"
  | Lib.OutOfFuel -> "hang"

let load_line bytes =
  let m = bytes_to_model bytes in
  Printf.sprintf "bin=%s text=%s" (fmt_outcome "_" (Uhash.load_bin m)) (fmt_outcome "_" (Uhash.load_text m))

let migrate_line bytes =
  match Loader.migrate_uhash (bytes_to_model bytes) with
  | Lib.Ok d ->
    let es = Stdlib.List.map (fun ((syls, phrase), (f, _t)) ->
        (bytes_of_model syls, bytes_of_model phrase, f)) d in
    let es = Stdlib.List.sort (fun (s1, p1, _) (s2, p2, _) -> compare (s1, p1) (s2, p2)) es in
    String.concat " " (("ok" :: [string_of_int (Stdlib.List.length es)]) @
      Stdlib.List.map (fun (s, p, f) ->
          Printf.sprintf "%s;%s;%s"
            (if s = [] then "-" else String.concat "," (Stdlib.List.map string_of_int s))
            (hex_of_ints p) (n_to_string f)) es)
  | Lib.Err _ -> "err"
  | Lib.Panic _ -> "panic"
  | Lib.OutOfFuel -> "hang"

let z_of_string s = z_of_int (int_of_string s)

let bases : (string, int list) Hashtbl.t = Hashtbl.create 16

let overwrite l off v = Stdlib.List.mapi (fun i b -> if i = off then v else b) l
let rec take n l = if n <= 0 then [] else match l with [] -> [] | x :: t -> x :: take (n - 1) t

let run_case oc line =
  let t = Array.of_list (String.split_on_char ' ' line) in
  match t.(0) with
  | "B" -> Hashtbl.replace bases t.(1) (unhex t.(2))
  | "L" -> Printf.fprintf oc "L %s %s\n" t.(1) (load_line (unhex t.(2)))
  | "C" ->
    let b = overwrite (Hashtbl.find bases t.(2)) (int_of_string t.(3)) (int_of_string t.(4)) in
    Printf.fprintf oc "C %s %s\n" t.(1) (load_line b)
  | "T" ->
    let b = take (int_of_string t.(3)) (Hashtbl.find bases t.(2)) in
    Printf.fprintf oc "T %s %s\n" t.(1) (load_line b)
  | "X" ->
    let b = Hashtbl.find bases t.(2) @ unhex t.(3) in
    Printf.fprintf oc "X %s %s\n" t.(1) (load_line b)
  | "M" -> Printf.fprintf oc "M %s %s\n" t.(1) (migrate_line (unhex t.(2)))
  | "MC" ->
    let b = overwrite (Hashtbl.find bases t.(2)) (int_of_string t.(3)) (int_of_string t.(4)) in
    Printf.fprintf oc "MC %s %s\n" t.(1) (migrate_line b)
  | "P" ->
    let kind = t.(2) in
    let lifetime = z_of_string t.(3) in
    let n = int_of_string t.(4) in
    let i = ref 5 in
    let recs = ref [] in
    for _ = 1 to n do
      let deleted = t.(!i) = "1" in
      let user = z_of_string t.(!i + 1) and time = z_of_string t.(!i + 2)
      and max = z_of_string t.(!i + 3) and orig = z_of_string t.(!i + 4) in
      let ns = int_of_string t.(!i + 5) in
      let syls = Stdlib.List.init ns (fun k -> n_of_int (int_of_string t.(!i + 6 + k))) in
      let phrase = bytes_to_model (unhex t.(!i + 6 + ns)) in
      i := !i + 7 + ns;
      recs := { Uhash.lr_phrase = phrase; lr_syls = syls; lr_user = user; lr_time = time;
                lr_max = max; lr_orig = orig; lr_deleted = deleted } :: !recs
    done;
    let recs = Stdlib.List.rev !recs in
    let bytes = if kind = "b" then Uhash.print_bin lifetime recs else Uhash.print_text lifetime recs in
    Printf.fprintf oc "P %s %s\n" t.(1) (hex_of_ints (bytes_of_model bytes))
  | k -> failwith ("unknown case " ^ k)

let views cases out =
  let ic = open_in cases in
  let oc = open_out out in
  (try
     while true do
       let line = input_line ic in
       if line <> "" then run_case oc line
     done
   with End_of_file -> ());
  close_in ic;
  close_out oc;
  0

let main args =
  match args with
  | [ "views"; cases; out ] -> views cases out
  | _ ->
    prerr_endline "usage: driver-c19 views <cases> <out>";
    2
