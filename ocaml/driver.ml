(* Runs the extracted Coq model on the same cases as the Rust harness. *)
let () =
  let args = Array.to_list Sys.argv in
  let code =
    match args with
    | _ :: "c13" :: rest -> C13.main rest
    | _ -> prerr_endline "usage: driver <cmd> ..."; 2
  in
  exit code
