(* model side of the C15 correspondence: reads the abstract calls (one per line, integers; format in
   harness/src/bin/c15.rs), steps Model/CapiMem.v, prints one result per line in the format of the
   implementation's observation file. *)
open Conv
open Convz
open CapiMem

let n = n_of_int
let i = int_of_n

(* token stream over one line *)
let toks line = Stdlib.List.filter (fun s -> s <> "") (String.split_on_char ' ' line)

let take_int st = match !st with x :: r -> st := r; int_of_string x | [] -> failwith "short line"
let take_bytes st =
  let k = take_int st in
  let rec go j acc = if j = 0 then Stdlib.List.rev acc else go (j - 1) (n (take_int st) :: acc) in
  go k []
let take_list st f =
  let k = take_int st in
  let rec go j acc = if j = 0 then Stdlib.List.rev acc else let x = f st in go (j - 1) (x :: acc) in
  go k []
let opt_len v = if v < 0 then None else Some (n v)

let parse_op st =
  match take_int st with
  | 0 ->
      let pol = (match take_int st with 0 -> NulNull | 1 -> NulEmpty | _ -> NulPanic) in
      let text = take_bytes st in
      let a = take_int st in
      OGetHeap (pol, text, n a)
  | 1 ->
      let b = (match take_int st with 0 -> BCommit | 1 -> BPreedit | 2 -> BBopomofo | 3 -> BCand | 4 -> BAux | _ -> BKbtype) in
      let has = take_int st in
      if has = 0 then OGetStatic (b, None) else OGetStatic (b, Some (take_bytes st))
  | 2 -> let len = take_int st in let a = take_int st in OPhoneSeq (n len, n a)
  | 3 -> OFree (n (take_int st))
  | 4 -> let has = take_int st in if has = 0 then OCandEnum None else OCandEnum (Some (take_list st take_bytes))
  | 5 -> OCandHasNext (take_int st <> 0)
  | 6 -> OCandString (n (take_int st))
  | 7 -> OCandStringStatic
  | 8 -> OIntEnum (take_list st (fun st -> let a = take_int st in let b = take_int st in (n a, n b)))
  | 9 -> OIntHasNext
  | 10 -> OIntGet
  | 11 -> OKbEnum
  | 12 -> OKbHasNext
  | 13 -> OKbString (n (take_int st))
  | 14 -> OKbStringStatic
  | 15 -> OUpEnum (take_list st (fun st -> let p = take_bytes st in let b = take_bytes st in (p, b)))
  | 16 -> OUpHasNext
  | 17 -> let a = take_int st in let b = take_int st in OUpGet (opt_len a, opt_len b)
  | 18 ->
      let muts = take_list st (fun st ->
        let k = take_int st in let b = take_int st in
        ((match k with 0 -> MAdd | 1 -> MUpdate | 2 -> MRemove true | _ -> MRemove false), b <> 0)) in
      let eok = take_int st <> 0 in
      let w = (match take_int st with 0 -> WRunning | 1 -> WDoneOk | _ -> WDoneErr) in
      let reload = take_int st <> 0 in
      OCall (muts, eok, w, reload)
  | k -> failwith ("unknown op " ^ string_of_int k)

let bytes_str l =
  let b = Buffer.create 64 in
  Buffer.add_string b (string_of_int (Stdlib.List.length l));
  Stdlib.List.iter (fun x -> Buffer.add_char b ' '; Buffer.add_string b (string_of_int (i x))) l;
  Buffer.contents b

let buf_no = function BCommit -> 0 | BPreedit -> 1 | BBopomofo -> 2 | BCand -> 3 | BAux -> 4 | BKbtype -> 5

let print_res = function
  | RNone -> "N"
  | RInt z -> "I " ^ string_of_int (int_of_z z)
  | RHeap (a, c) -> Printf.sprintf "H %d %s" (i a) (bytes_str c)
  | RNull -> "U"
  | RSlice (a, len) -> Printf.sprintf "S %d %d" (i a) (i len)
  | RStatic (b, c) ->
      (* canonical view: the bytes up to the first NUL inside the buffer, or the whole buffer *)
      if Text.has_nul c then Printf.sprintf "B %d 1 %s" (buf_no b) (bytes_str (Text.c_str c))
      else Printf.sprintf "B %d 0 %s" (buf_no b) (bytes_str c)
  | RGlobalEmpty -> "G"
  | RHasNext (p, b) -> Printf.sprintf "X %d %d" (i p) (i b)
  | RUpGet (p, b) ->
      let f = function None -> " 0" | Some l -> " 1 " ^ bytes_str l in
      "W" ^ f p ^ f b
  | RInterval None -> "V 0"
  | RInterval (Some (a, b)) -> Printf.sprintf "V 1 %d %d" (i a) (i b)
  | RDealloc (p, l) -> Printf.sprintf "D %d %d %d" (i p) (i l.l_size) (i l.l_align)
  | RFault (Dangling c) -> Printf.sprintf "F 0 %d" (match c with TrieDropped -> 0 | BtreeFreed -> 1 | BtreeMutated -> 2)
  | RFault (LayoutMismatch (a, d)) -> Printf.sprintf "F 1 %d %d %d %d" (i a.l_size) (i a.l_align) (i d.l_size) (i d.l_align)
  | RFault (FreeNotLive p) -> Printf.sprintf "F 2 %d" (i p)
  | RFault (Panic s) -> Printf.sprintf "F 3 %d" (i s)

let cfg_of = function
  | "pinned" -> cfg_pinned CapiMem_gen.kb_names_gen
  | _ -> CapiMem_gen.cfg_current

(* interval results: negative c_int values cannot be N; the harness never produces them *)
let run cfgname trace out =
  let cfg = cfg_of cfgname in
  let ic = open_in trace in
  let oc = open_out out in
  let s = ref (init true) in
  let danglings = ref 0 in
  (try
     while true do
       let line = input_line ic in
       let st = ref (toks line) in
       (match !st with
        | "-1" :: fb :: _ ->
            s := new_context (fb <> "0") !s;
            output_string oc "C\n"
        | _ ->
            let o = parse_op st in
            let (s', r) = step cfg !s o in
            s := s';
            (match r with RFault (Dangling _) -> incr danglings | _ -> ());
            output_string oc (print_res r);
            output_char oc '\n')
     done
   with End_of_file -> ());
  close_in ic;
  close_out oc;
  Printf.printf "model: dangling=%d\n" !danglings

let witnesses cfgname =
  let cfg = cfg_of cfgname in
  Stdlib.List.iter (fun (k, im) -> Printf.printf "WITNESS %d %d\n" (int_of_nat k) (i im)) (dangling_witnesses cfg)

let main args =
  match args with
  | [ "run"; cfgname; trace; out ] -> run cfgname trace out; 0
  | [ "witnesses"; cfgname ] -> witnesses cfgname; 0
  | _ -> prerr_endline "usage: driver-c15 run <current|pinned> <trace> <out> | witnesses <current|pinned>"; 2
