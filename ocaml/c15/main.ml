(* Runs the extracted Coq model (group c15) on the trace the Rust harness wrote. *)
let () =
  let args = match Array.to_list Sys.argv with _ :: rest -> rest | [] -> [] in
  exit (C15.main args)
