(* int <-> extracted Z (only for groups whose extraction mentions Z) *)
open BinNums
let z_of_int n = if n = 0 then Z0 else if n > 0 then Zpos (Conv.pos_of_int n) else Zneg (Conv.pos_of_int (-n))
let int_of_z = function Z0 -> 0 | Zpos p -> Conv.int_of_pos p | Zneg p -> - (Conv.int_of_pos p)
