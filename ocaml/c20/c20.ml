(* model side of the C20 views (mirrors harness/src/bin/c20.rs).
   Trusted glue: case-line parsing, sorting of the dump lines, printing. *)
open Conv

let line_of_token s =
  if s = "-" then [] else Stdlib.List.map (fun x -> n_of_int (int_of_string x)) (String.split_on_char ',' s)

let token_of_line l =
  if l = [] then "-" else String.concat "," (Stdlib.List.map (fun c -> string_of_int (int_of_n c)) l)

let ints l = Stdlib.List.map int_of_n l

let fmt_result csv (r : Cli.cli_result) =
  let errs = Stdlib.List.map int_of_n r.Cli.cr_errors in
  let b = Buffer.create 256 in
  Buffer.add_string b
    (Printf.sprintf "exit=%d errs=%s out=%d" (int_of_n r.Cli.cr_exit)
       (if errs = [] then "-" else String.concat "," (Stdlib.List.map string_of_int errs))
       (match r.Cli.cr_output with Some _ -> 1 | None -> 0));
  (match r.Cli.cr_output with
   | None -> ()
   | Some d ->
     let lines = Cli.dump_lines csv d in
     let lines = Stdlib.List.sort (fun a b -> compare (ints a) (ints b)) lines in
     Buffer.add_string b (Printf.sprintf " dump=%d:" (Stdlib.List.length lines));
     Stdlib.List.iter (fun l -> Buffer.add_char b ' '; Buffer.add_string b (token_of_line l)) lines);
  Buffer.contents b

let run_case oc line =
  let t = Array.of_list (String.split_on_char ' ' line) in
  match t.(0) with
  | "R" ->
    let csv = t.(2) = "1" and keep = t.(3) = "1" and skip = t.(4) = "1" in
    let n = int_of_string t.(5) in
    let lines = Stdlib.List.init n (fun i -> line_of_token t.(6 + i)) in
    let fl = { Cli.fl_csv = csv; fl_keep = keep; fl_skip = skip } in
    let r = Cli.run fl lines in
    Printf.fprintf oc "R %s %s" t.(1) (fmt_result csv r);
    (match r.Cli.cr_output with
     | None -> ()
     | Some _ ->
       (* the second compile reads the dump in the order the tool printed it *)
       let m = int_of_string t.(7 + n) in
       let dl = Stdlib.List.init m (fun i -> line_of_token t.(8 + n + i)) in
       let r2 = Cli.run fl dl in
       Printf.fprintf oc " | again %s" (fmt_result csv r2));
    output_char oc '\n'
  | k -> failwith ("unknown case " ^ k)

let views cases out =
  let ic = open_in cases in
  let oc = open_out out in
  (try
     while true do
       let line = input_line ic in
       if line <> "" then run_case oc line
     done
   with End_of_file -> ());
  close_in ic;
  close_out oc;
  0

let main args =
  match args with
  | [ "views"; cases; out ] -> views cases out
  | _ ->
    prerr_endline "usage: driver-c20 views <cases> <out>";
    2
