(* Runs the extracted Coq model (group c20) on the cases written by the Rust harness. *)
let () =
  let args = match Array.to_list Sys.argv with _ :: rest -> rest | [] -> [] in
  exit (C20.main args)
