(* int <-> extracted N / Z / positive / nat; printing helpers.  Trusted glue. *)
open BinNums

let rec pos_of_int n =
  if n <= 1 then Coq_xH
  else if n land 1 = 0 then Coq_xO (pos_of_int (n lsr 1))
  else Coq_xI (pos_of_int (n lsr 1))

let n_of_int n = if n <= 0 then N0 else Npos (pos_of_int n)

let rec int_of_pos = function
  | Coq_xH -> 1
  | Coq_xO p -> 2 * int_of_pos p
  | Coq_xI p -> (2 * int_of_pos p) + 1

let int_of_n = function N0 -> 0 | Npos p -> int_of_pos p

let rec nat_of_int n = if n <= 0 then Datatypes.O else Datatypes.S (nat_of_int (n - 1))
let rec int_of_nat = function Datatypes.O -> 0 | Datatypes.S k -> 1 + int_of_nat k

let print_n_list oc prefix l =
  output_string oc prefix;
  Stdlib.List.iter (fun x -> output_char oc ' '; output_string oc (string_of_int (int_of_n x))) l;
  output_char oc '\n'
