(* Runs the extracted Coq model (group c11: trie codec, C11 + C12) on a case file. *)
let () =
  let args = match Array.to_list Sys.argv with _ :: rest -> rest | [] -> [] in
  exit (C11.main args)
