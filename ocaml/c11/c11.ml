(* model side of the C11/C12 views: interprets the same command file as
   harness/src/bin/c11.rs and prints one line per output-producing command.

   commands (hex = lowercase hex of bytes, "-" = empty):
     T <name>                 new case (fresh builder, no file)
     I <h> <h> <h> <h> <h>    set_info (name copyright license version software)
     E <syls> <hex> <freq> <last|->   insert
     W                        write -> base file      out: W <hex> | W ERR
     F <hex>                  base file := bytes
     P <pos> <hex>            current := base with the bytes at pos overwritten
     C <n>                    current := first n bytes of base
     A <hex>                  current := base ++ bytes
     R                        current := base
     O                        open current            out: O OK <5 hex> <nrec> <datalen> | O ERR
     Q <S|F> <first> <syls>   lookup                  out: Q OK <n> p;p.. | Q PANIC | Q HANG | Q NOTOPEN
     N                        entries (sorted)        out: N OK <n> e|e.. | N PANIC | N HANG | N NOTOPEN *)
open Conv
open Datatypes

let hex_of_bytes (l : BinNums.coq_N list) : string =
  match l with
  | [] -> "-"
  | _ ->
    let b = Buffer.create 64 in
    Stdlib.List.iter (fun x -> Buffer.add_string b (Printf.sprintf "%02x" (int_of_n x))) l;
    Buffer.contents b

let bytes_of_hex (s : string) : BinNums.coq_N list =
  if s = "-" then []
  else begin
    let n = String.length s / 2 in
    let r = ref [] in
    for i = n - 1 downto 0 do
      r := n_of_int (int_of_string ("0x" ^ String.sub s (2 * i) 2)) :: !r
    done;
    !r
  end

let syls_of (s : string) : BinNums.coq_N list =
  if s = "-" then [] else Stdlib.List.map (fun x -> n_of_int (int_of_string x)) (String.split_on_char ',' s)

(* decimal strings up to 2^64-1 -> N without going through a native int *)
let n_of_dec (s : string) : BinNums.coq_N =
  let ten = n_of_int 10 in
  let acc = ref BinNums.N0 in
  String.iter (fun c -> acc := BinNat.N.add (BinNat.N.mul !acc ten) (n_of_int (Char.code c - 48))) s;
  !acc

let dec_of_n (n : BinNums.coq_N) : string =
  (* N -> decimal string by repeated division *)
  let ten = n_of_int 10 in
  if n = BinNums.N0 then "0"
  else begin
    let digits = ref [] in
    let cur = ref n in
    while !cur <> BinNums.N0 do
      let q = BinNat.N.div !cur ten in
      let r = BinNat.N.modulo !cur ten in
      digits := string_of_int (int_of_n r) :: !digits;
      cur := q
    done;
    String.concat "" !digits
  end

let phrase_repr (p : TrieCodec.phrase) : string =
  Printf.sprintf "%s:%s:%s" (hex_of_bytes p.TrieCodec.p_str) (dec_of_n p.TrieCodec.p_freq)
    (match p.TrieCodec.p_last with Some t -> dec_of_n t | None -> "-")

let syls_repr (l : BinNums.coq_N list) : string =
  match l with [] -> "-" | _ -> String.concat "," (Stdlib.List.map (fun x -> string_of_int (int_of_n x)) l)

let patch l pos p =
  let pa = Array.of_list p in
  Stdlib.List.mapi (fun i x -> if i >= pos && i < pos + Array.length pa then pa.(i - pos) else x) l
let rec take n l = if n <= 0 then [] else match l with [] -> [] | x :: r -> x :: take (n - 1) r

let views cases out =
  let ic = open_in cases in
  let oc = open_out out in
  let tree = ref TrieCodec.tempty in
  let info = ref { TrieCodec.i_name = []; i_copyright = []; i_license = []; i_version = []; i_software = [] } in
  let base = ref [] in
  let cur = ref [] in
  let opened : TrieCodec.trie option ref = ref None in
  (try
     while true do
       let line = input_line ic in
       match String.split_on_char ' ' line with
       | "T" :: name ->
         tree := TrieCodec.tempty;
         info := { TrieCodec.i_name = []; i_copyright = []; i_license = []; i_version = []; i_software = [] };
         base := []; cur := []; opened := None;
         Printf.fprintf oc "T %s\n" (String.concat " " name)
       | [ "I"; a; b; c; d; e ] ->
         info := { TrieCodec.i_name = bytes_of_hex a; i_copyright = bytes_of_hex b; i_license = bytes_of_hex c;
                   i_version = bytes_of_hex d; i_software = bytes_of_hex e }
       | [ "E"; syls; hex; freq; last ] ->
         let p = { TrieCodec.p_str = bytes_of_hex hex; p_freq = n_of_dec freq;
                   p_last = (if last = "-" then None else Some (n_of_dec last)) } in
         tree := TrieCodec.tinsert (syls_of syls) p !tree
       | [ "W" ] ->
         (match TrieCodec.write !info !tree with
          | Lib.Ok bytes -> base := bytes; cur := bytes; Printf.fprintf oc "W %s\n" (hex_of_bytes bytes)
          | Lib.Err _ -> Printf.fprintf oc "W ERR\n"
          | Lib.Panic _ -> Printf.fprintf oc "W PANIC\n"
          | Lib.OutOfFuel -> Printf.fprintf oc "W HANG\n");
         opened := None
       | [ "F"; hex ] -> base := bytes_of_hex hex; cur := !base; opened := None
       | [ "P"; pos; h ] -> cur := patch !base (int_of_string pos) (bytes_of_hex h); opened := None
       | [ "C"; n ] -> cur := take (int_of_string n) !base; opened := None
       | [ "A"; hex ] -> cur := !base @ bytes_of_hex hex; opened := None
       | [ "R" ] -> cur := !base; opened := None
       | [ "O" ] ->
         (match TrieCodec.coq_open !cur with
          | Lib.Ok t ->
            opened := Some t;
            let i = t.TrieCodec.t_info in
            Printf.fprintf oc "O OK %s %s %s %s %s %d %d\n" (hex_of_bytes i.TrieCodec.i_name)
              (hex_of_bytes i.TrieCodec.i_copyright) (hex_of_bytes i.TrieCodec.i_license)
              (hex_of_bytes i.TrieCodec.i_version) (hex_of_bytes i.TrieCodec.i_software)
              (Stdlib.List.length t.TrieCodec.t_recs) (Stdlib.List.length t.TrieCodec.t_data)
          | Lib.Err _ -> opened := None; Printf.fprintf oc "O ERR\n"
          | Lib.Panic _ -> opened := None; Printf.fprintf oc "O PANIC\n"
          | Lib.OutOfFuel -> opened := None; Printf.fprintf oc "O HANG\n")
       | [ "Q"; strat; first; syls ] ->
         (match !opened with
          | None -> Printf.fprintf oc "Q NOTOPEN\n"
          | Some t ->
            let st = if strat = "F" then TrieCodec.coq_FUZZY else TrieCodec.coq_STANDARD in
            (match TrieCodec.lookup t (syls_of syls) (n_of_dec first) st with
             | Lib.Ok ps ->
               Printf.fprintf oc "Q OK %d %s\n" (Stdlib.List.length ps) (String.concat ";" (Stdlib.List.map phrase_repr ps))
             | Lib.Err _ -> Printf.fprintf oc "Q ERR\n"
             | Lib.Panic _ -> Printf.fprintf oc "Q PANIC\n"
             | Lib.OutOfFuel -> Printf.fprintf oc "Q HANG\n"))
       | [ "N" ] ->
         (match !opened with
          | None -> Printf.fprintf oc "N NOTOPEN\n"
          | Some t ->
            (match TrieCodec.entries t with
             | Lib.Ok es ->
               let rs = Stdlib.List.map (fun (s, p) -> syls_repr s ^ "=" ^ phrase_repr p) es in
               let rs = Stdlib.List.sort compare rs in
               Printf.fprintf oc "N OK %d %s\n" (Stdlib.List.length rs) (String.concat "|" rs)
             | Lib.Err _ -> Printf.fprintf oc "N ERR\n"
             | Lib.Panic _ -> Printf.fprintf oc "N PANIC\n"
             | Lib.OutOfFuel -> Printf.fprintf oc "N HANG\n"))
       | [ "X"; role; h ] ->
         (* context creation: only a corrupt *user* file makes chewing_new2 fail (null); a bad
            system file falls back to the built-in dictionary, a bad drop-in is skipped *)
         if role = "user" then
           (match TrieCodec.ctx_user_file (bytes_of_hex h) with
            | Lib.Ok true -> Printf.fprintf oc "X %s ctx\n" role
            | Lib.Ok false -> Printf.fprintf oc "X %s null\n" role
            | Lib.Err _ -> Printf.fprintf oc "X %s ERR\n" role
            | Lib.Panic _ -> Printf.fprintf oc "X %s PANIC\n" role
            | Lib.OutOfFuel -> Printf.fprintf oc "X %s HANG\n" role)
         else
           (match TrieCodec.ctx_system_file (bytes_of_hex h) with
            | Lib.Ok _ -> Printf.fprintf oc "X %s ctx\n" role
            | Lib.Err _ -> Printf.fprintf oc "X %s ERR\n" role
            | Lib.Panic _ -> Printf.fprintf oc "X %s PANIC\n" role
            | Lib.OutOfFuel -> Printf.fprintf oc "X %s HANG\n" role)
       | [ "" ] | [] -> ()
       | _ -> Printf.fprintf oc "? %s\n" line
     done
   with End_of_file -> ());
  close_in ic;
  close_out oc

let main args =
  match args with
  | [ "views"; cases; out ] -> views cases out; 0
  | _ -> prerr_endline "usage: driver-c11 views <cases> <out>"; 2
