(* split "lhs => rhs" at the first " => " (rhs may be empty) *)
let split_arrow (s : string) : (string * string) option =
  let n = Stdlib.String.length s in
  let rec find i =
    if i + 2 > n then None
    else if i + 1 < n && (Stdlib.String.get s (i)) = '=' && (Stdlib.String.get s (i + 1)) = '>' then Some i
    else find (i + 1)
  in
  match find 0 with
  | Some i -> Some (Stdlib.String.sub s 0 i, if i + 2 <= n then Stdlib.String.sub s (i + 2) (n - i - 2) else "")
  | None -> None
