(* Model side of the editor correspondence: replays the OP lines of a trace on the
   extracted Coq model, answering the conversion oracle from the CONV/DCONV lines
   (each answer is validated with EdInst.m_valid_conv), and prints R/S/O lines in
   the harness's format. *)
open Conv
open Datatypes
open Composition
open Editor
open EdInst

let split c s = Stdlib.String.split_on_char c s
let ints_of sep s = if s = "" then [] else Stdlib.List.map int_of_string (split sep s)
let ns_of sep s = Stdlib.List.map n_of_int (ints_of sep s)
let cps l = Stdlib.String.concat "." (Stdlib.List.map (fun x -> string_of_int (int_of_n x)) l)

exception Oracle_underflow
exception Oracle_mismatch of string

(* ---- parsing of logged conversions ---- *)
let parse_sym s =
  let v = n_of_int (int_of_string (Stdlib.String.sub s 1 (Stdlib.String.length s - 1))) in
  if (Stdlib.String.get s (0)) = 'S' then SymSyl v else SymChar v

let parse_interval s =
  (* b-e:P|N:cps *)
  match split ':' s with
  | [ range; k; text ] ->
      let b, e = match split '-' range with [ b; e ] -> (int_of_string b, int_of_string e) | _ -> failwith "range" in
      { ib = nat_of_int b; ie = nat_of_int e; iphrase = (k = "P"); itext = ns_of '.' text }
  | _ -> failwith ("interval " ^ s)

let parse_intervals s = if s = "" then [] else Stdlib.List.map parse_interval (split ',' s)

let field name fields =
  let p = name ^ "=" in
  let n = Stdlib.String.length p in
  match Stdlib.List.find_opt (fun f -> Stdlib.String.length f >= n && Stdlib.String.sub f 0 n = p) fields with
  | Some f -> Stdlib.String.sub f n (Stdlib.String.length f - n)
  | None -> ""

type logged = { l_nth : int; l_syms : string; l_gaps : string; l_sels : string; l_result : interval list; l_raw : string }

let parse_logged line =
  (* nth=N syms=.. gaps=.. sels=.. => intervals *)
  let lhs, rhs =
    match Str_split.split_arrow line with Some (a, b) -> (a, b) | None -> failwith ("conv line " ^ line)
  in
  let fs = split ' ' (Stdlib.String.trim lhs) in
  { l_nth = int_of_string (field "nth" fs); l_syms = field "syms" fs; l_gaps = field "gaps" fs; l_sels = field "sels" fs;
    l_result = parse_intervals (Stdlib.String.trim rhs); l_raw = line }

(* ---- printing of model state in the hook's format ---- *)
let sym_str = function SymSyl c -> "S" ^ string_of_int (int_of_n c) | SymChar c -> "C" ^ string_of_int (int_of_n c)
let gap_str = function GBegin -> "B" | GBreak -> "K" | GGlue -> "G" | GNormal -> "N"
let iv_str iv =
  Printf.sprintf "%d-%d:%s:%s" (int_of_nat iv.ib) (int_of_nat iv.ie) (if iv.iphrase then "P" else "N") (cps iv.itext)

(* Rust sorts selections with the derived Ord on Interval: start, end, is_phrase, str *)
let cmp_iv a b =
  let c = compare (int_of_nat a.ib) (int_of_nat b.ib) in
  if c <> 0 then c
  else
    let c = compare (int_of_nat a.ie) (int_of_nat b.ie) in
    if c <> 0 then c
    else
      let c = compare a.iphrase b.iphrase in
      if c <> 0 then c else compare (Stdlib.List.map int_of_n a.itext) (Stdlib.List.map int_of_n b.itext)

let comp_str (c : composition) =
  Printf.sprintf "syms=%s gaps=%s sels=%s"
    (Stdlib.String.concat "," (Stdlib.List.map sym_str c.symbols))
    (Stdlib.String.concat "," (Stdlib.List.map gap_str c.gaps))
    (Stdlib.String.concat "," (Stdlib.List.map iv_str (Stdlib.List.sort cmp_iv c.selections)))

let behavior_str = function BIgnore -> "Ignore" | BCommit -> "Commit" | BBell -> "Bell" | BAbsorb -> "Absorb"
let b01 b = if b then "1" else "0"

let opts_str (o : options) =
  Stdlib.String.concat ","
    [ b01 o.o_easy_symbol; b01 o.o_esc_clear; b01 o.o_space_select; b01 o.o_auto_shift; b01 o.o_rearward; b01 o.o_no_learn;
      string_of_int (int_of_nat o.o_threshold); string_of_int (int_of_nat o.o_per_page); b01 o.o_english; b01 o.o_fullwidth;
      b01 o.o_add_backward; b01 o.o_fuzzy; (match o.o_engine with EngSimple -> "0" | EngChewing -> "1" | EngFuzzy -> "2");
      b01 o.o_fw_toggle ]

let snapshot (e : medl) =
  let s = e.sh in
  let st =
    match e.st with
    | Entering -> "state=Entering"
    | EnteringSyllable -> "state=EnteringSyllable"
    | Highlighting m -> Printf.sprintf "state=Highlighting moving=%d" (int_of_nat m)
    | Selecting (pg, ins, sel) ->
        let base = Printf.sprintf "state=Selecting page=%d action=%s" (int_of_nat pg) (if ins then "I" else "R") in
        (match sel with
         | SelPhrase p ->
             Printf.sprintf "%s sel=P begin=%d end=%d orig=%d fwd=%s" base (int_of_nat p.ps_begin) (int_of_nat p.ps_end)
               (int_of_nat p.ps_orig) (b01 p.ps_fwd)
         | SelSymbol y ->
             Printf.sprintf "%s sel=Y symcur=%d" base (match y.ss_cursor with Some c -> int_of_nat c | None -> -1)
         | SelSpecial _ -> base ^ " sel=X")
  in
  Printf.sprintf "%s %s cursor=%d stack=%s nth=%d syl=%d last=%s commit=%s notice=%s dirty=%d opts=%s" st
    (comp_str s.com.inner) (int_of_nat s.com.cursor)
    (Stdlib.String.concat "," (Stdlib.List.map (fun c -> string_of_int (int_of_nat c)) (Stdlib.List.rev s.com.cursor_stack)))
    (int_of_nat s.nth) (int_of_n (ml_syl_read e)) (behavior_str s.last) (cps s.commit_buf) (cps s.notice) (int_of_n s.dirty)
    (opts_str s.opts)

let key_str k = Stdlib.String.concat "." (Stdlib.List.map (fun x -> string_of_int (int_of_n x)) k)

let user_str (d : memdict) =
  let ents =
    Stdlib.List.filter_map
      (fun (((k, t), f), tm) ->
        if in_grave d.md_grave k t then None
        else Some (Printf.sprintf "%s|%s|%d|%d" (key_str k) (cps t) (int_of_n f) (int_of_n tm)))
      d.md_user
  in
  Stdlib.String.concat ";" (Stdlib.List.sort compare ents)

(* ---- the oracle ---- *)
(* capi cases load the system dictionary as a trie FILE (mdf_ops); editor cases as a TrieBuf (md_ops) *)
let capi_mode = ref false
let dops () = if !capi_mode then EdInst.mdf_ops else EdInst.md_ops
let queue : logged list ref = ref []
let cur_editor : medl option ref = ref None
let problems : string list ref = ref []
let pending : (composition * logged) list ref = ref []

let validate_pending (before : medl option) (after : medl option) =
  Stdlib.List.iter
    (fun (c, l) ->
      let ok e = match e with Some e -> ml_valid_conv (dops ()) e c l.l_result | None -> false in
      (* the engine model (Model/Engine.v) predicts the alternative itself whenever it is exact *)
      let predicted e =
        match e with
        | None -> false
        | Some e -> (
            match ml_engine_alts (dops ()) e c with
            | Lib.Ok (alts, big) ->
                big
                ||
                let n = Stdlib.List.length alts in
                n > 0 && Stdlib.List.nth alts (l.l_nth mod n) = l.l_result
            | _ -> false)
      in
      if not ((ok before && predicted before) || (ok after && predicted after)) then
        if ok before || ok after then problems := Printf.sprintf "ENGINE-DIFFERS %s" l.l_raw :: !problems
        else problems := Printf.sprintf "INVALID-CONVERSION %s" l.l_raw :: !problems)
    (Stdlib.List.rev !pending);
  pending := []

let conv_oracle (_d : memdict) (_k : engine_kind) (c : composition) (n : nat) : interval list =
  match !queue with
  | [] -> raise Oracle_underflow
  | l :: rest ->
      queue := rest;
      let mine = comp_str c in
      let theirs = Printf.sprintf "syms=%s gaps=%s sels=%s" l.l_syms l.l_gaps l.l_sels in
      if mine <> theirs || int_of_nat n <> l.l_nth then
        raise (Oracle_mismatch (Printf.sprintf "model asks nth=%d %s ; implementation converted %s" (int_of_nat n) mine l.l_raw));
      (* validated after the op against the dictionary before or after it (an op may learn a
         phrase and convert again) *)
      pending := (c, l) :: !pending;
      l.l_result

(* OCaml string -> extracted Coq string (ascii = Ascii of 8 bools, least significant first) *)
let ascii_of_char ch =
  let c = Char.code ch in
  let b i = c land (1 lsl i) <> 0 in
  Ascii.Ascii (b 0, b 1, b 2, b 3, b 4, b 5, b 6, b 7)
let coq_string (s : string) =
  let rec go i =
    if i >= Stdlib.String.length s then String.EmptyString else String.String (ascii_of_char (Stdlib.String.get s i), go (i + 1))
  in
  go 0

(* ---- the C context around the editor (Model/CapiKeys.v): keyboard number and selection keys ---- *)
let cx_kb_ref = ref (n_of_int 0)
let cx_sel_ref = ref CapiKeys.default_sel_keys
let cx_kbcompat_ref = ref (n_of_int 0)
let cctx_of (e : medl) : CapiKeys.cctx =
  { CapiKeys.cx_ed = e; cx_kb = !cx_kb_ref; cx_kbcompat = !cx_kbcompat_ref; cx_sel = !cx_sel_ref }
let keep_ctx (c : CapiKeys.cctx) : medl =
  cx_kb_ref := c.CapiKeys.cx_kb;
  cx_kbcompat_ref := c.CapiKeys.cx_kbcompat;
  cx_sel_ref := c.CapiKeys.cx_sel;
  c.CapiKeys.cx_ed

(* ---- ops ---- *)
let parse_opts s =
  match ints_of ',' s with
  | [ a; b; c; d; e; f; g; h; i; j; k; l; m; n ] ->
      { o_easy_symbol = a <> 0; o_esc_clear = b <> 0; o_space_select = c <> 0; o_auto_shift = d <> 0; o_rearward = e <> 0;
        o_no_learn = f <> 0; o_threshold = nat_of_int g; o_per_page = nat_of_int h; o_english = i <> 0; o_fullwidth = j <> 0;
        o_add_backward = k <> 0; o_fuzzy = l <> 0; o_engine = (match m with 0 -> EngSimple | 1 -> EngChewing | _ -> EngFuzzy);
        o_fw_toggle = n <> 0 }
  | _ -> failwith "opts"

(* the index field of a key event: the harness takes it from Qwerty.map(code idx_of); on Qwerty
   INDEX_MAP is the identity on the matrix position and KEYCODE_INDEX lists the codes in
   discriminant order, so index = idx_of (checked by the correspondence itself) *)
let run_op (e : medl) (words : string list) : (medl * string) Lib.outcome =
  let ok2 r = match r with Lib.Ok (e', b) -> Lib.Ok (e', b01 b) | Lib.Err x -> Lib.Err x | Lib.Panic s -> Lib.Panic s | Lib.OutOfFuel -> Lib.OutOfFuel in
  let ok1 r tag = match r with Lib.Ok e' -> Lib.Ok (e', tag) | Lib.Err x -> Lib.Err x | Lib.Panic s -> Lib.Panic s | Lib.OutOfFuel -> Lib.OutOfFuel in
  let crc r =
    match r with
    | Lib.Ok (c, rc) -> Lib.Ok (keep_ctx c, string_of_int (Convz.int_of_z rc))
    | Lib.Err x -> Lib.Err x | Lib.Panic s -> Lib.Panic s | Lib.OutOfFuel -> Lib.OutOfFuel
  in
  match words with
  | [ "key"; idx; code; uni; s; c; cl; n ] ->
      let ev = { kindex = n_of_int (int_of_string idx); kcode = n_of_int (int_of_string code);
                 kunicode = n_of_int (int_of_string uni); mshift = s <> "0"; mctrl = c <> "0"; mcaps = cl <> "0"; mnum = n <> "0" } in
      (match ml_key (dops ()) conv_oracle e ev with
       | Lib.Ok (e', b) -> Lib.Ok (e', behavior_str b)
       | Lib.Err x -> Lib.Err x | Lib.Panic s -> Lib.Panic s | Lib.OutOfFuel -> Lib.OutOfFuel)
  | [ "select"; n ] -> ok2 (ml_select (dops ()) conv_oracle e (nat_of_int (int_of_string n)))
  | [ "cancel" ] -> let e', b = ml_cancel e in Lib.Ok (e', b01 b)
  | [ "start" ] -> ok2 (ml_start_selecting (dops ()) e)
  | [ "commit" ] -> ok2 (ml_commit (dops ()) conv_oracle e)
  | [ "clear" ] -> Lib.Ok (ml_clear e, "-")
  | [ "ack" ] -> Lib.Ok (ml_ack e, "-")
  | [ "opts"; o ] -> ok1 (ml_set_options (dops ()) e (parse_opts o)) "-"
  | [ "engine"; k ] -> Lib.Ok (ml_set_engine e (match int_of_string k with 0 -> EngSimple | 1 -> EngChewing | _ -> EngFuzzy), "-")
  (* C entry points (the result printed is the C return code) *)
  | [ "ckey"; code; mods ] ->
      (match CapiKeys.handle_code conv_oracle (cctx_of e) (n_of_int (int_of_string code)) (n_of_int (int_of_string mods)) with
       | Lib.Ok c -> Lib.Ok (keep_ctx c, "0") | Lib.Panic s -> Lib.Panic s | Lib.OutOfFuel -> Lib.OutOfFuel | Lib.Err x -> Lib.Err x)
  | [ "cdefault"; k ] ->
      (match CapiKeys.handle_default conv_oracle (cctx_of e) (Convz.z_of_int (int_of_string k)) with
       | Lib.Ok c -> Lib.Ok (keep_ctx c, "0") | Lib.Panic s -> Lib.Panic s | Lib.OutOfFuel -> Lib.OutOfFuel | Lib.Err x -> Lib.Err x)
  | [ "cnumlock"; k ] ->
      (match CapiKeys.handle_numlock conv_oracle (cctx_of e) (Convz.z_of_int (int_of_string k)) with
       | Lib.Ok c -> Lib.Ok (keep_ctx c, "0") | Lib.Panic s -> Lib.Panic s | Lib.OutOfFuel -> Lib.OutOfFuel | Lib.Err x -> Lib.Err x)
  | [ "cctrlnum"; k ] -> crc (CapiKeys.handle_ctrlnum conv_oracle (cctx_of e) (Convz.z_of_int (int_of_string k)))
  | [ "kbtype"; k ] -> crc (CapiKeys.set_kbtype (cctx_of e) (Convz.z_of_int (int_of_string k)))
  | [ "selkey"; ks ] ->
      Lib.Ok (keep_ctx (CapiKeys.set_selkey (cctx_of e) (Stdlib.List.map Convz.z_of_int (ints_of ',' ks))), "-")
  | [ "cchoose"; i ] -> crc (CapiKeys.cand_choose conv_oracle (cctx_of e) (Convz.z_of_int (int_of_string i)))
  | [ "copen" ] -> crc (CapiKeys.cand_open (cctx_of e))
  | [ "cclose" ] -> let c, rc = CapiKeys.cand_close (cctx_of e) in Lib.Ok (keep_ctx c, string_of_int (Convz.int_of_z rc))
  | [ "ccommit" ] -> crc (CapiKeys.commit_preedit conv_oracle (cctx_of e))
  | [ "ccleanpre" ] -> let c, rc = CapiKeys.clean_preedit (cctx_of e) in Lib.Ok (keep_ctx c, string_of_int (Convz.int_of_z rc))
  | [ "ccleanbopo" ] -> let c, rc = CapiKeys.clean_bopomofo (cctx_of e) in Lib.Ok (keep_ctx c, string_of_int (Convz.int_of_z rc))
  | [ "ccandlist"; w ] -> crc (CapiKeys.cand_list (n_of_int (int_of_string w)) (cctx_of e))
  | [ "cupadd"; tb ] ->
      (match split '|' tb with
       | [ t; b ] -> crc (CapiConfig.userphrase_add (cctx_of e) (ns_of '.' t) (ns_of '.' b))
       | _ -> failwith "cupadd")
  | [ "cupremove"; tb ] ->
      (match split '|' tb with
       | [ t; b ] -> crc (CapiConfig.userphrase_remove (cctx_of e) (ns_of '.' t) (ns_of '.' b))
       | _ -> failwith "cupremove")
  | [ "cseti"; name; v ] -> crc (CapiConfig.config_set_int_c (cctx_of e) (coq_string name) (Convz.z_of_int (int_of_string v)))
  | [ "creset" ] -> Lib.Ok (keep_ctx (CapiKeys.reset (cctx_of e)), "-")
  | [ "layout"; k ] -> ok1 (ml_set_layout (dops ()) e (n_of_int (int_of_string k))) "-"
  | [ "clearsyl" ] -> Lib.Ok (ml_clear_syl e, "-")
  | [ "get"; _ ] -> Lib.Ok (e, "-")    (* queries are functions of the state: the model's step is the identity *)
  | [ "jnext" ] -> ok2 (ml_jump_next (dops ()) e)
  | [ "jprev" ] -> ok2 (ml_jump_prev (dops ()) e)
  | [ "jfirst" ] -> ok2 (ml_jump_first (dops ()) e)
  | [ "jlast" ] -> ok2 (ml_jump_last (dops ()) e)
  | [ "learn"; kt ] ->
      (match split '|' kt with
       | [ k; t ] -> ok2 (ml_learn (dops ()) e (ns_of '.' k) (ns_of '.' t))
       | _ -> failwith "learn")
  | [ "unlearn"; kt ] ->
      (match split '|' kt with
       | [ k; t ] -> ok1 (ml_unlearn (dops ()) e (ns_of '.' k) (ns_of '.' t)) "1"
       | _ -> failwith "unlearn")
  | _ -> failwith ("bad op " ^ Stdlib.String.concat " " words)

let observe oc (e : medl) =
  (* one conversion for the display, answered by the DCONV line *)
  try
    let ivs = conversion conv_oracle e.sh in
    let disp = Conversion.display_of ivs in
    let tiles =
      let rec go pos = function
        | [] -> pos = int_of_nat (ce_len e.sh.com)
        | iv :: r ->
            int_of_nat iv.ib = pos && int_of_nat iv.ie > int_of_nat iv.ib
            && Stdlib.List.length iv.itext = int_of_nat iv.ie - int_of_nat iv.ib
            && go (int_of_nat iv.ie) r
      in
      go 0 ivs
    in
    let cands =
      match (ml_candidates (dops ()) e, ml_total_page (dops ()) e, ed_page_no e) with
      | Lib.Ok (Some c), Lib.Ok (Some tp), Some pg ->
          Printf.sprintf "cands=%d:%s tp=%d pg=%d" (Stdlib.List.length c) (Stdlib.String.concat "," (Stdlib.List.map cps c)) (int_of_nat tp)
            (int_of_nat pg)
      | Lib.Ok None, _, _ -> "cands=-"
      | _ -> "cands=PANIC"
    in
    Printf.fprintf oc "O display=%s tiling=%s %s user=%s\n" (cps disp) (b01 tiles) cands (user_str e.sh.dict);
    (* capi cases: what the query functions of the C API answer (Model/CapiKeys.v: c_flags ...) *)
    if !capi_mode then begin
      let c = cctx_of e in
      let c = { c with CapiKeys.cx_kbcompat = !cx_kbcompat_ref } in
      let cfg_names =
        [ "chewing.easy_symbol_input"; "chewing.esc_clear_all_buffer"; "chewing.space_is_select_key"; "chewing.auto_shift_cursor";
          "chewing.phrase_choice_rearward"; "chewing.disable_auto_learn_phrase"; "chewing.auto_commit_threshold";
          "chewing.candidates_per_page"; "chewing.language_mode"; "chewing.character_form"; "chewing.user_phrase_add_direction";
          "chewing.conversion_engine"; "chewing.enable_fullwidth_toggle_key" ]
      in
      Printf.fprintf oc "OC flags=%s commit=%s buffer=%s cands=%s aux=%s cfg=%s\n"
        (Stdlib.String.concat "," (Stdlib.List.map (fun z -> string_of_int (Convz.int_of_z z)) (CapiKeys.c_flags c)))
        (cps (CapiKeys.c_commit_string c)) (cps disp)
        (Stdlib.String.concat ";" (Stdlib.List.map cps (CapiKeys.c_cand_enumerate c)))
        (cps (CapiKeys.c_aux_string c))
        (Stdlib.String.concat ","
           (Stdlib.List.map (fun n -> string_of_int (Convz.int_of_z (CapiConfig.config_get_int_c c (coq_string n)))) cfg_names))
    end
  with Oracle_underflow -> Printf.fprintf oc "O PANIC\n"

(* C03: validate every alternative the engines returned for directly built compositions *)
let conv_main trace out =
  let ic = open_in trace in
  let oc = open_out out in
  let sys = ref [] and usr = ref [] in
  let comp : composition option ref = ref None in
  let engines_done : string list ref = ref [] in
  (try
     while true do
       let line = input_line ic in
       let tag, rest =
         match Stdlib.String.index_opt line ' ' with
         | Some i -> (Stdlib.String.sub line 0 i, Stdlib.String.sub line (i + 1) (Stdlib.String.length line - i - 1))
         | None -> (line, "")
       in
       match tag with
       | "CASE" -> Printf.fprintf oc "CASE %s\n" (Stdlib.String.trim rest); sys := []; usr := []; comp := None
       | "SYS" ->
           (match split '|' rest with
            | [ k; t; f ] ->
                let k = ns_of '.' k and t = ns_of '.' t in
                if not (Stdlib.List.exists (fun (((k', t'), _), _) -> k' = k && t' = t) !sys) then
                  sys := bt_insert (((k, t), n_of_int (int_of_string f)), n_of_int 0) !sys
            | _ -> failwith "SYS")
       | "USR" ->
           (match split '|' rest with
            | [ k; t; f; tm ] ->
                usr := bt_insert (((ns_of '.' k, ns_of '.' t), n_of_int (int_of_string f)), n_of_int (int_of_string tm)) !usr
            | _ -> failwith "USR")
       | "COMP" ->
           let fs = split ' ' rest in
           let syms = Stdlib.List.map parse_sym (Stdlib.List.filter (fun x -> x <> "") (split ',' (field "syms" fs))) in
           let gaps =
             Stdlib.List.map (function "B" -> GBegin | "K" -> GBreak | "G" -> GGlue | _ -> GNormal)
               (Stdlib.List.filter (fun x -> x <> "") (split ',' (field "gaps" fs)))
           in
           engines_done := [];
           comp := Some { symbols = syms; gaps; selections = parse_intervals (field "sels" fs) }
       | "ALT" ->
           (* the first ALT of an engine: the model's own ranked alternatives (Model/Engine.v) *)
           (match (split ' ' rest, !comp) with
            | k :: _, Some c when not (Stdlib.List.mem k !engines_done) ->
                engines_done := k :: !engines_done;
                let d = { md_sys = !sys; md_user = !usr; md_grave = [] } in
                let e0 = ml_init d (n_of_int 0) [] { ss_category = []; ss_table = []; ss_cursor = None } (n_of_int 0) in
                let e = ml_set_engine e0 (match int_of_string k with 0 -> EngSimple | 1 -> EngChewing | _ -> EngFuzzy) in
                (match ml_engine_alts (dops ()) e c with
                 | Lib.Ok (alts, big) ->
                     Printf.fprintf oc "MX %s exact=%s n=%d\n" k (b01 (not big)) (Stdlib.List.length alts);
                     Stdlib.List.iter
                       (fun ivs -> Printf.fprintf oc "MALT %s %s\n" k (Stdlib.String.concat "," (Stdlib.List.map iv_str ivs)))
                       alts
                 | Lib.Panic n -> Printf.fprintf oc "MX %s PANIC %d\n" k (int_of_n n)
                 | Lib.OutOfFuel -> Printf.fprintf oc "MX %s OUTOFFUEL\n" k
                 | Lib.Err n -> Printf.fprintf oc "MX %s ERR %d\n" k (int_of_n n))
            | _ -> ());
           (match (split ' ' rest, !comp) with
            | k :: ivs, Some c when (match ivs with "PANIC" :: _ -> false | _ -> true) ->
                let ivs = parse_intervals (Stdlib.String.concat " " ivs) in
                let d = { md_sys = !sys; md_user = !usr; md_grave = [] } in
                let e0 = ml_init d (n_of_int 0) [] { ss_category = []; ss_table = []; ss_cursor = None } (n_of_int 0) in
                let e = ml_set_engine e0 (match int_of_string k with 0 -> EngSimple | 1 -> EngChewing | _ -> EngFuzzy) in
                Printf.fprintf oc "V %s valid=%s tiling=%s\n" k (b01 (ml_valid_conv (dops ()) e c ivs)) (b01 (Conversion.tiling_ok c ivs))
            | k :: _, _ -> Printf.fprintf oc "V %s PANIC\n" k
            | _ -> ())
       | _ -> ()
     done
   with End_of_file -> ());
  close_in ic;
  close_out oc;
  0

let main args =
  match args with
  | [ "conv"; trace; out ] -> conv_main trace out
  | [ trace; out ] ->
      let ic = open_in trace in
      let oc = open_out out in
      let sys = ref [] and usr = ref [] and abbr = ref [] and symcat = ref [] and symtab = ref [] in
      let layout0 = ref 0 in
      let capi_case = ref false in      (* the system dictionary is a trie file: SYS lines come in its lookup order *)
      let ed : medl option ref = ref None in
      let dead = ref false in
      let pending_op : string list option ref = ref None in
      let convs : logged list ref = ref [] in
      let dconv : logged list ref = ref [] in
      let nobs = ref 0 in      (* observations the implementation made after the pending op *)
      let caseno = ref 0 in
      let flush_op () =
        (match (!pending_op, !ed) with
         | Some words, Some e when not !dead ->
             queue := Stdlib.List.rev !convs;
             cur_editor := Some e;
             problems := [];
             pending := [];
             (try
                (match run_op e words with
                 | Lib.Ok (e', r) ->
                     validate_pending (Some e) (Some e');
                     if !queue <> [] then
                       Printf.fprintf oc "# ORACLE-LEFTOVER case %d: %d conversions not consumed by the model\n" !caseno
                         (Stdlib.List.length !queue);
                     Printf.fprintf oc "R %s\n" r;
                     Printf.fprintf oc "S %s\n" (snapshot e');
                     queue := Stdlib.List.rev !dconv;
                     cur_editor := Some e';
                     for _ = 1 to !nobs do observe oc e' done;
                     validate_pending (Some e') None;
                     ed := Some e'
                 | Lib.Panic s ->
                     Printf.fprintf oc "# model panic site %d\n" (int_of_n s);
                     Printf.fprintf oc "R PANIC\n";
                     dead := true
                 | Lib.OutOfFuel -> Printf.fprintf oc "R OUTOFFUEL\n"; dead := true
                 | Lib.Err x -> Printf.fprintf oc "R ERR %d\n" (int_of_n x); dead := true)
              with
              | Oracle_underflow ->
                  (* the implementation converted fewer times than the model: it panicked inside conversion() *)
                  Printf.fprintf oc "R PANIC\n";
                  dead := true
              | Oracle_mismatch m ->
                  Printf.fprintf oc "R ORACLE-MISMATCH %s\n" m;
                  dead := true);
             Stdlib.List.iter (fun p -> Printf.fprintf oc "X %s\n" p) (Stdlib.List.rev !problems)
         | _ -> ());
        pending_op := None;
        convs := [];
        dconv := [];
        nobs := 0
      in
      (try
         while true do
           let line = input_line ic in
           let tag, rest =
             match Stdlib.String.index_opt line ' ' with
             | Some i -> (Stdlib.String.sub line 0 i, Stdlib.String.sub line (i + 1) (Stdlib.String.length line - i - 1))
             | None -> (line, "")
           in
           match tag with
           | "CASE" ->
               flush_op ();
               caseno := int_of_string (Stdlib.String.trim rest);
               Printf.fprintf oc "CASE %d\n" !caseno;
               sys := []; usr := []; abbr := []; symcat := []; symtab := []; ed := None; dead := false; layout0 := 0;
               cx_kb_ref := n_of_int 0; cx_sel_ref := CapiKeys.default_sel_keys; cx_kbcompat_ref := n_of_int 0; capi_case := false; capi_mode := false
           | "SYS" ->
               (match split '|' rest with
                | [ k; t; f ] ->
                    let k = ns_of '.' k and t = ns_of '.' t in
                    if not (Stdlib.List.exists (fun (((k', t'), _), _) -> k' = k && t' = t) !sys) then
                      if !capi_case then sys := !sys @ [ (((k, t), n_of_int (int_of_string f)), n_of_int 0) ]
                      else sys := bt_insert (((k, t), n_of_int (int_of_string f)), n_of_int 0) !sys
                | _ -> failwith "SYS")
           | "USR" ->
               (match split '|' rest with
                | [ k; t; f; tm ] ->
                    usr := bt_insert (((ns_of '.' k, ns_of '.' t), n_of_int (int_of_string f)), n_of_int (int_of_string tm)) !usr
                | _ -> failwith "USR")
           | "ABBR" ->
               (match split '|' rest with
                | [ c; e ] ->
                    (* BTreeMap: a later line for the same key replaces the earlier one *)
                    let c = n_of_int (int_of_string c) in
                    abbr := (c, ns_of '.' e) :: Stdlib.List.filter (fun (c', _) -> c' <> c) !abbr
                | _ -> failwith "ABBR")
           | "LAYOUT" -> layout0 := int_of_string (Stdlib.String.trim rest)
           | "CAPI" -> capi_case := true; capi_mode := true
           | "SYMSEL" ->
               (match split '=' rest with
                | [ name; tab ] ->
                    symcat := (ns_of '.' name, Some (nat_of_int (Stdlib.List.length !symtab))) :: !symcat;
                    symtab := ns_of '.' tab :: !symtab
                | [ name ] -> symcat := (ns_of '.' name, None) :: !symcat
                | _ -> failwith "SYMSEL")
           | "INIT" ->
               let d = { md_sys = !sys; md_user = !usr; md_grave = [] } in
               let ss = { ss_category = Stdlib.List.rev !symcat; ss_table = Stdlib.List.rev !symtab; ss_cursor = None } in
               ed := Some (ml_init d (n_of_int !layout0) !abbr ss (n_of_int (int_of_string (Stdlib.String.trim rest))))
           | "OP" ->
               flush_op ();
               pending_op := Some (Stdlib.List.filter (fun w -> w <> "") (split ' ' rest))
           | "CONV" -> convs := parse_logged rest :: !convs
           | "DCONV" -> dconv := parse_logged rest :: !dconv
           | "O" -> incr nobs
           | _ -> ()
         done
       with End_of_file -> flush_op ());
      close_in ic;
      close_out oc;
      0
  | _ -> prerr_endline "usage: driver-ed <trace> <out>"; 2
