let () =
  let args = match Array.to_list Sys.argv with _ :: rest -> rest | [] -> [] in
  exit (Ed.main args)
