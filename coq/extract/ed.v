(* Extraction of the editor model (group ed). ExtrOcamlBasic only. *)
From Coq Require Import Extraction ExtrOcamlBasic.
From LC Require Import Base.Lib Model.Syllable Model.Composition Model.Conversion Model.Engine Model.Editor Model.EdInst Model.CapiKeys Model.CapiConfig.
Extraction Language OCaml.
Set Extraction KeepSingleton.
Separate Extraction
  EdInst.m_init EdInst.m_key EdInst.m_select EdInst.m_cancel EdInst.m_start_selecting EdInst.m_commit
  EdInst.m_clear EdInst.m_ack EdInst.m_set_options EdInst.m_set_engine EdInst.m_clear_syl
  EdInst.m_jump_next EdInst.m_jump_prev EdInst.m_jump_first EdInst.m_jump_last EdInst.m_learn EdInst.m_unlearn
  EdInst.m_candidates EdInst.m_total_page EdInst.m_valid_conv EdInst.m_engine_alts EdInst.bt_insert
  EdInst.ml_init EdInst.ml_key EdInst.ml_select EdInst.ml_cancel EdInst.ml_start_selecting EdInst.ml_commit
  EdInst.ml_clear EdInst.ml_ack EdInst.ml_set_options EdInst.ml_set_engine EdInst.ml_set_layout EdInst.ml_clear_syl
  EdInst.ml_jump_next EdInst.ml_jump_prev EdInst.ml_jump_first EdInst.ml_jump_last EdInst.ml_learn EdInst.ml_unlearn
  EdInst.md_ops EdInst.mdf_ops EdInst.ml_candidates EdInst.ml_total_page EdInst.ml_syl_read EdInst.ml_layout EdInst.ml_valid_conv EdInst.ml_engine_alts
  CapiKeys.handle_code CapiKeys.handle_default CapiKeys.handle_ctrlnum CapiKeys.handle_numlock CapiKeys.set_kbtype
  CapiKeys.set_selkey CapiKeys.cand_choose CapiKeys.cand_open CapiKeys.cand_close CapiKeys.cand_list CapiKeys.commit_preedit
  CapiKeys.clean_preedit CapiKeys.clean_bopomofo CapiKeys.reset CapiKeys.default_sel_keys CapiConfig.config_set_int_c CapiConfig.config_get_int_c CapiConfig.userphrase_add CapiConfig.userphrase_remove CapiConfig.userphrase_lookup CapiKeys.c_flags CapiKeys.c_commit_string CapiKeys.c_aux_string CapiKeys.c_cand_enumerate
  Editor.display Editor.conversion Editor.ed_page_no Conversion.tiling_ok Conversion.display_of
  Composition.ce_len Syllable.spell.
