(* Extraction of the legacy-loader / migration model (group c19).
   ExtrOcamlBasic only; N, Z, positive stay the extracted datatypes. *)
From Coq Require Import Extraction ExtrOcamlBasic.
From LC Require Import Base.Lib Model.Utf8Dfa Model.Uhash Model.LegacySqlite Model.Loader.
Extraction Language OCaml.
Set Extraction KeepSingleton.
Separate Extraction
  Uhash.load_bin Uhash.load_text Uhash.load_uhash Uhash.load_bin_pinned Uhash.load_text_pinned
  Uhash.print_bin Uhash.print_text Uhash.lrec_wf Uhash.lrec_text_ok Uhash.lr_dead Uhash.entry_of
  Loader.migrate_uhash Loader.startup Loader.session Loader.sessions Loader.migrate
  LegacySqlite.sqlite_open LegacySqlite.sqlite_entries.
