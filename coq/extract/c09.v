(* Extraction of the executable dictionary models (group c09) for the correspondence
   check.  ExtrOcamlBasic only; no Extract Constant, no Extract Inductive of our own;
   N, positive stay the extracted datatypes.  Run with the output directory as
   working directory. *)
From Coq Require Import Extraction ExtrOcamlBasic NArith.
From LC Require Import Base.Lib Model.Dict Model.TrieBuf Model.Layered Model.SqliteDict.
Extraction Language OCaml.
Set Extraction KeepSingleton.
Separate Extraction
  Dict.trie_build Dict.trie_entries Dict.USIZE_MAX
  TrieBuf.current TrieBuf.pinned TrieBuf.fixed TrieBuf.trie_lookup
  TrieBuf.tb_new_in_memory TrieBuf.tb_open TrieBuf.tb_step
  Layered.ly_step SqliteDict.sq_empty SqliteDict.sq_step
  N.add N.mul N.div_eucl N.eqb.
