(* Extraction of the chewing-cli model (group c20).  ExtrOcamlBasic only. *)
From Coq Require Import Extraction ExtrOcamlBasic.
From LC Require Import Base.Lib Model.Syllable Model.Uhash Model.Cli.
Extraction Language OCaml.
Set Extraction KeepSingleton.
Separate Extraction
  Cli.parse_line Cli.print_line Cli.run Cli.dump_lines Cli.compile_records Cli.zero_word_freq Cli.srec_wf
  Cli.text_lines Cli.delim.
