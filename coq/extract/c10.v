(* Extraction of the C10 protocol model for the correspondence check.
   ExtrOcamlBasic only; no Extract Constant / Extract Inductive of our own. *)
From Coq Require Import Extraction ExtrOcamlBasic.
From LC Require Import Base.Lib Model.Durability.
Extraction Language OCaml.
Set Extraction KeepSingleton.
Separate Extraction
  Durability.step Durability.run Durability.init Durability.run_drop
  Durability.mem_table Durability.disk_table Durability.handle_code Durability.pc_code
  Durability.is_finished.
