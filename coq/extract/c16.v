(* Extraction of the configuration model for the c16 correspondence check.
   ExtrOcamlBasic only; no Extract Constant, no Extract Inductive of our own; N, Z,
   positive, string and ascii stay the extracted datatypes.  Run with the output
   directory as working directory. *)
From Coq Require Import Extraction ExtrOcamlBasic.
From LC Require Import Base.Lib Gen.Capi_gen Model.Config.
Extraction Language OCaml.
Set Extraction KeepSingleton.
Separate Extraction
  Config.init_config Config.with_pending Config.syl_pending Config.kb_compat
  Config.config_set_int Config.config_get_int Config.config_has_option
  Config.legacy_set Config.legacy_get Config.all_legacy Config.all_iopts Config.iopt_name
  Config.config_set_str Config.config_get_str Config.name_keyboard_type Config.name_selection_keys
  Config.set_KBType Config.get_KBType Config.get_KBString Config.KBStr2Num
  Config.kbtype_Total Config.kbtype_Strings
  Config.set_selKey Config.get_selKey Config.chewing_Configure Config.editor_activity
  Config.view_ints Config.in_effect Config.row_by_number Config.row_by_name Config.codes.
