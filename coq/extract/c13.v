(* Extraction of the executable model for the correspondence check.
   ExtrOcamlBasic only (bool, option, list, prod, unit, sumbool -> OCaml's);
   no Extract Constant, no Extract Inductive of our own; N, Z, positive stay the
   extracted datatypes.  Run with the output directory as working directory. *)
From Coq Require Import Extraction ExtrOcamlBasic.
From LC Require Import Base.Lib Model.Syllable Model.SyllableViews Model.SyllableSearch.
Extraction Language OCaml.
Set Extraction KeepSingleton.
Separate Extraction
  SyllableViews.view_code SyllableViews.view_parse SyllableViews.view_starts SyllableSearch.c13_search SyllableSearch.undecodable_tone
  Syllable.compose Syllable.initial Syllable.medial Syllable.rime Syllable.tone
  Syllable.try_from_u16 Gen.Bopomofo_gen.n_bopomofo.
