(* Extraction of the executable ownership model for the c15 correspondence check.
   ExtrOcamlBasic only; no Extract Constant, no Extract Inductive of our own. *)
From Coq Require Import Extraction ExtrOcamlBasic.
From LC Require Import Base.Lib Base.Text Model.CapiMem Gen.CapiMem_gen.
Extraction Language OCaml.
Set Extraction KeepSingleton.
Separate Extraction
  CapiMem.step CapiMem.init CapiMem.new_context CapiMem.run CapiMem.cfg_pinned
  CapiMem.dangling_witnesses CapiMem.is_dangling CapiMem.is_freed_read CapiMem.is_alloc_fault
  CapiMem.copy_cstr Text.utf8_valid Text.c_str Text.has_nul
  Gen.CapiMem_gen.cfg_current Gen.CapiMem_gen.kb_names_gen.
