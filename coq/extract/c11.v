(* Extraction of the trie codec model (groups C11 / C12) for the correspondence
   check.  ExtrOcamlBasic only; no Extract Constant / Extract Inductive of our
   own; N, positive, nat stay the extracted datatypes. *)
From Coq Require Import Extraction ExtrOcamlBasic.
From LC Require Import Base.Lib Model.Utf8 Model.Der Model.TrieCodec.
Extraction Language OCaml.
Set Extraction KeepSingleton.
Separate Extraction
  TrieCodec.tempty TrieCodec.tinsert TrieCodec.write TrieCodec.write_parts TrieCodec.open TrieCodec.open_unchecked
  TrieCodec.lookup TrieCodec.lookup_cost TrieCodec.entries TrieCodec.entries_leaves TrieCodec.entries_fuel
  TrieCodec.flatten_entries TrieCodec.validate_index TrieCodec.ctx_user_file TrieCodec.ctx_system_file
  TrieCodec.enc_phrase TrieCodec.dec_phrase TrieCodec.enc_file TrieCodec.dec_file
  TrieCodec.mkPhrase TrieCodec.mkInfo TrieCodec.STANDARD TrieCodec.FUZZY
  Utf8.utf8_valid Utf8.chars_count.
