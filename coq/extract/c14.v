(* Extraction of the executable model for the C14 correspondence check.
   ExtrOcamlBasic only; N, positive, nat stay the extracted datatypes. *)
From Coq Require Import Extraction ExtrOcamlBasic.
From LC Require Import Base.Lib Gen.Keyboard_gen Gen.Readings_gen Model.Syllable Model.Keyboard
  Model.LayoutBase Model.LayoutPinyin Model.Layout Model.LayoutSearch.
Extraction Language OCaml.
Set Extraction KeepSingleton.
Separate Extraction
  Keyboard.map_ascii Keyboard.map_ascii_numlock Keyboard.map_keycode Keyboard.view_event
  Layout.key_press Layout.fuzzy_key_press Layout.l_remove_last Layout.l_is_empty Layout.l_clear
  Layout.l_alt_syllables Layout.run_editor Layout.enters_b Layout.n_layouts
  LayoutBase.behavior_code LayoutBase.lstate_empty LayoutBase.syl_state
  LayoutSearch.class_event LayoutSearch.make_ctx LayoutSearch.witness_with LayoutSearch.unreachable_readings
  Readings_gen.readings Keyboard_gen.n_keyboard.
