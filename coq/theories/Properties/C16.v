(* C16 - Configuration round-trips, rejects bad values, and its aliases agree.

   Statements are about Model/Config.v over the tables regenerated from
   capi/src/io.rs, capi/src/public.rs, src/editor/mod.rs,
   src/editor/zhuyin_layout/mod.rs on every run.  Pinned tree BEFORE the three
   fix: commits - three parts of the property are false of the faithful model and
   appear as `_refuted` witnesses next to the `_partial` statements that hold. *)
From Coq Require Import ZArith NArith List Bool String Ascii.
From LC Require Import Base.Lib Gen.Capi_gen Model.Config Proofs.ConfigProofs.
Import ListNotations.
Open Scope string_scope.
Open Scope Z_scope.

(* the option lists / fields / alias tables of the source are the ones the model transcribes *)
Theorem C16_source_tables :
  set_int_names = map iopt_name all_iopts /\
  get_int_names = map iopt_name all_iopts /\
  set_int_fields = map (fun o => (iopt_name o, iopt_field o)) all_iopts /\
  get_int_fields = map (fun o => (iopt_name o, iopt_field o)) all_iopts /\
  set_str_names = [name_keyboard_type; name_selection_keys] /\
  get_str_names = [name_keyboard_type; name_selection_keys] /\
  set_int_calls_set_editor_options = true.
Proof. exact option_lists_agree. Qed.

Theorem C16_has_option : forall name,
  config_has_option name = 1 <-> In name (set_int_names ++ set_str_names).
Proof. exact has_option_spec. Qed.

(* every integer option, EVERY value: in the documented range => OK, reads back, every other
   option and the rest of the configuration unchanged *)
Theorem C16_set_int_in_range : forall (o : iopt) (v : Z) (c : config),
  in_range o v ->
  exists c', config_set_int (iopt_name o) v c = (c_OK, c') /\
             config_get_int (iopt_name o) c' = v /\
             (forall o', o' <> o -> config_get_int (iopt_name o') c' = config_get_int (iopt_name o') c) /\
             same_rest c c' /\
             (o <> OLanguageMode -> syl_pending c' = syl_pending c).
Proof. exact set_int_in_range. Qed.

(* outside the range => ERROR and the WHOLE context unchanged *)
Theorem C16_set_int_out_of_range : forall (o : iopt) (v : Z) (c : config),
  ~ in_range o v -> config_set_int (iopt_name o) v c = (c_ERROR, c).
Proof. exact set_int_out_of_range. Qed.

Theorem C16_int_unknown_name : forall (name : string) (v : Z) (c : config),
  ~ In name set_int_names ->
  config_set_int name v c = (c_ERROR, c) /\ config_get_int name c = c_ERROR.
Proof. exact int_unknown_name. Qed.

(* each legacy setter / getter IS its named option, on every value and context *)
Theorem C16_legacy_setter : forall (a : legacy) (v : Z) (c : config),
  legacy_set a v c = snd (config_set_int (iopt_name (legacy_option a)) v c).
Proof. exact legacy_set_is_named. Qed.

Theorem C16_legacy_getter : forall (a : legacy) (c : config),
  legacy_get a c = config_get_int (iopt_name (legacy_option a)) c.
Proof. exact legacy_get_is_named. Qed.

Theorem C16_legacy_tables :
  legacy_setters = map (fun a => ("chewing_set_" ++ legacy_suffix a,
                                  ("chewing_config_set_int", iopt_name (legacy_option a)))) all_legacy /\
  legacy_getters = map (fun a => ("chewing_get_" ++ legacy_suffix a,
                                  ("chewing_config_get_int", iopt_name (legacy_option a)))) all_legacy.
Proof. exact legacy_tables_agree. Qed.

Theorem C16_legacy_round_trip : forall (a : legacy) (v : Z) (c : config),
  (in_range (legacy_option a) v -> legacy_get a (legacy_set a v c) = v) /\
  (~ in_range (legacy_option a) v -> legacy_set a v c = c).
Proof. exact legacy_round_trip. Qed.

(* the three conversions of KeyboardLayoutCompat agree; enumeration lists every layout *)
Theorem C16_kb_conversions :
  (forall k, kb_lt k -> kb_try_from k = Some k /\ kb_parse (codes (kb_name k)) = Some k) /\
  (forall k, (k < 256)%N -> ~ kb_lt k -> kb_try_from k = None) /\
  (forall n k, In (n, k) kb_from_str -> kb_lt k /\ kb_name k = n).
Proof. exact kb_conv_parts. Qed.

Theorem C16_kb_enumeration :
  kb_enumeration = map N.of_nat (seq 0 (N.to_nat n_kb)) /\ kbtype_Total = Z.of_N n_kb /\
  kbtype_Strings = kb_display.
Proof. exact kb_enumeration_spec. Qed.

(* FULL STATEMENT (false of the pinned tree):
     forall k, kb_lt k -> row_by_name k = row_by_number k *)
Theorem C16_kb_tables_agree_refuted :
  kb_table_differences = [KB_Dvorak; KB_DvorakHsu] /\
  row_by_name KB_Dvorak <> row_by_number KB_Dvorak /\
  row_by_name KB_DvorakHsu <> row_by_number KB_DvorakHsu.
Proof. exact kb_tables_differ_witness. Qed.

(* missing: the two Dvorak layouts *)
Theorem C16_kb_tables_agree_partial :
  forall k, kb_lt k -> k <> KB_Dvorak -> k <> KB_DvorakHsu -> row_by_name k = row_by_number k.
Proof. exact kb_tables_agree_elsewhere. Qed.

(* chewing_set_KBType with a layout number *)
Theorem C16_set_KBType_known : forall (n : N) (c : config),
  kb_lt n ->
  let '(r, c') := set_KBType (Z.of_N n) c in
  r = 0 /\ kb_compat c' = n /\ in_effect c' = row_by_number n /\ opts c' = opts c /\ sel_keys c' = sel_keys c.
Proof. exact set_KBType_known. Qed.

(* FULL STATEMENT (false of the pinned tree): every v outside 0..16 selects the default layout, -1 *)
Theorem C16_set_KBType_unknown_refuted :
  ~ (0 <= 257 < Z.of_N n_kb) /\ fst (set_KBType 257 init_config) = 0 /\
  kb_compat (snd (set_KBType 257 init_config)) = KB_Hsu.
Proof. exact set_KBType_truncation_witness. Qed.

(* missing: numbers whose low byte is a layout number (kbtype as u8) *)
Theorem C16_set_KBType_unknown_partial : forall (v : Z) (c : config),
  ~ kb_lt (as_u8 v) ->
  let '(r, c') := set_KBType v c in
  r = -1 /\ kb_compat c' = KB_Default /\ in_effect c' = row_by_number KB_Default /\
  opts c' = opts c /\ sel_keys c' = sel_keys c.
Proof. exact set_KBType_unknown_byte. Qed.

(* keyboard_type by name *)
Theorem C16_set_str_keyboard : forall (s : list N) (c : config),
  (forall k, kb_parse s = Some k ->
     let '(r, c') := config_set_str name_keyboard_type s c in
     r = c_OK /\ kb_compat c' = k /\ in_effect c' = row_by_name k /\
     config_get_str name_keyboard_type c' = SOk s /\ opts c' = opts c /\ sel_keys c' = sel_keys c) /\
  (kb_parse s = None -> config_set_str name_keyboard_type s c = (c_ERROR, c)).
Proof. intros s c. split; [intros k; apply set_str_keyboard_ok | apply set_str_keyboard_err]. Qed.

Theorem C16_str_unknown_name : forall (name : string) (s : list N) (c : config),
  name <> name_keyboard_type -> name <> name_selection_keys ->
  config_set_str name s c = (c_ERROR, c) /\ config_get_str name c = SError.
Proof. exact str_unknown_name. Qed.

(* FULL STATEMENT (false of the pinned tree), over ALL operation sequences:
     forall ops, layout_inv (run ops init_config) *)
Theorem C16_layout_in_effect_refuted :
  let c := run [OpSetStr name_keyboard_type (codes "KB_DVORAK")] init_config in
  get_KBType c = 6 /\ in_effect c = ("Qwerty", "Standard::new") /\
  in_effect (snd (set_KBType 6 init_config)) = ("Dvorak", "Standard::new") /\ ~ layout_inv c.
Proof. exact layout_in_effect_witness. Qed.

(* missing: "the row of the reported layout in BOTH tables" *)
Theorem C16_layout_in_effect_partial : forall ops : list op, layout_inv_weak (run ops init_config).
Proof. exact layout_inv_weak_run. Qed.

Theorem C16_layout_in_effect_if_tables_agree :
  tables_agree -> forall ops : list op, layout_inv (run ops init_config).
Proof. exact layout_inv_run_if_tables_agree. Qed.

Theorem C16_reported_layout : forall c : config,
  kb_lt (kb_compat c) ->
  get_KBType c = Z.of_N (kb_compat c) /\
  kb_parse (get_KBString c) = Some (kb_compat c) /\
  config_get_str name_keyboard_type c = SOk (get_KBString c) /\
  KBStr2Num (get_KBString c) = get_KBType c.
Proof. exact reported_layout. Qed.

(* FULL STATEMENT (false of the pinned tree):
     forall s c, cstring s -> config_set_str selection_keys s c = (OK, c') -> config_get_str selection_keys c' = SOk s *)
Theorem C16_selection_keys_refuted :
  let s := [233; 233; 233; 233; 233]%N in
  cstring s /\ fst (config_set_str name_selection_keys s init_config) = c_OK /\
  get_selKey (snd (config_set_str name_selection_keys s init_config)) = [233; 233; 233; 233; 233; 0; 0; 0; 0; 0] /\
  config_get_str name_selection_keys (snd (config_set_str name_selection_keys s init_config)) = SPanic.
Proof. exact selection_keys_witness. Qed.

(* missing: non-ASCII strings *)
Theorem C16_selection_keys_partial : forall (s : list N) (c : config),
  is_ascii s = true -> cstring s ->
  (List.length s = 10%nat ->
     exists c', config_set_str name_selection_keys s c = (c_OK, c') /\
                config_get_str name_selection_keys c' = SOk s /\
                get_selKey c' = map Z.of_N s /\
                opts c' = opts c /\ kb_compat c' = kb_compat c /\ in_effect c' = in_effect c) /\
  (List.length s <> 10%nat -> config_set_str name_selection_keys s c = (c_ERROR, c)).
Proof. exact set_str_selkeys_ascii. Qed.

(* chewing_set_selKey / chewing_get_selKey against the named option *)
Theorem C16_selKey_alias : forall (s : list N) (c : config),
  List.length s = 10%nat -> is_ascii s = true -> cstring s ->
  set_selKey (Some (map Z.of_N s)) 10 c = snd (config_set_str name_selection_keys s c).
Proof. exact set_selKey_is_named. Qed.

Theorem C16_selKey_round_trip : forall (keys : list Z) (len : Z) (c : config),
  (len = 10 -> List.length keys = 10%nat -> get_selKey (set_selKey (Some keys) len c) = keys) /\
  (len <> 10 -> set_selKey (Some keys) len c = c) /\
  set_selKey None len c = c.
Proof. exact set_selKey_spec. Qed.

Print Assumptions C16_source_tables.
Print Assumptions C16_has_option.
Print Assumptions C16_set_int_in_range.
Print Assumptions C16_set_int_out_of_range.
Print Assumptions C16_int_unknown_name.
Print Assumptions C16_legacy_setter.
Print Assumptions C16_legacy_getter.
Print Assumptions C16_legacy_tables.
Print Assumptions C16_legacy_round_trip.
Print Assumptions C16_kb_conversions.
Print Assumptions C16_kb_enumeration.
Print Assumptions C16_kb_tables_agree_refuted.
Print Assumptions C16_kb_tables_agree_partial.
Print Assumptions C16_set_KBType_known.
Print Assumptions C16_set_KBType_unknown_refuted.
Print Assumptions C16_set_KBType_unknown_partial.
Print Assumptions C16_set_str_keyboard.
Print Assumptions C16_str_unknown_name.
Print Assumptions C16_layout_in_effect_refuted.
Print Assumptions C16_layout_in_effect_partial.
Print Assumptions C16_layout_in_effect_if_tables_agree.
Print Assumptions C16_reported_layout.
Print Assumptions C16_selection_keys_refuted.
Print Assumptions C16_selection_keys_partial.
Print Assumptions C16_selKey_alias.
Print Assumptions C16_selKey_round_trip.

(* ------------------------------------------------------------------ non-vacuity *)

(* in range: candidates_per_page := 7 on the initial context, mid-composition flag set *)
Example C16_ex_in_range :
  in_range OCandidatesPerPage 7 /\
  config_set_int "chewing.candidates_per_page" 7 (with_pending true init_config) =
    (0, with_pending true (with_opts (upd_candidates_per_page 7 default_options) init_config)) /\
  config_get_int "chewing.candidates_per_page" (snd (config_set_int "chewing.candidates_per_page" 7 init_config)) = 7.
Proof. repeat split; try (vm_compute; reflexivity); vm_compute; discriminate. Qed.

(* out of range: 11, 0, -1, 2^31-1 are rejected *)
Example C16_ex_out_of_range :
  ~ in_range OCandidatesPerPage 11 /\ ~ in_range OCandidatesPerPage 0 /\
  config_set_int "chewing.candidates_per_page" 11 init_config = (-1, init_config) /\
  config_set_int "chewing.auto_commit_threshold" 40 init_config = (-1, init_config) /\
  config_set_int "chewing.conversion_engine" 2147483647 init_config = (-1, init_config).
Proof. repeat split; try (vm_compute; reflexivity); vm_compute; intros [H1 H2]; congruence. Qed.

(* language mode change clears the pending syllable; a non-option field, reported for completeness *)
Example C16_ex_language_mode_clears_pending :
  syl_pending (snd (config_set_int "chewing.language_mode" 0 (with_pending true init_config))) = false /\
  syl_pending (snd (config_set_int "chewing.language_mode" 1 (with_pending true init_config))) = true.
Proof. split; reflexivity. Qed.

Example C16_ex_legacy :
  chewing_get_maxChiSymbolLen (chewing_set_maxChiSymbolLen 16 init_config) = 16 /\
  config_get_int "chewing.auto_commit_threshold" (chewing_set_maxChiSymbolLen 16 init_config) = 16 /\
  chewing_set_maxChiSymbolLen 40 init_config = init_config.
Proof. repeat split. Qed.

Example C16_ex_kb : kb_lt KB_Colemak /\ kb_name KB_Colemak = "KB_COLEMAK" /\
  set_KBType 16 init_config = (0, install_layout 16%N ("Colemak", "Standard::new") init_config) /\
  set_KBType 17 init_config = (-1, install_layout 0%N ("Qwerty", "Standard::new") init_config) /\
  set_KBType (-1) init_config = (-1, install_layout 0%N ("Qwerty", "Standard::new") init_config).
Proof. repeat split. Qed.

(* a history that changes the layout three ways and edits in between keeps the invariant's weak form
   non-trivially (layout 16 in effect at the end) *)
Example C16_ex_history :
  let c := run [OpSetKBType 7; OpEditor true false true; OpSetStr name_keyboard_type (codes "KB_HSU");
                OpLegacySet LChiEngMode 0; OpSetStr name_keyboard_type (codes "KB_NOPE"); OpSetKBType 16] init_config in
  kb_compat c = 16%N /\ in_effect c = ("Colemak", "Standard::new") /\ language_mode (opts c) = LanguageMode_English.
Proof. repeat split. Qed.

Example C16_ex_selection_keys :
  let s := codes "asdfghjkl;" in
  is_ascii s = true /\ List.length s = 10%nat /\
  fst (config_set_str name_selection_keys s init_config) = 0 /\
  config_get_str name_selection_keys (snd (config_set_str name_selection_keys s init_config)) = SOk s /\
  config_set_str name_selection_keys (codes "asdfghjkl;1234") init_config = (-1, init_config).
Proof. repeat split. Qed.
