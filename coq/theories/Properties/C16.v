(* C16 - Configuration round-trips, rejects bad values, and its aliases agree.

   Statements are about Model/Config.v over the tables regenerated from
   capi/src/io.rs, capi/src/public.rs, src/editor/mod.rs,
   src/editor/zhuyin_layout/mod.rs on every run.

   History: on the pinned tree three parts of the property were false of the faithful
   model (witnesses proved as C16_kb_tables_agree_refuted, C16_set_KBType_unknown_refuted,
   C16_layout_in_effect_refuted, C16_selection_keys_refuted in /verif commit 350a05e and
   replayed on the implementation: corpus/C16-*.json).  After the three `fix:` commits in
   /repo (f6dfc99, a821b5d, 6c09609) the model follows the fixed code and every statement
   below is the full one. *)
From Coq Require Import ZArith NArith List Bool String Ascii.
From LC Require Import Base.Lib Gen.Capi_gen Model.Config Proofs.ConfigProofs.
Import ListNotations.
Open Scope string_scope.
Open Scope Z_scope.

(* the option lists / fields / alias tables of the source are the ones the model transcribes *)
Theorem C16_source_tables :
  set_int_names = map iopt_name all_iopts /\
  get_int_names = map iopt_name all_iopts /\
  set_int_fields = map (fun o => (iopt_name o, iopt_field o)) all_iopts /\
  get_int_fields = map (fun o => (iopt_name o, iopt_field o)) all_iopts /\
  set_str_names = [name_keyboard_type; name_selection_keys] /\
  get_str_names = [name_keyboard_type; name_selection_keys] /\
  set_int_calls_set_editor_options = true.
Proof. exact option_lists_agree. Qed.

Theorem C16_has_option : forall name,
  config_has_option name = 1 <-> In name (set_int_names ++ set_str_names).
Proof. exact has_option_spec. Qed.

(* every integer option, EVERY value: in the documented range => OK, reads back, every other
   option and the rest of the configuration unchanged *)
Theorem C16_set_int_in_range : forall (o : iopt) (v : Z) (c : config),
  in_range o v ->
  exists c', config_set_int (iopt_name o) v c = (c_OK, c') /\
             config_get_int (iopt_name o) c' = v /\
             (forall o', o' <> o -> config_get_int (iopt_name o') c' = config_get_int (iopt_name o') c) /\
             same_rest c c' /\
             (o <> OLanguageMode -> syl_pending c' = syl_pending c).
Proof. exact set_int_in_range. Qed.

(* outside the range => ERROR and the WHOLE context unchanged *)
Theorem C16_set_int_out_of_range : forall (o : iopt) (v : Z) (c : config),
  ~ in_range o v -> config_set_int (iopt_name o) v c = (c_ERROR, c).
Proof. exact set_int_out_of_range. Qed.

Theorem C16_int_unknown_name : forall (name : string) (v : Z) (c : config),
  ~ In name set_int_names ->
  config_set_int name v c = (c_ERROR, c) /\ config_get_int name c = c_ERROR.
Proof. exact int_unknown_name. Qed.

(* each legacy setter / getter IS its named option, on every value and context *)
Theorem C16_legacy_setter : forall (a : legacy) (v : Z) (c : config),
  legacy_set a v c = snd (config_set_int (iopt_name (legacy_option a)) v c).
Proof. exact legacy_set_is_named. Qed.

Theorem C16_legacy_getter : forall (a : legacy) (c : config),
  legacy_get a c = config_get_int (iopt_name (legacy_option a)) c.
Proof. exact legacy_get_is_named. Qed.

Theorem C16_legacy_tables :
  legacy_setters = map (fun a => ("chewing_set_" ++ legacy_suffix a,
                                  ("chewing_config_set_int", iopt_name (legacy_option a)))) all_legacy /\
  legacy_getters = map (fun a => ("chewing_get_" ++ legacy_suffix a,
                                  ("chewing_config_get_int", iopt_name (legacy_option a)))) all_legacy.
Proof. exact legacy_tables_agree. Qed.

Theorem C16_legacy_round_trip : forall (a : legacy) (v : Z) (c : config),
  (in_range (legacy_option a) v -> legacy_get a (legacy_set a v c) = v) /\
  (~ in_range (legacy_option a) v -> legacy_set a v c = c).
Proof. exact legacy_round_trip. Qed.

(* the three conversions of KeyboardLayoutCompat agree; enumeration lists every layout *)
Theorem C16_kb_conversions :
  (forall k, kb_lt k -> kb_try_from k = Some k /\ kb_parse (codes (kb_name k)) = Some k) /\
  (forall k, (k < 256)%N -> ~ kb_lt k -> kb_try_from k = None) /\
  (forall n k, In (n, k) kb_from_str -> kb_lt k /\ kb_name k = n).
Proof. exact kb_conv_parts. Qed.

Theorem C16_kb_enumeration :
  kb_enumeration = map N.of_nat (seq 0 (N.to_nat n_kb)) /\ kbtype_Total = Z.of_N n_kb /\
  kbtype_Strings = kb_display.
Proof. exact kb_enumeration_spec. Qed.

(* the two keyboard-layout tables (match in chewing_config_set_str / match in chewing_set_KBType)
   agree on every layout *)
Theorem C16_kb_tables_agree : forall k, kb_lt k -> row_by_name k = row_by_number k.
Proof. exact kb_tables_agree. Qed.

(* chewing_set_KBType with a layout number *)
Theorem C16_set_KBType_known : forall (n : N) (c : config),
  kb_lt n ->
  let '(r, c') := set_KBType (Z.of_N n) c in
  r = 0 /\ kb_compat c' = n /\ in_effect c' = row_by_number n /\ opts c' = opts c /\ sel_keys c' = sel_keys c.
Proof. exact set_KBType_known. Qed.

(* EVERY other integer: the default layout and the documented return code -1 *)
Theorem C16_set_KBType_unknown : forall (v : Z) (c : config),
  ~ (0 <= v < Z.of_N n_kb) ->
  let '(r, c') := set_KBType v c in
  r = -1 /\ kb_compat c' = KB_Default /\ in_effect c' = row_by_number KB_Default /\
  opts c' = opts c /\ sel_keys c' = sel_keys c.
Proof. exact set_KBType_unknown. Qed.

(* keyboard_type by name: a known name installs its row and is read back; anything else is an
   error that leaves the whole context unchanged *)
Theorem C16_set_str_keyboard : forall (s : list N) (c : config),
  (forall k, kb_parse s = Some k ->
     let '(r, c') := config_set_str name_keyboard_type s c in
     r = c_OK /\ kb_compat c' = k /\ in_effect c' = row_by_name k /\
     config_get_str name_keyboard_type c' = SOk s /\ opts c' = opts c /\ sel_keys c' = sel_keys c) /\
  (kb_parse s = None -> config_set_str name_keyboard_type s c = (c_ERROR, c)).
Proof. exact set_str_keyboard_spec. Qed.

(* selecting a layout by number and by its name is the same operation on every context *)
Theorem C16_number_is_name : forall (k : N) (c : config),
  kb_lt k ->
  snd (set_KBType (Z.of_N k) c) = snd (config_set_str name_keyboard_type (codes (kb_name k)) c).
Proof. exact set_by_number_is_set_by_name. Qed.

Theorem C16_str_unknown_name : forall (name : string) (s : list N) (c : config),
  name <> name_keyboard_type -> name <> name_selection_keys ->
  config_set_str name s c = (c_ERROR, c) /\ config_get_str name c = SError.
Proof. exact str_unknown_name. Qed.

(* over ALL operation sequences (any interleaving of the configuration calls, the legacy calls,
   chewing_Configure and arbitrary editor activity): the (keyboard, syllable editor) in effect is the
   row, in both tables, of the layout the getters report *)
Theorem C16_layout_in_effect : forall ops : list op, layout_inv (run ops init_config).
Proof. exact layout_inv_run. Qed.

Theorem C16_reported_layout : forall c : config,
  kb_lt (kb_compat c) ->
  get_KBType c = Z.of_N (kb_compat c) /\
  kb_parse (get_KBString c) = Some (kb_compat c) /\
  config_get_str name_keyboard_type c = SOk (get_KBString c) /\
  KBStr2Num (get_KBString c) = get_KBType c.
Proof. exact reported_layout. Qed.

(* selection_keys, EVERY string: accepted = exactly ten ASCII characters *)
Theorem C16_selection_keys_accepted : forall s : list N,
  sel_keys_acceptable s = true <-> List.length s = 10%nat /\ is_ascii s = true.
Proof. exact sel_keys_acceptable_spec. Qed.

(* accepted => OK, read back unchanged through both getters, nothing else changes;
   not accepted => ERROR and the whole context unchanged *)
Theorem C16_selection_keys : forall (s : list N) (c : config),
  cstring s ->
  (sel_keys_acceptable s = true ->
     exists c', config_set_str name_selection_keys s c = (c_OK, c') /\
                config_get_str name_selection_keys c' = SOk s /\
                get_selKey c' = map Z.of_N s /\
                opts c' = opts c /\ kb_compat c' = kb_compat c /\ in_effect c' = in_effect c /\
                syl_pending c' = syl_pending c) /\
  (sel_keys_acceptable s = false -> config_set_str name_selection_keys s c = (c_ERROR, c)).
Proof. exact set_str_selkeys_spec. Qed.

(* chewing_set_selKey / chewing_get_selKey against the named option *)
Theorem C16_selKey_alias : forall (s : list N) (c : config),
  sel_keys_acceptable s = true ->
  set_selKey (Some (map Z.of_N s)) 10 c = snd (config_set_str name_selection_keys s c).
Proof. exact set_selKey_is_named. Qed.

Theorem C16_selKey_round_trip : forall (keys : list Z) (len : Z) (c : config),
  (len = 10 -> List.length keys = 10%nat -> get_selKey (set_selKey (Some keys) len c) = keys) /\
  (len <> 10 -> set_selKey (Some keys) len c = c) /\
  set_selKey None len c = c.
Proof. exact set_selKey_spec. Qed.

(* the two getters of the selection keys agree, and config_get_str fails (never panics) exactly when
   a key set through the unvalidated chewing_set_selKey has a NUL low byte *)
Theorem C16_selKey_getters : forall c : config,
  (Forall (fun k => 0 < k < 256) (get_selKey c) ->
     config_get_str name_selection_keys c = SOk (map Z.to_N (get_selKey c))) /\
  (config_get_str name_selection_keys c = SError <-> exists k, In k (get_selKey c) /\ as_u8 k = 0%N).
Proof. exact get_str_selkeys_spec. Qed.

(* deprecated chewing_Configure = the named options / chewing_set_selKey, in the order of its body *)
Theorem C16_Configure : forall (p : config_data) (c : config),
  chewing_Configure p c =
  fold_left (fun c (f : config -> config) => f c)
    [ (fun c => snd (config_set_int (iopt_name OCandidatesPerPage) (cd_cand_per_page p) c));
      (fun c => snd (config_set_int (iopt_name OAutoCommitThreshold) (cd_max_chi_symbol_len p) c));
      set_selKey (Some (cd_sel_key p)) c_MAX_SELKEY;
      (fun c => snd (config_set_int (iopt_name OUserPhraseAddDirection) (cd_add_phrase_forward p) c));
      (fun c => snd (config_set_int (iopt_name OSpaceIsSelectKey) (cd_space_as_selection p) c));
      (fun c => snd (config_set_int (iopt_name OEscClearAllBuffer) (cd_esc_clean_all_buf p) c));
      (fun c => snd (config_set_int (iopt_name OAutoShiftCursor) (cd_auto_shift_cur p) c));
      (fun c => snd (config_set_int (iopt_name OEasySymbolInput) (cd_easy_symbol_input p) c));
      (fun c => snd (config_set_int (iopt_name OPhraseChoiceRearward) (cd_phrase_choice_rearward p) c)) ] c.
Proof. exact configure_is_named. Qed.

(* "rejects bad values", over ALL operation sequences: whatever is called in whatever order (valid or
   invalid values, aliases, chewing_Configure, key input), every integer option always reads a value of
   its documented range *)
Theorem C16_options_always_in_range : forall (ops : list op) (o : iopt),
  in_range o (config_get_int (iopt_name o) (run ops init_config)).
Proof. exact options_always_in_range. Qed.

Print Assumptions C16_source_tables.
Print Assumptions C16_options_always_in_range.
Print Assumptions C16_Configure.
Print Assumptions C16_has_option.
Print Assumptions C16_set_int_in_range.
Print Assumptions C16_set_int_out_of_range.
Print Assumptions C16_int_unknown_name.
Print Assumptions C16_legacy_setter.
Print Assumptions C16_legacy_getter.
Print Assumptions C16_legacy_tables.
Print Assumptions C16_legacy_round_trip.
Print Assumptions C16_kb_conversions.
Print Assumptions C16_kb_enumeration.
Print Assumptions C16_kb_tables_agree.
Print Assumptions C16_set_KBType_known.
Print Assumptions C16_set_KBType_unknown.
Print Assumptions C16_set_str_keyboard.
Print Assumptions C16_number_is_name.
Print Assumptions C16_str_unknown_name.
Print Assumptions C16_layout_in_effect.
Print Assumptions C16_reported_layout.
Print Assumptions C16_selection_keys_accepted.
Print Assumptions C16_selection_keys.
Print Assumptions C16_selKey_alias.
Print Assumptions C16_selKey_round_trip.
Print Assumptions C16_selKey_getters.

(* ------------------------------------------------------------------ non-vacuity *)

(* in range: candidates_per_page := 7 on the initial context, mid-composition flag set *)
Example C16_ex_in_range :
  in_range OCandidatesPerPage 7 /\
  config_set_int "chewing.candidates_per_page" 7 (with_pending true init_config) =
    (0, with_pending true (with_opts (upd_candidates_per_page 7 default_options) init_config)) /\
  config_get_int "chewing.candidates_per_page" (snd (config_set_int "chewing.candidates_per_page" 7 init_config)) = 7.
Proof. repeat split; try (vm_compute; reflexivity); vm_compute; discriminate. Qed.

(* out of range: 11, 0, -1, 2^31-1 are rejected *)
Example C16_ex_out_of_range :
  ~ in_range OCandidatesPerPage 11 /\ ~ in_range OCandidatesPerPage 0 /\
  config_set_int "chewing.candidates_per_page" 11 init_config = (-1, init_config) /\
  config_set_int "chewing.auto_commit_threshold" 40 init_config = (-1, init_config) /\
  config_set_int "chewing.conversion_engine" 2147483647 init_config = (-1, init_config).
Proof. repeat split; try (vm_compute; reflexivity); vm_compute; intros [H1 H2]; congruence. Qed.

(* language mode change clears the pending syllable; a non-option field, reported for completeness *)
Example C16_ex_language_mode_clears_pending :
  syl_pending (snd (config_set_int "chewing.language_mode" 0 (with_pending true init_config))) = false /\
  syl_pending (snd (config_set_int "chewing.language_mode" 1 (with_pending true init_config))) = true.
Proof. split; reflexivity. Qed.

Example C16_ex_legacy :
  chewing_get_maxChiSymbolLen (chewing_set_maxChiSymbolLen 16 init_config) = 16 /\
  config_get_int "chewing.auto_commit_threshold" (chewing_set_maxChiSymbolLen 16 init_config) = 16 /\
  chewing_set_maxChiSymbolLen 40 init_config = init_config.
Proof. repeat split. Qed.

Example C16_ex_kb : kb_lt KB_Colemak /\ kb_name KB_Colemak = "KB_COLEMAK" /\
  set_KBType 16 init_config = (0, install_layout 16%N ("Colemak", "Standard::new") init_config) /\
  set_KBType 17 init_config = (-1, install_layout 0%N ("Qwerty", "Standard::new") init_config) /\
  set_KBType (-1) init_config = (-1, install_layout 0%N ("Qwerty", "Standard::new") init_config) /\
  set_KBType 257 init_config = (-1, install_layout 0%N ("Qwerty", "Standard::new") init_config) /\
  row_by_name KB_Dvorak = ("Dvorak", "Standard::new") /\ row_by_number KB_DvorakHsu = ("DvorakOnQwerty", "Hsu::new").
Proof. repeat split. Qed.

(* a history that changes the layout three ways and edits in between: the invariant is met
   non-trivially (layout 6 selected by name, Dvorak keyboard in effect at the end) *)
Example C16_ex_history :
  let c := run [OpSetKBType 7; OpEditor true false true; OpSetStr name_keyboard_type (codes "KB_HSU");
                OpLegacySet LChiEngMode 0; OpSetStr name_keyboard_type (codes "KB_NOPE"); OpSetKBType 16;
                OpSetStr name_keyboard_type (codes "KB_DVORAK")] init_config in
  kb_compat c = 6%N /\ in_effect c = ("Dvorak", "Standard::new") /\ language_mode (opts c) = LanguageMode_English /\
  get_KBType c = 6 /\ get_KBString c = codes "KB_DVORAK".
Proof. repeat split. Qed.

Example C16_ex_selection_keys :
  let s := codes "asdfghjkl;" in
  sel_keys_acceptable s = true /\ cstring s /\
  fst (config_set_str name_selection_keys s init_config) = 0 /\
  config_get_str name_selection_keys (snd (config_set_str name_selection_keys s init_config)) = SOk s /\
  config_set_str name_selection_keys (codes "asdfghjkl;1234") init_config = (-1, init_config) /\
  (* ten bytes, five characters: rejected now *)
  config_set_str name_selection_keys [233; 233; 233; 233; 233]%N init_config = (-1, init_config) /\
  (* ten characters, twenty bytes: rejected *)
  sel_keys_acceptable [233; 233; 233; 233; 233; 233; 233; 233; 233; 233]%N = false.
Proof.
  cbv zeta. repeat split; try (vm_compute; reflexivity).
  unfold cstring. vm_compute. intros H. repeat destruct H as [H|H]; try discriminate. exact H.
Qed.

(* a history full of rejected values: the options stay inside their ranges, the accepted ones stick *)
Example C16_ex_always_in_range :
  let c := run [OpSetInt "chewing.candidates_per_page" 11; OpLegacySet LCandPerPage 0; OpSetInt "chewing.candidates_per_page" 3;
                OpLegacySet LMaxChiSymbolLen (-1); OpSetInt "chewing.conversion_engine" 3; OpSetInt "chewing.conversion_engine" 2;
                OpConfigure (mkConfigData 99 40 [1;2;3] 7 1 1 1 1 1)] init_config in
  map (fun o => config_get_int (iopt_name o) c) all_iopts = [0; 0; 1; 3; 1; 1; 1; 39; 1; 0; 1; 2; 1].
Proof. reflexivity. Qed.

(* an unvalidated zero key set through chewing_set_selKey: config_get_str reports an error *)
Example C16_ex_selKey_zero :
  config_get_str name_selection_keys (set_selKey (Some [0; 50; 51; 52; 53; 54; 55; 56; 57; 48]) 10 init_config) = SError /\
  config_get_str name_selection_keys (set_selKey (Some [113; 50; 51; 52; 53; 54; 55; 56; 57; 48]) 10 init_config)
    = SOk (codes "q234567890").
Proof. split; reflexivity. Qed.

(* ---- the conversion engine, through the C calls (Model/CapiRun.v; Proofs/EngineFrame.v, Proofs/CapiEngine.v) ----
   "A value outside the range is rejected and leaves every option unchanged" - and what the options REPORT stays what is
   IN EFFECT: after every sequence of C calls with any arguments (key entry with any int, candidate calls, keyboard
   type and selection keys, commit / clean / reset, chewing_config_set_int with ANY name and ANY int - accepted or
   rejected -, user-phrase calls) on a fresh context, the engine chewing_config_get_int("chewing.conversion_engine")
   reports is the engine installed in the editor, and the lookup-strategy option is the one that engine looks up with.
   The value table of the option (value -> kind stored, engine installed, strategy stored) is regenerated from
   capi/src/io.rs on every run; the theorem rests on the finite check that every row installs the kind it stores. *)
From LC Require Import Model.Composition Model.Conversion Model.Editor Model.EditorRun Model.EdInst Model.CapiKeys Model.CapiConfig Model.CapiRun
     Proofs.EngineFrame Proofs.CapiEngine.

Theorem C16_the_engine_reported_is_the_engine_in_effect_after_any_C_calls : forall conv d ab ss t0 ops c',
  Forall c_call ops -> crun conv (cx_init d ab ss t0) ops = Ok c' ->
  engine (sh (cx_ed c')) = o_engine (opts (sh (cx_ed c'))) /\
  o_fuzzy (opts (sh (cx_ed c'))) = engine_fuzzy (engine (sh (cx_ed c'))).
Proof.
  intros conv d ab ss t0 ops c' Hops H.
  exact (crun_EI conv ops _ c' Hops H (cx_init_EI d ab ss t0)).
Qed.
Print Assumptions C16_the_engine_reported_is_the_engine_in_effect_after_any_C_calls.

(* no key event, choice, commit or reset writes the engine or the engine / lookup-strategy options *)
Theorem C16_only_the_setters_touch_the_engine : forall D SY (dops : dict_ops D) (sops : syl_ops SY) conv (e : editor D SY) o e',
  ~ writes_engine o -> step dops sops conv e o = Ok e' ->
  engine (sh e') = engine (sh e) /\ o_engine (opts (sh e')) = o_engine (opts (sh e)) /\ o_fuzzy (opts (sh e')) = o_fuzzy (opts (sh e)).
Proof.
  intros D SY dops sops conv e o e' Hw H. pose proof (step_ek dops sops conv e o e' Hw H) as K.
  unfold ek in K. inversion K. repeat split; assumption.
Qed.
Print Assumptions C16_only_the_setters_touch_the_engine.

(* non-vacuity: fuzzy engine, then a rejected value, then the simple engine, then a rejected value; the reported and
   the installed engine agree after each call *)
Example C16_engine_example :
  let h := [CConfigSetInt "chewing.conversion_engine" 2; CConfigSetInt "chewing.conversion_engine" 3;
            CConfigSetInt "chewing.conversion_engine" 0; CConfigSetInt "chewing.conversion_engine" 77] in
  Forall c_call h /\
  exists c, crun mf_conv (cx_init (mkMD [] [] []) [] ss_empty 0%N) h = Ok c /\
            engine (sh (cx_ed c)) = EngSimple /\ config_get_int_c c "chewing.conversion_engine" = 0%Z.
Proof. cbv zeta. split; [repeat constructor|]. vm_compute. eexists. repeat split. Qed.

(* ---- the two numeric options in the C context model, in ANY context (whatever the buffer holds, an open list, a
   half-typed syllable): a value of the documented range is accepted and read back unchanged, any other int is
   refused with -1 and the context is the one before (Proofs/CapiOptions.v) ---- *)
From LC Require Import Proofs.CapiOptions.
Theorem C16_auto_commit_threshold_reads_back_in_any_context : forall (c : cctx) v c' rc,
  config_set_int_c c (Config.iopt_name Config.OAutoCommitThreshold) v = Ok (c', rc) ->
  ((0 <= v <= 39)%Z -> rc = c_OK /\ config_get_int_c c' (Config.iopt_name Config.OAutoCommitThreshold) = v) /\
  (~ (0 <= v <= 39)%Z -> rc = c_ERROR /\ c' = c).
Proof. exact c_threshold_reads_back. Qed.
Print Assumptions C16_auto_commit_threshold_reads_back_in_any_context.

Theorem C16_candidates_per_page_reads_back_in_any_context : forall (c : cctx) v c' rc,
  config_set_int_c c (Config.iopt_name Config.OCandidatesPerPage) v = Ok (c', rc) ->
  ((1 <= v <= 10)%Z -> rc = c_OK /\ config_get_int_c c' (Config.iopt_name Config.OCandidatesPerPage) = v) /\
  (~ (1 <= v <= 10)%Z -> rc = c_ERROR /\ c' = c).
Proof. exact c_per_page_reads_back. Qed.
Print Assumptions C16_candidates_per_page_reads_back_in_any_context.
