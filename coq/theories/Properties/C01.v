(* C01 - No call sequence, key or configuration can crash or hang the engine.
   Property theorems only (proofs: Proofs/NoPanic.v, Proofs/EditorInv.v).
   Model: every Rust panic site of src/editor/{mod,composition_editor}.rs, src/conversion/mod.rs and
   src/editor/selection/{phrase,symbol}.rs is an explicit `Panic n`, every loop runs on fuel
   (`OutOfFuel`).  Tie: the editor correspondence (a panic of the Rust API is an outcome both sides
   must agree on) and the supervised-worker campaign through the C API (vharness `capi`).

   PARTIAL: proved so far - the invariant that discharges the index / assertion sites holds for
   every history (EditorInv), every composition-editor primitive is total under it, and the three
   ways to crash / hang the pinned tree are gone.  The totality of the four key handlers and of the
   phrase selector as one theorem over all histories (run never returns Panic / OutOfFuel) is
   stated at the end and not yet proved; it is covered by the two ties only. *)
From Coq Require Import NArith List Bool Arith Lia.
From LC Require Import Base.Lib Gen.Editor_gen Model.Syllable Model.Composition Model.Conversion Model.Editor Model.EditorRun
     Model.EdInst Proofs.CompositionProofs Proofs.EditorInv Proofs.EditorWitness Proofs.NoPanic.
Import ListNotations.
Open Scope nat_scope.

(* ---- the assertion / index sites of the composition editor cannot fire in a well-formed state ---- *)
Theorem C01_editing_primitives_total : forall e x,
  wf_ce e ->
  fine (ce_insert e x) /\ fine (ce_remove_before_cursor e) /\ fine (ce_insert_glue e) /\ fine (ce_insert_break e) /\
  (ce_is_end e = false -> fine (ce_remove_after_cursor e)) /\
  (cursor e < ce_len e -> fine (ce_replace e x)) /\
  (forall n, n <= ce_len e -> fine (ce_remove_front e n)) /\
  (forall iv, itext iv <> [] -> ie iv <= ce_len e -> fine (ce_select e iv)) /\
  (forall l, fine (insert_chars e l)).
Proof.
  intros e x W. repeat split.
  - now apply fine_ce_insert.
  - now apply fine_ce_remove_before.
  - now apply fine_ce_insert_glue.
  - now apply fine_ce_insert_break.
  - intros H. now apply fine_ce_remove_after.
  - intros H. now apply fine_ce_replace.
  - intros n H. now apply fine_ce_remove_front.
  - intros iv H1 H2. now apply fine_ce_select.
  - intros l. now apply fine_insert_chars.
Qed.
Print Assumptions C01_editing_primitives_total.

(* ... and that state is reached by EVERY history (C05_cursor_in_range_every_history, and for the
   candidate list C07_range_inside_current_buffer_every_history: the range a choice records lies
   inside the current buffer, so push_selection's assert cannot fire either) *)

(* ---- the phrase selector is total on every selector the invariant allows ---- *)
(* (EditorInv: in every reachable state with a phrase list open the selector satisfies ps_ok - range
   non-empty, inside the buffer, syllables only, hanging on a syllable the list was opened at.)
   Opening / re-opening the list (init), Down on the last page (next: the cycle through the ranges),
   list next / prev / last: no slice index out of range, no underflow, and every loop ends within its
   fuel - the termination of `next` is the argument the pinned code lacked. *)
Section Selector.
Context {D : Type} (dops : dict_ops D).
Variable dict_ok : D -> Prop.
Hypothesis ok_lookup : forall d f, dict_ok d -> do_lookup dops d f [] = [].

Theorem C01_selector_init_total : forall d p cur, cur < clen (ps_com p) -> BreakPoints.syl_at (ps_com p) cur ->
  exists p', ps_init dops d p cur = Ok p'.
Proof. exact (ps_init_total dops). Qed.

Theorem C01_selector_next_terminates : forall d p, ps_ok p -> exists p', ps_next dops d p = Ok p'.
Proof. exact (ps_next_total dops). Qed.

Theorem C01_selector_moves_total : forall d p, ps_ok p -> dict_ok d ->
  (exists r, ps_next_selection_point dops d p = Ok r) /\ (exists r, ps_prev_selection_point dops d p = Ok r) /\
  (exists p', ps_jump_last dops d (S (S (clen (ps_com p)))) p = Ok p').
Proof.
  intros d p Hok Hd. pose proof Hok as [Hlt Hle [_ (O1 & _) _]]. repeat split.
  - apply ps_next_point_total; lia.
  - apply ps_prev_point_total; [lia | lia | destruct (ps_fwd p); lia].
  - apply (ps_jump_last_total dops dict_ok ok_lookup); [exact Hok | exact Hd | lia].
Qed.
End Selector.
Print Assumptions C01_selector_init_total.
Print Assumptions C01_selector_next_terminates.
Print Assumptions C01_selector_moves_total.

(* ---- the pinned tree ---- *)
(* (1) English mode + full-width form + a key without a full-width form: unwrap() on None *)
Theorem C01_english_fullwidth_nonprintable_pinned_refuted :
  english_fullwidth_pinned (sh e0) (key 0%N 65533%N) = Panic 603%N.
Proof. exact english_fullwidth_nonprintable_pinned_panics. Qed.
Print Assumptions C01_english_fullwidth_nonprintable_pinned_refuted.

Theorem C01_english_fullwidth_nonprintable_fixed :
  exists e, m_key conv_single (ed_set_options std_ops e0 (english_fullwidth default_options)) (key 0%N 65533%N) = Ok (e, BIgnore).
Proof. exact english_fullwidth_nonprintable_fixed. Qed.
Print Assumptions C01_english_fullwidth_nonprintable_fixed.

(* (2) a syllable left without a word: opening the candidate list panicked (slice index) *)
Theorem C01_selector_init_without_word_pinned_refuted :
  ps_shrink_pinned empty_dict 3 (sel_on_it true) = Panic 203%N /\
  ps_shrink_pinned empty_dict 3 (sel_on_it false) = Panic 201%N.
Proof. exact selector_init_without_word_pinned_panics. Qed.
Print Assumptions C01_selector_init_without_word_pinned_refuted.

Theorem C01_selector_init_without_word_fixed : forall fwd,
  ps_shrink md_ops empty_dict 3 (sel_on_it fwd) = Ok (sel_on_it fwd).
Proof. exact selector_init_without_word_fixed. Qed.
Print Assumptions C01_selector_init_without_word_fixed.

(* (3) ... and cycling the range (Down on the last page) never returned: for EVERY amount of fuel
   the pinned loop is still running; the repaired one stops where it started *)
Theorem C01_selector_next_without_word_pinned_refuted : forall fuel fwd,
  ps_cycle_pinned empty_dict fuel (sel_on_it fwd) = OutOfFuel.
Proof. exact selector_next_without_word_pinned_never_ends. Qed.
Print Assumptions C01_selector_next_without_word_pinned_refuted.

Theorem C01_selector_next_without_word_fixed : forall fwd,
  ps_next md_ops empty_dict (sel_on_it fwd) = Ok (sel_on_it fwd).
Proof. exact selector_next_without_word_fixed. Qed.
Print Assumptions C01_selector_next_without_word_fixed.

(* Not yet proved (full statement; see the header):
   Theorem C01_no_history_panics_or_hangs : forall ops e, Inv e -> ops_ok ops ->
     fine (run dops sops conv e ops)
   for dictionaries without empty keys / empty phrases and frequencies below 2^31, conversion
   oracles that tile the buffer, key events as the C API produces them (printable ASCII or U+FFFD)
   and page sizes >= 1. *)
