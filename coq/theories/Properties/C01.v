(* C01 - No call sequence, key or configuration can crash or hang the engine.
   Property theorems only (proofs: Proofs/NoPanic.v, Proofs/EditorInv.v).
   Model: every Rust panic site of src/editor/{mod,composition_editor}.rs, src/conversion/mod.rs and
   src/editor/selection/{phrase,symbol}.rs is an explicit `Panic n`, every loop runs on fuel
   (`OutOfFuel`).  Tie: the editor correspondence (a panic of the Rust API is an outcome both sides
   must agree on) and the supervised-worker campaign through the C API (vharness `capi`).

   Proved: for every history (run) from any state the invariant allows - hence from a fresh editor - no
   operation of the modelled editor returns Panic or OutOfFuel (C01_no_history_panics_or_hangs), under the
   hypotheses listed at the theorem; the three ways to crash / hang the pinned tree are refuted there and
   gone here.  Outside the theorem (ties only): the conversion engines' own path search (its answers enter
   as an oracle that tiles the buffer, C03), the C glue and the keyboard-layout tables, wall-clock time. *)
From Coq Require Import NArith List Bool Arith Lia.
From LC Require Import Base.Lib Gen.Keyboard_gen Model.Keyboard Gen.Editor_gen Model.Syllable Model.Composition Model.Conversion Model.Editor Model.EditorRun
     Model.EdInst Proofs.CompositionProofs Proofs.EdInstProofs Proofs.EditorInv Proofs.EditorWitness Proofs.EditorSelect Proofs.NoPanic Proofs.KeyEventsOk Proofs.GraphPath Model.Engine Proofs.EngineProofs Proofs.SimpleEngineProofs Model.CapiKeys Model.CapiConfig Model.CapiRun Proofs.CapiKeysProofs Proofs.EngineTiles.
From Coq Require Import ZArith Permutation.
From LC Require Model.Config.
From LC Require Proofs.LearnProofs.
Import ListNotations.
Open Scope nat_scope.

(* ---- the assertion / index sites of the composition editor cannot fire in a well-formed state ---- *)
Theorem C01_editing_primitives_total : forall e x,
  wf_ce e ->
  fine (ce_insert e x) /\ fine (ce_remove_before_cursor e) /\ fine (ce_insert_glue e) /\ fine (ce_insert_break e) /\
  (ce_is_end e = false -> fine (ce_remove_after_cursor e)) /\
  (cursor e < ce_len e -> fine (ce_replace e x)) /\
  (forall n, n <= ce_len e -> fine (ce_remove_front e n)) /\
  (forall iv, itext iv <> [] -> ie iv <= ce_len e -> fine (ce_select e iv)) /\
  (forall l, fine (insert_chars e l)).
Proof.
  intros e x W. repeat split.
  - now apply fine_ce_insert.
  - now apply fine_ce_remove_before.
  - now apply fine_ce_insert_glue.
  - now apply fine_ce_insert_break.
  - intros H. now apply fine_ce_remove_after.
  - intros H. now apply fine_ce_replace.
  - intros n H. now apply fine_ce_remove_front.
  - intros iv H1 H2. now apply fine_ce_select.
  - intros l. now apply fine_insert_chars.
Qed.
Print Assumptions C01_editing_primitives_total.

(* ... and that state is reached by EVERY history (C05_cursor_in_range_every_history, and for the
   candidate list C07_range_inside_current_buffer_every_history: the range a choice records lies
   inside the current buffer, so push_selection's assert cannot fire either) *)

(* ---- the phrase selector is total on every selector the invariant allows ---- *)
(* (EditorInv: in every reachable state with a phrase list open the selector satisfies ps_ok - range
   non-empty, inside the buffer, syllables only, hanging on a syllable the list was opened at.)
   Opening / re-opening the list (init), Down on the last page (next: the cycle through the ranges),
   list next / prev / last: no slice index out of range, no underflow, and every loop ends within its
   fuel - the termination of `next` is the argument the pinned code lacked. *)
Section Selector.
Context {D : Type} (dops : dict_ops D).
Variable dict_ok : D -> Prop.
Hypothesis ok_lookup : forall d f, dict_ok d -> do_lookup dops d f [] = [].

Theorem C01_selector_init_total : forall d p cur, cur < clen (ps_com p) -> BreakPoints.syl_at (ps_com p) cur ->
  exists p', ps_init dops d p cur = Ok p'.
Proof. exact (ps_init_total dops). Qed.

Theorem C01_selector_next_terminates : forall d p, ps_ok p -> exists p', ps_next dops d p = Ok p'.
Proof. exact (ps_next_total dops). Qed.

Theorem C01_selector_moves_total : forall d p, ps_ok p -> dict_ok d ->
  (exists r, ps_next_selection_point dops d p = Ok r) /\ (exists r, ps_prev_selection_point dops d p = Ok r) /\
  (exists p', ps_jump_last dops d (S (S (clen (ps_com p)))) p = Ok p').
Proof.
  intros d p Hok Hd. pose proof Hok as [Hlt Hle [_ (O1 & _) _]]. repeat split.
  - apply ps_next_point_total; lia.
  - apply ps_prev_point_total; [lia | lia | destruct (ps_fwd p); lia].
  - apply (ps_jump_last_total dops dict_ok ok_lookup); [exact Hok | exact Hd | lia].
Qed.
End Selector.
Print Assumptions C01_selector_init_total.
Print Assumptions C01_selector_next_terminates.
Print Assumptions C01_selector_moves_total.

(* ---- the pinned tree ---- *)
(* (1) English mode + full-width form + a key without a full-width form: unwrap() on None *)
Theorem C01_english_fullwidth_nonprintable_pinned_refuted :
  english_fullwidth_pinned (sh e0) (key 0%N 65533%N) = Panic 603%N.
Proof. exact english_fullwidth_nonprintable_pinned_panics. Qed.
Print Assumptions C01_english_fullwidth_nonprintable_pinned_refuted.

Theorem C01_english_fullwidth_nonprintable_fixed :
  exists e, m_key conv_single (ed_set_options std_ops e0 (english_fullwidth default_options)) (key 0%N 65533%N) = Ok (e, BIgnore).
Proof. exact english_fullwidth_nonprintable_fixed. Qed.
Print Assumptions C01_english_fullwidth_nonprintable_fixed.

(* (2) a syllable left without a word: opening the candidate list panicked (slice index) *)
Theorem C01_selector_init_without_word_pinned_refuted :
  ps_shrink_pinned empty_dict 3 (sel_on_it true) = Panic 203%N /\
  ps_shrink_pinned empty_dict 3 (sel_on_it false) = Panic 201%N.
Proof. exact selector_init_without_word_pinned_panics. Qed.
Print Assumptions C01_selector_init_without_word_pinned_refuted.

Theorem C01_selector_init_without_word_fixed : forall fwd,
  ps_shrink md_ops empty_dict 3 (sel_on_it fwd) = Ok (sel_on_it fwd).
Proof. exact selector_init_without_word_fixed. Qed.
Print Assumptions C01_selector_init_without_word_fixed.

(* (3) ... and cycling the range (Down on the last page) never returned: for EVERY amount of fuel
   the pinned loop is still running; the repaired one stops where it started *)
Theorem C01_selector_next_without_word_pinned_refuted : forall fuel fwd,
  ps_cycle_pinned empty_dict fuel (sel_on_it fwd) = OutOfFuel.
Proof. exact selector_next_without_word_pinned_never_ends. Qed.
Print Assumptions C01_selector_next_without_word_pinned_refuted.

Theorem C01_selector_next_without_word_fixed : forall fwd,
  ps_next md_ops empty_dict (sel_on_it fwd) = Ok (sel_on_it fwd).
Proof. exact selector_next_without_word_fixed. Qed.
Print Assumptions C01_selector_next_without_word_fixed.

(* ---- the whole editor: no history panics or hangs ---- *)
(* The statement quantifies over: every dictionary implementation `dops` with a well-formedness predicate
   that the operations preserve (no empty key, no empty phrase, frequencies below 4*10^9 - what a .dat / trie
   file that passed the C12 validation and the user dictionary hold), every syllable editor `sops`, every
   conversion oracle that tiles the buffer (the contract C03 proves of the engine's answers and the
   correspondence check validates per logged conversion), the symbol tables the editor was created with, every
   state the invariant allows, and every finite sequence of operations whose key events are what the C API
   builds (Space carries ' ', a printable key carries a character that has a full-width form - all of ASCII
   32..126 does, C01_capi_key_events_are_ok - anything else is U+FFFD) and whose option records have a page
   size of at least 1 (the C API accepts 1..10).  `fine r`: r is neither `Panic site` nor `OutOfFuel`. *)
Section Histories.
Context {D SY : Type} (dops : dict_ops D) (sops : syl_ops SY) (conv : conv_fn D).
Variable dict_ok : D -> Prop.
Hypothesis ok_lookup : forall d f, dict_ok d -> do_lookup dops d f [] = [].
Hypothesis ok_add : forall d k t f, dict_ok d -> length t <= length k -> (f <= 100)%N -> dict_ok (fst (do_add dops d k t f)).
Hypothesis ok_update : forall d k t f u tm, dict_ok d -> length t = length k -> k <> [] -> (u <= MAX_USER_FREQ)%N -> dict_ok (do_update dops d k t f u tm).
Hypothesis ok_remove : forall d k t, dict_ok d -> dict_ok (do_remove dops d k t).
Hypothesis alt_stable : forall x c, so_alt sops (so_clear sops x) c = so_alt sops x c.
Variable ss0 : symbol_sel.
Hypothesis ss0_good : ss_good ss0.
Hypothesis ss0_fresh : ss_cursor ss0 = None.
Hypothesis ok_text : forall d f k p, dict_ok d -> In p (do_lookup dops d f k) -> fst p <> [].
Hypothesis conv_tiles : forall d k c n, dict_ok d -> wf_comp c -> contiguous 0 (clen c) (conv d k c n) = true.

Theorem C01_every_operation_total : forall e o, op_fine o -> Inv dops sops dict_ok ss0 e ->
  fine (step dops sops conv e o).
Proof. intros e o Ho Hi. eapply (fine_step dops sops conv dict_ok); eassumption. Qed.

Theorem C01_no_history_panics_or_hangs : forall ops e, Forall op_fine ops -> Inv dops sops dict_ok ss0 e ->
  fine (run dops sops conv e ops).
Proof. intros ops e Ho Hi. eapply (fine_run dops sops conv dict_ok); eassumption. Qed.

Theorem C01_no_history_from_a_fresh_editor_panics_or_hangs : forall d s0 ab t0 ops, dict_ok d -> Forall op_fine ops ->
  fine (run dops sops conv (init_editor d s0 ab ss0 t0) ops).
Proof.
  intros d s0 ab t0 ops Hd Hops. apply C01_no_history_panics_or_hangs; [exact Hops|].
  eapply init_inv; eassumption.
Qed.

(* The conversion engines sit outside the editor model (their answers enter as an oracle).  What the
   editor owes them so that ChewingEngine's shortest_path().unwrap() / find_k_paths cannot come back
   empty: after EVERY history the buffer's interval graph has a path from 0 to its end - for every
   dictionary and lookup strategy (a recorded choice covers syllables only and has no break inside - part
   of the invariant -, a syllable without a word is spelled since fix e6644f0; the pinned tree had no
   path there: C03_path_missing_pinned_refuted) *)
Theorem C01_conversion_graph_has_a_path_after_every_history : forall ops e e' (lookup : lookup_fn) (spell : N -> list N),
  Forall op_ok ops -> Inv dops sops dict_ok ss0 e -> run dops sops conv e ops = Ok e' ->
  exists p, path_ok (find_intervals spell lookup (inner (com (sh e')))) 0 (clen (inner (com (sh e')))) p = true.
Proof.
  intros ops e e' lookup spell Hops Hi Hr. apply graph_has_a_path.
  eapply (run_inv dops sops conv dict_ok) in Hr; try eassumption. now destruct Hr as [[[W _] _ _ _] _].
Qed.
End Histories.
Print Assumptions C01_every_operation_total.
Print Assumptions C01_conversion_graph_has_a_path_after_every_history.
Print Assumptions C01_no_history_panics_or_hangs.
Print Assumptions C01_no_history_from_a_fresh_editor_panics_or_hangs.

(* ---- the conversion engine's own path search (Model/Engine.v: ChewingEngine::{convert, find_k_paths,
   shortest_path, trim_paths}, PossiblePath::{score, contains}; the fuzzy engine is the same code with another
   lookup strategy) ---- *)
(* `sortu` stands for candidates.sort_unstable_by_key(|k| k.len()), whose order among equal keys the Rust
   source leaves to the standard library: the theorems hold for EVERY function that permutes its input.
   `lookup` is any dictionary that holds nothing under the empty key. *)

(* shortest_path: no index out of range, both loops end within their fuel; an answer is a path of edges that
   were not removed, from the source to the end of the buffer; None only if no such path exists *)
Theorem C01_shortest_path_total_sound_complete : forall (E : list edge) (len : nat),
  (forall e, In e E -> eb e < ee e <= len) -> forall removed source, source <= len ->
  exists r, shortest_path (G E len) removed source len = Ok r /\
    (forall p, r = Some p -> gpath E source len p /\ (forall e, In e p -> live E len removed e)) /\
    (r = None -> forall p, ~ lpath E len removed source len p).
Proof. exact shortest_path_spec. Qed.
Print Assumptions C01_shortest_path_total_sound_complete.

(* ChewingEngine::convert on the interval graph of ANY well-formed composition of up to 4000 symbols, any
   dictionary, any frequencies: never Panic (in particular `shortest_path(..).unwrap()`, the index
   `start * len + end - 1`, `parent[edge.end]`, the i32 conversions of the score), never OutOfFuel; at least
   one alternative; every alternative tiles the buffer and is the glue-fold of a 0 -> len path of the graph
   (so the C03 / C04 theorems about every path apply to every alternative the engine returns) *)
Theorem C01_conversion_engine_never_panics : forall (sortu : list path -> list path) (lookup : lookup_fn) (spell : N -> list N) (c : composition),
  (forall l, Permutation (sortu l) l) -> lookup [] = [] -> wf_comp c -> clen c <= 4000 ->
  exists alts b, chewing_convert_x sortu spell lookup c = Ok (alts, b) /\ alts <> [] /\
    forall ivs, In ivs alts ->
      contiguous 0 (clen c) ivs = true /\
      (symbols c <> [] -> exists p, path_ok (find_intervals spell lookup c) 0 (clen c) p = true /\
                                    ivs = glue_path c (map edge_interval p)).
Proof. intros sortu lookup spell c Hp Hn Wc Hl. exact (chewing_convert_spec lookup Hn spell c Wc sortu Hp Hl). Qed.
Print Assumptions C01_conversion_engine_never_panics.

(* ... so the engine model, asked for its n-th alternative as Editor::conversion does (paths[n % paths.len()]),
   meets the contract `conv_tiles` that C01_no_history_panics_or_hangs asks of the conversion oracle, for every
   buffer of up to 4000 symbols (the C API limits the buffer to 39 + the symbol being typed) *)
Theorem C01_engine_meets_the_oracle_contract : forall sortu lookup spell c n,
  (forall l, Permutation (sortu l) l) -> lookup [] = [] -> wf_comp c -> clen c <= 4000 ->
  contiguous 0 (clen c) (engine_alt sortu spell lookup c n) = true.
Proof. exact engine_alt_tiles. Qed.
Print Assumptions C01_engine_meets_the_oracle_contract.

(* the executable instance the correspondence check runs (stable insertion sort = what
   core::slice::sort::unstable::sort does for at most 20 elements) is such a sort *)
Theorem C01_sort_by_len_permutes : forall l, Permutation (sort_by_len l) l.
Proof. exact sort_by_len_permutes. Qed.
Print Assumptions C01_sort_by_len_permutes.

(* the pinned tree (before fix 2d722b2): a phrase frequency that does not fit in i32 - any u32 is a legal
   frequency in a dictionary file - made PossiblePath::score panic ("score should fit in i32"); replayed on
   the implementation with a dictionary whose phrases carry frequency 3,000,000,000.  The repaired score
   saturates *)
Definition huge_path : path := [mkEdge 0 2 (PPhrase [28204%N; 35430%N] 3000000000%N); mkEdge 2 3 (PPhrase [28204%N] 3000000000%N)].
Theorem C01_score_huge_frequency_pinned_refuted : score_pinned huge_path = Panic 311.
Proof. vm_compute. reflexivity. Qed.
Print Assumptions C01_score_huge_frequency_pinned_refuted.

Theorem C01_score_huge_frequency_fixed : score huge_path = Ok 2147483647%Z.
Proof. vm_compute. reflexivity. Qed.
Print Assumptions C01_score_huge_frequency_fixed.

(* The second arithmetic site that needed a frequency hypothesis ("frequencies below 4 * 10^9"): the pinned
   `LaxUserFreqEstimate::estimate` added in u32 without saturation.  Two phrases of one key with frequencies within
   ten of 2^32: learning the lower one panics in a build with overflow checks (the profile the test suite runs in)
   and wraps in a release build.  Replayed on the implementation (sys 測 4294967290 / 冊 4294967295, learn 測);
   repaired by a saturating addition; the theorems above carry no frequency hypothesis any more *)
Theorem C01_estimate_near_u32_max_pinned_refuted : estimate_pinned 4294967290 4294967290 4294967295 = Panic 402.
Proof. vm_compute. reflexivity. Qed.
Print Assumptions C01_estimate_near_u32_max_pinned_refuted.

Theorem C01_estimate_near_u32_max_fixed : estimate 4294967290 4294967290 4294967295 = Ok MAX_USER_FREQ.
Proof. vm_compute. reflexivity. Qed.
Print Assumptions C01_estimate_near_u32_max_fixed.

Theorem C01_estimate_total_for_all_frequencies : forall f m : N, (f <= m)%N -> exists u, estimate f f m = Ok u.
Proof. exact LearnProofs.estimate_never_panics. Qed.
Print Assumptions C01_estimate_total_for_all_frequencies.

(* ---- the hypotheses can be met (non-vacuity) ---- *)
(* every key event the C API builds is admitted: the character is printable ASCII or U+FFFD *)
Theorem C01_capi_key_events_are_ok : forall ev,
  (kcode ev = kc_Space -> kunicode ev = 32%N) ->
  ((32 <= kunicode ev <= 126)%N \/ kunicode ev = REPLACEMENT_CHAR) -> event_ok ev.
Proof.
  intros ev Hsp Hu.
  assert (Sweep : forallb (fun c => match full_width_symbol_input (N.of_nat c) with None => false | Some _ => true end) (seq 32 95) = true)
    by (vm_compute; reflexivity).
  rewrite forallb_forall in Sweep.
  assert (K : (32 <= kunicode ev <= 126)%N -> full_width_symbol_input (kunicode ev) <> None).
  { intros Hr. specialize (Sweep (N.to_nat (kunicode ev))). rewrite N2Nat.id in Sweep.
    destruct (full_width_symbol_input (kunicode ev)); [discriminate|]. exfalso.
    assert (false = true); [|discriminate]. apply Sweep. apply in_seq. lia. }
  split.
  - intros Hc. apply K. rewrite (Hsp Hc). lia.
  - intros Hp. destruct Hu as [Hr|Hr]; [now apply K|]. unfold is_printable in Hp. rewrite Hr, N.eqb_refl in Hp. discriminate.
Qed.
Print Assumptions C01_capi_key_events_are_ok.

(* ... and those are exactly the events the C entry points hand to the editor: every chewing_handle_* builds
   its event with KeyboardLayout::map / map_with_mod / map_ascii / map_ascii_numlock of the selected layout.
   On the tables generated from src/editor/keyboard/*.rs: all 8 layouts x all 63 key codes x all 16 modifier
   sets, and all 256 byte values of chewing_handle_Default / chewing_handle_Numlock (complete sweeps) *)
Theorem C01_every_layout_key_event_is_admitted : forall kb ev,
  (kb < n_keyboard)%N ->
  ((exists code mods, (code < Keyboard_gen.n_keycode)%N /\ (mods < 16)%N /\ map_keycode kb code mods = Ok ev) \/
   (exists c, (c < 256)%N /\ (map_ascii kb c = Ok ev \/ map_ascii_numlock kb c = Ok ev))) ->
  op_fine (OpKey (ed_event ev)).
Proof.
  intros kb ev Hkb [(code & mods & Hc & Hm & He)|(c & Hc & He)]; cbn [op_fine].
  - exact (keycode_event_ok kb code mods ev Hkb Hc Hm He).
  - exact (ascii_event_ok kb c ev Hkb Hc He).
Qed.
Print Assumptions C01_every_layout_key_event_is_admitted.

(* the in-memory layered dictionary the correspondence check runs (Model/EdInst.v) with the standard layout
   meets every dictionary hypothesis: the theorem applies to the very instance that is compared with the
   Rust editor *)
Theorem C01_no_history_panics_or_hangs_instance : forall conv ss d s0 ab t0 ops,
  (forall d k c n, md_fine d -> wf_comp c -> contiguous 0 (clen c) (conv d k c n) = true) ->
  ss_good ss -> ss_cursor ss = None -> md_fine d -> Forall op_fine ops ->
  fine (run md_ops std_ops conv (init_editor d s0 ab ss t0) ops).
Proof.
  intros conv ss d s0 ab t0 ops Hconv Hg Hf Hd Hops.
  apply (C01_no_history_from_a_fresh_editor_panics_or_hangs md_ops std_ops conv md_fine); try assumption.
  - intros d0 f H. apply md_ok_lookup. now apply md_fine_ok.
  - exact md_fine_add.
  - exact md_fine_update.
  - exact md_fine_remove.
  - reflexivity.
  - intros d0 f k p. apply md_fine_text.
Qed.
Print Assumptions C01_no_history_panics_or_hangs_instance.

(* ---- editor and engines together: no oracle left ---- *)
(* The editor instance the correspondence check runs, with the conversion answered by the MODELLED engines
   over the editor's current dictionary (Model/EdInst.v: m_conv - SimpleEngine::convert, or the n-th
   alternative of the Chewing / Fuzzy engine model): no history of operations panics or hangs.  The engine
   model is exact for buffers of up to 4000 symbols (the C API's limit is 39); m_conv answers longer ones
   with one interval per symbol, outside the model. *)
Theorem C01_no_history_panics_or_hangs_with_the_modelled_engines : forall ss d s0 ab t0 ops,
  ss_good ss -> ss_cursor ss = None -> md_fine d -> Forall op_fine ops ->
  fine (run md_ops std_ops m_conv (init_editor d s0 ab ss t0) ops).
Proof.
  intros ss d s0 ab t0 ops Hg Hf Hd Hops.
  apply C01_no_history_panics_or_hangs_instance; try assumption. exact m_conv_tiles.
Qed.
Print Assumptions C01_no_history_panics_or_hangs_with_the_modelled_engines.

(* ... and with every phonetic layout as the syllable editor (Model/Layout.v: Standard, Hsu, IBM, Gin-Yieh, ET, ET26,
   DaChen26, Hanyu / THL / MPS2 Pinyin - the models of C14), switched at any moment by OpLayout
   (chewing_set_KBType while text is being composed or a list is open): the instance the correspondence runs *)
Theorem C01_no_history_panics_or_hangs_all_layouts_modelled_engines : forall ss d L ab t0 ops,
  ss_good ss -> ss_cursor ss = None -> md_fine d -> Forall op_fine ops ->
  fine (run md_ops lay_ops m_conv (ml_init d L ab ss t0) ops).
Proof.
  intros ss d L ab t0 ops Hg Hf Hd Hops. unfold ml_init.
  apply (C01_no_history_from_a_fresh_editor_panics_or_hangs md_ops lay_ops m_conv md_fine); try assumption.
  - intros d0 f H. apply md_ok_lookup. now apply md_fine_ok.
  - exact md_fine_add.
  - exact md_fine_update.
  - exact md_fine_remove.
  - intros [L0 st0] c. reflexivity.
  - intros d0 f k p. apply md_fine_text.
  - exact m_conv_tiles.
Qed.
Print Assumptions C01_no_history_panics_or_hangs_all_layouts_modelled_engines.

(* ---- through the C API: the key-entry glue of capi/src/io.rs (Model/CapiKeys.v) ---- *)
(* The context = editor (all layouts, modelled engines) + keyboard + selection keys.  Every finite sequence of
   chewing_handle_Space / Esc / Enter / Del / Backspace / Tab / Left / Right / Up / Down / Home / End / PageUp /
   PageDown / ShiftLeft / ShiftRight / ShiftSpace / Capslock (CHandle code mods), chewing_handle_Default /
   chewing_handle_CtrlNum / chewing_handle_Numlock with ANY int (`key as u8`), chewing_set_KBType with ANY int at
   any moment (the 17 rows of the generated KB table; anything else selects the default), chewing_set_selKey,
   chewing_cand_choose_by_index with ANY int, chewing_cand_open / close, chewing_commit_preedit_buf,
   chewing_clean_preedit_buf / clean_bopomofo_buf, chewing_Reset, chewing_config_set_int with ANY option name and ANY
   int (the system dictionary is a trie FILE as chewing_new2 loads it: mdf_ops, whose fuzzy lookup matches by syllable
   prefix in key order; the option arms and value tables are the regenerated ones of Model/Config.v; the options they produce are
   installed on the editor model), chewing_userphrase_add / remove with ANY two strings (the Bopomofo string is split
   and parsed by the syllable model), and any editor operation returns - no Panic, no OutOfFuel - and keeps the context invariant.  The events handed to the
   editor are the ones the eight keyboards build (complete sweeps in KeyEventsOk / KeyboardProofs). *)
Theorem C01_no_sequence_of_C_calls_panics_or_hangs : forall ss d ab t0 ops,
  ss_good ss -> ss_cursor ss = None -> md_fine d -> Forall cop_fine ops ->
  fine (crun mf_conv (cx_init d ab ss t0) ops).
Proof.
  intros ss d ab t0 ops Hg Hf Hd Hops.
  apply (crun_fine mf_conv mf_conv_tiles ss Hg Hf); [exact Hops|]. now apply cx_init_inv.
Qed.
Print Assumptions C01_no_sequence_of_C_calls_panics_or_hangs.

(* non-vacuity: a history of C calls on the model - Hsu by number, two candidates per page, `a` Space (the syllable c),
   Down, Right (second page: the words of the alternative reading ei), the selection key `2`, a user phrase added
   through its Bopomofo string, Enter - commits the chosen word; the added phrase and the learned choice are in
   the user dictionary; chewing_get_KBType answers 1 *)
Definition d_hsu_c : memdict :=
  mkMD (bt_insert ([10240], [27425], 10, 0) (bt_insert ([48], [27448], 5, 0) (bt_insert ([48], [35470], 6, 0) (bt_insert ([48], [21769], 7, 0) []))))%N [] [].
Definition c_history : list cop :=
  [CSetKBType 1; CConfigSetInt (Config.iopt_name Config.OCandidatesPerPage) 2; CDefault 97; CHandle kcSpace 0; CHandle kcDown 0; CHandle kcRight 0;
   CDefault 50; CUserAdd [20013; 25991]%N [12563; 12584; 12581; 32; 12584; 12579; 714]%N; CHandle kcEnter 0]%Z.
Example C01_c_history_example :
  Forall cop_fine c_history /\
  exists c, crun mf_conv (cx_init d_hsu_c [] ss_empty 0%N) c_history = Ok c /\
    c_commit_string c = [35470%N] /\ cx_kbcompat c = 1%N /\
    md_user (dict (sh (cx_ed c))) = [([8032; 338], [20013; 25991], 1, 0); ([10240], [35470], 10, 6)]%N.
Proof.
  split.
  - repeat (apply Forall_cons; [first [exact I | split; vm_compute; reflexivity]|]). apply Forall_nil.
  - vm_compute. eexists. repeat split.
Qed.

(* the premises hold somewhere non-trivial: a dictionary with a system and a user phrase, the conversion
   that gives every symbol its own interval, a history that types, opens the list, pages and commits *)
Example C01_instance_premises_hold :
  md_fine d3 /\ ss_good ss_empty /\ ss_cursor ss_empty = None /\
  (forall (d : memdict) k c n, wf_comp c -> contiguous 0 (clen c) (conv_single d k c n) = true) /\
  Forall op_fine (open_third_page ++ [OpKey (key kc_Space 32%N); OpStart; OpCommit]).
Proof.
  split; [split; repeat constructor; try discriminate; reflexivity|].
  split; [split; intros name; [intros [] | intros idx []]|].
  split; [reflexivity|].
  split.
  - intros d ek c n _. unfold conv_single. generalize (clen c) as len. intros len.
    assert (G : forall k from, contiguous from (from + k) (map (fun i => mkIv i (S i) true [20013%N]) (seq from k)) = true).
    { induction k as [|k IH]; intros from; cbn [seq map contiguous ib ie].
      - rewrite Nat.add_0_r. apply Nat.eqb_refl.
      - rewrite Nat.eqb_refl. cbn [andb]. assert (E : Nat.ltb from (S from) = true) by (apply Nat.ltb_lt; lia). rewrite E. cbn [andb].
        replace (from + S k) with (S from + k) by lia. apply IH. }
    exact (G len 0).
  - assert (P : forall code u, (code = kc_Space -> u = 32%N) -> ((32 <= u <= 126)%N \/ u = REPLACEMENT_CHAR) -> op_fine (OpKey (key code u))).
    { intros code u H1 H2. apply C01_capi_key_events_are_ok; assumption. }
    cbn [open_third_page app].
    repeat (apply Forall_cons; [first [ exact I | cbn; lia | apply P; [intros Hc; first [reflexivity | discriminate Hc] | first [left; lia | right; reflexivity]] ]|]).
    apply Forall_nil.
Qed.
