(* C06 - Keys are passed through when nothing is being composed; key results are truthful.
   Property theorems only (proofs: Proofs/EditorFrames.v). *)
From Coq Require Import NArith List Bool Arith.
From LC Require Import Base.Lib Gen.Editor_gen Model.Composition Model.Conversion Model.Editor Model.EditorRun
     Proofs.CompositionProofs Proofs.EditorInv Proofs.EditorFrames.
Import ListNotations.
Open Scope nat_scope.

(* With pre-edit buffer and phonetic-key buffer both empty (state Entering, empty composition),
   Enter, Esc, Tab, Backspace, Delete, the arrow keys, Home, End, PageUp and PageDown - with ANY
   modifiers - are answered with Ignore (and the call does not panic). *)
Theorem C06_passthrough_when_idle : forall D SY (dops : dict_ops D) (sops : syl_ops SY) conv (e : editor D SY) ev,
  st e = Entering -> ce_is_empty (com (sh e)) = true -> cursor (com (sh e)) <= ce_len (com (sh e)) ->
  In (kcode ev) passthrough_codes ->
  exists e', process_keyevent dops sops conv e ev = Ok (e', BIgnore).
Proof. intros D SY dops sops conv. exact (passthrough_when_idle dops sops conv). Qed.
Print Assumptions C06_passthrough_when_idle.

(* An ignored key - ANY key event, in ANY of the four states, for every layout, dictionary and
   conversion - leaves all persistent state unchanged (composition, cursor, cursor stack,
   phonetic buffer, dictionary, options, engine, alternative index, editor state incl. candidate
   list and page) and commits nothing. *)
Theorem C06_ignore_changes_nothing : forall D SY (dops : dict_ops D) (sops : syl_ops SY) conv (e : editor D SY) ev e',
  process_keyevent dops sops conv e ev = Ok (e', BIgnore) ->
  persist_eq (sh e') (sh e) /\ st e' = st e /\ commit_buf (sh e') = [].
Proof. intros D SY dops sops conv. exact (ignore_changes_nothing dops sops conv). Qed.
Print Assumptions C06_ignore_changes_nothing.

(* A bell leaves pre-edit text (symbols, gaps, selections) and cursor unchanged. *)
Theorem C06_bell_keeps_preedit : forall D SY (dops : dict_ops D) (sops : syl_ops SY) conv (e : editor D SY) ev e',
  process_keyevent dops sops conv e ev = Ok (e', BBell) -> com (sh e') = com (sh e).
Proof. intros D SY dops sops conv. exact (bell_keeps_preedit dops sops conv). Qed.
Print Assumptions C06_bell_keeps_preedit.

(* exactly one of the four results is reported: the result type has exactly four values *)
Theorem C06_exactly_one_result : forall b : behavior,
  (b = BIgnore \/ b = BAbsorb \/ b = BCommit \/ b = BBell) /\
  (b = BIgnore -> b <> BAbsorb /\ b <> BCommit /\ b <> BBell).
Proof. intros b. split; [destruct b; auto | intros ->; repeat split; discriminate]. Qed.
Print Assumptions C06_exactly_one_result.

(* non-vacuity: the pass-through list is the thirteen keys of the property *)
Example C06_passthrough_codes : length passthrough_codes = 13 /\ NoDup passthrough_codes.
Proof.
  split; [reflexivity|]. unfold passthrough_codes.
  repeat (constructor; [cbn; intros H; repeat (destruct H as [H|H]; [discriminate H|]); exact H|]). constructor.
Qed.
