(* C06 - Keys are passed through when nothing is being composed; key results are truthful.
   Property theorems only (proofs: Proofs/EditorFrames.v). *)
From Coq Require Import NArith List Bool Arith.
From LC Require Import Base.Lib Gen.Editor_gen Model.Composition Model.Conversion Model.Editor Model.EditorRun
     Proofs.CompositionProofs Proofs.EditorInv Proofs.EditorFrames.
Import ListNotations.
Open Scope nat_scope.

(* With pre-edit buffer and phonetic-key buffer both empty (state Entering, empty composition),
   Enter, Esc, Tab, Backspace, Delete, the arrow keys, Home, End, PageUp and PageDown - with ANY
   modifiers - are answered with Ignore (and the call does not panic). *)
Theorem C06_passthrough_when_idle : forall D SY (dops : dict_ops D) (sops : syl_ops SY) conv (e : editor D SY) ev,
  st e = Entering -> ce_is_empty (com (sh e)) = true -> cursor (com (sh e)) <= ce_len (com (sh e)) ->
  In (kcode ev) passthrough_codes ->
  exists e', process_keyevent dops sops conv e ev = Ok (e', BIgnore).
Proof. intros D SY dops sops conv. exact (passthrough_when_idle dops sops conv). Qed.
Print Assumptions C06_passthrough_when_idle.

(* An ignored key - ANY key event, in ANY of the four states, for every layout, dictionary and
   conversion - leaves all persistent state unchanged (composition, cursor, cursor stack,
   phonetic buffer, dictionary, options, engine, alternative index, editor state incl. candidate
   list and page) and commits nothing. *)
Theorem C06_ignore_changes_nothing : forall D SY (dops : dict_ops D) (sops : syl_ops SY) conv (e : editor D SY) ev e',
  process_keyevent dops sops conv e ev = Ok (e', BIgnore) ->
  persist_eq (sh e') (sh e) /\ st e' = st e /\ commit_buf (sh e') = [].
Proof. intros D SY dops sops conv. exact (ignore_changes_nothing dops sops conv). Qed.
Print Assumptions C06_ignore_changes_nothing.

(* A bell leaves pre-edit text (symbols, gaps, selections) and cursor unchanged. *)
Theorem C06_bell_keeps_preedit : forall D SY (dops : dict_ops D) (sops : syl_ops SY) conv (e : editor D SY) ev e',
  process_keyevent dops sops conv e ev = Ok (e', BBell) -> com (sh e') = com (sh e).
Proof. intros D SY dops sops conv. exact (bell_keeps_preedit dops sops conv). Qed.
Print Assumptions C06_bell_keeps_preedit.

(* exactly one of the four results is reported: the result type has exactly four values *)
Theorem C06_exactly_one_result : forall b : behavior,
  (b = BIgnore \/ b = BAbsorb \/ b = BCommit \/ b = BBell) /\
  (b = BIgnore -> b <> BAbsorb /\ b <> BCommit /\ b <> BBell).
Proof. intros b. split; [destruct b; auto | intros ->; repeat split; discriminate]. Qed.
Print Assumptions C06_exactly_one_result.

(* non-vacuity: the pass-through list is the thirteen keys of the property *)
Example C06_passthrough_codes : length passthrough_codes = 13 /\ NoDup passthrough_codes.
Proof.
  split; [reflexivity|]. unfold passthrough_codes.
  repeat (constructor; [cbn; intros H; repeat (destruct H as [H|H]; [discriminate H|]); exact H|]). constructor.
Qed.

(* ---- through the C API (Model/CapiKeys.v, Proofs/CapiPassthrough.v): in a context reached by ANY sequence of C
   calls (key functions with any int, configuration, candidate and user-phrase calls, resets) that is in the editing
   state with an empty pre-edit buffer, each of the thirteen named key functions - chewing_handle_Enter / Esc / Tab /
   Backspace / Del / Left / Right / Up / Down / Home / End / PageUp / PageDown, under every keyboard layout the
   context may have selected and with any modifier bits - returns with chewing_keystroke_CheckIgnore = 1, with
   neither CheckAbsorb nor chewing_commit_Check set, and leaves buffer, cursor, phonetic keys, dictionary, options,
   engine, alternative index, editor state, keyboard, reported keyboard number and selection keys as they were. *)
From Coq Require Import ZArith.
From LC Require Import Gen.Keyboard_gen Model.EdInst Model.CapiKeys Model.CapiConfig Model.CapiRun Proofs.EdInstProofs
     Proofs.CapiKeysProofs Proofs.CapiInv Proofs.CapiPassthrough Proofs.EngineTiles.

Theorem C06_named_keys_pass_through_after_any_C_calls : forall conv,
  (forall d k c n, md_fine d -> wf_comp c -> contiguous 0 (clen c) (conv d k c n) = true) ->
  forall ss0, ss_good ss0 -> ss_cursor ss0 = None ->
  forall d ab t0 ops c, md_fine d -> Forall cop_fine ops -> crun conv (cx_init d ab ss0 t0) ops = Ok c ->
  st (cx_ed c) = Entering -> chewing_buffer_Len c = 0%Z ->
  forall code mods, In code passthrough_codes -> (mods < 16)%N ->
  exists c', cstep conv c (CHandle code mods) = Ok c' /\
    chewing_keystroke_CheckIgnore c' = 1%Z /\ chewing_keystroke_CheckAbsorb c' = 0%Z /\ chewing_commit_Check c' = 0%Z /\
    persist_eq (sh (cx_ed c')) (sh (cx_ed c)) /\ st (cx_ed c') = st (cx_ed c) /\
    cx_kb c' = cx_kb c /\ cx_kbcompat c' = cx_kbcompat c /\ cx_sel c' = cx_sel c /\
    chewing_buffer_Len c' = 0%Z /\ chewing_cursor_Current c' = chewing_cursor_Current c.
Proof.
  intros conv Ht ss0 Hg Hf d ab t0 ops c Hd Hops Hrun Hst Hlen code mods Hin Hm.
  eapply c_passthrough_when_idle; try eassumption.
  eapply (crun_inv conv Ht ss0 Hg Hf); [exact Hops | | exact Hrun]. now apply cx_init_inv.
Qed.
Print Assumptions C06_named_keys_pass_through_after_any_C_calls.

(* non-vacuity: Dvorak-on-Qwerty by number, a word typed and committed, then chewing_handle_Esc *)
Definition c06_dict : memdict := mkMD (bt_insert ([10240], [27425], 10, 0) [])%N [] [].
Definition c06_history : list cop := [CSetKBType 1; CDefault 97; CHandle kcSpace 0; CHandle kcEnter 0; CSetKBType 8]%Z.
Example C06_c_history_example :
  md_fine c06_dict /\ Forall cop_fine c06_history /\
  exists c c', crun mf_conv (cx_init c06_dict [] ss_empty 0%N) c06_history = Ok c /\
               st (cx_ed c) = Entering /\ chewing_buffer_Len c = 0%Z /\ In kc_Esc passthrough_codes /\
               cstep mf_conv c (CHandle kc_Esc 1) = Ok c' /\ chewing_keystroke_CheckIgnore c' = 1%Z.
Proof.
  split; [split; vm_compute; repeat constructor; intro; discriminate|]. split.
  - repeat (apply Forall_cons; [first [exact I | split; vm_compute; reflexivity]|]). apply Forall_nil.
  - eexists. eexists. split; [vm_compute; reflexivity|]. vm_compute. repeat split. right. left. reflexivity.
Qed.

(* exactly one key result at the C level: after any key-entry call (chewing_handle_* / Default / CtrlNum / Numlock with
   any int, in any state of the context) at most one of chewing_keystroke_CheckIgnore, chewing_keystroke_CheckAbsorb and
   chewing_commit_Check is 1 - none of them is the bell -, each is 0 or 1.  (chewing_handle_CtrlNum with a key that is
   no digit returns -1 and handles nothing: the context is the one before.) *)
Theorem C06_at_most_one_result_flag_after_a_key_call : forall conv (c : cctx) o c',
  key_call o -> cstep conv c o = Ok c' ->
  c' = c \/
  ((chewing_keystroke_CheckIgnore c' = 0 \/ chewing_keystroke_CheckIgnore c' = 1) /\
   (chewing_keystroke_CheckAbsorb c' = 0 \/ chewing_keystroke_CheckAbsorb c' = 1) /\
   (chewing_commit_Check c' = 0 \/ chewing_commit_Check c' = 1) /\
   chewing_keystroke_CheckIgnore c' + chewing_keystroke_CheckAbsorb c' + chewing_commit_Check c' <= 1)%Z.
Proof.
  intros conv c o c' Hk H.
  destruct (c_commit_check_only_with_commit conv c o c' Hk H) as [->|K]; [now left | right].
  unfold chewing_keystroke_CheckIgnore, chewing_keystroke_CheckAbsorb, chewing_commit_Check, flag, c_flags in *. cbn [List.nth] in *.
  destruct (commit_buf (sh (cx_ed c'))) as [|x l] eqn:Ec; cbn [negb bz] in *.
  - destruct (last (sh (cx_ed c'))); cbn; repeat split; auto; discriminate.
  - destruct (K eq_refl) as (K1 & K2 & _). rewrite K1, K2. repeat split; auto. discriminate.
Qed.
Print Assumptions C06_at_most_one_result_flag_after_a_key_call.

(* ... an ignored key-entry call leaves the whole context as it was and commits nothing; one answered with the bell
   leaves the pre-edit buffer (symbols, break / glue marks, choices), the cursor and the saved cursors as they were *)
From LC Require Import Proofs.CapiResult.
Theorem C06_ignored_or_bell_key_call_changes_nothing : forall conv (c : cctx) o c',
  key_call o -> cstep conv c o = Ok c' ->
  c' = c \/
  ((chewing_keystroke_CheckIgnore c' = 1%Z ->
    persist_eq (sh (cx_ed c')) (sh (cx_ed c)) /\ st (cx_ed c') = st (cx_ed c) /\ chewing_commit_Check c' = 0%Z /\
    cx_kb c' = cx_kb c /\ cx_kbcompat c' = cx_kbcompat c /\ cx_sel c' = cx_sel c /\
    chewing_buffer_Len c' = chewing_buffer_Len c /\ chewing_cursor_Current c' = chewing_cursor_Current c) /\
   (last (sh (cx_ed c')) = BBell -> com (sh (cx_ed c')) = com (sh (cx_ed c)))).
Proof. exact c_ignored_or_bell_key_call. Qed.
Print Assumptions C06_ignored_or_bell_key_call_changes_nothing.
