(* C10 - User-dictionary changes are durable; the file is replaced atomically.
   Property theorems only; each is closed by a lemma from Proofs/DurabilityProofs.v.

   Model: Model/Durability.v - the protocol of TrieBuf::{checkpoint, sync, Drop}, the
   writer thread and TrieBuilder::build over an abstract file system, as a step
   function driven by a schedule (list of choices: foreground call, drop statement,
   writer step, crash, power loss).  All theorems quantify over EVERY schedule, i.e.
   every interleaving, every history and every crash point, by induction.

   PARTIAL with respect to the property text: the model assumes what it cannot
   exhibit - fs::rename replaces the path atomically, sync_data makes the bytes
   durable, the temp name is not in use by anybody else (for two dictionaries of one
   process in one directory: the theorems at the end of this file), one process and one
   TrieBuf per path, no I/O errors, threads interleave at the named points.  The
   byte encoding is abstract here (C11/C12 own it). *)
From Coq Require Import NArith List Bool.
From LC Require Import Base.Lib Gen.Durability_gen Model.Durability Proofs.DurabilityProofs.
Import ListNotations.
Open Scope N_scope.

(* atomic_replace: in every reachable state of every schedule (either drop variant,
   crashed or not, after a power loss or not) the dictionary path holds a complete
   and synced encoding of a dictionary: it is loadable. *)
Theorem C10_atomic_replace : forall v d0 sched,
  exists d, fs_path (st_fs (run v sched (init d0))) = Some (mkFile d n_chunks true) /\
            disk (run v sched (init d0)) = Some d.
Proof. exact atomic_replace_disk. Qed.
Print Assumptions C10_atomic_replace.

(* ... because only the writer's rename ever changes the path, and only by
   installing its temp file when that is complete and synced. *)
Theorem C10_path_written_only_by_rename : forall v d0 sched c,
  let s := run v sched (init d0) in
  let s' := step v c s in
  fs_path (st_fs s') = fs_path (st_fs s) \/
  exists w, m_handle (st_mem s) = Some w /\ w_pc w = WSynced /\
            fs_tmp (st_fs s) = Some (mkFile (w_snap w) n_chunks true) /\
            fs_path (st_fs s') = Some (mkFile (w_snap w) n_chunks true).
Proof. exact path_written_only_by_rename. Qed.
Print Assumptions C10_path_written_only_by_rename.

(* T1 - the writer's program is the code's: TrieBuilder::build, re-read from
   src/dictionary/trie.rs by tablegen on every run, creates a sibling temp file, writes,
   flushes, syncs and only then renames it over the path - the order Model/Durability.v's
   wr_step implements.  (Whether sync_data precedes the rename cannot be exhibited by
   killing a process; this obligation is what notices its removal or a reordering.) *)
Theorem C10_build_call_order :
  build_calls = [0; 1; 2; 3; 4] /\ build_calls = writer_program /\ build_tmp_distinct = true.
Proof. exact (conj (proj1 build_call_order) build_call_order). Qed.
Print Assumptions C10_build_call_order.

(* crash at any point of any schedule: the path still decodes, to exactly what it
   decoded to before the crash, and while a writer is in flight that is either what
   the path held when the writer was spawned (previous) or the writer's snapshot
   (new). *)
Theorem C10_crash_old_or_new : forall v d0 sched c,
  let s := run v sched (init d0) in
  st_pc s <> Crashed -> c = Crash \/ c = PowerLoss ->
  exists d, disk (step v c s) = Some d /\ disk s = Some d /\
            match m_handle (st_mem s) with
            | None => True
            | Some w => w_old w = Some d \/ d = w_snap w
            end.
Proof. exact crash_old_or_new. Qed.
Print Assumptions C10_crash_old_or_new.

(* the writer's "previous" and "new" are what they claim to be: flush with no
   writer in flight and unsaved changes records the path's current decoding and the
   dictionary's current entries; afterwards no step alters them. *)
Theorem C10_snapshot_is_flush_time_state : forall m fs,
  m_handle m = None -> m_dirty m = true ->
  m_handle (checkpoint m fs) = Some (mkWriter (snapshot_of m) (decode (fs_path fs)) WStart None) /\
  forall k, get k (snapshot_of m) = contents m k.
Proof. exact snapshot_is_flush_time_state. Qed.
Print Assumptions C10_snapshot_is_flush_time_state.

Theorem C10_snapshot_immutable : forall v c s w w',
  m_handle (st_mem s) = Some w -> m_handle (st_mem (step v c s)) = Some w' ->
  w_snap w' = w_snap w /\ w_old w' = w_old w.
Proof. exact snapshot_immutable. Qed.
Print Assumptions C10_snapshot_immutable.

(* reopen, flush, every statement of drop and every writer step leave what the
   dictionary shows unchanged (single process): only a change changes it. *)
Theorem C10_only_changes_change_contents : forall v d0 sched c,
  let s := run v sched (init d0) in
  (forall ch, c <> Fg (Change ch)) ->
  forall k, contents (st_mem (step v c s)) k = contents (st_mem s) k.
Proof. exact only_changes_change_contents. Qed.
Print Assumptions C10_only_changes_change_contents.

(* no accepted change is ever forgotten (either drop variant, any schedule): the
   dictionary's current contents are on disk, or are the snapshot of the writer in
   flight, or the dirty flag is set - so the next flush (the editor flushes after
   every key that changed the dictionary) or drop will write them. *)
Theorem C10_nothing_forgotten : forall v d0 sched,
  let s := run v sched (init d0) in
  st_pc s <> Crashed ->
  m_dirty (st_mem s) = true \/
  match m_handle (st_mem s) with
  | None => exists d, disk s = Some d /\ forall k, get k d = contents (st_mem s) k
  | Some w => forall k, get k (w_snap w) = contents (st_mem s) k
  end.
Proof. exact nothing_forgotten. Qed.
Print Assumptions C10_nothing_forgotten.

(* durable_after_close (drop = join; sync; flush; join - the tree after the fix):
   for every history sched1, every continuation sched2 after `close` was called
   (any interleaving of drop statements, writer steps and ignored calls), if drop has
   returned then the file decodes and shows, for every key, exactly what the
   dictionary showed when close was called. *)
Theorem C10_durable_after_close : forall d0 sched1 sched2,
  let s1 := run Fixed sched1 (init d0) in
  let s2 := run Fixed (Fg Close :: sched2) s1 in
  st_pc s1 = Running -> st_pc s2 = Closed ->
  exists d, disk s2 = Some d /\ forall k, get k d = contents (st_mem s1) k.
Proof. exact durable_after_close. Qed.
Print Assumptions C10_durable_after_close.

(* The first sentence of the property, literally: a change that was accepted (c is
   applied to the dictionary in state s0) and is followed by any interleaving `mid`
   of flushes, reopens, writer steps and ignored calls - but by no further change -
   and then by a close that terminates, is in the file: the file shows exactly what
   the dictionary showed right after the change.  (With further changes in between,
   C10_durable_after_close says the file shows the state after the last of them.) *)
Theorem C10_accepted_change_durable : forall d0 sched0 c mid sched2,
  let s0 := run Fixed sched0 (init d0) in
  let s1 := run Fixed (Fg (Change c) :: mid) s0 in
  let s2 := run Fixed (Fg Close :: sched2) s1 in
  st_pc s0 = Running ->
  (forall x, In x mid -> forall ch, x <> Fg (Change ch)) ->
  st_pc s1 = Running -> st_pc s2 = Closed ->
  exists d, disk s2 = Some d /\ forall k, get k d = contents (do_change c (st_mem s0)) k.
Proof. exact accepted_change_durable. Qed.
Print Assumptions C10_accepted_change_durable.

(* close terminates: from every reachable running state, under a scheduler that
   keeps running both drop and the writer (16 rounds suffice: two writer runs of 6
   steps and the 4 statements of drop), drop returns.  So the hypothesis
   `st_pc s2 = Closed` of the durability theorems is satisfiable after EVERY
   history. *)
Theorem C10_close_terminates : forall d0 sched,
  let s := run Fixed sched (init d0) in
  st_pc s = Running -> st_pc (run Fixed (Fg Close :: fair 16) s) = Closed.
Proof. exact close_terminates. Qed.
Print Assumptions C10_close_terminates.

(* The statement is FALSE for the drop of the pinned tree (sync; flush; join):
   update 1, flush, update 2, flush (ignored: writer busy), close while the first
   writer runs - drop's sync and flush both return early, the join waits for the
   first writer only, update 2 never reaches the file.  Replayed on the
   implementation by `c10 replay pinned-lost-update` (fixed by the commit named in
   KNOWN_FINDINGS.json). *)
Theorem C10_durable_after_close_pinned_refuted :
  exists d0 sched1 sched2,
  let s1 := run Pinned sched1 (init d0) in
  let s2 := run Pinned (Fg Close :: sched2) s1 in
  st_pc s1 = Running /\ st_pc s2 = Closed /\
  exists k v, contents (st_mem s1) k = Some v /\
              forall d, disk s2 = Some d -> get k d = None.
Proof. exact durable_after_close_pinned_refuted_ex. Qed.
Print Assumptions C10_durable_after_close_pinned_refuted.

(* non-vacuity: the same history under the fixed drop reaches Closed with both
   updates on disk; a crash in the middle of the second write leaves the first
   snapshot; the hypotheses of the theorems above are met by these runs. *)
Example C10_nonvacuous_close :
  let s1 := run Fixed lost_update_l1 (init []) in
  let s2 := run Fixed (Fg Close :: lost_update_l2_fixed) s1 in
  st_pc s1 = Running /\ st_pc s2 = Closed /\ disk_table s2 4 = Some [(1, 1); (2, 2)].
Proof. exact lost_update_fixed. Qed.

Example C10_nonvacuous_crash :
  let s := run Fixed [Fg (Change (Upd 1 1)); Fg Flush; Wr; Wr; Wr; Wr; Wr; Wr;
                      Fg Reopen; Fg (Change (Rem 1)); Fg Flush; Wr; Wr; PowerLoss] (init [(7, 7)]) in
  st_pc s = Crashed /\ disk_table s 8 = Some [(1, 1); (7, 7)] /\
  decode (fs_tmp (st_fs s)) = None.
Proof. vm_compute. repeat split. Qed.

(* ---- two dictionaries of one process in ONE directory, written at the same time (Model/Staging.v: names -> inodes ->
   contents; create = new inode or the existing one truncated, write through the handle, rename) ----
   With different staging names - four different names in all - EVERY interleaving of the two writers' steps, from any
   directory that holds neither staging name, ends with each target holding exactly what its own writer wrote and no
   staging file left.  /repo commit ed92e26 makes the names different (process id + a process-wide sequence number;
   the check reads that off the source of TrieBuilder::build on every run). *)
From LC Require Import Model.Staging Proofs.StagingProofs.
Theorem C10_two_dictionaries_in_one_directory_do_not_disturb_each_other : forall p1 p2 : wparams,
  w_stage p1 <> w_stage p2 /\ w_stage p1 <> w_target p1 /\ w_stage p1 <> w_target p2 /\
  w_stage p2 <> w_target p1 /\ w_stage p2 <> w_target p2 /\ w_target p1 <> w_target p2 ->
  forall (dir ino : fmap) (next : N) (sched : list bool),
  Bound dir next -> dir (w_stage p1) = None -> dir (w_stage p2) = None ->
  let s := srun p1 p2 (sinit dir ino next) sched in
  both_done s = true ->
  file_of s (w_target p1) = Some (w_data p1) /\ file_of s (w_target p2) = Some (w_data p2) /\
  s_dir s (w_stage p1) = None /\ s_dir s (w_stage p2) = None.
Proof. exact private_staging_names_keep_the_dictionaries_apart. Qed.
Print Assumptions C10_two_dictionaries_in_one_directory_do_not_disturb_each_other.

(* the pinned code named the staging file after the microsecond of the clock: two builds in the same microsecond share
   it.  Witness (create1 create2 write1 write2 rename1 rename2): the first target ends with the SECOND dictionary's
   contents and the second dictionary's accepted change is lost (its rename finds no staging file) - observed on the
   pinned tree by vharness c10 `pair` in about one round of a hundred; the same schedule with two names is fine *)
Theorem C10_shared_staging_file_pinned_refuted :
  (let s := srun (mkW 7 1 11) (mkW 7 2 22) (sinit pinned_dir pinned_ino 102) [true; false; true; false; true; false] in
   both_done s = true /\ file_of s 1%N = Some 22%N /\ file_of s 2%N = Some 20%N) /\
  (let s := srun (mkW 7 1 11) (mkW 8 2 22) (sinit pinned_dir pinned_ino 102) [true; false; true; false; true; false] in
   both_done s = true /\ file_of s 1%N = Some 11%N /\ file_of s 2%N = Some 22%N).
Proof. split; [exact shared_staging_name_mixes_the_dictionaries_pinned_refuted | exact shared_staging_name_fixed_example]. Qed.
Print Assumptions C10_shared_staging_file_pinned_refuted.
