(* C04 - User selections and break points are honoured until the user edits them.
   Property theorems only (proofs: Proofs/CompositionProofs.v, Proofs/ConversionProofs.v). *)
From Coq Require Import NArith List Bool Arith.
From LC Require Import Base.Lib Model.Composition Model.Conversion Proofs.CompositionProofs Proofs.ConversionProofs.
Import ListNotations.
Open Scope nat_scope.

(* ---- what each editing operation does to the recorded choices: a selection (b,e,T) survives,
   index-shifted, iff the operation does not touch [b,e) ---- *)
Theorem C04_insert_image : forall c i x c', comp_insert c i x = Ok c' ->
  selections c' = map (fun s => if Nat.leb i (ib s) then shift_iv 1 s else s)
                      (filter (fun s => negb (Nat.ltb (ib s) i && Nat.ltb i (ie s))) (selections c)).
Proof. exact insert_selections. Qed.
Print Assumptions C04_insert_image.

Theorem C04_remove_image : forall c i c', comp_remove c i = Ok c' ->
  selections c' = map (fun s => if Nat.leb (ib s) i then s else unshift_iv 1 s)
                      (filter (fun s => negb (Nat.leb (ib s) i && Nat.ltb i (ie s))) (selections c)).
Proof. exact remove_selections. Qed.
Print Assumptions C04_remove_image.

(* auto-commit of earlier text *)
Theorem C04_remove_front_image : forall c n c', comp_remove_front c n = Ok c' ->
  selections c' = map (unshift_iv n) (filter (fun s => negb (Nat.ltb (ib s) n)) (selections c)).
Proof. exact remove_front_selections. Qed.
Print Assumptions C04_remove_front_image.

Theorem C04_typing_elsewhere_keeps_choice : forall c i x c' s, comp_insert c i x = Ok c' ->
  In s (selections c) -> (ie s <= i \/ i <= ib s) ->
  In (if Nat.leb i (ib s) then shift_iv 1 s else s) (selections c').
Proof. exact insert_keeps_selection. Qed.
Print Assumptions C04_typing_elsewhere_keeps_choice.

Theorem C04_deleting_elsewhere_keeps_choice : forall c i c' s, comp_remove c i = Ok c' ->
  In s (selections c) -> (ie s <= i \/ i < ib s) ->
  In (if Nat.leb (ib s) i then s else unshift_iv 1 s) (selections c').
Proof. exact remove_keeps_selection. Qed.
Print Assumptions C04_deleting_elsewhere_keeps_choice.

Theorem C04_auto_commit_keeps_later_choice : forall c n c' s, comp_remove_front c n = Ok c' ->
  In s (selections c) -> n <= ib s -> In (unshift_iv n s) (selections c').
Proof. exact remove_front_keeps_selection. Qed.
Print Assumptions C04_auto_commit_keeps_later_choice.

(* a new choice replaces only the choices it overlaps *)
Theorem C04_new_choice_replaces_only_overlapping : forall c iv c', wf_comp c -> ib iv < ie iv ->
  (forall k, ib iv <= k < ie iv -> syl_sym c k) ->
  comp_push_selection c iv = Ok c' ->
  wf_comp c' /\ symbols c' = symbols c /\
  selections c' = filter (fun s => negb (iv_intersect s iv)) (selections c) ++ [iv].
Proof. exact push_selection_wf. Qed.
Print Assumptions C04_new_choice_replaces_only_overlapping.

(* cursor movement and cycling alternatives (Tab at the end: nth_conversion) do not touch the
   composition at all - C05_cursor_keys; breaks/glue (set_gap) only drop the selections a Break
   cuts through *)
Theorem C04_set_gap_keeps_choices : forall c i g c', wf_comp c -> comp_set_gap c i g = Ok c' ->
  wf_comp c' /\ symbols c' = symbols c /\ (forall s, In s (selections c') -> In s (selections c)).
Proof. exact set_gap_wf. Qed.
Print Assumptions C04_set_gap_keeps_choices.

Section Honoured.
Variable lookup : lookup_fn.
Hypothesis lookup_len : forall syms p, In p (lookup syms) -> length (fst p) = length syms.
Hypothesis lookup_nil : lookup [] = [].
Variable spell : N -> list N.
Variable c : composition.
Hypothesis Wc : wf_comp c.
Hypothesis sel_len : Forall (fun s => length (itext s) = ie s - ib s) (selections c).
(* every syllable of the buffer has a word under the engine's lookup strategy (see C03.v) *)
Hypothesis has_word : forall s, In (SymSyl s) (symbols c) -> lookup [SymSyl s] <> [].

(* the displayed (= committed, C02) text at the range of every recorded choice is that choice,
   for EVERY path through the graph, i.e. every alternative of the Chewing / Fuzzy engines *)
Theorem C04_choice_is_displayed : forall p sel,
  path_ok (find_intervals spell lookup c) 0 (clen c) p = true -> In sel (selections c) ->
  firstn (ie sel - ib sel) (skipn (ib sel) (display_of (glue_path c (map edge_interval p)))) = itext sel.
Proof.
  intros p sel Hp Hin.
  destruct (every_path_tiles lookup lookup_len lookup_nil spell c Wc sel_len has_word p Hp) as (Hc & Hok).
  exact (selection_is_displayed c Wc _ sel Hc Hok Hin).
Qed.

(* ... and for every segmentation accepted by the model's checker (the implementation's logged
   conversions in the correspondence check) *)
Theorem C04_choice_is_displayed_validated : forall ivs sel, symbols c <> [] ->
  valid_conversion spell lookup c ivs = true -> In sel (selections c) ->
  firstn (ie sel - ib sel) (skipn (ib sel) (display_of ivs)) = itext sel.
Proof.
  intros ivs sel Hne Hv Hin.
  destruct (valid_conversion_tiles lookup lookup_len lookup_nil spell c Wc sel_len has_word ivs Hne Hv) as (Hc & Hok).
  exact (selection_is_displayed c Wc _ sel Hc Hok Hin).
Qed.

(* a break point set by the user is never spanned by a converted phrase *)
Theorem C04_break_never_spanned : forall p iv k,
  path_ok (find_intervals spell lookup c) 0 (clen c) p = true ->
  In iv (glue_path c (map edge_interval p)) -> ib iv < k < ie iv -> comp_gap c k <> Some GBreak.
Proof.
  intros p iv k Hp Hin Hk.
  destruct (every_path_tiles lookup lookup_len lookup_nil spell c Wc sel_len has_word p Hp) as (_ & Hok).
  exact (no_interval_spans_break c _ iv k Hok Hin Hk).
Qed.

End Honoured.
Print Assumptions C04_choice_is_displayed.
Print Assumptions C04_choice_is_displayed_validated.
Print Assumptions C04_break_never_spanned.

(* ---- at the level of the keys (Proofs/EditKeys.v): the Backspace key, the Delete key and the key that completes a
   syllable - in every layout, with every dictionary - leave a recorded choice the edit does not touch recorded,
   moved along with its symbols (or the key changed nothing in the buffer at all) ---- *)
From LC Require Import Gen.Editor_gen Model.Editor Model.EditorRun Proofs.EditKeys.

Theorem C04_backspace_key_keeps_choice : forall D SY (dops : dict_ops D) (sops : syl_ops SY) conv (s s' : shared D SY) ev t sel,
  kcode ev = kc_Backspace -> entering_next dops sops conv s ev = Ok (s', t) ->
  In sel (selections (inner (com s))) -> (ie sel <= cursor (com s) - 1 \/ cursor (com s) - 1 < ib sel) ->
  com s' = com s \/
  In (if Nat.leb (ib sel) (cursor (com s) - 1) then sel else unshift_iv 1 sel) (selections (inner (com s'))).
Proof. intros D SY dops sops conv s s' ev t sel. exact (backspace_key_keeps_choice dops sops conv s ev s' t sel). Qed.
Print Assumptions C04_backspace_key_keeps_choice.

Theorem C04_delete_key_keeps_choice : forall D SY (dops : dict_ops D) (sops : syl_ops SY) conv (s s' : shared D SY) ev t sel,
  kcode ev = kc_Del -> entering_next dops sops conv s ev = Ok (s', t) ->
  In sel (selections (inner (com s))) -> (ie sel <= cursor (com s) \/ cursor (com s) < ib sel) ->
  com s' = com s \/
  In (if Nat.leb (ib sel) (cursor (com s)) then sel else unshift_iv 1 sel) (selections (inner (com s'))).
Proof. intros D SY dops sops conv s s' ev t sel. exact (delete_key_keeps_choice dops sops conv s ev s' t sel). Qed.
Print Assumptions C04_delete_key_keeps_choice.

Theorem C04_typing_a_syllable_keeps_choice : forall D SY (dops : dict_ops D) (sops : syl_ops SY) (s s' : shared D SY) ev t sy sel,
  N.eqb (kcode ev) kc_Backspace = false -> (N.eqb (kcode ev) kc_Unknown && mcaps ev) = false -> N.eqb (kcode ev) kc_Esc = false ->
  (if o_fuzzy (opts s) then so_fuzzy_key_press sops (syl s) ev else so_key_press sops (syl s) ev) = (sy, KCommit) ->
  entering_syllable_next dops sops s ev = Ok (s', t) ->
  In sel (selections (inner (com s))) -> (ie sel <= cursor (com s) \/ cursor (com s) <= ib sel) ->
  com s' = com s \/
  In (if Nat.leb (cursor (com s)) (ib sel) then shift_iv 1 sel else sel) (selections (inner (com s'))).
Proof. intros D SY dops sops s s' ev t sy sel. exact (syllable_commit_key_keeps_choice dops sops s ev s' t sy sel). Qed.
Print Assumptions C04_typing_a_syllable_keeps_choice.
