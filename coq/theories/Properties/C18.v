(* C18 - English and full-width modes pass characters through faithfully.
   Property theorems only (proofs: Proofs/ModeProofs.v).  Tables: Gen/Editor_gen.v. *)
From Coq Require Import NArith List Bool Arith.
From LC Require Import Base.Lib Gen.Editor_gen Model.Composition Model.Conversion Model.Editor Model.EditorRun
     Proofs.CompositionProofs Proofs.EditorInv Proofs.EditorFrames Proofs.ModeProofs.
Import ListNotations.
Open Scope nat_scope.

(* full-width form: total on the 95 printable ASCII characters, every image a single
   non-ASCII character, distinct characters stay distinct (tables regenerated from
   src/conversion/symbol.rs) *)
Theorem C18_fullwidth_total : forall c, printable c = true ->
  exists f, full_width_symbol_input c = Some f /\ (127 < f)%N.
Proof. exact fw_total_spec. Qed.
Print Assumptions C18_fullwidth_total.

Theorem C18_fullwidth_injective : forall c d, printable c = true -> printable d = true ->
  full_width_symbol_input c = full_width_symbol_input d -> c = d.
Proof. exact fw_injective_spec. Qed.
Print Assumptions C18_fullwidth_injective.

(* English mode: every key carrying a character (the 48 character keys, with or without Shift;
   no Ctrl / CapsLock-event / NumLock; not the Shift-Space toggle) is handled by committing or
   inserting exactly its character (half-width) or its full-width image (full-width form) *)
Theorem C18_english_key : forall D SY (dops : dict_ops D) (sops : syl_ops SY) conv (s : shared D SY) ev,
  In (kcode ev) char_codes -> mctrl ev = false -> mcaps ev = false -> mnum ev = false ->
  (N.eqb (kcode ev) kc_Space && mshift ev && o_fw_toggle (opts s) = false) ->
  o_english (opts s) = true ->
  entering_next dops sops conv s ev =
    (if negb (o_fullwidth (opts s)) then commit_or_insert s (kunicode ev)
     else match full_width_symbol_input (kunicode ev) with
          | None => Ok (s, Spin BIgnore)
          | Some ch => commit_or_insert s ch
          end).
Proof. intros D SY dops sops conv. exact (english_key_goes_to_default dops sops conv). Qed.
Print Assumptions C18_english_key.

(* ... committed at once when the buffer is empty, otherwise inserted at the cursor; nothing else moves *)
Theorem C18_commit_or_insert : forall D SY (s : shared D SY) ch s' t, wf_ce (com s) -> commit_or_insert s ch = Ok (s', t) ->
  (ce_is_empty (com s) = true /\ t = Spin BCommit /\ commit_buf s' = [ch] /\ com s' = com s) \/
  (ce_is_empty (com s) = false /\ t = Spin BAbsorb /\
   symbols (inner (com s')) = insert_at (cursor (com s)) (SymChar ch) (symbols (inner (com s))) /\
   cursor (com s') = S (cursor (com s)) /\ commit_buf s' = commit_buf s) /\
  syl s' = syl s /\ dict s' = dict s /\ opts s' = opts s /\ nth s' = nth s.
Proof. intros D SY. exact commit_or_insert_spec. Qed.
Print Assumptions C18_commit_or_insert.

(* Caps Lock toggles the language mode and nothing else *)
Theorem C18_capslock : forall D SY (dops : dict_ops D) (sops : syl_ops SY) conv (s : shared D SY) ev,
  kcode ev = kc_Unknown -> mcaps ev = true ->
  entering_next dops sops conv s ev = Ok (switch_language s, Spin BAbsorb) /\
  com (switch_language s) = com s /\ syl (switch_language s) = syl s /\
  o_english (opts (switch_language s)) = negb (o_english (opts s)) /\
  o_fullwidth (opts (switch_language s)) = o_fullwidth (opts s).
Proof.
  intros D SY dops sops conv s ev Hk Hc. split; [now apply capslock_toggles_language|].
  destruct (switch_language_frame s) as (A & B & _ & _ & _ & C & E & _). auto.
Qed.
Print Assumptions C18_capslock.

(* Shift-Space toggles the character form exactly while the toggle key is enabled *)
Theorem C18_shift_space : forall D SY (dops : dict_ops D) (sops : syl_ops SY) conv (s : shared D SY) ev,
  kcode ev = kc_Space -> mshift ev = true -> mctrl ev = false -> mcaps ev = false ->
  o_fw_toggle (opts s) = true ->
  entering_next dops sops conv s ev = Ok (switch_form s, Spin BAbsorb) /\
  com (switch_form s) = com s /\ o_fullwidth (opts (switch_form s)) = negb (o_fullwidth (opts s)) /\
  o_english (opts (switch_form s)) = o_english (opts s).
Proof.
  intros D SY dops sops conv s ev Hk Hs Hc Hcaps Ht.
  rewrite (shift_space_toggles_form dops sops conv s ev Hk Hs Hc Hcaps), Ht.
  destruct (switch_form_frame s) as (A & _ & _ & _ & _ & B & C & _). auto.
Qed.
Print Assumptions C18_shift_space.

Example C18_nonvacuous : printable 65%N = true /\ full_width_symbol_input 65%N = Some 65313%N /\ length char_codes = 48.
Proof. repeat split. Qed.

(* ---- through the C API: the key event chewing_handle_Default builds ----
   For every keyboard that does not remap keys (seven of the eight of Model/Keyboard.v, over the regenerated key
   matrices: all but Dvorak-on-Qwerty, whose purpose is to turn the typed character into another) and every printable
   ASCII character ch = 32..126, `keyboard.map_ascii(ch)` is an event that meets the hypotheses of C18_english_key and
   carries exactly ch - so in English mode chewing_handle_Default(ch) commits or inserts ch itself (half-width) or its
   one full-width image.  Complete sweep: 7 x 95 events; Dvorak-on-Qwerty changes 66 of the 95 (the sweep says so). *)
From Coq Require Import ZArith Lia.
From LC Require Model.Keyboard.
From LC Require Import Gen.Keyboard_gen Model.EdInst Model.CapiKeys.

Definition handle_default_event_ok (kb ch : N) : bool :=
  match Keyboard.map_ascii kb ch with
  | Ok ev =>
    let e := of_key_event ev in
    existsb (N.eqb (kcode e)) char_codes && N.eqb (kunicode e) ch &&
    negb (mctrl e) && negb (mcaps e) && negb (mnum e) && negb (N.eqb (kcode e) kc_Space && mshift e)
  | _ => false
  end.

Theorem C18_handle_Default_builds_the_character_event : forall kb ch,
  (kb < n_keyboard)%N -> kb <> kb_DvorakOnQwerty -> (32 <= ch <= 126)%N ->
  exists ev, Keyboard.map_ascii kb ch = Ok ev /\
    In (kcode (of_key_event ev)) char_codes /\ kunicode (of_key_event ev) = ch /\
    mctrl (of_key_event ev) = false /\ mcaps (of_key_event ev) = false /\ mnum (of_key_event ev) = false /\
    (N.eqb (kcode (of_key_event ev)) kc_Space && mshift (of_key_event ev) = false).
Proof.
  intros kb ch Hkb Hne Hch.
  assert (Sweep : forallb (fun k => forallb (fun c => handle_default_event_ok (N.of_nat k) (N.of_nat c)) (seq 32 95)) [0; 1; 3; 4; 5; 6; 7]%nat = true)
    by (vm_compute; reflexivity).
  rewrite forallb_forall in Sweep.
  assert (Hk : In (N.to_nat kb) [0; 1; 3; 4; 5; 6; 7]%nat).
  { unfold n_keyboard, kb_DvorakOnQwerty in *. assert (kb = 0 \/ kb = 1 \/ kb = 3 \/ kb = 4 \/ kb = 5 \/ kb = 6 \/ kb = 7)%N as K by lia.
    destruct K as [->|[->|[->|[->|[->|[->| ->]]]]]]; cbn; tauto. }
  specialize (Sweep _ Hk). rewrite forallb_forall in Sweep.
  assert (Hc : In (N.to_nat ch) (seq 32 95)) by (apply in_seq; lia).
  specialize (Sweep _ Hc). rewrite !N2Nat.id in Sweep. unfold handle_default_event_ok in Sweep.
  destruct (Keyboard.map_ascii kb ch) as [ev| | |]; try discriminate. exists ev. split; [reflexivity|].
  repeat (apply andb_true_iff in Sweep as [Sweep ?]).
  repeat split.
  - apply existsb_exists in Sweep as (x & Hx & Ex). apply N.eqb_eq in Ex. now subst x.
  - now apply N.eqb_eq.
  - now apply negb_true_iff.
  - now apply negb_true_iff.
  - now apply negb_true_iff.
  - now apply negb_true_iff.
Qed.
Print Assumptions C18_handle_Default_builds_the_character_event.

(* ---- end to end through the C API: in English mode, editing state, empty pre-edit buffer, on every keyboard that
   does not remap keys, chewing_handle_Default(ch) for every printable ASCII ch commits exactly ch (half-width
   form) or exactly its one full-width image (full-width form): chewing_commit_Check = 1, the commit string is
   that one character, the buffer stays empty, the mode flags are as before ---- *)
From LC Require Import Model.EditorRun Model.CapiConfig Model.CapiRun Proofs.EditorFrames Proofs.CapiKeysProofs Proofs.CapiInv.

Theorem C18_handle_Default_commits_the_character_in_English_mode : forall conv ss0 (c : cctx) ch,
  CInv ss0 c -> cx_kb c <> kb_DvorakOnQwerty -> (32 <= ch <= 126)%N ->
  st (cx_ed c) = Entering -> chewing_buffer_Len c = 0%Z ->
  o_english (opts (sh (cx_ed c))) = true ->
  exists c', cstep conv c (CDefault (Z.of_N ch)) = Ok c' /\
    opts (sh (cx_ed c')) = opts (sh (cx_ed c)) /\ chewing_buffer_Len c' = 0%Z /\
    (if o_fullwidth (opts (sh (cx_ed c)))
     then exists fw, full_width_symbol_input ch = Some fw /\ c_commit_string c' = [fw] /\ chewing_commit_Check c' = 1%Z
     else c_commit_string c' = [ch] /\ chewing_commit_Check c' = 1%Z).
Proof.
  intros conv ss0 c ch Hc Hkb Hch Hst Hlen Hen. pose proof Hc as [[[W _ _ _] _] Hk].
  destruct (C18_handle_Default_builds_the_character_event (cx_kb c) ch Hk Hkb Hch) as (ev & Hev & Hcode & Huni & Hctrl & Hcaps & Hnum & Hsp).
  cbn [cstep]. unfold handle_default.
  assert (Hsel : is_selecting_b (cx_ed c) = false) by (unfold is_selecting_b; now rewrite Hst). rewrite Hsel.
  assert (Hu8 : u8_of (Z.of_N ch) = ch). { unfold u8_of. rewrite Z.mod_small by lia. apply N2Z.id. } rewrite Hu8, Hev.
  unfold press, ml_key, process_keyevent. rewrite Hst.
  set (s0 := set_notice (set_lifetime (sh (cx_ed c)) (lifetime (sh (cx_ed c)) + 1)%N) []).
  set (s1 := set_commit s0 []).
  assert (Ho : opts s1 = opts (sh (cx_ed c))) by reflexivity.
  assert (Hcom : com s1 = com (sh (cx_ed c))) by reflexivity.
  assert (He : ce_is_empty (com s1) = true).
  { rewrite Hcom. unfold chewing_buffer_Len, flag, c_flags in Hlen. cbn [List.nth] in Hlen. unfold ce_is_empty. apply Nat.eqb_eq. lia. }
  rewrite (C18_english_key _ _ mdf_ops lay_ops conv s1 (of_key_event ev) Hcode Hctrl Hcaps Hnum).
  2: { rewrite Hsp. reflexivity. }
  2: { now rewrite Ho. }
  rewrite Ho, Huni. unfold commit_or_insert. rewrite He.
  destruct (o_fullwidth (opts (sh (cx_ed c)))) eqn:Efw; cbn [negb].
  - (* full-width form: every printable ASCII character has an image *)
    destruct (C18_fullwidth_total ch) as (fw & Hfw & _).
    { unfold printable. apply andb_true_iff. split; apply N.leb_le; lia. }
    rewrite Hfw. cbn [obind fst snd apply_transition is_entering last set_last behavior_eqb andb].
    eexists. split; [reflexivity|]. cbn [fst cx_ed with_ed sh].
    unfold chewing_buffer_Len, chewing_commit_Check, c_commit_string, flag, c_flags. cbn [List.nth cx_ed with_ed sh].
    unfold flush_dirty. destruct (N.ltb 0 _); cbn; (split; [reflexivity|]; split; [exact Hlen|]; exists fw; auto).
  - cbn [obind fst snd apply_transition is_entering last set_last behavior_eqb andb].
    eexists. split; [reflexivity|]. cbn [fst cx_ed with_ed sh].
    unfold chewing_buffer_Len, chewing_commit_Check, c_commit_string, flag, c_flags. cbn [List.nth cx_ed with_ed sh].
    unfold flush_dirty. destruct (N.ltb 0 _); cbn; (split; [reflexivity|]; split; [exact Hlen|]; auto).
Qed.
Print Assumptions C18_handle_Default_commits_the_character_in_English_mode.

(* non-vacuity: a fresh context switched to English mode (and to the Hsu keyboard type) meets the hypotheses *)
From LC Require Import Proofs.EdInstProofs Proofs.EngineTiles.
Definition c18_history : list cop := [CConfigSetInt (Config.iopt_name Config.OLanguageMode) 0; CSetKBType 1]%Z.
Example C18_english_context_example :
  exists c, crun mf_conv (cx_init (mkMD [] [] []) [] ss_empty 0%N) c18_history = Ok c /\
            CInv ss_empty c /\ cx_kb c <> kb_DvorakOnQwerty /\ st (cx_ed c) = Entering /\ chewing_buffer_Len c = 0%Z /\
            o_english (opts (sh (cx_ed c))) = true.
Proof.
  assert (R : exists c, crun mf_conv (cx_init (mkMD [] [] []) [] ss_empty 0%N) c18_history = Ok c /\
              N.eqb (cx_kb c) kb_DvorakOnQwerty = false /\ st (cx_ed c) = Entering /\ chewing_buffer_Len c = 0%Z /\
              o_english (opts (sh (cx_ed c))) = true).
  { vm_compute. eexists. repeat split. }
  destruct R as (c & Hrun & Hkb & Hst & Hlen & Hen). exists c. split; [exact Hrun|]. split.
  - assert (Hg : ss_good ss_empty) by (split; intros name; [intros [] | intros idx []]).
    assert (Hf : ss_cursor ss_empty = None) by reflexivity.
    assert (Hd : md_fine (mkMD [] [] [])) by (split; constructor).
    assert (Hops : Forall cop_fine c18_history) by (repeat constructor).
    exact (crun_inv mf_conv mf_conv_tiles ss_empty Hg Hf c18_history _ c Hops (cx_init_inv ss_empty _ [] 0%N Hg Hf Hd) Hrun).
  - repeat split; try assumption. intros E. rewrite E in Hkb. discriminate.
Qed.

(* ... and with a non-empty buffer below the limit the character is inserted exactly at the cursor (half-width form):
   the cursor advances by one, nothing is committed, the key is absorbed *)
Theorem C18_handle_Default_inserts_the_character_in_English_mode : forall conv ss0 (c : cctx) ch c',
  CInv ss0 c -> cx_kb c <> kb_DvorakOnQwerty -> (32 <= ch <= 126)%N ->
  st (cx_ed c) = Entering ->
  (0 < chewing_buffer_Len c < Z.of_nat (o_threshold (opts (sh (cx_ed c)))))%Z ->
  o_english (opts (sh (cx_ed c))) = true -> o_fullwidth (opts (sh (cx_ed c))) = false ->
  cstep conv c (CDefault (Z.of_N ch)) = Ok c' ->
  symbols (inner (com (sh (cx_ed c')))) = insert_at (cursor (com (sh (cx_ed c)))) (SymChar ch) (symbols (inner (com (sh (cx_ed c))))) /\
  chewing_cursor_Current c' = (chewing_cursor_Current c + 1)%Z /\ chewing_buffer_Len c' = (chewing_buffer_Len c + 1)%Z /\
  chewing_commit_Check c' = 0%Z /\ chewing_keystroke_CheckAbsorb c' = 1%Z /\ opts (sh (cx_ed c')) = opts (sh (cx_ed c)).
Proof.
  intros conv ss0 c ch c' Hc Hkb Hch Hst Hlen Hen Hfw H. pose proof Hc as [[[W _ _ _] _] Hk].
  destruct (C18_handle_Default_builds_the_character_event (cx_kb c) ch Hk Hkb Hch) as (ev & Hev & Hcode & Huni & Hctrl & Hcaps & Hnum & Hsp).
  cbn [cstep] in H. unfold handle_default in H.
  assert (Hsel : is_selecting_b (cx_ed c) = false) by (unfold is_selecting_b; now rewrite Hst). rewrite Hsel in H.
  assert (Hu8 : u8_of (Z.of_N ch) = ch). { unfold u8_of. rewrite Z.mod_small by lia. apply N2Z.id. } rewrite Hu8, Hev in H.
  unfold press, ml_key, process_keyevent in H. rewrite Hst in H.
  set (s0 := set_notice (set_lifetime (sh (cx_ed c)) (lifetime (sh (cx_ed c)) + 1)%N) []) in *.
  set (s1 := set_commit s0 []) in *.
  assert (Ho : opts s1 = opts (sh (cx_ed c))) by reflexivity.
  assert (Hcom : com s1 = com (sh (cx_ed c))) by reflexivity.
  unfold chewing_buffer_Len, chewing_cursor_Current, chewing_commit_Check, chewing_keystroke_CheckAbsorb, flag, c_flags in *.
  cbn [List.nth] in *.
  assert (He : ce_is_empty (com s1) = false).
  { rewrite Hcom. unfold ce_is_empty. apply Nat.eqb_neq. lia. }
  rewrite (C18_english_key _ _ mdf_ops lay_ops conv s1 (of_key_event ev) Hcode Hctrl Hcaps Hnum) in H.
  2: { rewrite Hsp. reflexivity. }
  2: { now rewrite Ho. }
  rewrite Ho, Hfw, Huni in H. cbn [negb] in H.
  destruct (commit_or_insert s1 ch) as [[s2 t]| | |] eqn:Eci; cbn [obind] in H; try discriminate.
  assert (W1 : wf_ce (com s1)) by (rewrite Hcom; exact W).
  destruct (C18_commit_or_insert _ _ s1 ch s2 t W1 Eci) as [(He' & _)|((_ & -> & Hsym & Hcur & Hcb) & Hsy & Hd & Hop & Hnth)]; [congruence|].
  cbn [fst snd apply_transition is_entering last set_last behavior_eqb andb] in H.
  assert (Hlen2 : ce_len (com s2) = S (ce_len (com (sh (cx_ed c))))).
  { unfold ce_len, clen. rewrite Hsym, Hcom. apply length_insert_at. destruct W as [_ Wc]. unfold ce_len, clen in Wc. lia. }
  unfold try_auto_commit in H. cbn [com set_last opts] in H.
  assert (Hle : Nat.leb (ce_len (com s2)) (o_threshold (opts s2)) = true).
  { apply Nat.leb_le. rewrite Hlen2, Hop, Ho. lia. }
  rewrite Hle in H. cbn [obind] in H. inversion H; subst c'; clear H. cbn [fst cx_ed with_ed sh].
  assert (F : forall x : shared memdict lay, com (flush_dirty x) = com x /\ commit_buf (flush_dirty x) = commit_buf x /\
                                            last (flush_dirty x) = last x /\ opts (flush_dirty x) = opts x).
  { intros x. unfold flush_dirty. destruct (N.ltb 0 (dirty x)); cbn; auto. }
  destruct (F (set_last s2 BAbsorb)) as (F1 & F2 & F3 & F4). rewrite F1, F2, F3, F4. cbn [com set_last commit_buf last opts].
  rewrite Hsym, Hcur, Hcb, Hcom, Hop, Ho.
  replace (ce_len (com s2)) with (S (ce_len (com (sh (cx_ed c))))) by (symmetry; exact Hlen2).
  cbn. repeat split; try reflexivity; lia.
Qed.
Print Assumptions C18_handle_Default_inserts_the_character_in_English_mode.
