(* C13 - Syllable code, components and Bopomofo spelling convert losslessly.
   Property theorems only; each is closed by a lemma from Proofs/ and followed by
   Print Assumptions.  Tables: Gen/Bopomofo_gen.v (regenerated from the source). *)
From Coq Require Import NArith List Bool.
From LC Require Import Base.Lib Gen.Bopomofo_gen Model.Syllable Model.SyllableSearch Proofs.SyllableProofs.
Import ListNotations.
Open Scope N_scope.

(* Every syllable composed from an optional initial, medial, rime and tone (all
   (|INITIAL_MAP|+1) x (|MEDIAL_MAP|+1) x (|RIME_MAP|+1) x (|TONE_MAP|+1) tuples)
   is built without error and its code is the documented bit packing. *)
Theorem C13_compose_code : forall ci cm cr ct,
  in_range ci cm cr ct ->
  compose (sym_i ci) (sym_m cm) (sym_r cr) (sym_t ct) = inl (pack ci cm cr ct).
Proof. exact compose_pack. Qed.
Print Assumptions C13_compose_code.

(* ... the code is non-zero, 16-bit, decodes to the same components, re-spells to
   exactly the composing symbols, every symbol has a character, the spelling
   parses back to the same code, and u16 -> Syllable accepts it unchanged. *)
Theorem C13_roundtrip : forall ci cm cr ct,
  in_range ci cm cr ct -> decoded (pack ci cm cr ct) ci cm cr ct.
Proof. exact pack_decoded. Qed.
Print Assumptions C13_roundtrip.

(* unique code *)
Theorem C13_code_injective : forall ci cm cr ct ci' cm' cr' ct',
  in_range ci cm cr ct -> in_range ci' cm' cr' ct' ->
  pack ci cm cr ct = pack ci' cm' cr' ct' ->
  ci = ci' /\ cm = cm' /\ cr = cr' /\ ct = ct'.
Proof. exact pack_inj. Qed.
Print Assumptions C13_code_injective.

(* unique spelling *)
Theorem C13_spelling_injective : forall ci cm cr ct ci' cm' cr' ct',
  in_range ci cm cr ct -> in_range ci' cm' cr' ct' ->
  spell (pack ci cm cr ct) = spell (pack ci' cm' cr' ct') ->
  ci = ci' /\ cm = cm' /\ cr = cr' /\ ct = ct'.
Proof. exact spell_pack_inj. Qed.
Print Assumptions C13_spelling_injective.

(* the symbol tables are mutually consistent: char <-> symbol round trip, index()
   equals the builder's discriminant arithmetic, the four index maps invert
   index(), field widths fit *)
Theorem C13_tables : tables_wf_b = true.
Proof. exact tables_wf. Qed.
Print Assumptions C13_tables.

(* Every symbol list the parser accepts - of ANY length, over all Bopomofo
   symbols - is the canonical spelling of the syllable it returns: components out
   of order or repeated are rejected, and spelling -> syllable -> spelling is the
   identity. *)
Theorem C13_parse_canonical_syms : forall l v,
  Forall (fun b => b < n_bopomofo) l -> parse_syms l = inl v -> l = spell_syms v.
Proof. exact parse_syms_canonical. Qed.
Print Assumptions C13_parse_canonical_syms.

(* the same for strings of arbitrary Unicode scalar values *)
Theorem C13_parse_canonical_chars : forall l v, parse_chars l = inl v -> l = spell v.
Proof. exact parse_chars_canonical. Qed.
Print Assumptions C13_parse_canonical_chars.

(* u16 -> Syllable accepts exactly the non-zero codes and is the identity *)
Theorem C13_try_from : forall x,
  (try_from_u16 x = None <-> x = 0) /\ (forall v, try_from_u16 x = Some v -> v = x).
Proof.
  intros x. unfold try_from_u16. destruct (N.eqb_spec x 0) as [->|Hne]; split.
  - tauto.
  - discriminate.
  - split; [discriminate | contradiction].
  - intros v H; now inversion H.
Qed.
Print Assumptions C13_try_from.

(* prefix relation: for every composable s and non-empty composable p,
   s.starts_with(p) <-> s and p agree on every component up to and including the
   last one present in p *)
Theorem C13_starts_with : forall ci cm cr ct pi pm pr pt,
  in_range ci cm cr ct -> in_range pi pm pr pt ->
  all_zero pi pm pr pt = false ->
  starts_with (pack ci cm cr ct) (pack pi pm pr pt) = agree_upto ci cm cr ct pi pm pr pt.
Proof. exact starts_with_pack. Qed.
Print Assumptions C13_starts_with.

(* update / remove_* / pop agree with the accessors *)
Theorem C13_update : forall ci cm cr ct b,
  in_range ci cm cr ct -> b < n_bopomofo -> chk_update (pack ci cm cr ct) b = true.
Proof. exact update_spec. Qed.
Print Assumptions C13_update.

Theorem C13_remove : forall v, 0 < v < 65536 -> chk_remove v = true.
Proof. exact remove_spec. Qed.
Print Assumptions C13_remove.

Theorem C13_pop : forall ci cm cr ct, in_range ci cm cr ct -> chk_pop ci cm cr ct = true.
Proof. exact pop_spec. Qed.
Print Assumptions C13_pop.

(* non-vacuity: the domain is the full component product and it is inhabited by
   non-trivial syllables *)
Example C13_domain_size :
  22 * 4 * 14 * 5 <= (n_init + 1) * (n_med + 1) * (n_rime + 1) * (n_tone + 1).
Proof. vm_compute. intro H; discriminate H. Qed.
Example C13_nonvacuous : in_range 14 2 11 4 /\ pack 14 2 11 4 = 7516 /\
  parse_syms [bX; bI; bEN; bTONE4] = inl 7380.
Proof. vm_compute. repeat split; try (intro H; discriminate H); reflexivity. Qed.
