(* C05 - Editing keys act exactly at the cursor and the buffer stays bounded.
   Property theorems only.  Model: Model/{Composition,Editor,EditorRun}.v, tied to
   src/editor/{mod,composition_editor}.rs and src/conversion/mod.rs by the editor
   correspondence (vharness `ed` vs the extracted model). *)
From Coq Require Import NArith List Bool Arith.
From LC Require Import Base.Lib Gen.Editor_gen Model.Composition Model.Conversion Model.Editor Model.EditorRun Model.EdInst
     Proofs.CompositionProofs Proofs.EditorInv Proofs.EditorFrames Proofs.EdInstProofs Proofs.StackInv.
From Coq Require Import ZArith.
From LC Require Import Gen.Keyboard_gen Model.CapiKeys Model.CapiConfig Model.CapiRun Proofs.CapiKeysProofs Proofs.CapiInv Proofs.EngineTiles.
Import ListNotations.
Open Scope nat_scope.

Section C05.
Context {D SY : Type} (dops : dict_ops D) (sops : syl_ops SY) (conv : conv_fn D).
(* "well-formed dictionary": no entry for the empty syllable sequence, preserved by the updates
   the editor performs (EdInstProofs shows the instance used in the correspondence satisfies it) *)
Variable dict_ok : D -> Prop.
Hypothesis ok_lookup : forall d f, dict_ok d -> do_lookup dops d f [] = [].
Hypothesis ok_add : forall d k t f, dict_ok d -> length t <= length k -> (f <= 100)%N -> dict_ok (fst (do_add dops d k t f)).
Hypothesis ok_update : forall d k t f u tm, dict_ok d -> length t = length k -> k <> [] -> (u <= MAX_USER_FREQ)%N -> dict_ok (do_update dops d k t f u tm).
Hypothesis ok_remove : forall d k t, dict_ok d -> dict_ok (do_remove dops d k t).
(* the layout's table of alternative syllables does not depend on the keys typed so far *)
Hypothesis alt_stable : forall x c, so_alt sops (so_clear sops x) c = so_alt sops x c.
(* the symbol tables the editor was created with (they never change): a category without a table has a
   name, table indices lie inside the tables, no sub-table is open initially *)
Variable ss0 : symbol_sel.
Hypothesis ss0_good : ss_good ss0.
Hypothesis ss0_fresh : ss_cursor ss0 = None.

(* The cursor always lies between 0 and the buffer length (and the composition stays
   well-formed: |gaps| = |symbols|, selections non-empty, in range, pairwise disjoint) after
   EVERY history of key events and public operations, from every layout, dictionary and
   conversion oracle. *)
Theorem C05_cursor_in_range_every_history : forall ops (e e' : editor D SY),
  Forall op_ok ops -> Inv dops sops dict_ok ss0 e -> run dops sops conv e ops = Ok e' ->
  cursor (com (sh e')) <= ce_len (com (sh e')) /\ wf_comp (inner (com (sh e'))).
Proof.
  intros ops e e' Hops I H.
  pose proof (run_inv dops sops conv dict_ok ok_lookup ok_add ok_update ok_remove alt_stable ss0 ss0_good ss0_fresh ops e e' Hops I H) as [[[W C] _] _].
  split; assumption.
Qed.

Theorem C05_initial_state : forall d s0 ab t0, dict_ok d -> Inv dops sops dict_ok ss0 (init_editor (SY := SY) d s0 ab ss0 t0).
Proof. intros. now apply init_inv. Qed.

End C05.
Print Assumptions C05_cursor_in_range_every_history.
Print Assumptions C05_initial_state.

(* a completed syllable or symbol is inserted exactly at the cursor; the cursor advances by one *)
Theorem C05_insert_at_cursor : forall e x e', wf_ce e -> ce_insert e x = Ok e' ->
  wf_ce e' /\ symbols (inner e') = insert_at (cursor e) x (symbols (inner e)) /\
  cursor e' = S (cursor e) /\ cursor_stack e' = cursor_stack e.
Proof. exact ce_insert_spec. Qed.
Print Assumptions C05_insert_at_cursor.

(* Backspace removes the symbol before the cursor *)
Theorem C05_backspace : forall e e', wf_ce e -> ce_remove_before_cursor e = Ok e' ->
  wf_ce e' /\
  ((cursor e = 0 /\ e' = e) \/
   (0 < cursor e /\ symbols (inner e') = remove_at (cursor e - 1) (symbols (inner e)) /\ cursor e' = cursor e - 1)) /\
  cursor_stack e' = cursor_stack e.
Proof. exact ce_remove_before_spec. Qed.
Print Assumptions C05_backspace.

(* Delete removes the symbol at the cursor *)
Theorem C05_delete : forall e e', wf_ce e -> ce_remove_after_cursor e = Ok e' ->
  wf_ce e' /\ symbols (inner e') = remove_at (cursor e) (symbols (inner e)) /\ cursor e' = cursor e /\
  cursor_stack e' = cursor_stack e.
Proof. exact ce_remove_after_spec. Qed.
Print Assumptions C05_delete.

(* insert_at / remove_at move no other symbol *)
Theorem C05_insert_moves_nothing_else : forall (x : symbol) n l i, n <= length l ->
  (i < n -> nth_error (insert_at n x l) i = nth_error l i) /\
  nth_error (insert_at n x l) n = Some x /\
  (n <= i -> nth_error (insert_at n x l) (S i) = nth_error l i).
Proof.
  intros x n l i Hn. split; [intros; now apply nth_error_insert_at_lt|].
  split; [now apply nth_error_insert_at_eq | intros; now apply nth_error_insert_at_gt].
Qed.
Print Assumptions C05_insert_moves_nothing_else.

Theorem C05_remove_moves_nothing_else : forall n (l : list symbol) i,
  (i < n -> nth_error (remove_at n l) i = nth_error l i) /\
  (n <= i -> nth_error (remove_at n l) i = nth_error l (S i)).
Proof. intros n l i. split; intros; [now apply nth_error_remove_at_lt | now apply nth_error_remove_at_ge]. Qed.
Print Assumptions C05_remove_moves_nothing_else.

(* Left / Right / Home / End change only the cursor *)
Theorem C05_cursor_keys : forall D SY (dops : dict_ops D) (sops : syl_ops SY) conv (s : shared D SY) ev s' t,
  In (kcode ev) [kc_Left; kc_Right; kc_Home; kc_End] -> mshift ev = false ->
  entering_next dops sops conv s ev = Ok (s', t) ->
  inner (com s') = inner (com s) /\ cursor_stack (com s') = cursor_stack (com s) /\
  syl s' = syl s /\ dict s' = dict s /\ opts s' = opts s /\ nth s' = nth s /\ commit_buf s' = commit_buf s /\
  (cursor (com s') = cursor (com s) - 1 \/ cursor (com s') = Nat.min (cursor (com s) + 1) (ce_len (com s)) \/
   cursor (com s') = 0 \/ cursor (com s') = ce_len (com s) \/ cursor (com s') = cursor (com s)).
Proof. intros D SY dops sops conv. exact (cursor_keys_move_only_cursor dops sops conv). Qed.
Print Assumptions C05_cursor_keys.

(* after every key absorbed in editing (Entering) state the buffer is within the limit *)
Theorem C05_bounded_after_absorb : forall D SY (dops : dict_ops D) (sops : syl_ops SY) conv (e : editor D SY) ev e',
  process_keyevent dops sops conv e ev = Ok (e', BAbsorb) -> st e' = Entering ->
  ce_len (com (sh e')) <= o_threshold (opts (sh e')).
Proof. intros D SY dops sops conv. exact (absorbed_in_entering_is_bounded dops sops conv). Qed.
Print Assumptions C05_bounded_after_absorb.

(* ... and when the limit is exceeded auto-commit brings it back within the limit *)
Theorem C05_auto_commit_restores_bound : forall D SY conv (s s' : shared D SY),
  wf_ce (com s) ->
  contiguous 0 (ce_len (com s)) (conversion conv s) = true -> one_char_each (conversion conv s) ->
  try_auto_commit conv s = Ok s' ->
  ce_len (com s') <= o_threshold (opts s').
Proof.
  intros D SY conv s s' W Hc H1 H.
  destruct (auto_commit_accounts conv s s' W Hc H1 H) as [[Hle ->]|(j & _ & _ & _ & Hb & _)]; assumption.
Qed.
Print Assumptions C05_auto_commit_restores_bound.

(* non-vacuity: the hypotheses are met by the instance the correspondence check runs *)
Example C05_nonvacuous :
  (forall d f, md_ok d -> do_lookup md_ops d f [] = []) /\
  md_ok (mkMD [([2560%N], [20007%N], 2004%N, 0%N)] [] []).
Proof. split; [exact md_ok_lookup | split; repeat constructor; discriminate]. Qed.

(* ---- the saved cursors never leak (Proofs/StackInv.v) ----
   CompositionEditor keeps a stack of saved cursors: one is pushed when a phrase / special-symbol list opens and
   popped when a list closes; the symbol table's list (backquote, Ctrl-0 / Ctrl-1) does not push but pops.  After
   EVERY history of key events and public operations from a fresh editor: outside the Selecting state the stack is
   empty, under a list that inserts (the symbol table) it is empty, under a list that replaces it holds at most one
   cursor.  A leaked cursor would be restored by the next unmatched pop and the cursor would jump (the pinned reset
   defect of C17, seeded changes C01-A, C05-B, C05-D, C17-D). *)
Theorem C05_saved_cursors_never_leak : forall D SY (dops : dict_ops D) (sops : syl_ops SY) conv d s0 ab ss t0 ops (e' : editor D SY),
  run dops sops conv (init_editor d s0 ab ss t0) ops = Ok e' ->
  match st e' with
  | Selecting _ false _ => length (cursor_stack (com (sh e'))) <= 1
  | _ => cursor_stack (com (sh e')) = []
  end.
Proof.
  intros D SY dops sops conv d s0 ab ss t0 ops e' H.
  exact (run_SI dops sops conv ops _ e' (init_SI d s0 ab ss t0) H).
Qed.
Print Assumptions C05_saved_cursors_never_leak.

(* hence: a symbol chosen from the symbol table lands exactly at the cursor and the cursor ends right after it - in
   every state a history can reach *)
Theorem C05_symbol_table_choice_lands_at_the_cursor : forall D SY (dops : dict_ops D) (sops : syl_ops SY) conv d s0 ab ss t0 ops
    (e : editor D SY) pg y n s' pg' sel',
  run dops sops conv (init_editor d s0 ab ss t0) ops = Ok e -> wf_ce (com (sh e)) ->
  st e = Selecting pg true (SelSymbol y) ->
  selecting_select_offset dops sops (sh e) pg true (SelSymbol y) n = Ok (s', ToState Entering, pg', sel') ->
  exists sym, symbols (inner (com s')) = insert_at (cursor (com (sh e))) sym (symbols (inner (com (sh e)))) /\
              cursor (com s') = S (cursor (com (sh e))).
Proof.
  intros D SY dops sops conv d s0 ab ss t0 ops e pg y n s' pg' sel' Hrun W Hst H.
  eapply (symbol_table_choice_at_cursor dops sops); [|exact W | exact Hst | exact H | reflexivity].
  exact (run_SI dops sops conv ops _ e (init_SI d s0 ab ss t0) Hrun).
Qed.
Print Assumptions C05_symbol_table_choice_lands_at_the_cursor.

(* ---- through the C API (Model/CapiKeys.v, CapiConfig.v, CapiRun.v: the key-entry, candidate, configuration and
   user-phrase calls over the editor with all layouts and the modelled engines, system dictionary = a trie file) ----
   After EVERY sequence of C calls with ANY int arguments on a fresh context:
   0 <= chewing_cursor_Current <= chewing_buffer_Len. *)
Theorem C05_cursor_Current_within_buffer_Len_after_any_C_calls : forall ss d ab t0 ops c',
  ss_good ss -> ss_cursor ss = None -> md_fine d -> Forall cop_fine ops ->
  crun mf_conv (cx_init d ab ss t0) ops = Ok c' ->
  (0 <= chewing_cursor_Current c' <= chewing_buffer_Len c')%Z.
Proof.
  intros ss d ab t0 ops c' Hg Hf Hd Hops H.
  apply (cinv_cursor ss). exact (crun_inv mf_conv mf_conv_tiles ss Hg Hf ops (cx_init d ab ss t0) c' Hops (cx_init_inv ss d ab t0 Hg Hf Hd) H).
Qed.
Print Assumptions C05_cursor_Current_within_buffer_Len_after_any_C_calls.

(* non-vacuity: Hsu by number, `a` Space (the syllable c), `a` Space again, Left: cursor 1 of 2 *)
Definition c05_dict : memdict := mkMD (bt_insert ([10240], [27425], 10, 0) [])%N [] [].
Definition c05_history : list cop := [CSetKBType 1; CDefault 97; CHandle kcSpace 0; CDefault 97; CHandle kcSpace 0; CHandle kcLeft 0]%Z.
Example C05_c_history_example :
  md_fine c05_dict /\ Forall cop_fine c05_history /\
  exists c, crun mf_conv (cx_init c05_dict [] ss_empty 0%N) c05_history = Ok c /\ chewing_cursor_Current c = 1%Z /\ chewing_buffer_Len c = 2%Z.
Proof.
  split; [split; vm_compute; repeat constructor; intro; discriminate|]. split.
  - repeat (apply Forall_cons; [first [exact I | split; vm_compute; reflexivity]|]). apply Forall_nil.
  - vm_compute. eexists. repeat split.
Qed.

(* ---- at the level of the keys (Proofs/EditKeys.v): in the editing state the Backspace key removes the symbol before
   the cursor, the Delete key the symbol at it, and the key that completes a syllable inserts it exactly at the
   cursor and advances the cursor by one - for every layout, dictionary and conversion - while phonetic buffer,
   dictionary, options, engine, alternative index, commit string and notice stay as they were ---- *)
From LC Require Import Proofs.EditKeys.

Theorem C05_backspace_key : forall D SY (dops : dict_ops D) (sops : syl_ops SY) conv (s s' : shared D SY) ev t,
  wf_ce (com s) -> kcode ev = kc_Backspace -> entering_next dops sops conv s ev = Ok (s', t) ->
  (ce_is_empty (com s) = true /\ s' = s /\ t = Spin BIgnore) \/
  (ce_is_empty (com s) = false /\ t = Spin BAbsorb /\ wf_ce (com s') /\ rest_eq s' s /\
   cursor_stack (com s') = cursor_stack (com s) /\
   ((cursor (com s) = 0 /\ com s' = com s) \/
    (0 < cursor (com s) /\ symbols (inner (com s')) = remove_at (cursor (com s) - 1) (symbols (inner (com s))) /\
     cursor (com s') = cursor (com s) - 1))).
Proof. intros D SY dops sops conv s s' ev t. exact (backspace_key dops sops conv s ev s' t). Qed.
Print Assumptions C05_backspace_key.

Theorem C05_delete_key : forall D SY (dops : dict_ops D) (sops : syl_ops SY) conv (s s' : shared D SY) ev t,
  wf_ce (com s) -> kcode ev = kc_Del -> entering_next dops sops conv s ev = Ok (s', t) ->
  (ce_is_end (com s) = true /\ s' = s /\ t = Spin BIgnore) \/
  (ce_is_end (com s) = false /\ t = Spin BAbsorb /\ wf_ce (com s') /\ rest_eq s' s /\
   cursor_stack (com s') = cursor_stack (com s) /\
   symbols (inner (com s')) = remove_at (cursor (com s)) (symbols (inner (com s))) /\
   cursor (com s') = cursor (com s)).
Proof. intros D SY dops sops conv s s' ev t. exact (delete_key dops sops conv s ev s' t). Qed.
Print Assumptions C05_delete_key.

Theorem C05_completed_syllable_goes_in_at_the_cursor : forall D SY (dops : dict_ops D) (sops : syl_ops SY) (s s' : shared D SY) ev t sy,
  wf_ce (com s) ->
  N.eqb (kcode ev) kc_Backspace = false -> (N.eqb (kcode ev) kc_Unknown && mcaps ev) = false -> N.eqb (kcode ev) kc_Esc = false ->
  (if o_fuzzy (opts s) then so_fuzzy_key_press sops (syl s) ev else so_key_press sops (syl s) ev) = (sy, KCommit) ->
  entering_syllable_next dops sops s ev = Ok (s', t) ->
  (com s' = com s /\ t = ToState Entering) \/
  (symbols (inner (com s')) = insert_at (cursor (com s)) (SymSyl (so_read sops sy)) (symbols (inner (com s))) /\
   cursor (com s') = S (cursor (com s)) /\
   (cursor_stack (com s') = cursor_stack (com s) \/
    (o_engine (opts s) = EngSimple /\ cursor_stack (com s') = S (cursor (com s)) :: cursor_stack (com s))) /\
   dict s' = dict s /\ opts s' = opts s /\ commit_buf s' = commit_buf s).
Proof. intros D SY dops sops s s' ev t sy. exact (syllable_commit_key dops sops s ev s' t sy). Qed.
Print Assumptions C05_completed_syllable_goes_in_at_the_cursor.

(* through the C API: a key-entry call (any chewing_handle_* function, Default / CtrlNum / Numlock with any int) that is
   answered with chewing_keystroke_CheckAbsorb = 1 and leaves the editor in the editing state leaves the buffer within
   the configured limit (chewing_get_maxChiSymbolLen / chewing.auto_commit_threshold) *)
From LC Require Import Proofs.CapiEnter.
Theorem C05_absorbed_key_call_leaves_the_buffer_within_the_limit : forall conv (c : cctx) o c',
  key_call o -> cstep conv c o = Ok c' ->
  c' = c \/
  (chewing_keystroke_CheckAbsorb c' = 1%Z -> st (cx_ed c') = Entering ->
   (chewing_buffer_Len c' <= Z.of_nat (o_threshold (opts (sh (cx_ed c')))))%Z).
Proof. exact c_absorbed_key_call_is_bounded. Qed.
Print Assumptions C05_absorbed_key_call_leaves_the_buffer_within_the_limit.
