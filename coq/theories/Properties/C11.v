(* C11 - A trie dictionary file returns exactly what was put in, in the
   documented order.  Property theorems only; each is closed by a lemma from
   Proofs/ and followed by Print Assumptions.

   Model: Model/Der.v (the DER subset as the `der` crate encodes / decodes it),
   Model/TrieCodec.v (TrieBuilder::{insert,write}, Trie::{new,lookup,entries}).
   Phrase strings are UTF-8 byte lists (utf8_valid = Rust's String invariant). *)
From Coq Require Import NArith List Bool Permutation.
From LC Require Import Base.Lib Model.Utf8 Model.Der Model.Syllable Model.TrieCodec
     Proofs.DerProofs Proofs.TrieFileProofs Proofs.TrieShape Proofs.TrieValidate Proofs.TrieTotal Proofs.TrieWitness.
Import ListNotations.
Open Scope N_scope.

(* ------------------------------------------------------------------ *)
(* DER round trips: decode_x (encode_x v ++ rest) = Some (v, rest)      *)

Theorem C11_der_length_roundtrip : forall n lb rest,
  enc_len n = Some lb -> dec_len (lb ++ rest) = Some (n, rest).
Proof. exact dec_enc_len. Qed.
Print Assumptions C11_der_length_roundtrip.

(* every length up to Length::MAX has an encoding (of at most 5 octets) *)
Theorem C11_der_length_defined : forall n,
  n <= DER_MAX -> exists lb, enc_len n = Some lb /\ (length lb <= 5)%nat.
Proof. exact enc_len_some. Qed.
Print Assumptions C11_der_length_defined.

Theorem C11_der_utf8string_roundtrip : forall s b rest,
  utf8_valid s = true -> enc_utf8string s = Some b -> dec_utf8string (b ++ rest) = Some (s, rest).
Proof. exact dec_enc_utf8string. Qed.
Print Assumptions C11_der_utf8string_roundtrip.

Theorem C11_der_octet_string_roundtrip : forall s b rest,
  enc_octets s = Some b -> dec_octets (b ++ rest) = Some (s, rest).
Proof. exact dec_enc_octets. Qed.
Print Assumptions C11_der_octet_string_roundtrip.

(* INTEGER for an unsigned type of w bytes (u8: w=1, u32: w=4, u64: w=8): minimal
   content octets, leading zero iff the top bit is set *)
Theorem C11_der_uint_roundtrip : forall w v b rest,
  (0 < w)%nat -> v < 256 ^ N.of_nat w ->
  enc_uint w v = Some b -> dec_uint w (b ++ rest) = Some (v, rest).
Proof. exact dec_enc_uint. Qed.
Print Assumptions C11_der_uint_roundtrip.

Theorem C11_der_uint_defined : forall tag w v, (0 < w <= 100)%nat -> exists b, enc_uint_tagged tag w v = Some b.
Proof. exact enc_uint_tagged_some. Qed.
Print Assumptions C11_der_uint_defined.

(* [0] IMPLICIT Uint64 OPTIONAL (the lastUsed field) *)
Theorem C11_der_ctx0_roundtrip : forall v b rest,
  v < 2 ^ 64 -> enc_ctx0_u64_opt (Some v) = Some b -> dec_ctx0_u64_opt (b ++ rest) = Some (Some v, rest).
Proof. exact dec_enc_ctx0_some. Qed.
Print Assumptions C11_der_ctx0_roundtrip.

Theorem C11_der_sequence_roundtrip : forall (A : Type) (inner : list N -> option (A * list N)) body a b rest,
  inner body = Some (a, []) -> enc_sequence body = Some b -> dec_sequence inner (b ++ rest) = Some (a, rest).
Proof. exact @dec_enc_sequence. Qed.
Print Assumptions C11_der_sequence_roundtrip.

(* phrase record: string, frequency 0..2^32-1, optional timestamp 0..2^64-1 *)
Theorem C11_phrase_roundtrip : forall p b rest,
  phrase_ok p -> enc_phrase p = Some b -> dec_phrase (b ++ rest) = Some (p, rest).
Proof. exact dec_enc_phrase. Qed.
Print Assumptions C11_phrase_roundtrip.

(* the phrase sequence of one leaf, as PhrasesIter reads it *)
Theorem C11_leaf_phrases_roundtrip : forall ps b,
  Forall phrase_ok ps -> enc_phrases ps = Some b -> phrases_of_slice b = ps.
Proof. exact phrases_of_slice_enc. Qed.
Print Assumptions C11_leaf_phrases_roundtrip.

Theorem C11_metadata_roundtrip : forall i b rest,
  info_ok i -> enc_info i = Some b -> dec_info (b ++ rest) = Some (i, rest).
Proof. exact dec_enc_info. Qed.
Print Assumptions C11_metadata_roundtrip.

(* the whole file: header, version, metadata, index bytes, phrase bytes *)
Theorem C11_file_roundtrip : forall i idx data b,
  info_ok i -> enc_file i idx data = Some b -> len_N b <= DER_MAX -> dec_file b = Some (i, idx, data).
Proof. exact dec_enc_file. Qed.
Print Assumptions C11_file_roundtrip.

(* index records <-> bytes *)
Theorem C11_records_roundtrip : forall rs, Forall rec_ok rs -> parse_recs (enc_recs rs) = rs.
Proof. exact parse_enc_recs. Qed.
Print Assumptions C11_records_roundtrip.
