(* C11 - A trie dictionary file returns exactly what was put in, in the
   documented order.  Property theorems only; each is closed by a lemma from
   Proofs/ and followed by Print Assumptions.

   Model: Model/Der.v (the DER subset as the `der` crate encodes / decodes it),
   Model/TrieCodec.v (TrieBuilder::{insert,write}, Trie::{new,lookup,entries}).
   Phrase strings are UTF-8 byte lists (utf8_valid = Rust's String invariant). *)
From Coq Require Import NArith List Bool Permutation.
From LC Require Import Base.Lib Model.Utf8 Model.Der Model.Syllable Model.TrieCodec
     Proofs.DerProofs Proofs.TrieFileProofs Proofs.TrieShape Proofs.TrieValidate Proofs.TrieTotal Proofs.TrieWitness
     Proofs.TrieLayout Proofs.TrieRoundtrip Proofs.TrieEntries.
From Coq Require Import Sorted.
Import ListNotations.
Open Scope N_scope.

(* ------------------------------------------------------------------ *)
(* DER round trips: decode_x (encode_x v ++ rest) = Some (v, rest)      *)

Theorem C11_der_length_roundtrip : forall n lb rest,
  enc_len n = Some lb -> dec_len (lb ++ rest) = Some (n, rest).
Proof. exact dec_enc_len. Qed.
Print Assumptions C11_der_length_roundtrip.

(* every length up to Length::MAX has an encoding (of at most 5 octets) *)
Theorem C11_der_length_defined : forall n,
  n <= DER_MAX -> exists lb, enc_len n = Some lb /\ (length lb <= 5)%nat.
Proof. exact enc_len_some. Qed.
Print Assumptions C11_der_length_defined.

Theorem C11_der_utf8string_roundtrip : forall s b rest,
  utf8_valid s = true -> enc_utf8string s = Some b -> dec_utf8string (b ++ rest) = Some (s, rest).
Proof. exact dec_enc_utf8string. Qed.
Print Assumptions C11_der_utf8string_roundtrip.

Theorem C11_der_octet_string_roundtrip : forall s b rest,
  enc_octets s = Some b -> dec_octets (b ++ rest) = Some (s, rest).
Proof. exact dec_enc_octets. Qed.
Print Assumptions C11_der_octet_string_roundtrip.

(* INTEGER for an unsigned type of w bytes (u8: w=1, u32: w=4, u64: w=8): minimal
   content octets, leading zero iff the top bit is set *)
Theorem C11_der_uint_roundtrip : forall w v b rest,
  (0 < w)%nat -> v < 256 ^ N.of_nat w ->
  enc_uint w v = Some b -> dec_uint w (b ++ rest) = Some (v, rest).
Proof. exact dec_enc_uint. Qed.
Print Assumptions C11_der_uint_roundtrip.

Theorem C11_der_uint_defined : forall tag w v, (0 < w <= 100)%nat -> exists b, enc_uint_tagged tag w v = Some b.
Proof. exact enc_uint_tagged_some. Qed.
Print Assumptions C11_der_uint_defined.

(* [0] IMPLICIT Uint64 OPTIONAL (the lastUsed field) *)
Theorem C11_der_ctx0_roundtrip : forall v b rest,
  v < 2 ^ 64 -> enc_ctx0_u64_opt (Some v) = Some b -> dec_ctx0_u64_opt (b ++ rest) = Some (Some v, rest).
Proof. exact dec_enc_ctx0_some. Qed.
Print Assumptions C11_der_ctx0_roundtrip.

Theorem C11_der_sequence_roundtrip : forall (A : Type) (inner : list N -> option (A * list N)) body a b rest,
  inner body = Some (a, []) -> enc_sequence body = Some b -> dec_sequence inner (b ++ rest) = Some (a, rest).
Proof. exact @dec_enc_sequence. Qed.
Print Assumptions C11_der_sequence_roundtrip.

(* phrase record: string, frequency 0..2^32-1, optional timestamp 0..2^64-1 *)
Theorem C11_phrase_roundtrip : forall p b rest,
  phrase_ok p -> enc_phrase p = Some b -> dec_phrase (b ++ rest) = Some (p, rest).
Proof. exact dec_enc_phrase. Qed.
Print Assumptions C11_phrase_roundtrip.

(* the phrase sequence of one leaf, as PhrasesIter reads it *)
Theorem C11_leaf_phrases_roundtrip : forall ps b,
  Forall phrase_ok ps -> enc_phrases ps = Some b -> phrases_of_slice b = ps.
Proof. exact phrases_of_slice_enc. Qed.
Print Assumptions C11_leaf_phrases_roundtrip.

Theorem C11_metadata_roundtrip : forall i b rest,
  info_ok i -> enc_info i = Some b -> dec_info (b ++ rest) = Some (i, rest).
Proof. exact dec_enc_info. Qed.
Print Assumptions C11_metadata_roundtrip.

(* the whole file: header, version, metadata, index bytes, phrase bytes *)
Theorem C11_file_roundtrip : forall i idx data b,
  info_ok i -> enc_file i idx data = Some b -> len_N b <= DER_MAX -> dec_file b = Some (i, idx, data).
Proof. exact dec_enc_file. Qed.
Print Assumptions C11_file_roundtrip.

(* index records <-> bytes *)
Theorem C11_records_roundtrip : forall rs, Forall rec_ok rs -> parse_recs (enc_recs rs) = rs.
Proof. exact parse_enc_recs. Qed.
Print Assumptions C11_records_roundtrip.

(* ------------------------------------------------------------------ *)
(* write, then read                                                      *)

(* Capacities of the format, stated on the builder's tree (Proofs/TrieLayout.v):
   tok t = every leaf is non-empty, holds valid phrases and its sorted DER
   encoding is shorter than 2^16 bytes (Data Len is a u16); every node has at
   least one and fewer than 2^16 children incl. its leaf (Child Len is a u16);
   child syllables are non-zero u16 values.  root_ok t = tempty \/ tok t.
   Node count < 2^32 and DER length < 2^28 need no hypothesis: `write` returns
   Err beyond them (Document::try_from), so write = Ok implies them. *)

(* The BFS layout: the index written for the queue denotes, record by record,
   a shape that mirrors the builder's nodes; leaf slices hold the sorted
   phrases.  Invariant: counter = records written + queue length. *)
Theorem C11_write_layout : forall fuel q cb dict data dict' data',
  bfs fuel q cb dict data = Ok (dict', data') ->
  cb = len_N dict + len_N q ->
  len_N dict' < U32 -> len_N data' < U32 ->
  Forall qitem_ok q ->
  items_repr dict' data' q (len_N dict).
Proof. exact bfs_repr. Qed.
Print Assumptions C11_write_layout.

(* The file written for ANY tree within the capacities and ANY metadata
     - is accepted by the reader of the documented layout: DER envelope, magic,
       version, and the structural validation of the index;
     - returns identical metadata;
     - every lookup - any query, exact or fuzzy, any `first` - returns exactly
       the tree-level walk: the children matching each query syllable, in
       syllable order, then the leaves of the reached nodes sorted by the
       comparator (tlookup, Proofs/TrieRoundtrip.v);
     - entries() is a permutation of the tree's (syllables, phrase) pairs. *)
Theorem C11_write_read : forall info t bytes,
  info_ok info -> root_ok t -> write info t = Ok bytes ->
  exists tr, open bytes = Ok tr /\ t_info tr = info /\
    (forall q first strategy, Forall (fun s => s <> 0) q ->
        lookup tr q first strategy = Ok (tlookup t q first strategy)) /\
    (exists es, entries tr = Ok es /\ Permutation es (tentries t)).
Proof. exact write_read. Qed.
Print Assumptions C11_write_read.

(* the written index alone passes the structural check of the reader *)
Theorem C11_written_index_validates : forall fuel q cb dict data dict' data',
  bfs fuel q cb dict data = Ok (dict', data') ->
  cb = len_N dict + len_N q ->
  len_N dict' < U32 -> len_N data' < U32 ->
  Forall qitem_ok q -> Forall qsyl_ok (tl q) ->
  (0 < len_N dict /\ Forall qsyl_ok q \/ len_N dict = 0 /\ exists syl t, hd_error q = Some (QNode syl t)) ->
  forall vf, (length dict' - length dict < vf)%nat ->
  validate_from vf dict' (len_N dict') (len_N dict) cb = true.
Proof. exact bfs_validates. Qed.
Print Assumptions C11_written_index_validates.

(* equal input gives byte-identical files: write is a function of (metadata, tree),
   and the tree a function of the insertion sequence *)
Theorem C11_write_deterministic : forall info es1 es2,
  es1 = es2 -> write info (build es1) = write info (build es2).
Proof. intros info es1 es2 ->. reflexivity. Qed.
Print Assumptions C11_write_deterministic.

(* ------------------------------------------------------------------ *)
(* in terms of the ENTRIES that were inserted (Proofs/TrieEntries.v)      *)

(* the builder's tree read as a map: under every key exactly what the insertion sequence holds for it (a
   re-inserted string replaces the earlier one in place, a new one is pushed); None for a key never inserted *)
Theorem C11_built_tree_holds_the_inserted_entries : forall es k, tget k (build es) = phrases_for es k.
Proof. exact tget_build. Qed.
Print Assumptions C11_built_tree_holds_the_inserted_entries.

Theorem C11_a_key_has_phrases_iff_inserted : forall es k, phrases_for es k <> None <-> In k (map fst es).
Proof. exact phrases_for_some. Qed.
Print Assumptions C11_a_key_has_phrases_iff_inserted.

(* "a re-inserted phrase replaces the earlier one": p is held under k exactly when (k, p) is an entry of the list and no
   LATER entry has the same syllables and the same string *)
Theorem C11_a_reinserted_phrase_replaces_the_earlier_one : forall es k p,
  (exists ps, phrases_for es k = Some ps /\ In p ps) <->
  exists es1 es2, es = es1 ++ (k, p) :: es2 /\ Forall (fun e => ~ (fst e = k /\ p_str (snd e) = p_str p)) es2.
Proof. exact phrases_for_last. Qed.
Print Assumptions C11_a_reinserted_phrase_replaces_the_earlier_one.

(* EXACT lookup on the file written for ANY list of entries (within the format's capacities), any query, any
   `first`: exactly the phrases inserted under that syllable sequence with their frequencies and timestamps, in leaf
   order, cut to `first`; nothing for a sequence that was not inserted *)
Theorem C11_exact_lookup_returns_what_was_inserted : forall info es bytes q first,
  info_ok info -> root_ok (build es) -> write info (build es) = Ok bytes -> Forall (fun s => s <> 0) q ->
  exists tr, open bytes = Ok tr /\
    lookup tr q first STANDARD = Ok (trunc first (match phrases_for es q with Some ps => sort_leaf ps | None => [] end)).
Proof.
  intros info es bytes q first Hi Hr Hw Hq.
  destruct (write_read info (build es) bytes Hi Hr Hw) as (tr & Ho & _ & Hl & _).
  exists tr. split; [exact Ho|]. rewrite (Hl q first STANDARD Hq). f_equal. apply exact_lookup_build.
Qed.
Print Assumptions C11_exact_lookup_returns_what_was_inserted.

(* FUZZY (prefix) lookup on that file: there is a list of keys - strictly ascending in the lexicographic order of the
   syllable codes, exactly the inserted keys with the query's number of syllables whose every syllable is non-zero
   and begins with the query's partial syllable - and the answer is, key by key in that order, what was inserted
   under the key, in leaf order (`first` at least the size of the answer) *)
Theorem C11_fuzzy_lookup_returns_the_matching_entries : forall info es bytes q first,
  info_ok info -> root_ok (build es) -> write info (build es) = Ok bytes -> Forall (fun s => s <> 0) q ->
  exists tr ks, open bytes = Ok tr /\
    StronglySorted klt ks /\
    (forall k, In k ks <-> In k (map fst es) /\ smatch k q = true) /\
    let answer := flat_map (fun k => leaf_list (phrases_for es k)) ks in
    (len_N answer <= first -> lookup tr q first FUZZY = Ok answer).
Proof.
  intros info es bytes q first Hi Hr Hw Hq.
  destruct (write_read info (build es) bytes Hi Hr Hw) as (tr & Ho & _ & Hl & _).
  destruct (fuzzy_lookup_build es q first) as (ks & Hs & Hk & Ha).
  exists tr, ks. split; [exact Ho|]. split; [exact Hs|]. split; [exact Hk|].
  cbv zeta in *. intros Hlen. rewrite (Hl q first FUZZY Hq). f_equal. now apply Ha.
Qed.
Print Assumptions C11_fuzzy_lookup_returns_the_matching_entries.

(* ENUMERATION of that file: exactly the (syllables, phrase) pairs the entry list holds - a re-inserted string under a
   key replaced the earlier one - and nothing else *)
Theorem C11_enumeration_yields_the_inserted_set : forall info es bytes,
  info_ok info -> root_ok (build es) -> write info (build es) = Ok bytes ->
  exists tr out, open bytes = Ok tr /\ entries tr = Ok out /\
    forall k p, In (k, p) out <-> exists ps, phrases_for es k = Some ps /\ In p ps.
Proof.
  intros info es bytes Hi Hr Hw.
  destruct (write_read info (build es) bytes Hi Hr Hw) as (tr & Ho & _ & _ & (out & He & Hp)).
  exists tr, out. split; [exact Ho|]. split; [exact He|]. intros k p. rewrite <- entries_build. split; intros H.
  - eapply Permutation_in; [exact Hp | exact H].
  - eapply Permutation_in; [apply Permutation_sym; exact Hp | exact H].
Qed.
Print Assumptions C11_enumeration_yields_the_inserted_set.

(* the order `klt` is the strict lexicographic order: irreflexive, so a strictly ascending list has no key twice *)
Theorem C11_key_order_is_strict : forall k, ~ klt k k.
Proof. induction k as [|x k IH]; cbn [klt]; [tauto|]. intros [H|[_ H]]; [exact (N.lt_irrefl _ H) | exact (IH H)]. Qed.
Print Assumptions C11_key_order_is_strict.

(* leaf order: a stable sort by the comparator of write() *)
Theorem C11_leaf_sorted_is_permutation : forall ps, Permutation (sort_leaf ps) ps.
Proof. intros ps. apply ssort_perm. Qed.
Print Assumptions C11_leaf_sorted_is_permutation.

(* ------------------------------------------------------------------ *)
(* witnesses just outside the capacity guards                            *)

(* a leaf whose encoding is 65536 bytes: write succeeds, open accepts the
   file, but the lookup of the inserted key returns nothing (Data Len wrapped
   to 0) although the builder holds one phrase for it *)
Theorem C11_leaf_over_capacity_truncates_refuted :
  big_check = true /\
  option_map len_N (enc_phrases (sort_leaf [w_big_phrase])) = Some 65536 /\
  tlookup_len_one = true.
Proof. exact leaf_over_capacity_truncates. Qed.
Print Assumptions C11_leaf_over_capacity_truncates_refuted.

(* a leaf mixing one-character and multi-character phrases of unusual byte
   lengths: the comparator is not transitive, and the written order depends on
   the insertion order of the same set *)
Theorem C11_mixed_leaf_comparator_refuted :
  (ple w_p2 w_p1 = true /\ ple w_p1 w_pm = true /\ ple w_p2 w_pm = false) /\
  (sort_leaf [w_p2; w_pm; w_p1] <> sort_leaf [w_p1; w_p2; w_pm] /\
   Permutation [w_p2; w_pm; w_p1] [w_p1; w_p2; w_pm]).
Proof. split; [exact mixed_leaf_comparator_not_transitive|exact mixed_leaf_order_depends_on_insertion]. Qed.
Print Assumptions C11_mixed_leaf_comparator_refuted.

(* ------------------------------------------------------------------ *)
(* non-vacuity: a three-entry dictionary with a shared prefix, a key that is a
   prefix of another, a re-inserted phrase, a timestamp and multi-byte phrases *)
Definition ex_es : list entry :=
  [([11859; 5256], mkPhrase [230; 184; 172; 232; 169; 166] 100 None);
   ([11859], mkPhrase [230; 184; 172] 5 (Some 9));
   ([11859; 5256], mkPhrase [231; 173; 150; 232; 169; 166] 200 None);
   ([11859], mkPhrase [230; 184; 172] 7 None)].
Definition ex_info : dinfo := mkInfo [110] [] [] [] [118].

Example C11_nonvacuous :
  exists bytes tr,
    write ex_info (build ex_es) = Ok bytes /\ open bytes = Ok tr /\ t_info tr = ex_info /\
    lookup tr [11859; 5256] MAXFIRST STANDARD =
      Ok [mkPhrase [231; 173; 150; 232; 169; 166] 200 None; mkPhrase [230; 184; 172; 232; 169; 166] 100 None] /\
    lookup tr [11859] MAXFIRST STANDARD = Ok [mkPhrase [230; 184; 172] 7 None] /\
    lookup tr [11776; 5120] MAXFIRST FUZZY =
      Ok [mkPhrase [231; 173; 150; 232; 169; 166] 200 None; mkPhrase [230; 184; 172; 232; 169; 166] 100 None] /\
    lookup tr [5256] MAXFIRST STANDARD = Ok [].
Proof.
  eexists. eexists. split; [vm_compute; reflexivity|]. split; [vm_compute; reflexivity|].
  (* never `repeat split` here: split on an equation tries eq_refl with the lazy conversion, which runs the
     reader outside the VM (the check then took longer than the watchdog of a fresh run) *)
  split; [vm_compute; reflexivity|]. split; [vm_compute; reflexivity|]. split; [vm_compute; reflexivity|].
  split; vm_compute; reflexivity.
Qed.

(* the entry-level reading of the same example: the key [11859; 5256] is the one inserted key matching the partial
   syllables [11776; 5120]; two strings were inserted under it; the re-inserted one replaced the earlier in place *)
Example C11_entries_example :
  smatch [11859; 5256] [11776; 5120] = true /\ smatch [11859] [11776; 5120] = false /\
  In [11859; 5256] (map fst ex_es) /\
  leaf_list (phrases_for ex_es [11859; 5256]) =
    [mkPhrase [231; 173; 150; 232; 169; 166] 200 None; mkPhrase [230; 184; 172; 232; 169; 166] 100 None] /\
  phrases_for ex_es [5256] = None.
Proof. split; [vm_compute; reflexivity|]. split; [vm_compute; reflexivity|]. split; [vm_compute; tauto|]. split; vm_compute; reflexivity. Qed.

(* the hypotheses of C11_write_read hold for it *)
Ltac tok_tac :=
  repeat match goal with
  | |- _ /\ _ => split
  | |- True => exact I
  | |- Forall _ [] => constructor
  | |- Forall _ (_ :: _) => constructor
  | |- phrase_ok _ => unfold phrase_ok; cbn [p_str p_freq p_last]
  | |- leaf_cap _ => unfold leaf_cap
  | |- exists b, _ => eexists
  | |- _ <> _ => vm_compute; discriminate
  | |- _ = _ => vm_compute; reflexivity
  | |- (_ < _)%N => vm_compute; reflexivity
  end.

Example C11_nonvacuous_hypotheses : info_ok ex_info /\ root_ok (build ex_es).
Proof.
  split; [repeat split|]. right.
  (* the tree is evaluated once; the capacity facts are then closed one by one (vm_compute on the whole
     Prop, or `split` on an equation, runs the codec outside the VM and does not come back) *)
  let t := eval vm_compute in (build ex_es) in change (tok t).
  cbn [tok kids_of fold_right fst snd]. tok_tac.
Qed.
