(* C14 - Every phonetic layout is sound, and complete for the dictionary's readings;
   printable ASCII -> key event -> character is the identity on keyboards that do
   not remap keys.
   Property theorems only; each is closed by a lemma from Proofs/ and followed by
   Print Assumptions.  Tables: Gen/Keyboard_gen.v, Gen/Layout_gen.v, Gen/Readings_gen.v
   (regenerated from /repo on every run).  Layout numbers: Model/Layout.v. *)
From Coq Require Import NArith List Bool.
From LC Require Import Base.Lib Gen.Bopomofo_gen Gen.Keyboard_gen Gen.Layout_gen Gen.Readings_gen
  Model.Syllable Model.Keyboard Model.LayoutBase Model.LayoutPinyin Model.Layout Model.LayoutSearch
  Proofs.SyllableProofs Proofs.KeyboardProofs Proofs.LayoutDefs Proofs.LayoutProofs
  Proofs.LayoutPinyinProofs Proofs.LayoutSoundness Proofs.LayoutCompleteDefs Proofs.LayoutComplete
  Proofs.LayoutUnreachAll.
Import ListNotations.
Open Scope N_scope.

(* ------------------------------------------------------------------ *)
(* (a) Soundness *)

(* A well-formed syllable value (wf_syl: the packing of four component indices in
   range) is exactly what C13 decodes and re-spells: non-zero, 16 bit, its accessors
   return the components, its spelling parses back to it. *)
Theorem C14_wellformed_is_decodable : forall v,
  wf_syl v -> exists ci cm cr ct, in_range ci cm cr ct /\ v = pack ci cm cr ct /\ decoded v ci cm cr ct.
Proof.
  intros v (ci & cm & cr & ct & Hr & Hv). exists ci, cm, cr, ct.
  split; [exact Hr|]. split; [exact Hv|]. subst v. now apply pack_decoded.
Qed.
Print Assumptions C14_wellformed_is_decodable.

(* The layout object under ANY operation sequence (key_press / fuzzy_key_press with
   any key event, remove_last, clear; any length; nothing cleared in between), from
   any well-formed state, for each of the ten layouts: no panic (the NonZeroU16
   unwrap of Syllable::update and Pinyin's builder.insert(..).unwrap() are
   unreachable), the state stays well formed, and every syllable handed to the
   editor (read after Commit, or carried by Fuzzy) is well formed. *)
Theorem C14_sound_any_sequence : forall L st ops,
  L < n_layouts -> wf_state st -> Forall valid_op ops ->
  exists st' hs, run_raw L st ops = Ok (st', hs) /\ wf_state st' /\ Forall wf_syl hs.
Proof. intros L st ops. apply sound_raw. Qed.
Print Assumptions C14_sound_any_sequence.

(* Under the editor's protocol (EnteringSyllable::next reads the syllable and clears
   the layout after Commit), from the empty layout, for operation sequences of any
   length: additionally every syllable handed over by a syllable-state layout
   (standard, hsu, ibm, ginyieh, et, et26, dc26) is composable, i.e. never EMPTY. *)
Theorem C14_sound_editor_protocol : forall L ops,
  L < n_layouts -> Forall valid_op ops ->
  exists st' hs, run_editor L lstate_empty ops = Ok (st', hs) /\ inv L st' /\ Forall wf_syl hs /\
    (is_pinyin L = false -> Forall composable hs).
Proof. intros L ops HL Hops. apply sound_editor; [exact HL | apply inv_empty | exact Hops]. Qed.
Print Assumptions C14_sound_editor_protocol.

(* For Pinyin "Commit hands a non-empty syllable" is false of the code: FINAL_MAPPING
   has an entry with neither medial nor rime ("ih"), so typing i h Space commits the
   EMPTY syllable.  (Not a property violation: see C14_buffer_never_empty.) *)
Theorem C14_pinyin_commit_nonempty_refuted : exists ops,
  Forall valid_op ops /\ run_editor L_HANYU lstate_empty ops = Ok (lstate_empty, [EMPTY_PATTERN]).
Proof.
  eexists. split; [|exact pinyin_commits_empty].
  repeat constructor.
Qed.
Print Assumptions C14_pinyin_commit_nonempty_refuted.

(* The editor inserts a handed syllable only if the dictionary has a phrase for it;
   with a dictionary without an entry for the EMPTY syllable, every syllable that
   enters the buffer - for every layout, Pinyin included - is composable. *)
Theorem C14_buffer_never_empty : forall L ops (dict_has : N -> bool),
  L < n_layouts -> Forall valid_op ops -> dict_has EMPTY_PATTERN = false ->
  exists st' hs, run_editor L lstate_empty ops = Ok (st', hs) /\ Forall composable (filter dict_has hs).
Proof.
  intros L ops dict_has HL Hops Hd.
  destruct (sound_editor L ops lstate_empty HL (inv_empty L) Hops) as (st' & hs & E & _ & Hw & _).
  exists st', hs. split; [exact E | now apply buffer_syllables].
Qed.
Print Assumptions C14_buffer_never_empty.

(* ------------------------------------------------------------------ *)
(* (b) Completeness *)

(* For every keyboard, every layout and every reading of data/word.src outside the
   known-unreachable class (KNOWN_FINDINGS.json; Proofs/LayoutCompleteDefs.v) there
   EXISTS a text - printable ASCII characters and Backspace - which, typed on that
   keyboard into the empty layout, makes the editor receive exactly one syllable,
   by Commit at the last key, and that syllable is the reading itself or (hsu,
   et26) a dictionary reading whose alt_syllables contain it. *)
Theorem C14_complete : forall kb L r,
  kb < n_keyboard -> L < n_layouts -> In r readings -> ~ In r (known_unreachable L) ->
  exists bytes, enters_b readings kb L bytes r = true.
Proof. exact complete. Qed.
Print Assumptions C14_complete.

(* the excluded class is exactly what the search cannot enter (a stale entry would
   break this), and it is empty for standard, ibm, ginyieh and et *)
Theorem C14_known_unreachable_exact : forall kb L,
  kb < n_keyboard -> L < n_layouts -> unreachable_readings kb L = known_unreachable L.
Proof. exact exact_all. Qed.
Print Assumptions C14_known_unreachable_exact.

(* ... and the excluded readings are GENUINELY unreachable in the model: no operation
   sequence of any length (key_press and fuzzy_key_press with any key event,
   remove_last, clear), under the editor's protocol, makes the layout hand over the
   reading or a dictionary syllable whose alt_syllables contain it.  So the full
   statement "every reading can be entered with every layout" is refuted, with
   exactly the listed class as counter-examples (KNOWN_FINDINGS.json). *)
Theorem C14_known_unreachable_genuine : forall L r ops st hs,
  L < n_layouts -> In r (known_unreachable L) -> Forall valid_op ops ->
  run_editor L lstate_empty ops = Ok (st, hs) ->
  forall s, In s hs -> ~ would_enter L r s.
Proof. exact known_unreachable_genuine_all. Qed.
Print Assumptions C14_known_unreachable_genuine.

Theorem C14_complete_all_readings_refuted : exists L r,
  L < n_layouts /\ In r readings /\
  forall ops st hs, Forall valid_op ops -> run_editor L lstate_empty ops = Ok (st, hs) ->
    forall s, In s hs -> ~ would_enter L r s.
Proof. exact complete_all_refuted. Qed.
Print Assumptions C14_complete_all_readings_refuted.

(* the reading table is the model's own parse of the spelled readings; all composable *)
Theorem C14_readings_table : readings_ok_b = true /\ forall r, In r readings -> composable r.
Proof. split; [exact readings_ok | exact readings_composable]. Qed.
Print Assumptions C14_readings_table.

(* every syl![..] literal of ALT_TABLEs and Pinyin tables builds a composable syllable *)
Theorem C14_layout_literals : literals_ok_b = true.
Proof. exact literals_ok. Qed.
Print Assumptions C14_layout_literals.

(* ------------------------------------------------------------------ *)
(* (c) Keyboards *)

Theorem C14_ascii_identity : forall kb c,
  kb < n_keyboard -> table_keyboard kb = true -> 32 <= c <= 126 ->
  exists ev, map_ascii kb c = Ok ev /\ ev_unicode ev = c.
Proof. exact ascii_identity. Qed.
Print Assumptions C14_ascii_identity.

(* the keyboards that do not remap keys are all but DvorakOnQwerty *)
Theorem C14_table_keyboards : forall kb,
  kb < n_keyboard -> table_keyboard kb = negb (kb =? kb_DvorakOnQwerty).
Proof. exact table_keyboards. Qed.
Print Assumptions C14_table_keyboards.

(* map_ascii and map_ascii_numlock are total on all 256 byte values of all keyboards
   (expect("invalid keycode") unreachable) and yield enum values *)
Theorem C14_map_ascii_total : forall kb c,
  kb < n_keyboard -> c < 256 ->
  (exists ev, map_ascii kb c = Ok ev /\ valid_event_b ev = true) /\
  (exists ev, map_ascii_numlock kb c = Ok ev /\ valid_event_b ev = true).
Proof. exact map_ascii_total. Qed.
Print Assumptions C14_map_ascii_total.

(* map_with_mod is total on all key codes x all 16 modifier combinations *)
Theorem C14_map_keycode_total : forall kb code mods,
  kb < n_keyboard -> code < n_keycode -> mods < 16 ->
  exists ev, map_keycode kb code mods = Ok ev /\ valid_event_b ev = true /\ ev_mods ev = mods.
Proof. exact map_keycode_total. Qed.
Print Assumptions C14_map_keycode_total.

Theorem C14_keyboard_tables : kb_tables_ok_b = true.
Proof. exact kb_tables_ok. Qed.
Print Assumptions C14_keyboard_tables.

(* ------------------------------------------------------------------ *)
(* non-vacuity *)

(* the domains are the full ones *)
Example C14_domains : n_layouts = 10 /\ n_keyboard = 8 /\ n_keycode = 63 /\ n_keyindex = 63 /\
  1400 <= len_N readings.
Proof. vm_compute. repeat split; intro H; discriminate H. Qed.

(* Hsu: c e n Space commits X+I+EN (the repository's own test), through the context rules *)
Example C14_hsu_cen :
  enters_b readings kb_Qwerty L_HSU [99; 101; 110; 32] (syl_of [bX; bI; bEN]) = true.
Proof. vm_compute. reflexivity. Qed.

(* the search needs Backspace: ET26 enters Q+TONE5 only as v e Backspace d *)
Example C14_et26_backspace :
  witness kb_Qwerty L_ET26 (syl_of [bQ; bTONE5]) = Some [118; 101; 8; 100].
Proof. vm_compute. reflexivity. Qed.

(* DvorakOnQwerty really remaps, so the identity theorem's hypothesis is needed *)
Example C14_dvorak_on_qwerty_remaps :
  exists ev, map_ascii kb_DvorakOnQwerty 113 = Ok ev /\ ev_unicode ev = 39 /\ ev_code ev = kcQuote.
Proof. exact dvorak_on_qwerty_remaps. Qed.

(* a raw (uncleared) sequence can make a compact layout hand the EMPTY syllable, which
   is why non-emptiness is stated under the editor's protocol: dc26 u e u u u Space *)
Example C14_dc26_raw_empty :
  exists st, run_raw L_DC26 lstate_empty
    (map (fun k => OpKey (class_event k)) [kiK21; kiK17; kiK21; kiK21; kiK21; kiK48])
  = Ok (st, [syl_of [bI; bTONE2]; EMPTY_PATTERN]).
Proof. eexists. vm_compute. reflexivity. Qed.
