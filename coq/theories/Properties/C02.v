(* C02 - What is committed is exactly what was displayed; no text is lost or invented.
   Property theorems only (proofs: Proofs/EditorFrames.v, Proofs/EditorInv.v). *)
From Coq Require Import NArith List Bool Arith.
From LC Require Import Base.Lib Gen.Editor_gen Model.Composition Model.Conversion Model.Editor Model.EditorRun
     Model.EdInst Proofs.CompositionProofs Proofs.EditorInv Proofs.EditorFrames Proofs.EditorWitness.
From Coq Require Import ZArith.
From LC Require Import Gen.Keyboard_gen Model.CapiKeys Model.CapiConfig Model.CapiRun Proofs.CapiKeysProofs Proofs.CapiInv Proofs.EngineTiles
     Proofs.EdInstProofs Proofs.CommitConverse Proofs.CapiCommit.
Import ListNotations.
Open Scope nat_scope.

(* Enter on a non-empty buffer: the commit string is exactly the pre-edit string displayed
   immediately before (both render the same conversion; learning happens after it is fixed),
   the buffer becomes empty, the result is Commit.  For every layout, dictionary, engine
   (conversion oracle), selections, breaks and cycled alternatives. *)
Theorem C02_enter_commits_display : forall D SY (dops : dict_ops D) (sops : syl_ops SY) conv (e : editor D SY) ev e' b,
  st e = Entering -> ce_is_empty (com (sh e)) = false -> kcode ev = kc_Enter ->
  process_keyevent dops sops conv e ev = Ok (e', b) ->
  b = BCommit /\ commit_buf (sh e') = display conv (sh e) /\ ce_len (com (sh e')) = 0 /\ st e' = Entering.
Proof. intros D SY dops sops conv. exact (enter_commits_display dops sops conv). Qed.
Print Assumptions C02_enter_commits_display.

(* the same for the commit_preedit_buf API path (Editor::commit) *)
Theorem C02_api_commit_is_display : forall D SY (dops : dict_ops D) conv (e e' : editor D SY) ok,
  ed_commit dops conv e = Ok (e', ok) ->
  (ok = true -> commit_buf (sh e') = display conv (sh e) /\ ce_len (com (sh e')) = 0 /\ last (sh e') = BCommit) /\
  (ok = false -> e' = e).
Proof.
  intros D SY dops conv e e' ok H. unfold ed_commit in H.
  destruct (negb (is_entering (st e)) || ce_is_empty (com (sh e))).
  - inversion H; subst. split; [discriminate | reflexivity].
  - apply obind_ok in H as (s' & Hs & H). inversion H; subst. split; [intros _|discriminate].
    unfold commit in Hs. apply obind_ok in Hs as (s1 & H1 & Hs). inversion Hs; subst. cbn. auto.
Qed.
Print Assumptions C02_api_commit_is_display.

(* Auto-commit: when the buffer exceeds the limit, the characters pushed out are the texts of a
   leading part of the conversion of the FULL buffer, in order; exactly their symbols leave the
   front of the buffer; committed + remaining = before; the rest fits the limit. *)
Theorem C02_auto_commit_accounts : forall D SY conv (s s' : shared D SY),
  wf_ce (com s) ->
  contiguous 0 (ce_len (com s)) (conversion conv s) = true -> one_char_each (conversion conv s) ->
  try_auto_commit conv s = Ok s' ->
  (ce_len (com s) <= o_threshold (opts s) /\ s' = s) \/
  exists j,
    commit_buf s' = flat_map itext (firstn j (conversion conv s)) /\
    symbols (inner (com s')) = skipn (sum_len (firstn j (conversion conv s))) (symbols (inner (com s))) /\
    length (commit_buf s') + ce_len (com s') = ce_len (com s) /\
    ce_len (com s') <= o_threshold (opts s') /\ last s' = BCommit.
Proof. intros D SY conv. exact (auto_commit_accounts conv). Qed.
Print Assumptions C02_auto_commit_accounts.

(* A non-empty commit string is available only when the key result says Commit: every key
   event, every state, every layout / dictionary / conversion.  (On the pinned tree this was
   false for histories interleaving API calls: Proofs/EditorWitness.C02_stale_commit_refuted_prefix;
   repaired by /repo commit 422bee4.) *)
Theorem C02_commit_string_only_with_commit : forall D SY (dops : dict_ops D) (sops : syl_ops SY) conv (e : editor D SY) ev e' b,
  process_keyevent dops sops conv e ev = Ok (e', b) -> commit_buf (sh e') <> [] -> b = BCommit.
Proof. intros D SY dops sops conv. exact (commit_string_only_with_commit dops sops conv). Qed.
Print Assumptions C02_commit_string_only_with_commit.

(* ... and the other direction: when the key result says Commit there IS a commit string.  Every key event, every
   state, every layout; `good` is any predicate on dictionaries (for the modelled one: no empty key / phrase) over
   which the conversion of a non-empty buffer starts with an interval whose text is not empty - part of the tiling
   contract of C03, which the correspondence checks on every logged conversion (one character per symbol, or the
   spelling of a syllable that has no word). *)
Theorem C02_commit_result_has_a_commit_string :
  forall D SY (dops : dict_ops D) (sops : syl_ops SY) conv (good : D -> Prop),
  (forall d k c n, good d -> symbols c <> [] -> head_text (conv d k c n)) ->
  forall (e : editor D SY) ev e',
  good (dict (sh e)) -> good (dict (sh e')) ->
  process_keyevent dops sops conv e ev = Ok (e', BCommit) -> commit_buf (sh e') <> [].
Proof. intros D SY dops sops conv good H. exact (commit_result_has_commit_string dops sops conv good H). Qed.
Print Assumptions C02_commit_result_has_a_commit_string.

(* the pre-fix witness and its behaviour after the fix *)
Theorem C02_stale_commit_witness :
  (exists e1 e2 e3,
    process_keyevent_prefix (ed_set_options std_ops e0 (english default_options)) (key kc_X 120%N) = Ok (e1, BCommit) /\
    m_start_selecting e1 = Ok (e2, false) /\
    process_keyevent_prefix e2 (key kc_Left 65533%N) = Ok (e3, BIgnore) /\ commit_buf (sh e3) = [120%N]) /\
  (exists e1 e2 e3,
    m_key conv_single (ed_set_options std_ops e0 (english default_options)) (key kc_X 120%N) = Ok (e1, BCommit) /\
    m_start_selecting e1 = Ok (e2, false) /\
    m_key conv_single e2 (key kc_Left 65533%N) = Ok (e3, BIgnore) /\ commit_buf (sh e3) = []).
Proof. split; [exact C02_stale_commit_refuted_prefix | exact C02_stale_commit_fixed]. Qed.
Print Assumptions C02_stale_commit_witness.

(* ---- through the C API (Model/CapiKeys.v): after ANY key-entry call - chewing_handle_Space ... Capslock,
   chewing_handle_Default / CtrlNum / Numlock with any int - in ANY state of the context, chewing_commit_Check = 1 only
   together with the key result Commit: neither chewing_keystroke_CheckIgnore nor chewing_keystroke_CheckAbsorb is set,
   and chewing_commit_String is not empty.  (chewing_handle_CtrlNum with a key that is no digit returns -1 without
   handling anything: the context is the one before.) *)
Theorem C02_commit_Check_only_with_a_commit_result : forall conv (c : cctx) o c',
  key_call o -> cstep conv c o = Ok c' ->
  c' = c \/
  (chewing_commit_Check c' = 1%Z ->
   chewing_keystroke_CheckIgnore c' = 0%Z /\ chewing_keystroke_CheckAbsorb c' = 0%Z /\ c_commit_string c' <> []).
Proof. exact c_commit_check_only_with_commit. Qed.
Print Assumptions C02_commit_Check_only_with_a_commit_result.

(* both directions at the C level: after any key-entry call from a context satisfying the context invariant (every
   context reachable by C calls: Proofs/CapiInv.crun_inv), the key result is Commit exactly when
   chewing_commit_Check = 1 *)
Theorem C02_commit_Check_exactly_with_a_commit_result : forall conv,
  (forall d k c n, md_fine d -> wf_comp c -> contiguous 0 (clen c) (conv d k c n) = true) ->
  (forall d k c n, md_fine d -> symbols c <> [] -> head_text (conv d k c n)) ->
  forall ss0, ss_good ss0 -> ss_cursor ss0 = None ->
  forall (c : cctx) o c', key_call o -> cop_fine o -> CInv ss0 c -> cstep conv c o = Ok c' ->
  c' = c \/ (last (sh (cx_ed c')) = BCommit <-> chewing_commit_Check c' = 1%Z).
Proof. exact c_commit_check_iff_commit_result. Qed.
Print Assumptions C02_commit_Check_exactly_with_a_commit_result.

(* non-vacuity: Hsu by number, English mode, `x` on an empty buffer: committed at once *)
Definition c02_history : list cop := [CSetKBType 1; CConfigSetInt (Config.iopt_name Config.OLanguageMode) 0; CDefault 120]%Z.
Example C02_c_history_example :
  exists c, crun mf_conv (cx_init (mkMD [] [] []) [] ss_empty 0%N) c02_history = Ok c /\
            chewing_commit_Check c = 1%Z /\ c_commit_string c = [120%N] /\ chewing_keystroke_CheckAbsorb c = 0%Z.
Proof. vm_compute. eexists. repeat split. Qed.

(* non-vacuity of the other direction: a converted buffer (two syllables, one word each) committed with Enter -
   the key result is Commit, chewing_commit_Check = 1, the commit string is what was displayed, and the
   conversion the context computed meets the head_text assumption *)
Definition c02_dict : memdict := mkMD (bt_insert ([10240], [27425], 10, 0) [])%N [] [].
Definition c02_enter_history : list cop := [CSetKBType 1; CDefault 97; CHandle kcSpace 0; CDefault 97; CHandle kcSpace 0]%Z.
Example C02_c_enter_example :
  exists c c', crun mf_conv (cx_init c02_dict [] ss_empty 0%N) c02_enter_history = Ok c /\
               head_text (conversion mf_conv (sh (cx_ed c))) /\
               cstep mf_conv c (CHandle kcEnter 0) = Ok c' /\
               last (sh (cx_ed c')) = BCommit /\ chewing_commit_Check c' = 1%Z /\
               c_commit_string c' = display mf_conv (sh (cx_ed c)) /\ c_commit_string c' = [27425; 27425]%N.
Proof.
  eexists. eexists. split; [vm_compute; reflexivity|]. split.
  - vm_compute. eexists. eexists. split; [reflexivity | discriminate].
  - split; [vm_compute; reflexivity|]. vm_compute. repeat split.
Qed.

(* chewing_handle_Enter after ANY sequence of C calls: in the editing state with a non-empty buffer - on every keyboard
   layout the context may have selected, with any modifier bits - the commit string is exactly the pre-edit string
   chewing_buffer_String showed before the call (the conversion of the buffer by the installed engine, with all
   choices, breaks and the alternative selected with Tab), the buffer is empty afterwards and the key result is Commit *)
From LC Require Import Proofs.CapiPassthrough Proofs.CapiEnter.
Theorem C02_handle_Enter_commits_the_buffer_String_after_any_C_calls : forall ss d ab t0 ops c mods c',
  ss_good ss -> ss_cursor ss = None -> md_fine d -> Forall cop_fine ops ->
  crun mf_conv (cx_init d ab ss t0) ops = Ok c ->
  (mods < 16)%N -> st (cx_ed c) = Entering -> (0 < chewing_buffer_Len c)%Z ->
  cstep mf_conv c (CHandle kc_Enter mods) = Ok c' ->
  c_commit_string c' = chewing_buffer_String mf_conv c /\ chewing_buffer_Len c' = 0%Z /\ last (sh (cx_ed c')) = BCommit /\
  chewing_keystroke_CheckIgnore c' = 0%Z /\ chewing_keystroke_CheckAbsorb c' = 0%Z /\ st (cx_ed c') = Entering.
Proof.
  intros ss d ab t0 ops c mods c' Hg Hf Hd Hops H Hm Hst Hlen Hs.
  apply (c_enter_commits_display mf_conv ss c mods c'); try assumption.
  exact (crun_inv mf_conv mf_conv_tiles ss Hg Hf ops (cx_init d ab ss t0) c Hops (cx_init_inv ss d ab t0 Hg Hf Hd) H).
Qed.
Print Assumptions C02_handle_Enter_commits_the_buffer_String_after_any_C_calls.
