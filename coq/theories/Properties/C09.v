(* C09 - Mutable dictionaries behave as a map under any update history.
   Property theorems only; each is closed by a lemma from Proofs/ and followed by Print
   Assumptions.  Models: Model/{Dict,TrieBuf,Layered,SqliteDict}.v; the TrieBuf/Trie
   theorems are about [fixed], the model of the code after the five C09 `fix:` commits
   (TrieBuf.current = fixed is what the correspondence runs against /repo).

   Reading (DESIGN appendix D): the specification is the finite map
   (syllables, phrase) -> (freq, time) of Model/Dict.v ([spec], [spec_run] replays the
   history on it); the frequency is part of the full statements.  A history is a list
   of [op]: add / update / remove / lookup / entries / flush / reopen, where reopen
   carries what the background writer has done by then (not finished / finished /
   failed) - the theorems hold for every such schedule. *)
From Coq Require Import NArith List Bool Permutation.
From LC Require Import Base.Lib Model.Dict Model.TrieBuf Model.Layered Model.SqliteDict
  Proofs.DictProofs Proofs.TrieProofs Proofs.TrieBufProofs Proofs.LayeredProofs Proofs.SqliteProofs
  Proofs.HistoryProofs Proofs.C09Refuted.
Import ListNotations.
Open Scope N_scope.

(* ------------------------------------------------------------------ TrieBuf *)

(* the start states: a new in-memory dictionary (empty map) and a file-backed one opened on any
   well-formed trie file (the map of its entries) refine their maps *)
Theorem C09_triebuf_start_in_memory : refines tb_new_in_memory [].
Proof. exact refines_new. Qed.
Print Assumptions C09_triebuf_start_in_memory.

Theorem C09_triebuf_start_file : forall t, trie_wf t -> refines (tb_open t) (spec_of_trie t).
Proof. exact refines_open. Qed.
Print Assumptions C09_triebuf_start_file.

(* REFINEMENT, every history: whatever was added, updated, removed, looked up, enumerated,
   flushed and reopened, with the writer finishing, failing or still running at each reopen,
   the three components (snapshot, pending map, tombstones) keep representing exactly the map
   obtained by replaying the history on the specification. *)
Theorem C09_triebuf_refines_map : forall tb0 s0 ops,
  refines tb0 s0 -> refines (fst (tb_run fixed tb0 ops)) (spec_run s0 ops).
Proof. intros tb0 s0 ops H. now apply refines_run. Qed.
Print Assumptions C09_triebuf_refines_map.

(* a lookup returns exactly the live phrases of the key, each once, with the map's frequency
   (and time) *)
Theorem C09_triebuf_lookup_exact : forall tb0 s0, refines tb0 s0 -> forall ops k,
  NoDup (map ph_text (tb_lookup fixed (after tb0 ops) k USIZE_MAX Standard)) /\
  forall ph, In ph (tb_lookup fixed (after tb0 ops) k USIZE_MAX Standard) <->
             s_find (k, ph_text ph) (spec_run s0 ops) = Some (ph_freq ph, ph_time ph).
Proof. exact tb_lookup_spec. Qed.
Print Assumptions C09_triebuf_lookup_exact.

(* the same as a permutation of the map's live phrases of the key *)
Theorem C09_triebuf_lookup_perm : forall tb0 s0, refines tb0 s0 -> forall ops k,
  Permutation (tb_lookup fixed (after tb0 ops) k USIZE_MAX Standard) (s_lookup k (spec_run s0 ops)).
Proof. intros tb0 s0 H ops k. apply lookup_perm. now apply after_refines. Qed.
Print Assumptions C09_triebuf_lookup_perm.

(* phrase-set-only form of the lookup statement (the frequency-free reading; implied by the
   full statement above) *)
Theorem C09_triebuf_lookup_partial : forall tb0 s0, refines tb0 s0 -> forall ops k p,
  In p (map ph_text (tb_lookup fixed (after tb0 ops) k USIZE_MAX Standard)) <->
  s_find (k, p) (spec_run s0 ops) <> None.
Proof. exact tb_lookup_set. Qed.
Print Assumptions C09_triebuf_lookup_partial.

(* enumeration yields exactly the live entries: a permutation of the map *)
Theorem C09_triebuf_entries_perm : forall tb0 s0, refines tb0 s0 -> forall ops,
  Permutation (tb_entries fixed (after tb0 ops)) (s_entries (spec_run s0 ops)).
Proof. intros tb0 s0 H ops. apply entries_perm. now apply after_refines. Qed.
Print Assumptions C09_triebuf_entries_perm.

(* add_phrase fails exactly when the entry is live *)
Theorem C09_triebuf_add_result : forall tb0 s0, refines tb0 s0 -> forall ops k ph,
  snd (tb_add fixed (after tb0 ops) k ph) = true <-> s_find (k, ph_text ph) (spec_run s0 ops) = None.
Proof. intros tb0 s0 H ops k ph. apply add_result. now apply after_refines. Qed.
Print Assumptions C09_triebuf_add_result.

(* a removed phrase stays absent - from lookups and from the enumeration - as long as it is not
   added or updated again, whatever else happens (flush, reopen, other entries) *)
Theorem C09_triebuf_removed_stays_absent : forall tb0 s0, refines tb0 s0 -> forall ops1 k p ops2,
  none_of (writes (k, p)) ops2 ->
  ~ In p (map ph_text (tb_lookup fixed (after tb0 (ops1 ++ ORemove k p :: ops2)) k USIZE_MAX Standard)) /\
  ~ In (k, p) (map pk (tb_entries fixed (after tb0 (ops1 ++ ORemove k p :: ops2)))).
Proof. exact tb_removed_absent. Qed.
Print Assumptions C09_triebuf_removed_stays_absent.

(* ... and is visible again, with the new value, once it is updated ... *)
Theorem C09_triebuf_visible_after_update : forall tb0 s0, refines tb0 s0 -> forall ops1 k p f uf t ops2,
  none_of (rewrites (k, p)) ops2 ->
  In (mkPhrase p uf (Some t)) (tb_lookup fixed (after tb0 (ops1 ++ OUpdate k p f uf t :: ops2)) k USIZE_MAX Standard) /\
  In (k, mkPhrase p uf (Some t)) (tb_entries fixed (after tb0 (ops1 ++ OUpdate k p f uf t :: ops2))).
Proof. exact tb_updated_visible. Qed.
Print Assumptions C09_triebuf_visible_after_update.

(* ... or added (ops1 may end with its removal) *)
Theorem C09_triebuf_visible_after_add : forall tb0 s0, refines tb0 s0 -> forall ops1 k ph ops2,
  ~ In (ph_text ph) (map ph_text (tb_lookup fixed (after tb0 ops1) k USIZE_MAX Standard)) ->
  none_of (rewrites (k, ph_text ph)) ops2 ->
  In (mkPhrase (ph_text ph) (ph_freq ph) (Some (opt_default (ph_time ph))))
     (tb_lookup fixed (after tb0 (ops1 ++ OAdd k ph :: ops2)) k USIZE_MAX Standard).
Proof. exact tb_added_visible. Qed.
Print Assumptions C09_triebuf_visible_after_add.

(* ------------------------------------------------------------------ first n *)

(* asking for the first n returns the first n of the full result (lookup_all_phrases =
   lookup_first_n_phrases(usize::MAX)); every state, every key, both strategies *)
Theorem C09_first_n_triebuf : forall c tb k n s,
  tb_lookup c tb k n s = truncate_usize n (tb_lookup c tb k USIZE_MAX s).
Proof. reflexivity. Qed.
Print Assumptions C09_first_n_triebuf.

Theorem C09_first_n_trie : forall t k n s,
  n <= USIZE_MAX -> trie_lookup fixed t k n s = truncate_usize n (trie_lookup fixed t k USIZE_MAX s).
Proof. exact trie_lookup_first_n. Qed.
Print Assumptions C09_first_n_trie.

Theorem C09_first_n_sqlite : forall db k n, sq_lookup db k n = truncate_usize n (sq_lookup db k USIZE_MAX).
Proof. exact sq_first_n. Qed.
Print Assumptions C09_first_n_sqlite.

Theorem C09_first_n_layered : forall c d k n s, ly_lookup c d k n s = truncate_usize n (ly_lookup c d k USIZE_MAX s).
Proof. reflexivity. Qed.
Print Assumptions C09_first_n_layered.

(* truncate_usize n is List.firstn for every n below usize::MAX and the identity at usize::MAX *)
Theorem C09_first_n_is_firstn : forall (l : list phrase) n,
  (n < USIZE_MAX -> truncate_usize n l = firstn (N.to_nat n) l) /\ truncate_usize USIZE_MAX l = l.
Proof. intros l n. split; [apply truncate_usize_firstn | reflexivity]. Qed.
Print Assumptions C09_first_n_is_firstn.

(* ------------------------------------------------------------------ Layered *)

(* over arbitrary layers (given by their full results, in layer order): one entry per phrase *)
Theorem C09_layered_one_per_phrase : forall ls, NoDup (map ph_text (layered_merge ls USIZE_MAX)).
Proof. exact merge_NoDup. Qed.
Print Assumptions C09_layered_one_per_phrase.

(* the union of the layers *)
Theorem C09_layered_union : forall ls p,
  In p (map ph_text (layered_merge ls USIZE_MAX)) <-> exists l, In l ls /\ In p (map ph_text l).
Proof. exact merge_union. Qed.
Print Assumptions C09_layered_union.

(* every entry comes from a layer and carries the highest frequency of its phrase *)
Theorem C09_layered_max_freq : forall ls x,
  In x (layered_merge ls USIZE_MAX) ->
  (exists l, In l ls /\ In x l) /\
  (forall l q, In l ls -> In q l -> ph_text q = ph_text x -> ph_freq q <= ph_freq x).
Proof. exact merge_max. Qed.
Print Assumptions C09_layered_max_freq.

(* in order of first appearance; the result is a function of the layers' results alone, hence
   stable for equal inputs *)
Theorem C09_layered_first_appearance : forall ls,
  map ph_text (layered_merge ls USIZE_MAX) = first_occurrences (map ph_text (concat ls)).
Proof. exact merge_order. Qed.
Print Assumptions C09_layered_first_appearance.

Theorem C09_layered_stable : forall c d d' k n s,
  ly_results c d k s = ly_results c d' k s -> ly_lookup c d k n s = ly_lookup c d' k n s.
Proof. intros c d d' k n s H. unfold ly_lookup. now rewrite H. Qed.
Print Assumptions C09_layered_stable.

(* the concrete stack (system Tries + user TrieBuf) along any history: the result is the union
   of the system leaves and the user map, one entry per phrase, no smaller than any layer's
   frequency *)
Theorem C09_layered_stack : forall d0 s0 ops k,
  Forall trie_wf (ly_sys d0) -> refines (ly_user d0) s0 ->
  let d := fst (ly_run fixed d0 ops) in
  let s := spec_run s0 (filter forwarded ops) in
  NoDup (map ph_text (ly_lookup fixed d k USIZE_MAX Standard)) /\
  (forall p, In p (map ph_text (ly_lookup fixed d k USIZE_MAX Standard)) <->
             (exists t, In t (ly_sys d0) /\ In p (map ph_text (trie_leaf t k))) \/ s_find (k, p) s <> None) /\
  (forall x, In x (ly_lookup fixed d k USIZE_MAX Standard) ->
             (forall t q, In t (ly_sys d0) -> In q (trie_leaf t k) -> ph_text q = ph_text x -> ph_freq q <= ph_freq x) /\
             (forall f tm, s_find (k, ph_text x) s = Some (f, tm) -> f <= ph_freq x)).
Proof. exact ly_lookup_stack. Qed.
Print Assumptions C09_layered_stack.

(* ------------------------------------------------------------------ SQLite *)

(* Outside the known finding (sq_hist_ok: no update lowers the frequency - see
   C09_sqlite_lowered_frequency_refuted), every history on the relational model refines the
   map in the frequency component: lookups return exactly the live phrases of the key, each
   once, with the map's frequency; the enumeration exactly the live entries, each once. *)
Theorem C09_sqlite_lookup_exact : forall ops, sq_hist_ok [] ops -> forall k,
  NoDup (map ph_text (sq_lookup (sq_after ops) k USIZE_MAX)) /\
  forall p g, (exists tm, In (mkPhrase p g tm) (sq_lookup (sq_after ops) k USIZE_MAX)) <->
              (exists tm, s_find (k, p) (sq_spec_run [] ops) = Some (g, tm)).
Proof. exact sq_lookup_spec. Qed.
Print Assumptions C09_sqlite_lookup_exact.

Theorem C09_sqlite_entries_exact : forall ops, sq_hist_ok [] ops ->
  NoDup (map pk (sq_entries (sq_after ops))) /\
  forall k p g, (exists tm, In (k, mkPhrase p g tm) (sq_entries (sq_after ops))) <->
                (exists tm, s_find (k, p) (sq_spec_run [] ops) = Some (g, tm)).
Proof. exact sq_entries_spec. Qed.
Print Assumptions C09_sqlite_entries_exact.

Theorem C09_sqlite_removed_stays_absent : forall ops1 k p ops2,
  sq_hist_ok [] (ops1 ++ ORemove k p :: ops2) -> none_of (writes (k, p)) ops2 ->
  ~ In p (map ph_text (sq_lookup (sq_after (ops1 ++ ORemove k p :: ops2)) k USIZE_MAX)).
Proof. exact sq_removed_absent. Qed.
Print Assumptions C09_sqlite_removed_stays_absent.

Theorem C09_sqlite_visible_after_update : forall ops1 k p f uf t ops2,
  sq_hist_ok [] (ops1 ++ OUpdate k p f uf t :: ops2) -> none_of (sq_rewrites (k, p)) ops2 ->
  exists tm, In (mkPhrase p uf tm) (sq_lookup (sq_after (ops1 ++ OUpdate k p f uf t :: ops2)) k USIZE_MAX).
Proof. exact sq_updated_visible. Qed.
Print Assumptions C09_sqlite_visible_after_update.

Theorem C09_sqlite_visible_after_add : forall ops1 k ph ops2,
  sq_hist_ok [] (ops1 ++ OAdd k ph :: ops2) -> none_of (sq_rewrites (k, ph_text ph)) ops2 ->
  exists tm, In (mkPhrase (ph_text ph) (ph_freq ph) tm) (sq_lookup (sq_after (ops1 ++ OAdd k ph :: ops2)) k USIZE_MAX).
Proof. exact sq_added_visible. Qed.
Print Assumptions C09_sqlite_visible_after_add.

(* ------------------------------------------------------------------ refuted on the faithful models *)

(* The full statement is FALSE of the code pinned at the start of the work ([pinned]); each
   witness is in corpus/c09/defects.case, was replayed on the implementation, and is repaired by
   one `fix:` commit in /repo (KNOWN_FINDINGS.json, status fixed). *)
Theorem C09_pinned_remove_then_add_refuted :
  exists ops k,
    s_lookup k (spec_run [] ops) = [mkPhrase ce 2 (Some 0)] /\
    tb_lookup pinned (final pinned tb_new_in_memory ops) k USIZE_MAX Standard = [] /\
    tb_entries pinned (final pinned tb_new_in_memory ops) = [].
Proof. exact remove_then_add_invisible. Qed.
Print Assumptions C09_pinned_remove_then_add_refuted.

Theorem C09_pinned_remove_then_update_refuted :
  exists ops k,
    s_lookup k (spec_run [] ops) = [mkPhrase ce 9 (Some 7)] /\
    tb_lookup pinned (final pinned tb_new_in_memory ops) k USIZE_MAX Standard = [].
Proof. exact remove_then_update_invisible. Qed.
Print Assumptions C09_pinned_remove_then_update_refuted.

Theorem C09_pinned_trie_first_n_refuted :
  exists t k,
    trie_lookup pinned t k 0 Standard = trie_lookup pinned t k USIZE_MAX Standard /\
    trie_lookup pinned t k 1 Standard = trie_lookup pinned t k USIZE_MAX Standard /\
    trie_lookup pinned t k 2 Standard = trie_lookup pinned t k USIZE_MAX Standard /\
    length (trie_lookup pinned t k USIZE_MAX Standard) = 3%nat.
Proof. exact trie_ignores_first. Qed.
Print Assumptions C09_pinned_trie_first_n_refuted.

Theorem C09_pinned_entries_twice_refuted :
  exists tb ops,
    s_entries (spec_run (spec_of_trie [(K2, [mkPhrase ceshi 100 None])]) ops) = [(K2, mkPhrase ceshi 1 (Some 186613))] /\
    tb_entries pinned (final pinned tb ops) =
      [(K2, mkPhrase ceshi 100 None); (K2, mkPhrase ceshi 1 (Some 186613))].
Proof. exact updated_persisted_entry_listed_twice. Qed.
Print Assumptions C09_pinned_entries_twice_refuted.

Theorem C09_pinned_lowered_frequency_refuted :
  exists ops k,
    s_lookup k (spec_run [] ops) = [mkPhrase ce 3 (Some 7)] /\
    tb_lookup pinned (final pinned (tb_open []) ops) k USIZE_MAX Standard = [mkPhrase ce 5 (Some 0)] /\
    length (tb_entries pinned (final pinned (tb_open []) ops)) = 2%nat.
Proof. exact lowered_frequency_shadowed_after_flush. Qed.
Print Assumptions C09_pinned_lowered_frequency_refuted.

Theorem C09_pinned_max_phrase_refuted :
  exists ops k,
    s_lookup k (spec_run [] ops) = [mkPhrase [1114111] 4 (Some 0)] /\
    tb_lookup pinned (final pinned tb_new_in_memory ops) k USIZE_MAX Standard = [] /\
    tb_entries pinned (final pinned tb_new_in_memory ops) = [(K1, mkPhrase [1114111] 4 (Some 0))].
Proof. exact max_phrase_cut_off. Qed.
Print Assumptions C09_pinned_max_phrase_refuted.

(* FALSE of the SQLite model as it is (not fixed; KNOWN_FINDINGS C09-sqlite-lowered-user-freq):
   the full statement with the frequency fails for an update that lowers it *)
Theorem C09_sqlite_lowered_frequency_refuted :
  exists ops k,
    s_lookup k (spec_run [] ops) = [mkPhrase ce 50 (Some 7)] /\
    sq_lookup (fst (sq_run sq_empty ops)) k USIZE_MAX = [mkPhrase ce 100 (Some 7)].
Proof. exact sqlite_lowered_frequency_shadowed. Qed.
Print Assumptions C09_sqlite_lowered_frequency_refuted.

(* FALSE of the TrieBuf model as it is (not fixed; KNOWN_FINDINGS C09-prefix-lookup-returns-removed-phrase): "a removed
   phrase stays absent" fails for PREFIX lookups of a file-backed TrieBuf - the theorems above are stated for Standard
   lookups.  File holds (ㄘㄜˋ, 測); remove it; the exact lookup returns nothing, the prefix lookup of ㄘ still 測 *)
Theorem C09_prefix_lookup_returns_removed_phrase_refuted :
  let tb := final fixed (tb_open (trie_build [(K1, mkPhrase ce 5 None)])) [ORemove K1 ce] in
  s_lookup K1 (spec_run (spec_of_trie (trie_build [(K1, mkPhrase ce 5 None)])) [ORemove K1 ce]) = [] /\
  tb_lookup fixed tb K1 USIZE_MAX Standard = [] /\
  tb_lookup fixed tb Kc USIZE_MAX FuzzyPartialPrefix = [mkPhrase ce 5 None].
Proof. exact prefix_lookup_returns_removed_phrase. Qed.
Print Assumptions C09_prefix_lookup_returns_removed_phrase_refuted.

(* ------------------------------------------------------------------ non-vacuity *)

(* the witnesses of the pinned refutations, on the code that exists now *)
Example ex_remove_add :
  tb_lookup fixed (after tb_new_in_memory ops_i) K1 USIZE_MAX Standard = [mkPhrase ce 2 (Some 0)] /\
  none_of (writes (K1, ce)) [] /\ refines tb_new_in_memory [].
Proof. split; [vm_compute; reflexivity | split; [reflexivity | exact refines_new]]. Qed.

Example ex_update_persisted :
  tb_lookup fixed (after (tb_open []) ops_iv) K1 USIZE_MAX Standard = [mkPhrase ce 3 (Some 7)] /\
  tb_entries fixed (after (tb_open []) ops_iv) = [(K1, mkPhrase ce 3 (Some 7))] /\
  trie_wf [] /\ none_of (rewrites (K1, ce)) [].
Proof. split; [vm_compute; reflexivity | split; [vm_compute; reflexivity | split; [exact trie_wf_nil | reflexivity]]]. Qed.

(* a history that removes, flushes, lets the writer finish while dirty, reloads, re-adds *)
Definition ex_ops : list op :=
  [OAdd K1 (mkPhrase ce 1 None); OAdd K1 (mkPhrase [20874] 4 (Some 2)); OFlush; ORemove K1 ce;
   OReopen FinishedOk; OReopen NotFinished; OAdd K1 (mkPhrase ce 7 None); OFlush; OReopen FinishedOk;
   OUpdate K1 [20874] 4 2 9; OLookup K1 1 Standard; OEntries].
Example ex_history :
  tb_lookup fixed (after (tb_open []) ex_ops) K1 USIZE_MAX Standard = [mkPhrase ce 7 (Some 0); mkPhrase [20874] 2 (Some 9)] /\
  s_lookup K1 (spec_run [] ex_ops) = [mkPhrase [20874] 2 (Some 9); mkPhrase ce 7 (Some 0)] /\
  tb_lookup fixed (after (tb_open []) ex_ops) K1 1 Standard = [mkPhrase ce 7 (Some 0)].
Proof. vm_compute. repeat split. Qed.

Example ex_trie_first_n :
  trie_lookup fixed trie_ii K1 2 Standard = firstn 2 (trie_lookup fixed trie_ii K1 USIZE_MAX Standard) /\
  length (trie_lookup fixed trie_ii K1 USIZE_MAX Standard) = 3%nat.
Proof. vm_compute. split; reflexivity. Qed.

Example ex_layered :
  layered_merge [[mkPhrase ce 1 None; mkPhrase [20874] 1 None]; [mkPhrase [31574] 100 None; mkPhrase [20874] 100 None]] USIZE_MAX
  = [mkPhrase ce 1 None; mkPhrase [20874] 100 None; mkPhrase [31574] 100 None].
Proof. vm_compute. reflexivity. Qed.

Definition ex_sq_ops : list op :=
  [OAdd K1 (mkPhrase ce 100 None); OUpdate K1 ce 100 200 8; ORemove K1 ce; OUpdate K1 ce 1 2 9; OAdd K2 (mkPhrase ceshi 5 None)].
Example ex_sqlite :
  sq_hist_ok [] ex_sq_ops /\
  sq_lookup (sq_after ex_sq_ops) K1 USIZE_MAX = [mkPhrase ce 2 (Some 9)] /\
  none_of (sq_rewrites (K1, ce)) [OAdd K2 (mkPhrase ceshi 5 None)].
Proof. split; [|split; [vm_compute; reflexivity | reflexivity]]. vm_compute. repeat split; discriminate. Qed.
