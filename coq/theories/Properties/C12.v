(* C12 - Corrupt dictionary or legacy user files never crash or hang the host.
   Property theorems only; each is closed by a lemma from Proofs/ and followed by
   Print Assumptions.

   Model: Model/TrieCodec.v (TrieOpenOptions::read_from incl. the index
   validation added by the fix b1dbe45, Trie::lookup_first_n_phrases,
   Trie::entries over raw bytes; every Rust panic site an explicit `Panic`,
   every unbounded loop fuelled), Model/Der.v (the der crate's decoders).
   A byte string is a `list N` with every element < 256 (bytes_ok); a query is
   a list of non-zero u16 values (Rust's Syllable wraps NonZeroU16). *)
From Coq Require Import NArith List Bool.
From LC Require Import Base.Lib Model.Der Model.TrieCodec Proofs.TrieShape Proofs.TrieTotal Proofs.TrieWitness.
From LC Require Import Model.Uhash Proofs.UhashProofs.
Import ListNotations.
Open Scope N_scope.

(* Trie::new / Trie::open on EVERY byte string: Ok or Err, never a panic. *)
Theorem C12_open_total : forall bytes,
  (exists t, open bytes = Ok t) \/ (exists e, open bytes = Err e).
Proof. exact open_total. Qed.
Print Assumptions C12_open_total.

(* The full statement for trie files.  For EVERY byte string, opening fails
   cleanly or yields a trie on which
     - every lookup (any query of syllables, any `first`, both strategies)
       returns Ok - no bail_if_oob, no panic site - after examining at most
       |query| * records child records (linear, not exponential);
     - entries() returns Ok within the stated fuel 3*records+2 (no panic site,
       no OutOfFuel), in release and in debug builds (debug_assert sites). *)
Theorem C12_trie_reader_total : forall bytes,
  bytes_ok bytes ->
  (exists e, open bytes = Err e) \/
  (exists t, open bytes = Ok t /\
     (forall q first strategy, syllables_ok q ->
        exists ps c, lookup_cost t q first strategy = (Ok ps, c) /\ c <= len_N q * len_N (t_recs t)) /\
     (exists es, entries t = Ok es) /\
     (forall dbg, exists l, entries_leaves dbg (entries_fuel t) t = Ok l)).
Proof. exact trie_reader_total. Qed.
Print Assumptions C12_trie_reader_total.

(* Context creation (chewing_new2) over such files is a composition of the
   above: a corrupt user dictionary makes it fail cleanly (NULL) or succeed
   after enumerating the whole file; a corrupt system or drop-in dictionary
   never prevents the context (built-in dictionary / file skipped). *)
Theorem C12_context_user_file : forall bytes,
  bytes_ok bytes -> ctx_user_file bytes = Ok true \/ ctx_user_file bytes = Ok false.
Proof. exact ctx_user_file_total. Qed.
Print Assumptions C12_context_user_file.

Theorem C12_context_system_file : forall bytes, ctx_system_file bytes = Ok true.
Proof. exact ctx_system_file_total. Qed.
Print Assumptions C12_context_system_file.

(* Without the structural validation of the index (the reader as it was before
   the fix) the statement is FALSE; the witnesses are single-byte corruptions of
   files written by TrieBuilder and were replayed on the implementation
   (docs/notes/C12.md): *)

(* a zero syllable in a non-first child record: Syllable::try_from(0).unwrap() *)
Theorem C12_unvalidated_entries_panic_refuted :
  exists bytes t, bytes_ok bytes /\ open_unchecked bytes = Ok t /\ entries t = Panic 358.
Proof. exact unvalidated_entries_panic. Qed.
Print Assumptions C12_unvalidated_entries_panic_refuted.

(* a record that lists itself as its child: the descent never ends (out of the
   stated fuel, and of 40 times that fuel) *)
Theorem C12_unvalidated_entries_hang_refuted :
  exists bytes t, bytes_ok bytes /\ open_unchecked bytes = Ok t /\ entries t = OutOfFuel /\
                  entries_leaves false 4000 t = OutOfFuel.
Proof. exact unvalidated_entries_hang. Qed.
Print Assumptions C12_unvalidated_entries_hang_refuted.

(* a cyclic index of three records: a query of k syllables examines 2^(k+1)-2 records *)
Theorem C12_unvalidated_lookup_exponential_refuted :
  exists bytes t, bytes_ok bytes /\ open_unchecked bytes = Ok t /\
    snd (lookup_cost t (repeat 11859 12) 0 STANDARD) = 8190 /\
    snd (lookup_cost t (repeat 11859 16) 0 STANDARD) = 131070.
Proof. exact unvalidated_lookup_exponential. Qed.
Print Assumptions C12_unvalidated_lookup_exponential_refuted.

(* ... and all three byte strings are now rejected by open *)
Theorem C12_witnesses_rejected :
  open w_self_ref = Err 2 /\ open w_zero_syl = Err 2 /\ open w_cyclic_bytes = Err 2.
Proof. exact witnesses_rejected. Qed.
Print Assumptions C12_witnesses_rejected.

(* ------------------------------------------------------------------ *)
(* Legacy user-phrase files (uhash.dat): proved by group c19 in
   Proofs/UhashProofs.v on Model/Uhash.v (src/dictionary/uhash.rs, loader.rs);
   re-exported here because C12 quantifies over these files too. *)

(* binary format, text format, and the loader's "binary, else text": Ok or Err
   for EVERY byte string (total_outcome o := o is Ok or Err) *)
Theorem C12_legacy_load_bin_total : forall bs, total_outcome (load_bin bs).
Proof. exact load_bin_total. Qed.
Print Assumptions C12_legacy_load_bin_total.

Theorem C12_legacy_load_text_total : forall bs, total_outcome (load_text bs).
Proof. exact load_text_total. Qed.
Print Assumptions C12_legacy_load_text_total.

Theorem C12_legacy_load_uhash_total : forall bs, total_outcome (load_uhash bs).
Proof. exact load_uhash_total. Qed.
Print Assumptions C12_legacy_load_uhash_total.

(* the loader as pinned (before the fix f8aa4e6) indexes out of range *)
Theorem C12_legacy_load_bin_pinned_refuted :
  exists bs, load_bin_pinned bs = Panic SITE_BIN_DELETED_INDEX.
Proof. exact load_bin_pinned_refuted. Qed.
Print Assumptions C12_legacy_load_bin_pinned_refuted.

(* ------------------------------------------------------------------ *)
(* non-vacuity *)

(* a valid file opens, a lookup finds its phrase, entries lists it *)
Example C12_nonvacuous_valid :
  exists t, open w_small_one = Ok t /\
            lookup t [11859] 18446744073709551615 STANDARD = Ok [mkPhrase [230; 184; 172] 1 None] /\
            entries t = Ok [([11859], mkPhrase [230; 184; 172] 1 None)].
Proof. eexists. split; [vm_compute; reflexivity|]. split; vm_compute; reflexivity. Qed.

(* both alternatives of the theorem occur: a truncated file is an error *)
Example C12_nonvacuous_err : open (firstn 40 w_small_one) = Err 1 /\ bytes_ok w_small_one.
Proof. split; [vm_compute; reflexivity|]. unfold bytes_ok, w_small_one. repeat constructor. Qed.
