(* C19 - Legacy user data is migrated completely, exactly once, and never destroyed.
   Property theorems only; each is closed by a lemma from Proofs/ and followed by
   Print Assumptions.  Models: Model/Uhash.v (byte-level legacy hash formats and
   their printers), Model/LegacySqlite.v (relational v1 -> v2 migration),
   Model/Loader.v (start-up at map level).  Constants and column types:
   Gen/Uhash_gen.v (regenerated from the source).  Persistence of the new
   dictionary (flush, close, reopen) is C10 / C11. *)
From Coq Require Import NArith ZArith List Bool.
From LC Require Import Base.Lib Gen.Uhash_gen Model.Utf8Dfa Model.Uhash Model.LegacySqlite Model.Loader
  Proofs.Utf8DfaProofs Proofs.Utf8EncSweep Proofs.UhashProofs Proofs.LoaderProofs.
Import ListNotations.
Open Scope N_scope.

(* ---- the two hash-file formats: loader o printer ---- *)

(* text format: every valid record list and EVERY lifetime a 64-bit integer can
   hold (the legacy engine keeps a C int) is read back exactly *)
Theorem C19_text_roundtrip : forall lt rs,
  (-9223372036854775808 <= lt < 9223372036854775808)%Z ->
  forallb lrec_wf rs = true -> forallb lrec_text_ok rs = true ->
  load_text (print_text lt rs) = Ok (map entry_of rs).
Proof. exact load_text_print. Qed.
Print Assumptions C19_text_roundtrip.

(* the statement is false of the pinned tree (lifetime parsed as c_ushort): witness
   lifetime 70000 with the record of the golden file; replayed in corpus/C19-text-lifetime-70000.json;
   fixed by /repo 38516c3 *)
Theorem C19_text_roundtrip_pinned_refuted :
  exists lt rs, c_int_ok lt = true /\ forallb lrec_wf rs = true /\ forallb lrec_text_ok rs = true /\
                load_text_pinned (print_text lt rs) = Err E_INVALID_DATA.
Proof. exact load_text_pinned_refuted. Qed.
Print Assumptions C19_text_roundtrip_pinned_refuted.

(* binary format: the valid records in order; deleted records and records with a
   negative integer are skipped; any lifetime *)
Theorem C19_bin_roundtrip : forall lt rs,
  forallb lrec_wf rs = true ->
  load_bin (print_bin lt rs) = Ok (map entry_of (filter (fun r => negb (lr_dead r)) rs)).
Proof. exact load_bin_print. Qed.
Print Assumptions C19_bin_roundtrip.

(* ---- first context creation: complete, exact, no duplicates ---- *)

Theorem C19_migrate_bin : forall lt rs,
  forallb lrec_wf rs = true ->
  NoDup (map lrec_key (filter (fun r => negb (lr_dead r)) rs)) ->
  exists u', startup (only_uhash (print_bin lt rs)) = Ok (map entry_kv (live_entries rs), u') /\
             ud_uhash u' = Some (print_bin lt rs).
Proof. exact startup_bin. Qed.
Print Assumptions C19_migrate_bin.

Theorem C19_migrate_text : forall lt rs,
  (-9223372036854775808 <= lt < 9223372036854775808)%Z ->
  forallb lrec_wf rs = true -> forallb lrec_text_ok rs = true ->
  NoDup (map lrec_key rs) ->
  exists u', startup (only_uhash (print_text lt rs)) = Ok (map entry_kv (map entry_of rs), u') /\
             ud_uhash u' = Some (print_text lt rs).
Proof. exact startup_text. Qed.
Print Assumptions C19_migrate_text.

(* SQLite store (current schema): everything entries() lists is copied *)
Theorem C19_migrate_sqlite : forall db db',
  sqlite_open db = Ok db' ->
  NoDup (map entry_key (sqlite_entries db')) ->
  exists u', startup (only_sqlite db) = Ok (map entry_kv (sqlite_entries db'), u') /\
             ud_sqlite u' = Some db'.
Proof. exact startup_sqlite. Qed.
Print Assumptions C19_migrate_sqlite.

(* the older SQLite schema: every v1 row is copied exactly once (as many user rows
   as v1 rows, marker set), with its syllables, phrase, user frequency and time;
   the v1 table still holds all rows *)
Theorem C19_sqlite_v1_to_v2 : forall rows,
  forallb v1row_wf rows = true -> NoDup (map v1_key rows) ->
  exists db', sqlite_open (v1_store rows) = Ok db' /\
              sqlite_entries db' = map v1_entry rows /\
              length (db_user db') = length rows /\
              db_v1 db' = Some rows /\ db_marker db' = true.
Proof. exact sqlite_v1_migration. Qed.
Print Assumptions C19_sqlite_v1_to_v2.

Theorem C19_migrate_sqlite_v1 : forall rows,
  forallb v1row_wf rows = true -> NoDup (map v1_key rows) ->
  exists u' db', startup (only_sqlite (v1_store rows)) = Ok (map entry_kv (map v1_entry rows), u') /\
                 ud_sqlite u' = Some db' /\ db_v1 db' = Some rows /\
                 sqlite_open db' = Ok db'.
Proof. exact startup_sqlite_v1. Qed.
Print Assumptions C19_migrate_sqlite_v1.

(* whatever the legacy store holds (valid or not, repeated keys or not) the new
   dictionary never lists a key twice, and a repeated key keeps its last value *)
Theorem C19_no_duplicates : forall es, NoDup (map fst (migrate es)).
Proof. exact migrate_nodup. Qed.
Print Assumptions C19_no_duplicates.

Theorem C19_last_record_wins : forall es k,
  dict_lookup (migrate es) k =
  match find (fun e => ukey_eqb k (entry_key e)) (rev es) with
  | Some e => Some (entry_val e)
  | None => None
  end.
Proof. exact migrate_lookup. Qed.
Print Assumptions C19_last_record_wins.

(* ---- exactly once, never destroyed ---- *)

(* creating the context again returns the same dictionary and the same directory *)
Theorem C19_second_startup_identity : forall u d u',
  startup u = Ok (d, u') -> startup u' = Ok (d, u').
Proof. exact startup_idempotent. Qed.
Print Assumptions C19_second_startup_identity.

(* ... and does not look at the legacy stores *)
Theorem C19_second_startup_ignores_legacy : forall d h1 s1 h2 s2,
  exists u1' u2',
    startup {| ud_current := Some d; ud_uhash := h1; ud_sqlite := s1 |} = Ok (d, u1') /\
    startup {| ud_current := Some d; ud_uhash := h2; ud_sqlite := s2 |} = Ok (d, u2').
Proof. exact startup_ignores_legacy. Qed.
Print Assumptions C19_second_startup_ignores_legacy.

(* the legacy stores still hold all their records after any start-up: the hash
   file byte for byte, the SQLite store row for row *)
Theorem C19_legacy_never_destroyed : forall u d u',
  startup u = Ok (d, u') -> legacy_of u' = legacy_of u.
Proof. exact startup_keeps_legacy. Qed.
Print Assumptions C19_legacy_never_destroyed.

(* the SQLite v1 -> v2 copy runs once: a second open changes nothing *)
Theorem C19_sqlite_marker : forall db db', sqlite_open db = Ok db' -> sqlite_open db' = Ok db'.
Proof. exact sqlite_open_idempotent. Qed.
Print Assumptions C19_sqlite_marker.

(* ---- repeated start-ups interleaved with learning ---- *)

(* any history of sessions = the first migration followed by all the learning,
   in order; the legacy stores are untouched throughout *)
Theorem C19_sessions : forall hist u d u',
  sessions u hist = Ok (d, u') ->
  exists d0 u0, startup u = Ok (d0, u0) /\ d = fold_left learn hist d0 /\ legacy_of u' = legacy_of u.
Proof. exact sessions_spec. Qed.
Print Assumptions C19_sessions.

(* learned phrases are kept alongside the migrated ones: learning answers with
   the last learned value and leaves every other key as it was, without duplicates *)
Theorem C19_learning_keeps_migrated : forall d ls k,
  ~ In k (map fst ls) -> dict_lookup (learn d ls) k = dict_lookup d k.
Proof. exact learn_keeps_others. Qed.
Print Assumptions C19_learning_keeps_migrated.

Theorem C19_learning_lookup : forall ls d k,
  dict_lookup (learn d ls) k =
  match find (fun kv => ukey_eqb k (fst kv)) (rev ls) with
  | Some kv => Some (snd kv)
  | None => dict_lookup d k
  end.
Proof. exact learn_lookup. Qed.
Print Assumptions C19_learning_lookup.

Theorem C19_learning_no_duplicates : forall ls d, NoDup (map fst d) -> NoDup (map fst (learn d ls)).
Proof. exact learn_nodup. Qed.
Print Assumptions C19_learning_no_duplicates.

(* ---- non-vacuity ---- *)

(* the golden record is well formed; a store with a deleted and a negative record
   beside it migrates to exactly that record, from both formats, lifetime 2^31-1 *)
Definition ex_deleted : lrec :=
  {| lr_phrase := [230; 184; 172]; lr_syls := [10268]; lr_user := 5%Z; lr_time := 1%Z; lr_max := 5%Z; lr_orig := 1%Z; lr_deleted := true |}.
Definition ex_negative : lrec :=
  {| lr_phrase := [232; 169; 166]; lr_syls := [8708]; lr_user := (-3)%Z; lr_time := 1%Z; lr_max := 5%Z; lr_orig := 1%Z; lr_deleted := false |}.
Example C19_nonvacuous :
  forallb lrec_wf [ex_deleted; golden_rec; ex_negative] = true /\
  lrec_text_ok golden_rec = true /\
  migrate_uhash (print_bin 2147483647 [ex_deleted; golden_rec; ex_negative]) = Ok [entry_kv (entry_of golden_rec)] /\
  migrate_uhash (print_text 2147483647 [golden_rec]) = Ok [entry_kv (entry_of golden_rec)] /\
  load_text_pinned (print_text 2147483647 [golden_rec]) = Err E_INVALID_DATA.
Proof. vm_compute. repeat split; reflexivity. Qed.

(* every string of Unicode scalar values without white space gives a well-formed phrase field *)
Example C19_phrases_nonvacuous : forall cs,
  forallb scalar_ok cs = true ->
  utf8_ok (utf8_enc cs) = true /\ utf8_nchars (utf8_enc cs) = len_N cs /\ bytes_ok (utf8_enc cs) = true.
Proof. exact enc_ok. Qed.

Example C19_sqlite_nonvacuous :
  let r := {| r1_time := 6; r1_user := 9999; r1_max := 9318; r1_orig := 318; r1_len := 2;
              r1_phones := [10268; 8708; 0; 0; 0; 0; 0; 0; 0; 0; 0]; r1_phrase := [231; 173; 150; 232; 169; 166] |} in
  v1row_wf r = true /\
  match sqlite_open (v1_store [r]) with
  | Ok db' => sqlite_entries db' = [v1_entry r] /\ sqlite_open db' = Ok db'
  | _ => False
  end.
Proof. vm_compute. repeat split; reflexivity. Qed.
