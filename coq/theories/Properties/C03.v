(* C03 - Conversion always tiles the whole buffer, one output character per symbol.
   Property theorems only (proofs: Proofs/ConversionProofs.v). *)
From Coq Require Import NArith List Bool Arith Lia.
From LC Require Import Base.Lib Model.Composition Model.Conversion Proofs.CompositionProofs Proofs.ConversionProofs Proofs.GraphPath Proofs.SimpleEngineProofs Model.Engine Proofs.EngineProofs.
From Coq Require Import Permutation.
Import ListNotations.
Open Scope nat_scope.

Section C03.
Variable lookup : lookup_fn.
(* well-formed dictionary: a phrase has one character per syllable of its key; no empty key *)
Hypothesis lookup_len : forall syms p, In p (lookup syms) -> length (fst p) = length syms.
Hypothesis lookup_nil : lookup [] = [].
(* Syllable::to_string: the text find_best_phrase falls back to for a syllable without any word *)
Variable spell : N -> list N.
Variable c : composition.
(* compositions built from the public operations (Proofs/CompositionProofs: wf_comp - which includes
   "a recorded choice covers syllables only and has no break inside" - is preserved by every operation and
   holds after every history of the editor, C05) whose selections carry one character per symbol *)
Hypothesis Wc : wf_comp c.
Hypothesis sel_len : Forall (fun s => length (itext s) = ie s - ib s) (selections c).
(* the property's "dictionary that has at least one word per syllable": every syllable of the buffer
   has a word under the engine's lookup strategy.  (Since fix e6644f0 a syllable WITHOUT any word -
   left behind by a switch from fuzzy to standard lookup, or by removing its only word - is shown
   by its spelling instead of crashing the conversion; such an edge has more than one character
   and is outside this property's quantifier.) *)
Hypothesis has_word : forall s, In (SymSyl s) (symbols c) -> lookup [SymSyl s] <> [].

(* every edge of the interval graph built by find_best_phrase / find_intervals is well-formed:
   non-empty, in range, no break strictly inside, no partial overlap with a selection, agrees with
   every contained selection, a non-syllable symbol is a single unchanged character, one
   character per covered symbol *)
Theorem C03_graph_edges : forall g, In g (find_intervals spell lookup c) -> edge_ok c g.
Proof. exact (graph_edges_ok lookup lookup_len lookup_nil spell c Wc sel_len has_word). Qed.

(* EVERY 0->len path through the graph - hence every alternative any ranking returns, for the
   Chewing and the Fuzzy engine - glues (glue_fn) into intervals that start at 0, are contiguous,
   end at the buffer length, and each is well-formed (iv_ok: one character per symbol, phrase
   intervals cover syllables only, character intervals are the unchanged symbol, no break inside,
   selections respected) *)
Theorem C03_every_path_tiles : forall p,
  path_ok (find_intervals spell lookup c) 0 (clen c) p = true ->
  let ivs := glue_path c (map edge_interval p) in
  contiguous 0 (clen c) ivs = true /\ Forall (iv_ok c) ivs.
Proof. exact (every_path_tiles lookup lookup_len lookup_nil spell c Wc sel_len has_word). Qed.

(* whatever segmentation the implementation returned, once accepted by the model's checker
   (run on EVERY logged conversion by the correspondence check), is such a tiling *)
Theorem C03_validated_conversion_tiles : forall ivs, symbols c <> [] -> valid_conversion spell lookup c ivs = true ->
  contiguous 0 (clen c) ivs = true /\ Forall (iv_ok c) ivs.
Proof. exact (valid_conversion_tiles lookup lookup_len lookup_nil spell c Wc sel_len has_word). Qed.

(* non-syllable symbols appear unchanged at their own position in the pre-edit string, which is
   the concatenation of the interval texts (display_of = flat_map itext by definition) *)
Theorem C03_char_symbols_unchanged : forall ivs k ch,
  contiguous 0 (clen c) ivs = true -> Forall (iv_ok c) ivs -> nth_error (symbols c) k = Some (SymChar ch) ->
  nth_error (display_of ivs) k = Some ch.
Proof. exact (char_symbols_unchanged c). Qed.

End C03.
Print Assumptions C03_graph_edges.
Print Assumptions C03_every_path_tiles.
Print Assumptions C03_validated_conversion_tiles.
Print Assumptions C03_char_symbols_unchanged.

(* ---- there always is a path (so shortest_path().unwrap() / find_k_paths cannot come back empty) ---- *)
(* For EVERY well-formed composition and EVERY dictionary (no has_word needed since fix e6644f0: a syllable
   without a word keeps an edge, its spelling): a recorded choice is an edge of its own range, every other
   symbol an edge of its own. *)
Section PathExists.
Variable lookup : lookup_fn.
Variable spell : N -> list N.
Variable c : composition.
Hypothesis Wc : wf_comp c.
Theorem C03_a_path_always_exists : exists p, path_ok (find_intervals spell lookup c) 0 (clen c) p = true.
Proof. exact (graph_has_a_path lookup spell c Wc). Qed.
End PathExists.
Print Assumptions C03_a_path_always_exists.

(* on the pinned tree a syllable without a word had no edge at all, the graph of the one-syllable buffer
   was empty and no path existed (chewing_buffer_String aborted): fixed by e6644f0 *)
Theorem C03_path_missing_pinned_refuted : forall p,
  path_ok (find_intervals_pinned (fun _ => []) (mkComp [SymSyl 100%N] [GBegin] [])) 0 1 p = false.
Proof. exact no_path_pinned. Qed.
Print Assumptions C03_path_missing_pinned_refuted.


(* ---- the Chewing / Fuzzy engine itself (Model/Engine.v: find_k_paths, shortest_path, trim_paths, the
   ranking), not only "every path": EVERY alternative ChewingEngine::convert returns - for every sort of
   the candidate paths, buffers of up to 4000 symbols - is a tiling of well-formed intervals ---- *)
Section ChewingEngine.
Variable lookup : lookup_fn.
Hypothesis lookup_len : forall syms p, In p (lookup syms) -> length (fst p) = length syms.
Hypothesis lookup_nil : lookup [] = [].
Variable spell : N -> list N.
Variable c : composition.
Hypothesis Wc : wf_comp c.
Hypothesis sel_len : Forall (fun s => length (itext s) = ie s - ib s) (selections c).
Hypothesis has_word : forall s, In (SymSyl s) (symbols c) -> lookup [SymSyl s] <> [].
Variable sortu : list path -> list path.
Hypothesis sortu_perm : forall l, Permutation (sortu l) l.

Theorem C03_every_alternative_of_the_engine_tiles : clen c <= 4000 ->
  exists alts, chewing_convert sortu spell lookup c = Ok alts /\ alts <> [] /\
    forall ivs, In ivs alts -> contiguous 0 (clen c) ivs = true /\ Forall (iv_ok c) ivs.
Proof.
  intros Hl. unfold chewing_convert.
  destruct (chewing_convert_spec lookup lookup_nil spell c Wc sortu sortu_perm Hl) as (alts & b & -> & Hne & Hall).
  cbn [bind fst]. exists alts. split; [reflexivity|]. split; [exact Hne|]. intros ivs Hin.
  destruct (Hall ivs Hin) as (Hc & Hp). split; [exact Hc|].
  assert (Hd : symbols c = [] \/ symbols c <> []) by (destruct (symbols c); [now left | right; discriminate]).
  destruct Hd as [Es|Es].
  - (* empty buffer: the one alternative is the empty list *)
    assert (Hz : clen c = 0) by (unfold clen; now rewrite Es). rewrite Hz in Hc.
    destruct ivs as [|iv ivs]; [constructor|]. cbn [contiguous] in Hc.
    apply andb_true_iff in Hc as [Hc Hc3]. apply andb_true_iff in Hc as [Hc1 Hc2]. apply Nat.eqb_eq in Hc1. apply Nat.ltb_lt in Hc2.
    exfalso. clear - Hc1 Hc2 Hc3.
    assert (G : forall l from, 0 < from -> contiguous from 0 l = false).
    { induction l as [|x l IH]; intros from Hf; cbn [contiguous].
      - apply Nat.eqb_neq. lia.
      - destruct (Nat.eqb (ib x) from) eqn:E1; [|reflexivity]. destruct (Nat.ltb (ib x) (ie x)) eqn:E2; [|reflexivity]. cbn [andb].
        apply IH. apply Nat.ltb_lt in E2. lia. }
    rewrite G in Hc3 by lia. discriminate.
  - destruct (Hp Es) as (p & Hp' & ->).
    exact (proj2 (every_path_tiles lookup lookup_len lookup_nil spell c Wc sel_len has_word p Hp')).
Qed.
End ChewingEngine.
Print Assumptions C03_every_alternative_of_the_engine_tiles.

(* ---- SimpleEngine::convert (modelled exactly; compared for equality on every logged conversion) ---- *)
Section SimpleEngine.
Variable lookup1 : N -> option (list N).      (* dict.lookup_first_phrase(&[syllable]) *)
Variable spell : N -> list N.
Variable c : composition.
Hypothesis Wc : wf_comp c.

(* it tiles the buffer - for every dictionary *)
Theorem C03_simple_engine_contiguous : contiguous 0 (clen c) (simple_convert lookup1 spell c) = true.
Proof. exact (simple_convert_contiguous lookup1 spell c Wc). Qed.

(* every interval is a recorded choice, a character as itself, or a syllable by its first word (its
   spelling when there is none); every recorded choice is shown *)
Theorem C03_simple_engine_intervals : forall x, In x (simple_convert lookup1 spell c) ->
  In x (selections c) \/
  (exists i ch, nth_error (symbols c) i = Some (SymChar ch) /\ x = mkIv i (S i) false [ch]) \/
  (exists i s, nth_error (symbols c) i = Some (SymSyl s) /\
               x = mkIv i (S i) true (match lookup1 s with Some t => t | None => spell s end)).
Proof. exact (simple_convert_members lookup1 spell c). Qed.

Theorem C03_simple_engine_keeps_choices : forall sel, In sel (selections c) -> In sel (simple_convert lookup1 spell c).
Proof. exact (simple_convert_keeps_choices lookup1 spell c). Qed.

(* the tiling contract (one character per symbol, characters unchanged) under the property's quantifier *)
Hypothesis lookup1_len : forall s t, lookup1 s = Some t -> length t = 1.
Hypothesis has_word1 : forall s, In (SymSyl s) (symbols c) -> lookup1 s <> None.
Hypothesis sel_len : Forall (fun s => length (itext s) = ie s - ib s) (selections c).
Theorem C03_simple_engine_tiles : tiling_ok c (simple_convert lookup1 spell c) = true.
Proof. exact (simple_convert_tiling_ok lookup1 spell c Wc lookup1_len has_word1 sel_len). Qed.
End SimpleEngine.
Print Assumptions C03_simple_engine_contiguous.
Print Assumptions C03_simple_engine_intervals.
Print Assumptions C03_simple_engine_keeps_choices.
Print Assumptions C03_simple_engine_tiles.

(* non-vacuity: a composition with a break, a selection and a character symbol, a dictionary, a
   path, and its glued tiling *)
Definition ex_lookup : lookup_fn := fun syms =>
  match syms with
  | [SymSyl 100%N] => [([30000%N], 5%N)]
  | [SymSyl 100%N; SymSyl 100%N] => [([30001%N; 30002%N], 9%N)]
  | _ => []
  end.
Definition ex_comp : composition :=
  mkComp [SymSyl 100%N; SymSyl 100%N; SymChar 65%N; SymSyl 100%N] [GBegin; GNormal; GNormal; GNormal]
         [mkIv 0 2 true [30001%N; 30002%N]].
Example C03_nonvacuous :
  exists p, path_ok (find_intervals (fun _ => []) ex_lookup ex_comp) 0 (clen ex_comp) p = true /\
            display_of (glue_path ex_comp (map edge_interval p)) = [30001%N; 30002%N; 65%N; 30000%N].
Proof.
  exists [mkEdge 0 2 (PPhrase [30001%N; 30002%N] 9%N); mkEdge 2 3 (PSym (SymChar 65%N)); mkEdge 3 4 (PPhrase [30000%N] 5%N)].
  vm_compute. split; reflexivity.
Qed.

(* ... and that composition meets the hypothesis of the theorems above *)
Example C03_example_is_well_formed : wf_comp ex_comp.
Proof.
  constructor; cbn [ex_comp gaps symbols selections clen length].
  - reflexivity.
  - repeat constructor; cbn; lia.
  - repeat constructor.
  - intros s [<-|[]]. split; cbn [ib ie]; intros k Hk.
    + assert (k = 0 \/ k = 1) as [-> | ->] by lia; eexists; reflexivity.
    + assert (k = 1) as -> by lia. cbn. discriminate.
Qed.

(* ---- through the C API: after EVERY sequence of C calls (keys with any int, candidate / configuration / user-phrase
   calls, resets, engine and layout switches at any moment) the conversion the context reports for its buffer - with
   the modelled engines, all three kinds - starts at 0, is contiguous and ends at chewing_buffer_Len; the pre-edit
   string chewing_buffer_String is the concatenation of the interval texts ---- *)
From Coq Require Import ZArith.
From LC Require Import Gen.Editor_gen Gen.Keyboard_gen Model.Editor Model.EditorRun Model.EdInst Model.CapiKeys Model.CapiConfig Model.CapiRun
     Proofs.EditorInv Proofs.EdInstProofs Proofs.CapiKeysProofs Proofs.CapiInv Proofs.EngineTiles Proofs.CapiEnter.
Theorem C03_reported_conversion_tiles_the_buffer_after_any_C_calls : forall ss d ab t0 ops c,
  ss_good ss -> ss_cursor ss = None -> md_fine d -> Forall cop_fine ops ->
  crun mf_conv (cx_init d ab ss t0) ops = Ok c ->
  contiguous 0 (Z.to_nat (chewing_buffer_Len c)) (conversion mf_conv (sh (cx_ed c))) = true /\
  chewing_buffer_String mf_conv c = flat_map itext (conversion mf_conv (sh (cx_ed c))).
Proof.
  intros ss d ab t0 ops c Hg Hf Hd Hops H.
  pose proof (crun_inv mf_conv mf_conv_tiles ss Hg Hf ops (cx_init d ab ss t0) c Hops (cx_init_inv ss d ab t0 Hg Hf Hd) H) as [[[W Hdk _ _] _] _].
  split; [|reflexivity].
  unfold chewing_buffer_Len, flag, c_flags. cbn [List.nth]. rewrite Nat2Z.id. unfold conversion, ce_len.
  apply mf_conv_tiles; [exact Hdk | destruct W as [Wi _]; exact Wi].
Qed.
Print Assumptions C03_reported_conversion_tiles_the_buffer_after_any_C_calls.
