(* C15 - The C API stays memory-safe and its strings well-formed under any call order.
   PARTIAL by nature: the theorems are about the ownership / lifetime / string
   contract of Model/CapiMem.v (which handle owns or borrows what, which layout a
   block is allocated and released with, the bytes copy_cstr leaves in a static
   buffer).  Actual loads and stores, the allocator, and races with the
   background dictionary writer are outside the model; valgrind runs of the
   harness are runtime support, not proof.
   [cfg_current] (Gen/CapiMem_gen.v) is re-read from capi/src/io.rs, public.rs on
   every run; [cfg_pinned] is the tree as it was pinned (before the C15 repairs). *)
From Coq Require Import NArith ZArith PeanoNat List Bool.
From LC Require Import Base.Lib Base.Text Model.CapiMem Gen.CapiMem_gen Proofs.CapiMemProofs.
Import ListNotations.
Open Scope N_scope.

(* ---------------- copy_cstr ---------------- *)

(* For every text without interior NUL and every capacity, in both forms of the code: when the text
   is shorter than the buffer, the buffer is text + NUL + zero fill, reading it as a C string gives the
   text, and that is exactly what the heap variant (CString: text ++ [0]) gives. *)
Theorem C15_copy_cstr_fits : forall reserve cap s,
  (length s < cap)%nat -> no_nul s = true ->
  copy_cstr reserve cap s = s ++ repeat 0 (cap - length s) /\
  c_str (copy_cstr reserve cap s) = s /\
  has_nul (copy_cstr reserve cap s) = true /\
  c_str (copy_cstr reserve cap s) = c_str (s ++ [0]).
Proof. exact copy_cstr_fits. Qed.
Print Assumptions C15_copy_cstr_fits.

(* The code as pinned, |s| >= cap: the buffer holds the first cap bytes and NO terminator ... *)
Theorem C15_copy_cstr_pinned_overflow : forall cap s,
  (cap <= length s)%nat -> no_nul s = true ->
  copy_cstr false cap s = firstn cap s /\ has_nul (copy_cstr false cap s) = false.
Proof. exact copy_cstr_unfixed_overflow. Qed.
Print Assumptions C15_copy_cstr_pinned_overflow.

(* ... and may end inside a multi-byte character: "NUL-terminated valid UTF-8" is refuted for it *)
Theorem C15_copy_cstr_pinned_refuted : exists cap s,
  utf8_valid s = true /\ no_nul s = true /\
  has_nul (copy_cstr false cap s) = false /\ utf8_valid (copy_cstr false cap s) = false.
Proof. exists 4%nat, [65; 65; 228; 184; 173]. vm_compute. repeat split. Qed.
Print Assumptions C15_copy_cstr_pinned_refuted.

(* The repaired form, for EVERY valid text and capacity >= 1: terminated; the C string is the prefix of
   the text of length copy_len, which is a character boundary <= cap-1; it is valid UTF-8; it is the
   whole text when the text fits. *)
Theorem C15_copy_cstr_reserve_spec : forall cap s,
  (1 <= cap)%nat -> utf8_valid s = true -> no_nul s = true ->
  let n := copy_len true cap s in
  (n <= cap - 1)%nat /\
  has_nul (copy_cstr true cap s) = true /\
  c_str (copy_cstr true cap s) = firstn n s /\
  utf8_valid (c_str (copy_cstr true cap s)) = true /\
  is_char_boundary s n = true /\
  ((length s < cap)%nat -> c_str (copy_cstr true cap s) = s).
Proof. exact copy_cstr_reserve_spec. Qed.
Print Assumptions C15_copy_cstr_reserve_spec.

(* ... and the kept prefix is the LONGEST one possible: every character boundary of the text that leaves
   room for the terminator lies inside it (nothing that would still fit is dropped) *)
Theorem C15_copy_cstr_reserve_maximal : forall cap s j,
  is_char_boundary s j = true -> (j <= cap - 1)%nat -> (j <= length s)%nat -> (j <= copy_len true cap s)%nat.
Proof. exact copy_len_max. Qed.
Print Assumptions C15_copy_cstr_reserve_maximal.

(* The code as it is now (facts re-read from capi/src/io.rs, public.rs): every one of the six static
   buffers, for EVERY valid text: NUL-terminated within its capacity, valid UTF-8, a prefix of the text
   cut on a character boundary, and equal to the heap variant's text whenever |s| < cap. *)
Theorem C15_copy_cstr_spec : forall b s,
  utf8_valid s = true -> no_nul s = true ->
  let cap := N.to_nat (cap_of cfg_current b) in
  let r := copy_cstr (cstr_reserve cfg_current) cap s in
  length r = cap /\
  has_nul r = true /\
  utf8_valid (c_str r) = true /\
  c_str r = firstn (copy_len (cstr_reserve cfg_current) cap s) s /\
  ((length s < cap)%nat -> c_str r = s /\ c_str (s ++ [0]) = s).
Proof.
  intros b s Hv Hn cap r.
  assert (Hres : cstr_reserve cfg_current = true) by reflexivity.
  assert (Hcap : (1 <= cap)%nat) by (destruct b; vm_compute; repeat constructor).
  unfold r. rewrite Hres.
  destruct (copy_cstr_reserve_spec cap s Hcap Hv Hn) as [_ [H1 [H2 [H3 [_ H5]]]]].
  split; [apply copy_cstr_length|]. split; [exact H1|]. split; [exact H3|]. split; [exact H2|].
  intros Hlt. split; [now apply H5|]. now apply c_str_app_nul.
Qed.
Print Assumptions C15_copy_cstr_spec.

(* data bounds under which reachable strings fit (|s| < cap): any text of <= 63 characters fits the
   256-byte buffers (pre-edit <= auto-commit threshold 39 + one phrase of <= 11, aux messages, commit
   string, candidates of well-formed dictionaries <= 11 characters, symbol category names); a bopomofo
   buffer text is <= 4 BMP symbols or <= 10 ASCII Pinyin keys; keyboard names are the generated table *)
Theorem C15_bounds :
  (forall cs, forallb is_scalar cs = true -> (length cs <= 63)%nat -> (length (utf8_encode cs) < 256)%nat) /\
  (forall cs, forallb is_scalar cs = true -> forallb (fun c => c <? 65536) cs = true ->
              (length cs <= 5)%nat -> (length (utf8_encode cs) < 16)%nat) /\
  forallb (fun n => len_N n <? cap_kbtype cfg_current) (kb_names cfg_current) = true /\
  max_auto_commit_threshold + max_phrase_len <= 63 /\
  symbols_max_name_bytes < cap_cand cfg_current /\
  4 * max_phrase_len < cap_cand cfg_current.
Proof.
  split; [exact text_fits_256|]. split; [exact text_fits_16|].
  vm_compute. repeat split; intro H; discriminate H.
Qed.
Print Assumptions C15_bounds.

(* Over ALL call sequences on the code as it is now: whenever the texts the editor supplies are valid
   UTF-8 without U+0000, EVERY string handed to the caller - heap results, every static buffer after
   every *_static call (including the iterator variants, which serve texts captured earlier), the
   buffers filled by chewing_userphrase_get - is NUL-terminated valid UTF-8 within its capacity. *)
Theorem C15_strings_wellformed : forall fb ops,
  forallb op_texts_okb ops = true -> Forall (res_ok cfg_current) (run cfg_current (init fb) ops).
Proof.
  apply strings_wellformed. split; [reflexivity|]. split.
  - intros b. destruct b; vm_compute; intro H; discriminate H.
  - vm_compute. reflexivity.
Qed.
Print Assumptions C15_strings_wellformed.

(* ---------------- iterator lifetimes ---------------- *)

(* Whenever the user-phrase iterator owns its snapshot (the other three always do), NO call sequence
   - any length, any interleaving of enumerate/has_next/get with mutating calls, key events that learn,
   reloads, any timing of the background writer - reaches Dangling. *)
Theorem C15_no_dangling_when_owning : forall cfg, up_owns cfg = true ->
  forall fb ops, existsb is_dangling (run cfg (init fb) ops) = false.
Proof. exact no_dangling_own. Qed.
Print Assumptions C15_no_dangling_when_owning.

(* The code as it is now: chewing_userphrase_enumerate collects (fact re-read from the source). *)
Theorem C15_no_dangling : forall fb ops, existsb is_dangling (run cfg_current (init fb) ops) = false.
Proof. exact (no_dangling_own cfg_current eq_refl). Qed.
Print Assumptions C15_no_dangling.

(* The pinned tree stores Entries<'static> borrowed from the user dictionary: refuted.  Witness:
   userphrase_enumerate, has_next, userphrase_add (update branch), one key event (reopen() replaces
   TrieBuf.trie, the old Trie is dropped), userphrase_get (served from Peekable's cache), has_next ->
   read through the dropped Trie. *)
Theorem C15_no_dangling_pinned_refuted : exists ops,
  In (RFault (Dangling TrieDropped)) (run (cfg_pinned kb_names_gen) (init true) ops).
Proof. exists witness_up. vm_compute. auto 10. Qed.
Print Assumptions C15_no_dangling_pinned_refuted.

(* ---------------- heap results and chewing_free ---------------- *)

(* every heap string is live and registered as a CString with its exact allocation layout when returned *)
Theorem C15_heap_result_registered : forall cfg s o a content,
  snd (step cfg s o) = RHeap a content ->
  assoc a (s_reg (fst (step cfg s o))) = Some OCString /\
  exists b, assoc a (s_heap (fst (step cfg s o))) = Some b /\ b_bytes b = content /\
            b_layout b = {| l_size := len_N content; l_align := 1 |}.
Proof. exact heap_result_registered. Qed.
Print Assumptions C15_heap_result_registered.

(* free_spec for any code that rebuilds the u16 slice as u16 and removes the entry: over ALL call
   sequences with a sane allocator, no release with a foreign layout and no release of a dead block ever
   happens; in every reachable state chewing_free(p) releases a live block with exactly its allocation
   layout, a second chewing_free(p) is ignored, and null / foreign pointers are ignored. *)
Theorem C15_free_spec_when_good : forall cfg, good_free cfg ->
  forall fb ops, env_ok_run cfg (init fb) ops ->
  existsb is_alloc_fault (run cfg (init fb) ops) = false /\
  forall p, let s := run_state cfg (init fb) ops in
    match assoc p (s_heap s) with
    | Some b => snd (step cfg s (OFree p)) = RDealloc p (b_layout b) /\
                assoc p (s_heap (fst (step cfg s (OFree p)))) = None /\
                snd (step cfg (fst (step cfg s (OFree p))) (OFree p)) = RNone
    | None => snd (step cfg s (OFree p)) = RNone
    end.
Proof. exact free_spec_good. Qed.
Print Assumptions C15_free_spec_when_good.

(* The code as it is now. *)
Theorem C15_free_spec : forall fb ops, env_ok_run cfg_current (init fb) ops ->
  existsb is_alloc_fault (run cfg_current (init fb) ops) = false /\
  forall p, let s := run_state cfg_current (init fb) ops in
    match assoc p (s_heap s) with
    | Some b => snd (step cfg_current s (OFree p)) = RDealloc p (b_layout b) /\
                assoc p (s_heap (fst (step cfg_current s (OFree p)))) = None /\
                snd (step cfg_current (fst (step cfg_current s (OFree p))) (OFree p)) = RNone
    | None => snd (step cfg_current s (OFree p)) = RNone
    end.
Proof. apply free_spec_good. repeat split; reflexivity. Qed.
Print Assumptions C15_free_spec.

(* pinned tree: the u16 slice of chewing_get_phoneSeq (3 syllables: 6 bytes, align 2) is handed back to the
   allocator as Vec<c_void> (3 bytes, align 1) *)
Theorem C15_free_layout_pinned_refuted : exists ops,
  env_ok_run (cfg_pinned kb_names_gen) (init true) ops /\
  In (RFault (LayoutMismatch {| l_size := 6; l_align := 2 |} {| l_size := 3; l_align := 1 |}))
     (run (cfg_pinned kb_names_gen) (init true) ops).
Proof.
  exists witness_free_u16. split.
  - cbn. repeat split; try discriminate; intros; discriminate.
  - vm_compute. auto.
Qed.
Print Assumptions C15_free_layout_pinned_refuted.

(* pinned tree: the registry entry survives chewing_free, so a second chewing_free of the same pointer
   releases the dead block again (the caller's mistake, executed instead of ignored) *)
Theorem C15_double_free_pinned_refuted : exists ops,
  In (RFault (FreeNotLive 4096)) (run (cfg_pinned kb_names_gen) (init true) ops).
Proof. exists witness_double_free. vm_compute. auto. Qed.
Print Assumptions C15_double_free_pinned_refuted.

(* ---------------- non-vacuity ---------------- *)

Example C15_nonvacuous_copy :
  copy_cstr true 8 [228; 184; 173; 230; 150; 135; 229; 173; 151] = [228; 184; 173; 230; 150; 135; 0; 0] /\
  copy_cstr false 8 [228; 184; 173; 230; 150; 135; 229; 173; 151] = [228; 184; 173; 230; 150; 135; 229; 173].
Proof. vm_compute. split; reflexivity. Qed.

(* an owning context runs the whole witness protocol, yields both entries and then stops *)
Example C15_nonvacuous_own :
  run {| up_owns := true; free_elem_size := 2; free_elem_align := 2; free_removes := true; cstr_reserve := true;
         up_get_checks := true; cap_commit := 256; cap_preedit := 256; cap_bopomofo := 16; cap_cand := 256;
         cap_aux := 256; cap_kbtype := 32; kb_names := kb_names_gen |} (init true)
      (witness_up ++ [OUpGet (Some 8) (Some 1); OUpHasNext]) =
  [RInt 0; RHasNext 2 2; RNone; RNone; RUpGet None None; RHasNext 2 2; RInt (-1); RInt 0].
Proof. vm_compute. reflexivity. Qed.

Example C15_nonvacuous_free :
  run {| up_owns := true; free_elem_size := 2; free_elem_align := 2; free_removes := true; cstr_reserve := true;
         up_get_checks := true; cap_commit := 256; cap_preedit := 256; cap_bopomofo := 16; cap_cand := 256;
         cap_aux := 256; cap_kbtype := 32; kb_names := kb_names_gen |} (init true)
      (witness_free_u16 ++ witness_double_free ++ [OPhoneSeq 0 0; OFree 2; OFree 77]) =
  [RSlice 4096 3; RDealloc 4096 {| l_size := 6; l_align := 2 |};
   RHeap 4096 [65; 0]; RDealloc 4096 {| l_size := 2; l_align := 1 |}; RNone;
   RSlice 2 0; RNone; RNone].
Proof. vm_compute. reflexivity. Qed.
