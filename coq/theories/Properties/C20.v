(* C20 - The dictionary compiler and dumper are inverse on well-formed sources.
   Property theorems only; each is closed by a lemma from Proofs/ and followed by
   Print Assumptions.  Model: Model/Cli.v (tools/src/init_database.rs parse_line
   and run, tools/src/dump.rs printers); syllable parser / printer:
   Model/Syllable.v (C13); delimiters, CSV header and dump separators:
   Gen/Uhash_gen.v (regenerated from the source).  The builders and file formats
   are taken at map level (C11 trie codec, C09 SQLite).
   Readings adopted (DESIGN appendix D): "malformed" = rejected by the faithful
   model of parse_line ([line_rejected]); "well-formed record" = [srec_wf]. *)
From Coq Require Import NArith List Bool Permutation.
From LC Require Import Base.Lib Gen.Uhash_gen Model.Syllable Model.SyllableSearch Model.Uhash Model.Cli
  Proofs.SyllableProofs Proofs.CliProofs.
Import ListNotations.
Open Scope N_scope.

(* the line codec: for every well-formed record, both delimiters, with and
   without --keep-word-freq *)
Theorem C20_line_roundtrip : forall csv keep r,
  srec_wf r = true -> parse_line (delim csv) keep (print_line csv r) = Some (zero_word_freq keep r).
Proof. exact parse_print_line. Qed.
Print Assumptions C20_line_roundtrip.

(* compile o dump-format: a source of printed well-formed records (after the CSV
   header in --csv mode) is accepted without error and compiles to the map of its
   records, single-character frequencies zeroed unless --keep-word-freq *)
Theorem C20_compile_printed : forall fl rs,
  forallb srec_wf rs = true ->
  run fl (header_lines (fl_csv fl) ++ map (print_line (fl_csv fl)) rs) =
  {| cr_errors := []; cr_exit := 0; cr_output := Some (compile_records (map (zero_word_freq (fl_keep fl)) rs)) |}.
Proof. exact run_printed. Qed.
Print Assumptions C20_compile_printed.

(* dump (compile src) = dedup (map parse src) at map level: the compiled
   dictionary answers every key with its LAST record, lists no key twice, and
   holds nothing that is not a record of the source *)
Theorem C20_compile_last_wins : forall rs k,
  sdict_lookup (compile_records rs) k =
  match find (fun r => skey_eqb k (srec_key r)) (rev rs) with
  | Some r => Some (sr_freq r)
  | None => None
  end.
Proof. exact compile_lookup. Qed.
Print Assumptions C20_compile_last_wins.

Theorem C20_compile_no_duplicates : forall rs, NoDup (map srec_key (compile_records rs)).
Proof. exact compile_nodup. Qed.
Print Assumptions C20_compile_no_duplicates.

Theorem C20_compile_nothing_invented : forall rs x, In x (compile_records rs) -> In x rs.
Proof. exact compile_in. Qed.
Print Assumptions C20_compile_nothing_invented.

Theorem C20_compile_distinct_keys_identity : forall rs, NoDup (map srec_key rs) -> compile_records rs = rs.
Proof. exact compile_nodup_id. Qed.
Print Assumptions C20_compile_distinct_keys_identity.

(* compile (dump (compile src)) = compile src, with the same flags *)
Theorem C20_recompile : forall fl rs,
  forallb srec_wf rs = true ->
  let d := compile_records (map (zero_word_freq (fl_keep fl)) rs) in
  run fl (dump_lines (fl_csv fl) d) = {| cr_errors := []; cr_exit := 0; cr_output := Some d |}.
Proof. exact recompile_dump. Qed.
Print Assumptions C20_recompile.

(* ... in whatever order the back end enumerates its entries: same lookups *)
Theorem C20_recompile_any_order : forall fl rs d',
  forallb srec_wf rs = true ->
  let d := compile_records (map (zero_word_freq (fl_keep fl)) rs) in
  Permutation d d' ->
  exists d2, run fl (header_lines (fl_csv fl) ++ map (print_line (fl_csv fl)) d') =
               {| cr_errors := []; cr_exit := 0; cr_output := Some d2 |} /\
             forall k, sdict_lookup d2 k = sdict_lookup d k.
Proof. exact recompile_dump_any_order. Qed.
Print Assumptions C20_recompile_any_order.

(* a malformed line is reported with its line number (line_num + 1), and only
   malformed lines are *)
Theorem C20_malformed_reported : forall fl lines n,
  In n (cr_errors (run fl lines)) <->
  exists i l, nth_error lines i = Some l /\ n = N.of_nat i + 1 /\ line_rejected fl (N.of_nat i) l = true.
Proof. exact run_reports. Qed.
Print Assumptions C20_malformed_reported.

(* ... the tool exits with status 1 and produces no output *)
Theorem C20_malformed_no_output : forall fl lines i l,
  nth_error lines i = Some l -> line_rejected fl (N.of_nat i) l = true -> fl_skip fl = false ->
  cr_exit (run fl lines) = 1 /\ cr_output (run fl lines) = None.
Proof. exact run_rejects. Qed.
Print Assumptions C20_malformed_no_output.

(* ... unless --skip-invalid was requested: then the accepted lines are compiled *)
Theorem C20_skip_invalid : forall fl lines,
  fl_skip fl = true \/ err_lines fl lines 0 = [] ->
  cr_exit (run fl lines) = 0 /\ cr_output (run fl lines) = Some (compile_records (ok_recs fl lines 0)).
Proof. exact run_skips. Qed.
Print Assumptions C20_skip_invalid.

(* the domain of "composable syllables": every non-empty component tuple *)
Theorem C20_composable_syllables : forall ci cm cr ct,
  in_range ci cm cr ct -> all_zero ci cm cr ct = false -> syl_ok (pack ci cm cr ct) = true.
Proof. exact syl_ok_pack. Qed.
Print Assumptions C20_composable_syllables.

(* ---- non-vacuity ---- *)
(* 測試 9318 ㄘㄜˋ ㄕˋ and the single character 測 77 ㄘㄜˋ: well formed; printed,
   parsed back; the single-character frequency is zeroed; a corrupted source is
   reported at line 2 and produces nothing, or the rest with --skip-invalid *)
Definition ex_r1 : srec := {| sr_syls := [10268; 8708]; sr_phrase := [28204; 35430]; sr_freq := 9318 |}.
Definition ex_r2 : srec := {| sr_syls := [10268]; sr_phrase := [28204]; sr_freq := 77 |}.
Definition ex_bad : list N := [28204; 35430; 32; 49; 50; 120; 32; 12568; 12572; 715].   (* 測試 12x ㄘㄜˋ *)
Example C20_nonvacuous :
  srec_wf ex_r1 = true /\ srec_wf ex_r2 = true /\
  parse_line 32 false (print_line false ex_r2) = Some {| sr_syls := [10268]; sr_phrase := [28204]; sr_freq := 0 |} /\
  parse_line 44 true (print_line true ex_r2) = Some ex_r2 /\
  run {| fl_csv := false; fl_keep := false; fl_skip := false |} [print_line false ex_r1; ex_bad; print_line false ex_r2]
    = {| cr_errors := [2]; cr_exit := 1; cr_output := None |} /\
  run {| fl_csv := false; fl_keep := false; fl_skip := true |} [print_line false ex_r1; ex_bad; print_line false ex_r2]
    = {| cr_errors := [2]; cr_exit := 0; cr_output := Some [ex_r1; zero_word_freq false ex_r2] |}.
Proof. vm_compute. repeat split; reflexivity. Qed.

(* parse_line sees a line only through its trimmed fields and tokens: any source
   style (quoted fields, runs of delimiters, a trailing comment) whose token
   views are those of a well-formed record parses to that record *)
Theorem C20_source_styles : forall d keep line r f0 f1 more tail,
  srec_wf r = true ->
  fields (N.eqb d) line = f0 :: f1 :: more ->
  trim_q f0 = sr_phrase r -> trim_q f1 = dec_N (sr_freq r) ->
  map trim_q (skipn 2 (fields (fun c => (c =? COMMA) || is_ws c) line)) = map spell (sr_syls r) ++ tail ->
  comment_tail tail ->
  parse_line d keep line = Some (zero_word_freq keep r).
Proof. exact parse_line_by_tokens. Qed.
Print Assumptions C20_source_styles.

(* the four documented styles (the unit tests of init_database.rs) *)
Definition ex_key : srec := {| sr_syls := [188; 8194]; sr_phrase := [38000; 21273]; sr_freq := 668 |}.
Definition ex_ssv : list N := [38000; 21273; 32; 54; 54; 56; 32; 12583; 12576; 715; 32; 12564; 714; 32; 35; 32; 110; 111; 116; 32; 111; 102; 102; 105; 99; 105; 97; 108].
Definition ex_ssv_spaces : list N := [38000; 21273; 32; 32; 32; 32; 32; 54; 54; 56; 32; 12583; 12576; 715; 32; 12564; 714; 32; 35; 32; 110; 111; 116; 32; 111; 102; 102; 105; 99; 105; 97; 108].
Definition ex_csv : list N := [38000; 21273; 44; 54; 54; 56; 44; 12583; 12576; 715; 32; 12564; 714; 32; 35; 32; 110; 111; 116; 32; 111; 102; 102; 105; 99; 105; 97; 108].
Definition ex_csv_quoted : list N := [34; 38000; 21273; 34; 44; 54; 54; 56; 44; 34; 12583; 12576; 715; 32; 12564; 714; 32; 35; 32; 110; 111; 116; 32; 111; 102; 102; 105; 99; 105; 97; 108; 34].
Example C20_styles_nonvacuous :
  srec_wf ex_key = true /\
  parse_line 32 false ex_ssv = Some ex_key /\ parse_line 32 false ex_ssv_spaces = Some ex_key /\
  parse_line 44 false ex_csv = Some ex_key /\ parse_line 44 false ex_csv_quoted = Some ex_key /\
  (* the hypotheses of C20_source_styles hold for the quoted CSV line *)
  (exists f0 f1 more tail,
     fields (N.eqb 44) ex_csv_quoted = f0 :: f1 :: more /\ trim_q f0 = sr_phrase ex_key /\ trim_q f1 = dec_N 668 /\
     map trim_q (skipn 2 (fields (fun c => (c =? COMMA) || is_ws c) ex_csv_quoted)) = map spell (sr_syls ex_key) ++ tail /\
     tail = [[HASH]; [110; 111; 116]; [111; 102; 102; 105; 99; 105; 97; 108]]).
Proof.
  repeat split; try (vm_compute; reflexivity).
  eexists _, _, _, _. vm_compute. repeat split; reflexivity.
Qed.

From LC Require Import Model.Utf8 Model.TrieCodec Proofs.TrieFileProofs Proofs.TrieLayout Proofs.TrieRoundtrip Proofs.TrieEntries Proofs.Utf8Inj Proofs.CliTrie.

(* ---- down to the trie file (C11): the map level above IS what the trie back end holds ----
   The records go to TrieBuilder::insert as (syllables, String, frequency): `entry_of`, the phrase as UTF-8 bytes
   (char::encode_utf8 is injective: Proofs/Utf8Inj.v).  A record of the source is enumerated by the trie built from
   the records exactly when the compiled map of the theorems above answers its key with its frequency - when it is
   the last record of its (syllables, phrase) pair; and the trie enumerates nothing but records of the source. *)
Theorem C20_the_trie_holds_the_compiled_map : forall rs, Forall rec_ok rs -> forall r, In r rs ->
  (In (entry_of r) (tentries (build (map entry_of rs))) <->
   sdict_lookup (compile_records rs) (srec_key r) = Some (sr_freq r)).
Proof. exact trie_holds_the_compiled_map. Qed.
Print Assumptions C20_the_trie_holds_the_compiled_map.

(* ... and so does the FILE: written from the records (within the format's capacities), opened again, enumerated - what
   `chewing-cli dump` prints one line each - it yields exactly the compiled map's records *)
Theorem C20_compile_write_dump_through_the_trie_file : forall info rs bytes,
  Forall rec_ok rs -> info_ok info -> root_ok (build (map entry_of rs)) ->
  write info (build (map entry_of rs)) = Ok bytes ->
  exists tr out, open bytes = Ok tr /\ entries tr = Ok out /\
    (forall r, In r rs -> (In (entry_of r) out <-> sdict_lookup (compile_records rs) (srec_key r) = Some (sr_freq r))) /\
    (forall e, In e out -> exists r, In r rs /\ e = entry_of r).
Proof.
  intros info rs bytes Hok Hi Hr Hw.
  destruct (write_read info _ bytes Hi Hr Hw) as (tr & Ho & _ & _ & (out & He & Hp)).
  exists tr, out. split; [exact Ho|]. split; [exact He|]. split.
  - intros r Hin. rewrite <- (trie_holds_the_compiled_map rs Hok r Hin). split; intros H.
    + eapply Permutation_in; [exact Hp | exact H].
    + eapply Permutation_in; [apply Permutation_sym; exact Hp | exact H].
  - intros e He'. apply (trie_holds_only_source_records rs). eapply Permutation_in; [exact Hp | exact He'].
Qed.
Print Assumptions C20_compile_write_dump_through_the_trie_file.

