(* C08 - Committed choices are learned, persist, and eventually become the default.
   Property theorems only (proofs: Proofs/LearnProofs.v).  Model: Model/Editor.v (estimate,
   learn_phrase, auto_learn, commit) tied to src/editor/{mod,estimate}.rs by the editor
   correspondence (the user dictionary incl. every frequency is compared after every op) and by
   the learning scenarios of vharness `c08` (exact frequency trajectories over 64 repetitions,
   close + reopen of a file-backed user dictionary, default conversion of the bare syllables).

   The last clause ("X becomes the DEFAULT conversion of those syllables typed alone") is proved on the model
   of the engine's own path search (Model/Engine.v, tied to ChewingEngine by the exact comparison of every
   ranked alternative): within 64 repetitions X's frequency exceeds every homophone's (all f <= m < 1,000,000);
   the phrase with the strictly highest frequency owns the edge that spans the whole buffer; and when that
   edge exists the engine returns it as its ONLY alternative, for every number of syllables
   (C08_the_leader_is_the_default_conversion): the breadth-first search meets it first and trim_paths drops
   every other path, so no split into frequent shorter phrases can outrank it. *)
From Coq Require Import NArith List Bool Arith.
From Coq Require Import Permutation.
From LC Require Import Base.Lib Gen.Editor_gen Model.Composition Model.Conversion Model.Engine Model.Editor Model.EditorRun
     Proofs.CompositionProofs Proofs.EditorInv Proofs.LearnProofs Proofs.EngineProofs Proofs.EngineDefault.
Import ListNotations.

(* ---- the frequency arithmetic ---- *)
(* a learned phrase never gets a lower frequency, and a higher one below the cap *)
Theorem C08_frequency_never_lowered : forall f m u : N, (f <= m)%N -> estimate f f m = Ok u ->
  (f <= MAX_USER_FREQ)%N -> (f <= u)%N /\ ((f < MAX_USER_FREQ)%N -> (f < u)%N) /\ (u <= MAX_USER_FREQ)%N.
Proof. exact estimate_raises. Qed.
Print Assumptions C08_frequency_never_lowered.

(* the pinned code in a release build: the wrapping addition LOWERED the frequency (4294967290 became 4); outside
   the property's quantifier (frequencies below 1,000,000) but inside its statement "not lower than before" *)
Theorem C08_wrapping_addition_lowered_the_frequency_pinned_refuted :
  exists f m : N, (f <= m)%N /\ (m < 4294967296)%N /\ (estimate_pinned_release f f m < f)%N.
Proof. exists 4294967290%N, 4294967295%N. vm_compute. repeat split; intros; discriminate. Qed.
Print Assumptions C08_wrapping_addition_lowered_the_frequency_pinned_refuted.

(* one repetition of "type, choose X, commit": X at frequency f, best other homophone at m *)
Theorem C08_one_repetition : forall m f : N, (f <= N.max m f)%N ->
  estimate f f (N.max m f) = Ok (learn_step m f).
Proof. exact learn_step_is_estimate. Qed.
Print Assumptions C08_one_repetition.

(* BOUNDED LIVENESS, all pairs of initial frequencies below 1,000,000: after at most 64
   repetitions X is strictly more frequent than every homophone *)
Theorem C08_at_most_64_repetitions : forall f m : N, (f <= m)%N -> (m < 1000000)%N ->
  (m < N.iter 64 (learn_step m) f)%N.
Proof. exact learn_converges. Qed.
Print Assumptions C08_at_most_64_repetitions.

(* the bound has little slack: from (1, 999999) 49 repetitions do not suffice *)
Theorem C08_bound_is_nearly_tight : (N.iter 49 (learn_step 999999) 1 <= 999999)%N.
Proof. exact forty_nine_are_not_enough. Qed.
Print Assumptions C08_bound_is_nearly_tight.

Section C08.
Context {D SY : Type} (dops : dict_ops D) (sops : syl_ops SY) (conv : conv_fn D).

(* ---- what a commit learns ---- *)
(* auto_learn = learn_phrase applied, in order, to: every phrase interval under the syllables it
   covers, runs of one-character words (that are not break words) as one phrase *)
Theorem C08_commit_learns_exactly : forall syms ivs (s : shared D SY),
  Forall (fun iv => ib iv <= ie iv <= length syms) ivs ->
  auto_learn_go dops s syms ivs [] [] = learn_all dops s (learn_calls syms ivs [] []).
Proof. intros syms ivs s H. now apply auto_learn_go_is_learn_calls. Qed.

Theorem C08_every_multi_character_phrase_is_learned : forall syms ivs iv,
  In iv ivs -> iphrase iv = true -> 2 <= iv_len iv ->
  In (syl_prefix (slice syms (ib iv) (ie iv)), itext iv) (learn_calls syms ivs [] []).
Proof. intros syms ivs iv. now apply multi_char_phrases_are_learned. Qed.

Theorem C08_a_single_chosen_character_is_learned : forall syms iv rest,
  iphrase iv = true -> iv_len iv = 1 -> is_break_word (itext iv) = false ->
  (match rest with [] => True | y :: _ => (iphrase y && Nat.eqb (iv_len y) 1 && negb (is_break_word (itext y))) = false end) ->
  itext iv <> [] ->
  In (syl_prefix (slice syms (ib iv) (ie iv)), itext iv) (learn_calls syms (iv :: rest) [] []).
Proof. exact single_word_run_is_learned. Qed.

(* learn_phrase on a key that has phrases: the user frequency written is never lower than the
   phrase's frequency before (and higher below the cap); 0 counts as "before" for a new phrase *)
Theorem C08_learning_raises_the_frequency : forall (s : shared D SY) k t s' ok p ps,
  length k = length t -> do_lookup dops (dict s) false k = p :: ps ->
  learn_phrase dops s k t = Ok (s', ok) ->
  let pf := match find (fun q => text_eqb (fst q) t) (p :: ps) with Some q => snd q | None => 0%N end in
  exists uf, dict s' = do_update dops (dict s) k t pf uf (lifetime s) /\ ok = true /\
             ((pf <= MAX_USER_FREQ)%N -> (pf <= uf)%N /\ ((pf < MAX_USER_FREQ)%N -> (pf < uf)%N)).
Proof. exact (learn_phrase_updates dops). Qed.

(* with auto-learning disabled a commit never changes the user dictionary *)
Theorem C08_disabled_learning_changes_nothing : forall (s s' : shared D SY),
  o_no_learn (opts s) = true -> commit dops conv s = Ok s' -> dict s' = dict s /\ dirty s' = dirty s.
Proof. exact (commit_without_learning dops conv). Qed.

End C08.
Print Assumptions C08_commit_learns_exactly.
Print Assumptions C08_every_multi_character_phrase_is_learned.
Print Assumptions C08_a_single_chosen_character_is_learned.
Print Assumptions C08_learning_raises_the_frequency.
Print Assumptions C08_disabled_learning_changes_nothing.

(* once X leads, the edge that spans exactly its syllables offers X (no selections) *)
Theorem C08_the_leader_owns_the_whole_range_edge : forall (c : composition) s e, selections c = [] ->
  forall cands x, In x cands -> (forall q, In q cands -> q <> x -> (snd q < snd x)%N) -> NoDup cands ->
  pick_best c s e cands None 0%N = Some x.
Proof. intros c s e Hs cands x Hin Hl Hn. apply pick_best_takes_the_leader; auto. Qed.
Print Assumptions C08_the_leader_owns_the_whole_range_edge.

(* non-vacuity: the worst case of the quantifier is inside the theorem's domain and needs 50 *)
Example C08_worst_case : (999999 < N.iter 50 (learn_step 999999) 1)%N /\ (N.iter 49 (learn_step 999999) 1 <= 999999)%N.
Proof. split; vm_compute; [reflexivity | discriminate]. Qed.

(* ---- "X becomes the default conversion of those syllables typed alone" ---- *)
(* The buffer holds the syllables of X and nothing else (no choice recorded, no break set), X is the strictly
   most frequent phrase the dictionary holds for them: ChewingEngine::convert (every sort of the candidate
   paths, every dictionary without an entry for the empty key, any number of syllables >= 1) returns exactly
   one alternative, the single interval [0, len) carrying X. *)
Theorem C08_the_leader_is_the_default_conversion :
  forall (sortu : list path -> list path) (lookup : lookup_fn) (spell : N -> list N) (c : composition) (x : phrase),
  (forall l, Permutation (sortu l) l) -> lookup [] = [] -> wf_comp c ->
  1 <= clen c -> selections c = [] -> existsb is_char (symbols c) = false ->
  (forall k, comp_gap c k <> Some GBreak) ->
  In x (lookup (symbols c)) -> NoDup (lookup (symbols c)) ->
  (forall q, In q (lookup (symbols c)) -> q <> x -> (snd q < snd x)%N) ->
  exists b, chewing_convert_x sortu spell lookup c = Ok ([[mkIv 0 (clen c) true (fst x)]], b).
Proof. exact leader_is_the_default. Qed.
Print Assumptions C08_the_leader_is_the_default_conversion.

(* non-vacuity: three syllables; the split 1 + 2 carries far more frequency (300 + 1) than the whole phrase
   (42), and the whole phrase is still the default - and the only alternative *)
Definition lk3 : lookup_fn := fun syms => match syms with
  | [SymSyl 1] => [([100], 1)] | [SymSyl 2] => [([200], 1)] | [SymSyl 3] => [([300], 1); ([301], 5)]
  | [SymSyl 1; SymSyl 2] => [([101; 201], 200)]
  | [SymSyl 2; SymSyl 3] => [([202; 302], 300)]
  | [SymSyl 1; SymSyl 2; SymSyl 3] => [([103; 203; 303], 42); ([104; 204; 304], 41)]
  | _ => [] end%N.
Example C08_default_of_three_syllables :
  chewing_convert sort_by_len (fun _ => []) lk3 (mkComp [SymSyl 1; SymSyl 2; SymSyl 3]%N [GBegin; GNormal; GNormal] [])
  = Ok [[mkIv 0 3 true [103; 203; 303]%N]].
Proof. vm_compute. reflexivity. Qed.

(* ---- "with auto-learning disabled, committing never changes the user dictionary", for whole key events and for every
   sequence of them (Proofs/DictFrame.v): with the option set, no key event - in any of the four states, any key,
   any layout, any dictionary implementation, any conversion - changes the dictionary, unless it is one of the two
   explicit add-phrase gestures (Ctrl-digit while editing, Enter while a range is marked), which are the user's own
   request and not learning.  In particular: Enter, auto-commit, choosing candidates, Tab. ---- *)
From LC Require Import Proofs.DictFrame.

Theorem C08_disabled_learning_no_key_changes_the_dictionary :
  forall D SY (dops : dict_ops D) (sops : syl_ops SY) conv (e e' : editor D SY) ev b,
  o_no_learn (opts (sh e)) = true -> adds_phrase (st e) ev = false ->
  process_keyevent dops sops conv e ev = Ok (e', b) ->
  dict (sh e') = dict (sh e) /\ o_no_learn (opts (sh e')) = true.
Proof.
  intros D SY dops sops conv e e' ev b Hn Ha H.
  pose proof (process_keyevent_dk dops sops conv e ev e' b Hn Ha H) as K. unfold dk in K. injection K as K1 K2.
  split; [exact K1 | now rewrite K2].
Qed.
Print Assumptions C08_disabled_learning_no_key_changes_the_dictionary.

Theorem C08_disabled_learning_no_key_sequence_changes_the_dictionary :
  forall D SY (dops : dict_ops D) (sops : syl_ops SY) conv evs (e e' : editor D SY),
  o_no_learn (opts (sh e)) = true -> quiet_keys dops sops conv e evs ->
  run dops sops conv e (map OpKey evs) = Ok e' ->
  dict (sh e') = dict (sh e).
Proof.
  intros D SY dops sops conv evs e e' Hn Hq H.
  pose proof (keys_dk dops sops conv evs e e' Hn Hq H) as K. unfold dk in K. now injection K as K1 _.
Qed.
Print Assumptions C08_disabled_learning_no_key_sequence_changes_the_dictionary.

(* non-vacuity, through the C calls: the same keys (Hsu: `a` Space `a` Space Enter - two syllables, committed) with
   the option set leave the user dictionary empty, and without it they record the committed phrase *)
From Coq Require Import ZArith.
From LC Require Import Gen.Keyboard_gen Model.EdInst Model.CapiKeys Model.CapiConfig Model.CapiRun.
Definition c08_dict : memdict := mkMD (bt_insert ([10240], [27425], 10, 0) [])%N [] [].
Definition c08_keys : list cop := [CSetKBType 1; CDefault 97; CHandle kcSpace 0; CDefault 97; CHandle kcSpace 0; CHandle kcEnter 0]%Z.
Example C08_c_disabled_learning_example :
  (exists c, crun mf_conv (cx_init c08_dict [] ss_empty 0%N)
               (CConfigSetInt (Config.iopt_name Config.ODisableAutoLearnPhrase) 1 :: c08_keys) = Ok c /\
             c_commit_string c = [27425; 27425]%N /\ md_user (dict (sh (cx_ed c))) = []) /\
  (exists c, crun mf_conv (cx_init c08_dict [] ss_empty 0%N) c08_keys = Ok c /\
             c_commit_string c = [27425; 27425]%N /\ md_user (dict (sh (cx_ed c))) <> []).
Proof.
  split.
  - eexists. split; [vm_compute; reflexivity|]. vm_compute. split; reflexivity.
  - eexists. split; [vm_compute; reflexivity|]. vm_compute. split; [reflexivity | discriminate].
Qed.

(* through the C API, after ANY sequence of C calls: with auto-learning disabled chewing_handle_Enter (the commit), on
   every keyboard layout and with any modifier bits, leaves the dictionary as it was - in every state but the one
   where Enter is the explicit add-phrase gesture (a range is marked with Shift-arrows) *)
From LC Require Import Proofs.EdInstProofs Proofs.CapiKeysProofs Proofs.CapiInv Proofs.EngineTiles Proofs.CapiEnter.
Theorem C08_handle_Enter_with_learning_disabled_keeps_the_dictionary_after_any_C_calls : forall ss d ab t0 ops c mods c',
  ss_good ss -> ss_cursor ss = None -> md_fine d -> Forall cop_fine ops ->
  crun mf_conv (cx_init d ab ss t0) ops = Ok c ->
  (mods < 16)%N -> o_no_learn (opts (sh (cx_ed c))) = true -> (forall mv, st (cx_ed c) <> Highlighting mv) ->
  cstep mf_conv c (CHandle kc_Enter mods) = Ok c' ->
  dict (sh (cx_ed c')) = dict (sh (cx_ed c)) /\ o_no_learn (opts (sh (cx_ed c'))) = true.
Proof.
  intros ss d ab t0 ops c mods c' Hg Hf Hd Hops H Hm Hn Hst Hs.
  apply (c_enter_with_learning_disabled_keeps_the_dictionary mf_conv ss c mods c'); try assumption.
  exact (crun_inv mf_conv mf_conv_tiles ss Hg Hf ops (cx_init d ab ss t0) c Hops (cx_init_inv ss d ab t0 Hg Hf Hd) H).
Qed.
Print Assumptions C08_handle_Enter_with_learning_disabled_keeps_the_dictionary_after_any_C_calls.
