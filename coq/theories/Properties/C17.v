(* C17 - Queries are pure, contexts are independent, reset gives a clean editor.
   Property theorems only (proofs: Proofs/PurityProofs.v).  Model: Model/Editor.v + EditorRun.v,
   tied to src/editor/mod.rs / composition_editor.rs by the editor correspondence, in which
   query calls are inserted at random positions and observation is sparse in part of the cases
   (vharness `ed`: ops `get n`, MODE sparse), and to capi/src/io.rs by the paired C-API
   executions of vharness `capi` (with/without getters, alone/interleaved, reset/fresh). *)
From Coq Require Import NArith List Bool Arith.
From LC Require Import Base.Lib Gen.Editor_gen Model.Syllable Model.Composition Model.Conversion Model.Editor Model.EditorRun
     Model.EdInst Proofs.EditorWitness Proofs.PurityProofs.
From Coq Require Import ZArith.
From LC Require Import Model.CapiKeys Model.CapiConfig Model.CapiRun.
Import ListNotations.
Open Scope nat_scope.

Section C17.
Context {D SY : Type} (dops : dict_ops D) (sops : syl_ops SY) (conv : conv_fn D).

(* ---- reset ---- *)
(* Reset issued in EVERY editor state (no hypothesis on e: entering, typing a syllable, list
   open on any page, highlighting; any buffer, saved cursors, pending output) yields exactly the
   freshly created editor with the same dictionaries, tables, options, engine and tick counter *)
Theorem C17_reset_is_a_fresh_editor : forall e : editor D SY,
  ed_clear sops e =
  with_config (init_editor (dict (sh e)) (so_clear sops (syl (sh e))) (abbr (sh e)) (sym_sel (sh e)) (lifetime (sh e)))
              (opts (sh e)) (engine (sh e)) (dirty (sh e)).
Proof. exact (reset_is_fresh sops). Qed.

(* ... hence every later history behaves on the reset context as on the fresh one *)
Theorem C17_reset_behaves_like_fresh : forall (e : editor D SY) ops,
  run dops sops conv (ed_clear sops e) ops = run dops sops conv (fresh_like sops e) ops.
Proof. exact (reset_then_history dops sops conv). Qed.

(* nothing of the state before the reset survives except the configuration *)
Theorem C17_reset_forgets_the_past : forall e1 e2 : editor D SY,
  dict (sh e1) = dict (sh e2) -> so_clear sops (syl (sh e1)) = so_clear sops (syl (sh e2)) ->
  abbr (sh e1) = abbr (sh e2) -> sym_sel (sh e1) = sym_sel (sh e2) -> lifetime (sh e1) = lifetime (sh e2) ->
  opts (sh e1) = opts (sh e2) -> engine (sh e1) = engine (sh e2) -> dirty (sh e1) = dirty (sh e2) ->
  ed_clear sops e1 = ed_clear sops e2.
Proof. exact (reset_forgets sops). Qed.

(* ---- queries ---- *)
(* a history with query calls inserted at any positions, any number of times, reaches the same
   state - and fails at the same place with the same outcome - as the history without them *)
Theorem C17_queries_do_not_change_behaviour : forall h (e : editor D SY),
  match grun dops sops conv e h, run dops sops conv e (strip h) with
  | Ok (e1, _), Ok e2 => e1 = e2
  | Panic a, Panic b => a = b
  | Err a, Err b => a = b
  | OutOfFuel, OutOfFuel => True
  | _, _ => False
  end.
Proof. exact (queries_do_not_matter dops sops conv). Qed.

Theorem C17_repeated_query_returns_equal_value : forall (e : editor D SY) r e' o1 o2 obs,
  grun dops sops conv e (Get :: Get :: r) = Ok (e', o1 :: o2 :: obs) -> o1 = o2.
Proof. exact (repeated_query_is_equal dops sops conv). Qed.

(* what a query returns is a function of the state reached by the operations before it *)
Theorem C17_query_value_depends_on_state_only : forall p r (e e1 e' : editor D SY) obs,
  run dops sops conv e p = Ok e1 -> grun dops sops conv e (map Do p ++ Get :: r) = Ok (e', obs) ->
  exists obs', obs = observe dops sops conv e1 :: obs'.
Proof. exact (query_value dops sops conv). Qed.

(* ---- two contexts ---- *)
(* two contexts that share nothing (own dictionaries, own editor state), driven in ANY
   interleaving: each ends exactly where it ends when driven alone with its own operations *)
Theorem C17_contexts_independent : forall h (p p' : editor D SY * editor D SY),
  run2 dops sops conv p h = Ok p' ->
  run dops sops conv (fst p) (only CtxA h) = Ok (fst p') /\ run dops sops conv (snd p) (only CtxB h) = Ok (snd p').
Proof. exact (contexts_independent dops sops conv). Qed.

End C17.
Print Assumptions C17_reset_is_a_fresh_editor.
Print Assumptions C17_reset_behaves_like_fresh.
Print Assumptions C17_reset_forgets_the_past.
Print Assumptions C17_queries_do_not_change_behaviour.
Print Assumptions C17_repeated_query_returns_equal_value.
Print Assumptions C17_query_value_depends_on_state_only.
Print Assumptions C17_contexts_independent.

(* ---- the pinned tree ----
   CompositionEditor::clear kept the saved cursors: two syllables, Home, Down (list open, cursor 0
   saved), RESET, two syllables, Down, Esc -> cursor 0 on the reset context, 2 on a fresh one.
   Replayed on the implementation (C API: hk4g4 Home Down Reset hk4g4 ` 1 -> cursor 0 vs 3);
   fixed by cd71832. *)
Theorem C17_reset_keeps_saved_cursor_pinned_refuted :
  cursor_after (then_run opened ed_clear_pinned after_reset) = Some 0 /\
  cursor_after (then_run opened (fresh_like std_ops) after_reset) = Some 2.
Proof. exact reset_keeps_saved_cursor_pinned_refuted. Qed.
Print Assumptions C17_reset_keeps_saved_cursor_pinned_refuted.

(* non-vacuity: the same history on the model of the current code - the reset is issued while a
   candidate list is open - ends like the fresh editor *)
Theorem C17_reset_fixed_example :
  match opened with Ok e => is_selecting (st e) | _ => false end = true /\
  cursor_after (then_run opened (ed_clear std_ops) after_reset) = Some 2.
Proof. exact reset_fixed_example. Qed.
Print Assumptions C17_reset_fixed_example.

(* ---- through the C API (Model/CapiKeys.v, CapiRun.v) ----
   chewing_Reset in EVERY state of the context yields the context made of a fresh editor with the same dictionaries,
   tables, options, engine and layout (its pending keys cleared), the same keyboard, KB type and selection keys ... *)
Theorem C17_chewing_Reset_is_a_fresh_context : forall c : cctx,
  reset c = with_ed c (fresh_like lay_ops (cx_ed c)).
Proof. reflexivity. Qed.
Print Assumptions C17_chewing_Reset_is_a_fresh_context.

(* ... hence every later sequence of C calls (any ints) gives on the reset context what it gives on that fresh one:
   the same return values (they are part of the run's outcome) and the same final context, so every getter agrees *)
Theorem C17_chewing_Reset_behaves_like_fresh : forall conv (c : cctx) ops,
  crun conv (reset c) ops = crun conv (with_ed c (fresh_like lay_ops (cx_ed c))) ops.
Proof. reflexivity. Qed.
Print Assumptions C17_chewing_Reset_behaves_like_fresh.

(* nothing of what was done before the reset survives except configuration and dictionaries: two contexts that
   agree on those are indistinguishable after a reset by any later sequence of C calls *)
Theorem C17_chewing_Reset_forgets_the_past : forall conv (c1 c2 : cctx) ops,
  cx_kb c1 = cx_kb c2 -> cx_kbcompat c1 = cx_kbcompat c2 -> cx_sel c1 = cx_sel c2 ->
  dict (sh (cx_ed c1)) = dict (sh (cx_ed c2)) -> so_clear lay_ops (syl (sh (cx_ed c1))) = so_clear lay_ops (syl (sh (cx_ed c2))) ->
  abbr (sh (cx_ed c1)) = abbr (sh (cx_ed c2)) -> sym_sel (sh (cx_ed c1)) = sym_sel (sh (cx_ed c2)) ->
  lifetime (sh (cx_ed c1)) = lifetime (sh (cx_ed c2)) -> opts (sh (cx_ed c1)) = opts (sh (cx_ed c2)) ->
  engine (sh (cx_ed c1)) = engine (sh (cx_ed c2)) -> dirty (sh (cx_ed c1)) = dirty (sh (cx_ed c2)) ->
  crun conv (reset c1) ops = crun conv (reset c2) ops.
Proof.
  intros conv c1 c2 ops Hk Hc Hs Hd Hy Ha Hm Hl Ho He Hq. f_equal.
  unfold reset, with_ed, ml_clear. rewrite Hk, Hc, Hs. f_equal.
  now apply (reset_forgets lay_ops).
Qed.
Print Assumptions C17_chewing_Reset_forgets_the_past.
