(* C07 - Candidate lists are complete, consistently paged, and choosing i yields item i.
   Property theorems only (proofs: Proofs/Paging.v, Proofs/EditorInv.v, Proofs/EditorSelect.v).
   Model: Model/Editor.v (Selecting state, three selectors, paging, select_offset), tied to
   src/editor/mod.rs + src/editor/selection/{phrase,symbol}.rs by the editor correspondence
   (vharness `ed` vs the extracted model) and the impl-side oracle vplib/edoracles.c07. *)
From Coq Require Import NArith List Bool Arith Lia.
From LC Require Import Base.Lib Gen.Editor_gen Model.Syllable Model.Composition Model.Conversion Model.Editor Model.EditorRun
     Model.EdInst Proofs.CompositionProofs Proofs.ConversionProofs Proofs.Paging Proofs.BreakPoints Proofs.EditorInv Proofs.EditorSelect Proofs.EditorWitness Proofs.EdInstProofs.
From Coq Require Import ZArith.
From LC Require Model.Config.
From LC Require Import Gen.Keyboard_gen Model.CapiKeys Model.CapiConfig Model.CapiRun Proofs.CapiKeysProofs Proofs.CapiInv Proofs.EngineTiles.
Import ListNotations.
Open Scope nat_scope.

(* ------------------------------------------------------------------ paging arithmetic *)

(* the page count is the ceiling of total / page size: the least n with n * per >= total *)
Theorem C07_page_count_is_ceiling : forall total per, 0 < per ->
  total <= pages_of total per * per /\ (forall n, total <= n * per -> pages_of total per <= n).
Proof.
  intros total per Hp. split; [|intros n; now apply pages_of_least].
  destruct total as [|t]; [lia|]. now destruct (pages_of_bounds (S t) per Hp ltac:(lia)) as (_ & H & _).
Qed.
Print Assumptions C07_page_count_is_ceiling.

(* the pages, in order, are exactly the list; every page but the last is full and the last one
   is not empty; item k of page i is item i*per+k of the list (what a selection key chooses) *)
Theorem C07_pages_partition_the_list : forall (A : Type) per (l : list A), 0 < per ->
  concat (map (page per l) (seq 0 (pages_of (length l) per))) = l /\
  (forall i, i < pages_of (length l) per ->
     1 <= length (page per l i) <= per /\ (S i < pages_of (length l) per -> length (page per l i) = per)) /\
  (forall i k, k < per -> nth_error (page per l i) k = nth_error l (i * per + k)).
Proof.
  intros A per l Hp. split; [now apply pages_partition|].
  split; [intros i Hi; now apply page_sizes | intros i k Hk; now apply page_nth].
Qed.
Print Assumptions C07_pages_partition_the_list.

Section C07.
Context {D SY : Type} (dops : dict_ops D) (sops : syl_ops SY) (conv : conv_fn D).
(* "well-formed dictionary" and layout hypotheses (the instance of the correspondence meets them: EdInstProofs) *)
Variable dict_ok : D -> Prop.
Hypothesis ok_lookup : forall d f, dict_ok d -> do_lookup dops d f [] = [].
Hypothesis ok_add : forall d k t f, dict_ok d -> length t <= length k -> (f <= 100)%N -> dict_ok (fst (do_add dops d k t f)).
Hypothesis ok_update : forall d k t f u tm, dict_ok d -> length t = length k -> k <> [] -> (u <= MAX_USER_FREQ)%N -> dict_ok (do_update dops d k t f u tm).
Hypothesis ok_remove : forall d k t, dict_ok d -> dict_ok (do_remove dops d k t).
Hypothesis alt_stable : forall x c, so_alt sops (so_clear sops x) c = so_alt sops x c.
(* the symbol tables the editor was created with (they never change): a category without a table has a
   name, table indices lie inside the tables, no sub-table is open initially *)
Variable ss0 : symbol_sel.
Hypothesis ss0_good : ss_good ss0.
Hypothesis ss0_fresh : ss_cursor ss0 = None.

(* the reported page count is the ceiling of the number of candidates over the page size *)
Theorem C07_total_page : forall (s : shared D SY) sel tp, total_page dops sops s sel = Ok tp ->
  exists c, candidates dops sops s sel = Ok c /\ 0 < o_per_page (opts s) /\ tp = pages_of (length c) (o_per_page (opts s)).
Proof. exact (total_page_spec dops sops). Qed.

(* After EVERY history of key events and public operations (paging keys, range moves with
   Down/Space, j/k, list first/last/next/prev, choices, option changes incl. the page size,
   user-phrase changes, reset ...) from any state satisfying the invariant: while a list is
   open the current page index is below the page count (page 0 for an empty list), for every
   kind of list, every layout, dictionary and conversion oracle. *)
Theorem C07_page_index_below_page_count_every_history : forall ops (e e' : editor D SY) pg act sel c,
  Forall op_ok ops -> Inv dops sops dict_ok ss0 e -> run dops sops conv e ops = Ok e' ->
  st e' = Selecting pg act sel -> 1 <= o_per_page (opts (sh e')) -> candidates dops sops (sh e') sel = Ok c ->
  (c <> [] -> pg < pages_of (length c) (o_per_page (opts (sh e')))) /\ (c = [] -> pg = 0).
Proof.
  intros ops e e' pg act sel c Hops I H Hst Hper Hc.
  pose proof (run_inv dops sops conv dict_ok ok_lookup ok_add ok_update ok_remove alt_stable ss0 ss0_good ss0_fresh ops e e' Hops I H) as [_ Ist].
  rewrite Hst in Ist. destruct Ist as (_ & Hpg & _). specialize (Hpg Hper c Hc). split.
  - intros Hne. apply page_index_valid; [lia|]. destruct Hpg as [->|Hlt]; [|exact Hlt].
    destruct c; [contradiction | cbn; lia].
  - intros ->. destruct Hpg as [->|Hlt]; [reflexivity | cbn in Hlt; lia].
Qed.

(* ... and the highlighted range of a phrase list is a non-empty range of the editor's CURRENT
   buffer (the buffer cannot change while the list is open) *)
Theorem C07_range_inside_current_buffer_every_history : forall ops (e e' : editor D SY) pg act p,
  Forall op_ok ops -> Inv dops sops dict_ok ss0 e -> run dops sops conv e ops = Ok e' -> st e' = Selecting pg act (SelPhrase p) ->
  ps_com p = inner (com (sh e')) /\ ps_begin p < ps_end p <= ce_len (com (sh e')).
Proof.
  intros ops e e' pg act p Hops I H Hst.
  pose proof (run_inv dops sops conv dict_ok ok_lookup ok_add ok_update ok_remove alt_stable ss0 ss0_good ss0_fresh ops e e' Hops I H) as [_ Ist].
  rewrite Hst in Ist. destruct Ist as (([Hlt Hle _] & Hcom) & _). unfold ce_len. rewrite <- Hcom. auto.
Qed.

(* ... it covers syllables only (so "the highlighted syllables" are exactly the symbols of the range and the
   key that is looked up has one syllable per symbol), and the position the list was opened at is a syllable *)
Theorem C07_range_covers_syllables_only_every_history : forall ops (e e' : editor D SY) pg act p,
  Forall op_ok ops -> Inv dops sops dict_ok ss0 e -> run dops sops conv e ops = Ok e' -> st e' = Selecting pg act (SelPhrase p) ->
  (forall k, ps_begin p <= k < ps_end p -> exists s, nth_error (symbols (inner (com (sh e')))) k = Some (SymSyl s)) /\
  length (range_key p) = ps_end p - ps_begin p.
Proof.
  intros ops e e' pg act p Hops I H Hst.
  pose proof (run_inv dops sops conv dict_ok ok_lookup ok_add ok_update ok_remove alt_stable ss0 ss0_good ss0_fresh ops e e' Hops I H) as [_ Ist].
  rewrite Hst in Ist. destruct Ist as (([Hlt Hle [Hsyl _ _]] & Hcom) & _). split.
  - intros k Hk. rewrite <- Hcom. exact (Hsyl k Hk).
  - unfold range_key. rewrite syl_prefix_all.
    + apply slice_length. exact Hle.
    + apply not_true_is_false. intros Hex. apply existsb_exists in Hex as (x & Hin & Hx).
      apply In_nth_error in Hin as (j & Hj). unfold slice in Hj.
      assert (j < ps_end p - ps_begin p).
      { assert (j < length (firstn (ps_end p - ps_begin p) (skipn (ps_begin p) (symbols (ps_com p))))) by (apply nth_error_Some; congruence).
        rewrite firstn_length in H0. lia. }
      rewrite Paging.nth_error_firstn_lt in Hj by assumption. rewrite nth_error_skipn_add in Hj.
      destruct (Hsyl (ps_begin p + j) ltac:(lia)) as (sy & Hsy). rewrite Hsy in Hj. inversion Hj; subst. discriminate.
Qed.

(* for a phrase range the list is the (layered) dictionary's answer for exactly the highlighted
   syllables, in the dictionary's order, plus - for one syllable - the layout's alternates *)
Theorem C07_phrase_list_is_the_dictionary_lookup : forall (s : shared D SY) p c,
  candidates dops sops s (SelPhrase p) = Ok c ->
  (forall ph, In ph (do_lookup dops (dict s) (ps_fuzzy p) (range_key p)) -> In (fst ph) c) /\
  exists alts, c = map fst (do_lookup dops (dict s) (ps_fuzzy p) (range_key p)) ++ alts /\
    (ps_end p - ps_begin p <> 1 -> alts = []) /\
    (ps_end p - ps_begin p = 1 -> exists code, slice (symbols (ps_com p)) (ps_begin p) (ps_end p) = [SymSyl code] /\
       alts = flat_map (fun a => map fst (do_lookup dops (dict s) (ps_fuzzy p) [a])) (so_alt sops (syl s) code)).
Proof.
  intros s p c H. split; [intros ph; now apply (candidates_phrase_complete dops sops s p c ph) | now apply candidates_phrase_spec].
Qed.

(* choosing candidate n (absolute index; a selection key on page pg chooses pg*per + key) puts
   exactly that string on exactly the highlighted range as the user's choice, replaces only the
   choices it overlaps, changes no symbol and closes the list *)
Theorem C07_choosing_n_yields_item_n : forall (s : shared D SY) pg act p n c text s' t pg' sel',
  wf_ce (com s) -> ps_begin p < ps_end p ->
  candidates dops sops s (SelPhrase p) = Ok c -> nth_error c n = Some text ->
  selecting_select_offset dops sops s pg act (SelPhrase p) n = Ok (s', t, pg', sel') ->
  t = ToState Entering /\
  In (mkIv (ps_begin p) (ps_end p) true text) (selections (inner (com s'))) /\
  symbols (inner (com s')) = symbols (inner (com s)) /\
  selections (inner (com s')) =
    filter (fun x => negb (iv_intersect x (mkIv (ps_begin p) (ps_end p) true text))) (selections (inner (com s)))
    ++ [mkIv (ps_begin p) (ps_end p) true text] /\
  dict s' = dict s /\ opts s' = opts s.
Proof. exact (choose_in_range_phrase dops sops). Qed.

Theorem C07_selection_key_is_page_relative : forall (s : shared D SY) pg act sel n,
  selecting_select dops sops s pg act sel n = selecting_select_offset dops sops s pg act sel (pg * o_per_page (opts s) + n).
Proof. reflexivity. Qed.

(* an out-of-range index is rejected (bell) and nothing at all changes, in all three kinds of list *)
Theorem C07_out_of_range_rejected_without_change : forall (s : shared D SY) pg act sel n c s' t pg' sel',
  candidates dops sops s sel = Ok c -> length c <= n ->
  selecting_select_offset dops sops s pg act sel n = Ok (s', t, pg', sel') ->
  s' = s /\ t = Spin BBell /\ pg' = pg /\ sel' = sel.
Proof. exact (choose_out_of_range dops sops). Qed.

(* a special-symbol choice inserts / replaces exactly entry n of the list and closes it *)
Theorem C07_special_symbol_choice : forall (s : shared D SY) pg act sym0 n c ch s' t pg' sel',
  candidates dops sops s (SelSpecial sym0) = Ok c -> nth_error c n = Some ch ->
  selecting_select_offset dops sops s pg act (SelSpecial sym0) n = Ok (s', t, pg', sel') ->
  t = ToState Entering /\ exists x c1, ch = [x] /\
    (if act then ce_insert (com s) (SymChar x) else ce_replace (com s) (SymChar x)) = Ok c1 /\
    com s' = ce_pop_cursor c1.
Proof. exact (choose_in_range_special dops sops). Qed.

End C07.
Print Assumptions C07_total_page.
Print Assumptions C07_page_index_below_page_count_every_history.
Print Assumptions C07_range_inside_current_buffer_every_history.
Print Assumptions C07_range_covers_syllables_only_every_history.
Print Assumptions C07_phrase_list_is_the_dictionary_lookup.
Print Assumptions C07_choosing_n_yields_item_n.
Print Assumptions C07_selection_key_is_page_relative.
Print Assumptions C07_out_of_range_rejected_without_change.
Print Assumptions C07_special_symbol_choice.

(* ------------------------------------------------------------------ the pinned tree *)
(* On the pinned tree the page index could exceed the page count: page 3 of 3 (page size 1),
   then the page size becomes 10.  Replayed on the implementation (C API: candPerPage 1, type,
   Down, Right x n, candPerPage 10 -> CurrentPage n >= TotalPage); fixed by 68d3a38. *)
Theorem C07_page_after_resize_pinned_refuted :
  exists e, run md_ops std_ops conv_single (m_init d3 [] ss_empty 0%N) open_third_page = Ok e /\
    let e' := ed_set_options std_ops e (per_page default_options 10) in
    ed_page_no e' = Some 2 /\ ed_total_page md_ops std_ops e' = Ok (Some 1).
Proof. exact page_after_resize_pinned_refuted. Qed.
Print Assumptions C07_page_after_resize_pinned_refuted.

(* non-vacuity: the same history on the model of the current code reaches an open list on its
   third page (so the premises of the every-history theorems are met by a non-trivial state),
   and the resize lands on page 0 of 1 *)
Theorem C07_page_after_resize_fixed :
  exists e e', run md_ops std_ops conv_single (m_init d3 [] ss_empty 0%N) open_third_page = Ok e /\
    ed_set_options_c md_ops std_ops e (per_page default_options 10) = Ok e' /\
    ed_page_no e' = Some 0 /\ ed_total_page md_ops std_ops e' = Ok (Some 1).
Proof. exact page_after_resize_fixed. Qed.
Print Assumptions C07_page_after_resize_fixed.

(* A second way the pinned tree let the page index run past the page count, found while the phonetic layouts
   joined the editor model (OpLayout had to preserve the invariant and could not): under Hsu the list of the one
   syllable "c" holds its own word and the three words of the alternative reading "ei" - four pages at one
   per page; on page 3 the layout is switched to Standard (chewing_set_KBType), which has no alternative
   readings: page 3 of 1.  Replayed on the implementation (Editor::set_syllable_editor), fixed by b605e90. *)
Definition hsu_key (code uni : N) : keyevent := mkKey code code uni false false false false.
Definition d_hsu : memdict :=
  mkMD (bt_insert ([10240], [27425], 10, 0) (bt_insert ([48], [27448], 5, 0) (bt_insert ([48], [35470], 6, 0) (bt_insert ([48], [21769], 7, 0) []))))%N [] [].
Definition e_hsu : medl := ml_init d_hsu 1%N [] ss_empty 0%N.
Definition hsu_last_page : list op :=
  [OpSetOptions (per_page default_options 1); OpKey (hsu_key 27 97); OpKey (hsu_key 48 32); OpKey (hsu_key 57 65533);
   OpKey (hsu_key 55 65533); OpKey (hsu_key 55 65533); OpKey (hsu_key 55 65533)].

Theorem C07_page_after_layout_switch_pinned_refuted :
  exists e, run md_ops lay_ops (@conv_single memdict) e_hsu hsu_last_page = Ok e /\
    ed_page_no e = Some 3 /\ ed_total_page md_ops lay_ops e = Ok (Some 4) /\
    let e' := ed_set_layout_pinned lay_ops e 0%N in
    ed_page_no e' = Some 3 /\ ed_total_page md_ops lay_ops e' = Ok (Some 1).
Proof. vm_compute. eexists. repeat split. Qed.
Print Assumptions C07_page_after_layout_switch_pinned_refuted.

Theorem C07_page_after_layout_switch_fixed :
  exists e, run md_ops lay_ops (@conv_single memdict) e_hsu (hsu_last_page ++ [OpLayout 0%N]) = Ok e /\
    ed_page_no e = Some 0 /\ ed_total_page md_ops lay_ops e = Ok (Some 1).
Proof. vm_compute. eexists. repeat split. Qed.
Print Assumptions C07_page_after_layout_switch_fixed.

(* the every-history theorems above quantify over OpLayout too (Model/EditorRun.v), for every layout number, and
   the instance the correspondence runs - all ten phonetic layouts of Model/Layout.v as the syllable editor -
   meets their layout hypothesis *)
Theorem C07_all_layouts_instance : forall x c, so_alt lay_ops (so_clear lay_ops x) c = so_alt lay_ops x c.
Proof. intros [L st0] c. reflexivity. Qed.
Print Assumptions C07_all_layouts_instance.

Example C07_nonvacuous :
  md_ok d3 /\ (forall x c, so_alt std_ops (so_clear std_ops x) c = so_alt std_ops x c) /\
  exists e, run md_ops std_ops conv_single (m_init d3 [] ss_empty 0%N) open_third_page = Ok e /\ ed_page_no e = Some 2.
Proof.
  split; [repeat constructor; discriminate|]. split; [reflexivity|].
  vm_compute. eexists. split; reflexivity.
Qed.

(* ---- through the C API (Model/CapiKeys.v, CapiConfig.v, CapiRun.v) ----
   After EVERY sequence of C calls with ANY int arguments on a fresh context, while a candidate list is open
   (chewing_cand_CheckDone = 0): chewing_cand_ChoicePerPage >= 1, chewing_cand_TotalPage is the ceiling of
   chewing_cand_TotalChoice over it, chewing_cand_CurrentPage is below the page count (page 0 of an empty list), and
   chewing_cand_Enumerate walks exactly the candidates from the current page on. *)
Theorem C07_paging_getters_after_any_C_calls : forall ss d ab t0 ops c',
  ss_good ss -> ss_cursor ss = None -> md_fine d -> Forall cop_fine ops ->
  crun mf_conv (cx_init d ab ss t0) ops = Ok c' -> chewing_cand_CheckDone c' = 0%Z ->
  (1 <= chewing_cand_ChoicePerPage c')%Z /\
  chewing_cand_TotalPage c' = ((chewing_cand_TotalChoice c' + chewing_cand_ChoicePerPage c' - 1) / chewing_cand_ChoicePerPage c')%Z /\
  ((0 < chewing_cand_TotalChoice c')%Z -> (0 <= chewing_cand_CurrentPage c' < chewing_cand_TotalPage c')%Z) /\
  (chewing_cand_TotalChoice c' = 0%Z -> chewing_cand_CurrentPage c' = 0%Z) /\
  Z.of_nat (List.length (c_cand_enumerate c')) = (chewing_cand_TotalChoice c' - chewing_cand_CurrentPage c' * chewing_cand_ChoicePerPage c')%Z.
Proof.
  intros ss d ab t0 ops c' Hg Hf Hd Hops H Hdone.
  apply (cinv_paging ss); [|exact Hdone].
  exact (crun_inv mf_conv mf_conv_tiles ss Hg Hf ops (cx_init d ab ss t0) c' Hops (cx_init_inv ss d ab t0 Hg Hf Hd) H).
Qed.
Print Assumptions C07_paging_getters_after_any_C_calls.

(* non-vacuity: Hsu by number, two candidates per page, `a` Space, Down, Right: page 1 of 2, four candidates (the
   word of c and the three words of the alternative reading ei), two of them still to enumerate *)
Definition c07_dict : memdict :=
  mkMD (bt_insert ([10240], [27425], 10, 0) (bt_insert ([48], [27448], 5, 0) (bt_insert ([48], [35470], 6, 0) (bt_insert ([48], [21769], 7, 0) []))))%N [] [].
Definition c07_history : list cop :=
  [CSetKBType 1; CConfigSetInt (Config.iopt_name Config.OCandidatesPerPage) 2; CDefault 97; CHandle kcSpace 0; CHandle kcDown 0; CHandle kcRight 0]%Z.
Example C07_c_history_example :
  md_fine c07_dict /\ Forall cop_fine c07_history /\
  exists c, crun mf_conv (cx_init c07_dict [] ss_empty 0%N) c07_history = Ok c /\ chewing_cand_CheckDone c = 0%Z /\
    chewing_cand_TotalChoice c = 4%Z /\ chewing_cand_TotalPage c = 2%Z /\ chewing_cand_CurrentPage c = 1%Z /\
    List.length (c_cand_enumerate c) = 2.
Proof.
  split; [split; vm_compute; repeat constructor; intro; discriminate|]. split.
  - repeat (apply Forall_cons; [first [exact I | split; vm_compute; reflexivity]|]). apply Forall_nil.
  - vm_compute. eexists. repeat split.
Qed.

(* chewing_cand_choose_by_index with an index outside the open list - negative, or at least chewing_cand_TotalChoice,
   any int - after EVERY sequence of C calls: the call returns -1 and the context is the one before except for the
   key result (Bell): buffer, cursor, choices, the open list and its page, dictionary, options untouched. *)
From LC Require Import Proofs.CapiChoose.
Theorem C07_choose_by_index_out_of_range_is_rejected_after_any_C_calls : forall ss d ab t0 ops c i c' rc,
  ss_good ss -> ss_cursor ss = None -> md_fine d -> Forall cop_fine ops ->
  crun mf_conv (cx_init d ab ss t0) ops = Ok c -> chewing_cand_CheckDone c = 0%Z ->
  (i < 0 \/ chewing_cand_TotalChoice c <= i)%Z ->
  cand_choose mf_conv c i = Ok (c', rc) ->
  rc = (-1)%Z /\ c' = with_ed c (mkEditor (set_last (sh (cx_ed c)) BBell) (st (cx_ed c))).
Proof.
  intros ss d ab t0 ops c i c' rc Hg Hf Hd Hops H Hdone Hi Hch.
  apply (c_choose_out_of_range mf_conv ss c i c' rc); try assumption.
  exact (crun_inv mf_conv mf_conv_tiles ss Hg Hf ops (cx_init d ab ss t0) c Hops (cx_init_inv ss d ab t0 Hg Hf Hd) H).
Qed.
Print Assumptions C07_choose_by_index_out_of_range_is_rejected_after_any_C_calls.

(* non-vacuity: in the context of the example above (four candidates) index 4 and index -7 are refused *)
Example C07_c_choose_example :
  exists c, crun mf_conv (cx_init c07_dict [] ss_empty 0%N) c07_history = Ok c /\ chewing_cand_TotalChoice c = 4%Z /\
    (exists c', cand_choose mf_conv c 4 = Ok (c', (-1)%Z)) /\ (exists c', cand_choose mf_conv c (-7) = Ok (c', (-1)%Z)) /\
    (exists c', cand_choose mf_conv c 3 = Ok (c', 0%Z)).
Proof. eexists. split; [vm_compute; reflexivity|]. vm_compute. repeat split; eexists; reflexivity. Qed.
