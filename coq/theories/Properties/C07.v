(* C07 - placeholder replaced below *)
From Coq Require Import List.
Theorem C07_placeholder : True. Proof. exact I. Qed.
