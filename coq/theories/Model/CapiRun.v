(* Histories of C calls on the context model (Model/CapiKeys.v, Model/CapiConfig.v): one datatype for the calls,
   a step function and its iteration.  Executable, no proofs. *)
From Coq Require Import NArith ZArith List Bool String.
From LC Require Import Base.Lib Model.Composition Model.Conversion Model.Editor Model.EditorRun Model.EdInst Model.CapiKeys Model.CapiConfig.
Import ListNotations.
Open Scope Z_scope.

(* ---- histories of C calls ---- *)
Inductive cop :=
| CHandle (code mods : N)      (* the named chewing_handle_* entry points *)
| CDefault (key : Z) | CCtrlNum (key : Z) | CNumlock (key : Z)
| CSetKBType (n : Z) | CSetSelKey (keys : list Z)
| CCandChoose (i : Z) | CCandOpen | CCandClose
| CCandList (which : N)       (* chewing_cand_list_first (0) / last (1) / next (2) / prev (3) *)
| CCommitPreedit | CCleanPreedit | CCleanBopomofo | CReset
| CConfigSetInt (name : string) (value : Z)     (* chewing_config_set_int, any name, any int *)
| CUserAdd (phrase bopomofo : list N)            (* chewing_userphrase_add, any two strings *)
| CUserRemove (phrase bopomofo : list N)
| CEditor (o : op).            (* any operation of the editor itself (options, engine, user phrases, ...) *)

Definition drop_rc {A} (r : outcome (cctx * A)) : outcome cctx :=
  match r with Ok x => Ok (fst x) | Err x => Err x | Panic s => Panic s | OutOfFuel => OutOfFuel end.

Definition cstep (conv : conv_fn memdict) (c : cctx) (o : cop) : outcome cctx :=
  match o with
  | CHandle code mods => handle_code conv c code mods
  | CDefault k => handle_default conv c k
  | CCtrlNum k => drop_rc (handle_ctrlnum conv c k)
  | CNumlock k => handle_numlock conv c k
  | CSetKBType n => drop_rc (set_kbtype c n)
  | CSetSelKey ks => Ok (set_selkey c ks)
  | CCandChoose i => drop_rc (cand_choose conv c i)
  | CCandOpen => drop_rc (cand_open c)
  | CCandClose => Ok (fst (cand_close c))
  | CCandList w => drop_rc (cand_list w c)
  | CCommitPreedit => drop_rc (commit_preedit conv c)
  | CCleanPreedit => Ok (fst (clean_preedit c))
  | CCleanBopomofo => Ok (fst (clean_bopomofo c))
  | CReset => Ok (reset c)
  | CConfigSetInt name v => drop_rc (config_set_int_c c name v)
  | CUserAdd p b => drop_rc (userphrase_add c p b)
  | CUserRemove p b => drop_rc (userphrase_remove c p b)
  | CEditor o => match step mdf_ops lay_ops conv (cx_ed c) o with
                 | Ok e => Ok (with_ed c e)
                 | Err x => Err x | Panic s => Panic s | OutOfFuel => OutOfFuel
                 end
  end.

Fixpoint crun (conv : conv_fn memdict) (c : cctx) (ops : list cop) : outcome cctx :=
  match ops with
  | [] => Ok c
  | o :: rest => match cstep conv c o with
                 | Ok c' => crun conv c' rest
                 | Err x => Err x | Panic s => Panic s | OutOfFuel => OutOfFuel
                 end
  end.

