(* Computable search for the key sequence that enters a given reading
   (completeness of C14): a breadth-first search over the layout's own transition
   function for the syllable-state layouts, the table product for Pinyin, and the
   translation of key classes into ASCII bytes for a given keyboard.  The search
   is only a witness generator: every witness is validated with Layout.enters_b
   (in Coq by the completeness sweep, on the implementation by `c14 witness`).
   No proofs in this file. *)
From Coq Require Import NArith List Bool FMapPositive.
From LC Require Import Base.Lib Gen.Bopomofo_gen Gen.Keyboard_gen Gen.Layout_gen Gen.Readings_gen
  Model.Syllable Model.Keyboard Model.LayoutBase Model.LayoutHsu Model.LayoutEt26 Model.LayoutPinyin Model.Layout.
Import ListNotations.
Open Scope N_scope.

Module PM := PositiveMap.
Definition pkey (v : N) : positive := N.succ_pos v.

Definition key_classes : list N := range_nat 63.

(* the "diagonal" event of key class k (index = code = k); syllable layouts look at
   one of the two fields only *)
Definition class_event (k : N) : key_event := mk_event k k REPLACEMENT_CHAR 0.

(* which field the layout reads *)
Definition by_code (L : N) : bool := (L =? L_HSU) || (L =? L_ET26).
Definition class_of (L : N) (ev : key_event) : N := if by_code L then ev_code ev else ev_index ev.

(* ---- syllable-state layouts: BFS under the editor's protocol, key_press only ---- *)
Definition bfs_acc := (list (N * list N) * PM.t unit * PM.t (list N))%type.

Definition bfs_visit (L st : N) (path : list N) (acc : bfs_acc) (k : N) : bfs_acc :=
  let '(new, vis, com) := acc in
  match key_press L (syl_state st) (class_event k) with
  | Ok (st', Absorb) =>
      let s' := ls_syl st' in
      if PM.mem (pkey s') vis then acc else ((s', k :: path) :: new, PM.add (pkey s') tt vis, com)
  | Ok (st', Commit) =>
      let s' := ls_syl st' in
      if PM.mem (pkey s') com then acc else (new, vis, PM.add (pkey s') (rev (k :: path)) com)
  | _ => acc
  end.

(* Backspace (remove_last) as pseudo key class 255 *)
Definition CLASS_BACKSPACE : N := 255.
Definition bfs_backspace (L st : N) (path : list N) (acc : bfs_acc) : bfs_acc :=
  let '(new, vis, com) := acc in
  let s' := ls_syl (l_remove_last L (syl_state st)) in
  if PM.mem (pkey s') vis then acc else ((s', CLASS_BACKSPACE :: path) :: new, PM.add (pkey s') tt vis, com).

Fixpoint bfs (fuel : nat) (L : N) (frontier : list (N * list N)) (vis : PM.t unit) (com : PM.t (list N))
  : PM.t (list N) :=
  match fuel with
  | O => com
  | S f =>
    match frontier with
    | [] => com
    | (st, path) :: rest =>
        let '(new, vis', com') :=
          bfs_backspace L st path (fold_left (bfs_visit L st path) key_classes ([], vis, com)) in
        bfs f L (rest ++ rev new) vis' com'
    end
  end.

(* committed syllable -> key classes *)
Definition commit_map (L : N) : PM.t (list N) :=
  bfs (N.to_nat 7000) L [(EMPTY_PATTERN, [])] (PM.add (pkey EMPTY_PATTERN) tt (PM.empty unit)) (PM.empty (list N)).

(* ---- Pinyin: the table product ---- *)
Definition letter_event (c : N) : key_event := mk_event 0 (fst (ascii_keycode c)) c 0.
Definition space_event : key_event := mk_event kiK48 kcSpace 32 0.

Definition pinyin_candidates : list (list N) :=
  map fst pinyin_common_mapping_syms ++ map fst pinyin_hanyu_pinyin_mapping_syms ++
  map fst pinyin_thl_pinyin_mapping_syms ++ map fst pinyin_mps2_pinyin_mapping_syms ++
  flat_map (fun i => map (fun f => i ++ f) ([] :: map fst pinyin_final_mapping))
           ([] :: map fst pinyin_initial_mapping).

(* toneless committed syllable -> key string *)
Definition pinyin_try (L : N) (m : PM.t (list N)) (s : list N) : PM.t (list N) :=
  match s with
  | [] => m
  | _ =>
    match run_editor L lstate_empty (map OpKey (map letter_event s ++ [space_event])) with
    | Ok (_, [v]) => if PM.mem (pkey v) m then m else PM.add (pkey v) s m
    | _ => m
    end
  end.
Definition pinyin_map (L : N) : PM.t (list N) :=
  fold_left (pinyin_try L) pinyin_candidates (PM.empty (list N)).

(* ---- key classes / characters -> ASCII bytes on a keyboard ---- *)
Definition candidate_bytes : list N := map fst keycode_map.

Definition find_byte (kb : N) (p : key_event -> bool) : option N :=
  find (fun c => match map_ascii kb c with Ok ev => p ev | _ => false end) candidate_bytes.

(* class -> byte, for every class some byte produces *)
Definition class_bytes (kb L : N) : list (N * N) :=
  flat_map (fun k => match find_byte kb (fun ev => class_of L ev =? k) with
                     | Some c => [(k, c)] | None => [] end) key_classes ++ [(CLASS_BACKSPACE, BACKSPACE)].
(* letter -> byte producing that character with an a-z key code; tone key code -> byte *)
Definition letter_bytes (kb : N) : list (N * N) :=
  flat_map (fun u => match find_byte kb (fun ev => (ev_unicode ev =? u) && is_atoz (ev_code ev)) with
                     | Some c => [(u, c)] | None => [] end) (map (fun i => 97 + i) (range_nat 26)).
Definition code_bytes (kb : N) : list (N * N) :=
  flat_map (fun k => match find_byte kb (fun ev => ev_code ev =? k) with
                     | Some c => [(k, c)] | None => [] end) pinyin_tone_keys.

Fixpoint map_all {A} (f : N -> option A) (l : list N) : option (list A) :=
  match l with
  | [] => Some []
  | x :: l' => match f x, map_all f l' with Some y, Some ys => Some (y :: ys) | _, _ => None end
  end.

(* ---- the witness ---- *)
Record search_ctx := { sc_com : PM.t (list N); sc_class : list (N * N); sc_letter : list (N * N); sc_code : list (N * N) }.

Definition make_ctx (kb L : N) : search_ctx :=
  if is_pinyin L then {| sc_com := pinyin_map L; sc_class := []; sc_letter := letter_bytes kb; sc_code := code_bytes kb |}
  else {| sc_com := commit_map L; sc_class := class_bytes kb L; sc_letter := []; sc_code := [] |}.

Definition alt_sources (L r : N) : list N :=
  let t := if L =? L_HSU then hsu_alt_table else if L =? L_ET26 then et26_alt_table else [] in
  map fst (filter (fun e => memN r (snd e) && memN (fst e) readings) t).

Definition tone_key_code (r : N) : N :=
  match tone r with
  | Some t => match find (fun e => snd e =? t) pinyin_tone_table with Some e => fst e | None => kcSpace end
  | None => kcSpace
  end.

Definition witness_with (c : search_ctx) (L r : N) : option (list N) :=
  if is_pinyin L then
    match PM.find (pkey (rm_tone r)) (sc_com c) with
    | Some s =>
        match map_all (fun u => assoc u (sc_letter c)) s, assoc (tone_key_code r) (sc_code c) with
        | Some bs, Some t => Some (bs ++ [t])
        | _, _ => None
        end
    | None => None
    end
  else
    let try s := match PM.find (pkey s) (sc_com c) with
                 | Some ks => map_all (fun k => assoc k (sc_class c)) ks
                 | None => None
                 end in
    match try r with
    | Some bs => Some bs
    | None => match map_opt try (alt_sources L r) with b :: _ => Some b | [] => None end
    end.

Definition witness (kb L r : N) : option (list N) := witness_with (make_ctx kb L) L r.

(* the completeness sweep of one (keyboard, layout): every reading has a validated
   witness, or is listed as known-unreachable for the layout *)
Definition check_reading (known : list N) (c : search_ctx) (kb L r : N) : bool :=
  match witness_with c L r with
  | Some bytes => enters_b readings kb L bytes r
  | None => memN r known
  end.
Definition check_complete (known : list N) (kb L : N) : bool :=
  let c := make_ctx kb L in forallb (check_reading known c kb L) readings.

(* readings for which the search finds nothing (the counter-example finder of the sweep) *)
Definition unreachable_readings (kb L : N) : list N :=
  let c := make_ctx kb L in
  filter (fun r => match witness_with c L r with
                   | Some bytes => negb (enters_b readings kb L bytes r)
                   | None => true
                   end) readings.
