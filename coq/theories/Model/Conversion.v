(* Executable model of src/conversion/{chewing,simple,fuzzy}.rs: the interval
   graph (find_best_phrase / find_intervals), glue_fn, the validity checker for
   a segmentation returned by the engine, and SimpleEngine::convert.

   The dictionary is a parameter: `lookup syms` is what
   dict.lookup_all_phrases(&symbols, strategy) returns for the engine's strategy
   (phrase text, frequency), in the dictionary's order.  WHICH 0->len path the
   Chewing engine ranks n-th is deliberately not modelled (DESIGN 4.4): theorems
   hold for every valid path, and the correspondence check validates the path the
   implementation actually returned with `valid_conversion`. *)
From Coq Require Import NArith List Bool Arith.
From LC Require Import Base.Lib Model.Composition.
Import ListNotations.
Open Scope nat_scope.

Definition phrase := (list N * N)%type.      (* text, freq *)
Definition lookup_fn := list symbol -> list phrase.

Inductive pphrase := PSym (s : symbol) | PPhrase (text : list N) (freq : N).

Record edge := mkEdge { eb : nat; ee : nat; ephrase : pphrase }.

Definition symbol_eqb (a b : symbol) : bool :=
  match a, b with
  | SymSyl x, SymSyl y => N.eqb x y
  | SymChar x, SymChar y => N.eqb x y
  | _, _ => false
  end.

Definition text_eqb (a b : list N) : bool := list_eqb N.eqb a b.

Definition has_break_inside (c : composition) (start len : nat) : bool :=
  existsb (fun i => match comp_gap c i with Some GBreak => true | _ => false end) (seq (S start) (len - 1)).

Definition sel_conflicts (c : composition) (s e : nat) : bool :=
  existsb (fun sel => intersect_range sel s e && negb (is_contained_by sel s e)) (selections c).

(* does phrase text agree with every selection contained in [s,e) ? *)
Definition agrees_with_selections (c : composition) (s e : nat) (text : list N) : bool :=
  forallb (fun sel =>
    if Nat.leb s (ib sel) && Nat.leb (ie sel) e
    then text_eqb (firstn (ie sel - ib sel) (skipn (ib sel - s) text)) (itext sel)
    else true) (selections c).

Fixpoint pick_best (c : composition) (s e : nat) (cands : list phrase) (best : option phrase) (max_freq : N) : option phrase :=
  match cands with
  | [] => best
  | p :: rest =>
    if agrees_with_selections c s e (fst p) then
      if N.ltb max_freq (snd p) || match best with None => true | Some _ => false end
      then pick_best c s e rest (Some p) (snd p)
      else pick_best c s e rest best max_freq
    else pick_best c s e rest best max_freq
  end.

Definition forced_selection (c : composition) (s e : nat) : option interval :=
  find (fun sel => Nat.eqb s (ib sel) && Nat.eqb e (ie sel)) (selections c).

(* spell s = Syllable::to_string(): since fix e6644f0 a single syllable that has neither a word under
   the engine's lookup strategy nor a forced selection is shown by its spelling (frequency 0), as
   SimpleEngine does, so that every symbol keeps an edge *)
Definition find_best_phrase (spell : N -> list N) (lookup : lookup_fn) (c : composition) (start : nat) (syms : list symbol) : option pphrase :=
  let e := start + length syms in
  if has_break_inside c start (length syms) then None
  else if sel_conflicts c start e then None
  else match syms with
       | [SymChar ch] => Some (PSym (SymChar ch))
       | _ =>
         if existsb is_char syms then None
         else match pick_best c start e (lookup syms) None 0%N with
              | Some p => Some (PPhrase (fst p) (snd p))
              | None => match forced_selection c start e with
                        | Some sel => Some (PPhrase (itext sel) 0%N)
                        | None => match syms with
                                  | [SymSyl s] => Some (PPhrase (spell s) 0%N)
                                  | _ => None
                                  end
                        end
              end
       end.

(* find_intervals: for begin in 0..len, for end in begin..=len *)
Definition edges_from (spell : N -> list N) (lookup : lookup_fn) (c : composition) (b : nat) : list edge :=
  flat_map (fun n =>
    match find_best_phrase spell lookup c b (firstn n (skipn b (symbols c))) with
    | Some p => [mkEdge b (b + n) p]
    | None => []
    end) (seq 0 (S (clen c - b))).

Definition find_intervals (spell : N -> list N) (lookup : lookup_fn) (c : composition) : list edge :=
  flat_map (edges_from spell lookup c) (seq 0 (clen c)).

(* From<PossibleInterval> for Interval *)
Definition pphrase_text (p : pphrase) : list N :=
  match p with
  | PSym (SymChar ch) => [ch]
  | PSym (SymSyl _) => []          (* to_char().unwrap() would panic; never built (find_best_phrase only wraps Char) *)
  | PPhrase t _ => t
  end.
Definition pphrase_is_phrase (p : pphrase) : bool := match p with PSym _ => false | PPhrase _ _ => true end.
Definition edge_interval (e : edge) : interval := mkIv (eb e) (ee e) (pphrase_is_phrase (ephrase e)) (pphrase_text (ephrase e)).

(* glue_fn folded over a path; acc is kept reversed (head = last pushed) *)
Definition glue_step (c : composition) (acc_rev : list interval) (iv : interval) : list interval :=
  match acc_rev with
  | [] => [iv]
  | last :: rest =>
    if negb (iphrase last) || negb (iphrase iv) then iv :: acc_rev
    else match comp_gap c (ie last) with
         | Some GGlue => mkIv (ib last) (ie iv) true (itext last ++ itext iv) :: rest
         | _ => iv :: acc_rev
         end
  end.
Definition glue_path (c : composition) (ivs : list interval) : list interval :=
  rev (fold_left (glue_step c) ivs []).

(* ---- validity of a segmentation returned by the Chewing engine ---- *)
Definition pphrase_eqb (a b : pphrase) : bool :=
  match a, b with
  | PSym x, PSym y => symbol_eqb x y
  | PPhrase t f, PPhrase t' f' => text_eqb t t' && N.eqb f f'
  | _, _ => false
  end.

Definition interval_eqb (a b : interval) : bool :=
  Nat.eqb (ib a) (ib b) && Nat.eqb (ie a) (ie b) && Bool.eqb (iphrase a) (iphrase b) && text_eqb (itext a) (itext b).

(* a path: contiguous edges of the graph from `from` to len *)
Fixpoint path_ok (graph : list edge) (from len : nat) (p : list edge) : bool :=
  match p with
  | [] => Nat.eqb from len
  | e :: rest =>
    Nat.eqb (eb e) from && Nat.ltb (eb e) (ee e) &&
    existsb (fun g => Nat.eqb (eb g) (eb e) && Nat.eqb (ee g) (ee e) && pphrase_eqb (ephrase g) (ephrase e)) graph &&
    path_ok graph (ee e) len rest
  end.

(* The engine's answer `ivs` for composition c is valid iff it is the glue-fold
   of some 0->len path.  Given ivs we reconstruct the path greedily: each
   returned interval is split at the graph edges it could be glued from.  For the
   check we search a decomposition of each interval into consecutive edges joined
   at Glue gaps. *)
Fixpoint decompose (graph : list edge) (c : composition) (fuel : nat) (from : nat) (upto : nat) (text : list N) (first : bool)
  : bool :=
  (* can [from, upto) with `text` be produced by gluing >= 1 phrase edges? *)
  match fuel with
  | O => false
  | S k =>
    existsb (fun g =>
      Nat.eqb (eb g) from && Nat.ltb (eb g) (ee g) && Nat.leb (ee g) upto && pphrase_is_phrase (ephrase g) &&
      (first || match comp_gap c from with Some GGlue => true | _ => false end) &&
      let t := pphrase_text (ephrase g) in
      text_eqb (firstn (length t) text) t &&
      (if Nat.eqb (ee g) upto then Nat.eqb (length t) (length text)
       else decompose graph c k (ee g) upto (skipn (length t) text) false)) graph
  end.

Definition interval_valid (graph : list edge) (c : composition) (iv : interval) : bool :=
  if iphrase iv then decompose graph c (S (clen c)) (ib iv) (ie iv) (itext iv) true
  else existsb (fun g => Nat.eqb (eb g) (ib iv) && Nat.eqb (ee g) (ie iv) &&
                         negb (pphrase_is_phrase (ephrase g)) && text_eqb (pphrase_text (ephrase g)) (itext iv)) graph.

Fixpoint contiguous (from len : nat) (ivs : list interval) : bool :=
  match ivs with
  | [] => Nat.eqb from len
  | iv :: rest => Nat.eqb (ib iv) from && Nat.ltb (ib iv) (ie iv) && contiguous (ie iv) len rest
  end.

Definition valid_conversion (spell : N -> list N) (lookup : lookup_fn) (c : composition) (ivs : list interval) : bool :=
  match symbols c with
  | [] => match ivs with [] => true | _ => false end
  | _ => let graph := find_intervals spell lookup c in
         contiguous 0 (clen c) ivs && forallb (interval_valid graph c) ivs
  end.

(* the tiling contract of C03, as a boolean on a returned segmentation *)
Fixpoint symbol_texts_ok (c : composition) (ivs : list interval) : bool :=
  forallb (fun iv =>
    Nat.eqb (length (itext iv)) (ie iv - ib iv) &&
    (* non-syllable symbols appear unchanged at their own position *)
    forallb (fun k => match nth_error (symbols c) (ib iv + k) with
                      | Some (SymChar ch) => match nth_error (itext iv) k with Some x => N.eqb x ch | None => false end
                      | _ => true
                      end) (seq 0 (ie iv - ib iv))) ivs.

Definition tiling_ok (c : composition) (ivs : list interval) : bool :=
  contiguous 0 (clen c) ivs && symbol_texts_ok c ivs.

Definition display_of (ivs : list interval) : list N := flat_map itext ivs.

(* ---- SimpleEngine::convert ---- *)
(* lookup1 s = dict.lookup_first_phrase(&[s], Standard) text; spell s = syllable.to_string() *)
Fixpoint insert_by_start (iv : interval) (l : list interval) : list interval :=
  match l with
  | [] => [iv]
  | x :: l' => if Nat.leb (ib iv) (ib x) then iv :: l else x :: insert_by_start iv l'
  end.
(* stable sort by start (Vec::sort_by_key is stable) *)
Definition sort_by_start (l : list interval) : list interval := fold_right insert_by_start [] l.

Definition simple_convert (lookup1 : N -> option (list N)) (spell : N -> list N) (c : composition) : list interval :=
  let singles :=
    flat_map (fun i =>
      match nth_error (symbols c) i with
      | None => []
      | Some sym =>
        if existsb (fun sel => intersect_range sel i (S i)) (selections c) then []
        else match sym with
             | SymChar ch => [mkIv i (S i) false [ch]]
             | SymSyl s => [mkIv i (S i) true (match lookup1 s with Some t => t | None => spell s end)]
             end
      end) (seq 0 (clen c)) in
  sort_by_start (singles ++ selections c).
