(* Executable model of the four table layouts standard.rs / et.rs / ibm.rs /
   ginyieh.rs: one key_press parameterised by the generated KeyIndex -> Bopomofo
   table.  State = the syllable code.  No proofs in this file. *)
From Coq Require Import NArith List Bool.
From LC Require Import Base.Lib Gen.Bopomofo_gen Gen.Layout_gen Model.Syllable Model.LayoutBase.
Import ListNotations.
Open Scope N_scope.

Definition std_key_press (tbl : list (N * N)) (st idx : N) : outcome (N * behavior) :=
  match assoc idx tbl with
  | None => Ok (st, KeyError)
  | Some b =>
      if (bkind b =? KIND_TONE) && negb (is_empty st) then
        (* tone key on a non-empty syllable: set the tone (not for TONE1) and commit *)
        if negb (b =? bTONE1) then obind (update st b) (fun s => Ok (s, Commit))
        else Ok (st, Commit)
      else
        let st1 := if bkind b =? KIND_TONE then st else rm_tone st in
        (* In C libchewing TONE1 / Space is not a phonetic symbol *)
        if b =? bTONE1 then Ok (st1, KeyError)
        else obind (update st1 b) (fun s => Ok (s, Absorb))
  end.
