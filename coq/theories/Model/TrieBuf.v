(* Executable model of src/dictionary/trie_buf.rs (in-memory semantics of TrieBuf):
   the three components trie (last adopted snapshot) / btree (pending entries) /
   graveyard (tombstones), the dirty flag, and what checkpoint (flush) and sync
   (reopen) do to them.  The background writer is a pending snapshot whose result a
   later sync may or may not adopt; whether it has finished when sync runs is part of
   the history (the durability protocol itself is C10's Durability.v).

   The record [cfg] selects between the code pinned at the start of the work and the
   code after the five C09 `fix:` commits; [current] is the code that exists now and is
   what the correspondence runs.  No proofs in this file. *)
From Coq Require Import NArith List Bool.
From LC Require Import Base.Lib Model.Dict.
Import ListNotations.
Open Scope N_scope.

Record cfg := mkCfg {
  fix_grave : bool;          (* add/update lift the tombstone *)
  fix_shadow_lookup : bool;  (* entries_iter_for: a pending entry shadows the snapshot's *)
  fix_shadow_entries : bool; (* entries_iter: the same for the enumeration *)
  fix_trie_first : bool;     (* Trie::lookup_first_n_phrases truncates to first *)
  fix_range : bool           (* pending entries of a key are no longer cut off at "\u{10FFFF}" *)
}.
Definition pinned : cfg := mkCfg false false false false false.
Definition fixed : cfg := mkCfg true true true true true.
(* the code that exists in /repo now *)
Definition current : cfg := fixed.

Definition trie_lookup (c : cfg) := trie_lookup_gen (fix_trie_first c).

Record triebuf := mkTB {
  tb_trie : option trie;                 (* None: new_in_memory() *)
  tb_btree : list (pkey * (N * N));      (* BTreeMap<PhraseKey, (u32, u64)> *)
  tb_grave : list pkey;                  (* BTreeSet<PhraseKey> *)
  tb_dirty : bool;
  tb_pending : option trie;              (* join_handle: the snapshot being written *)
  tb_disk : trie                         (* content of the file at path() *)
}.

Definition tb_new_in_memory : triebuf := mkTB None [] [] false None [].
(* TrieBuf::open on a file holding t (an absent file is created empty first) *)
Definition tb_open (t : trie) : triebuf := mkTB (Some t) [] [] false None t.

(* MAX_PHRASE = "\u{10FFFF}": btree.range(min_key..max_key) is half open *)
Definition in_phrase_range (p : text) : bool :=
  match lex_cmp p [1114111] with Lt => true | _ => false end.

Definition bt_phrase (e : pkey * (N * N)) : phrase :=
  mkPhrase (snd (fst e)) (fst (snd e)) (Some (snd (snd e))).

(* entries_iter_for *)
Definition tb_entries_for (c : cfg) (tb : triebuf) (k : key) (s : strategy) : list phrase :=
  let store := match tb_trie tb with
               | Some t => trie_lookup c t k USIZE_MAX s       (* lookup_all_phrases *)
               | None => []
               end in
  let store := if fix_shadow_lookup c
               then filter (fun ph => negb (bt_mem (k, ph_text ph) (tb_btree tb))) store
               else store in
  let pend := map bt_phrase
                  (filter (fun e => seq_eqb (fst (fst e)) k && (fix_range c || in_phrase_range (snd (fst e)))) (tb_btree tb)) in
  filter (fun ph => negb (gr_mem (k, ph_text ph) (tb_grave tb))) (store ++ pend).

(* entries_iter *)
Definition tb_entries (c : cfg) (tb : triebuf) : list (key * phrase) :=
  let store := match tb_trie tb with Some t => trie_entries t | None => [] end in
  let store := if fix_shadow_entries c
               then filter (fun e => negb (bt_mem (fst e, ph_text (snd e)) (tb_btree tb))) store
               else store in
  let pend := map (fun e => (fst (fst e), bt_phrase e)) (tb_btree tb) in
  filter (fun e => negb (gr_mem (fst e, ph_text (snd e)) (tb_grave tb))) (store ++ pend).

(* lookup_first_n_phrases *)
Definition tb_lookup (c : cfg) (tb : triebuf) (k : key) (first : N) (s : strategy) : list phrase :=
  truncate_usize first (dedup (tb_entries_for c tb k s)).

Definition opt_default (o : option N) : N := match o with Some x => x | None => 0 end.

(* add_phrase: Err when an entry with that phrase is visible *)
Definition tb_add (c : cfg) (tb : triebuf) (k : key) (ph : phrase) : triebuf * bool :=
  if existsb (fun q => seq_eqb (ph_text q) (ph_text ph)) (tb_entries_for c tb k Standard)
  then (tb, false)
  else (mkTB (tb_trie tb)
             (bt_insert (k, ph_text ph) (ph_freq ph, opt_default (ph_time ph)) (tb_btree tb))
             (if fix_grave c then gr_remove (k, ph_text ph) (tb_grave tb) else tb_grave tb)
             true (tb_pending tb) (tb_disk tb), true).

(* update_phrase(syllables, phrase, user_freq, time): phrase.freq is ignored *)
Definition tb_update (c : cfg) (tb : triebuf) (k : key) (p : text) (user_freq time : N) : triebuf :=
  mkTB (tb_trie tb)
       (bt_insert (k, p) (user_freq, time) (tb_btree tb))
       (if fix_grave c then gr_remove (k, p) (tb_grave tb) else tb_grave tb)
       true (tb_pending tb) (tb_disk tb).

Definition tb_remove (tb : triebuf) (k : key) (p : text) : triebuf :=
  mkTB (tb_trie tb) (bt_remove (k, p) (tb_btree tb)) (gr_insert (k, p) (tb_grave tb))
       true (tb_pending tb) (tb_disk tb).

(* checkpoint (flush): needs a file-backed trie, no writer in flight, dirty *)
Definition tb_flush (c : cfg) (tb : triebuf) : triebuf :=
  match tb_pending tb, tb_trie tb with
  | None, Some _ =>
      if tb_dirty tb
      then mkTB (tb_trie tb) (tb_btree tb) (tb_grave tb) false
                (Some (trie_build (tb_entries c tb))) (tb_disk tb)
      else tb
  | _, _ => tb
  end.

(* what the writer thread has done when sync() looks at it *)
Inductive writer := NotFinished | FinishedOk | FinishedErr.

(* sync (reopen) *)
Definition tb_sync (tb : triebuf) (w : writer) : triebuf :=
  match tb_pending tb with
  | Some t' =>
      match w with
      | NotFinished => tb
      | FinishedErr => mkTB (tb_trie tb) (tb_btree tb) (tb_grave tb) (tb_dirty tb) None (tb_disk tb)
      | FinishedOk =>
          if tb_dirty tb
          then mkTB (tb_trie tb) (tb_btree tb) (tb_grave tb) true None t'
          else mkTB (Some t') [] [] false None t'
      end
  | None =>
      match tb_trie tb with
      | Some _ => mkTB (Some (tb_disk tb)) (tb_btree tb) (tb_grave tb) (tb_dirty tb) None (tb_disk tb)
      | None => tb
      end
  end.

(* ---- histories ---- *)
Inductive op :=
| OAdd (k : key) (ph : phrase)
| OUpdate (k : key) (p : text) (orig_freq user_freq time : N)
| ORemove (k : key) (p : text)
| OLookup (k : key) (first : N) (s : strategy)
| OEntries
| OFlush
| OReopen (w : writer).

Inductive out :=
| RUnit
| RAdd (ok : bool)
| RLookup (l : list phrase)
| REntries (l : list (key * phrase)).

Definition tb_step (c : cfg) (tb : triebuf) (o : op) : triebuf * out :=
  match o with
  | OAdd k ph => let '(tb', ok) := tb_add c tb k ph in (tb', RAdd ok)
  | OUpdate k p _ uf t => (tb_update c tb k p uf t, RUnit)
  | ORemove k p => (tb_remove tb k p, RUnit)
  | OLookup k n s => (tb, RLookup (tb_lookup c tb k n s))
  | OEntries => (tb, REntries (tb_entries c tb))
  | OFlush => (tb_flush c tb, RUnit)
  | OReopen w => (tb_sync tb w, RUnit)
  end.

Fixpoint tb_run (c : cfg) (tb : triebuf) (ops : list op) : triebuf * list out :=
  match ops with
  | [] => (tb, [])
  | o :: ops' => let '(tb1, r) := tb_step c tb o in
                 let '(tb2, rs) := tb_run c tb1 ops' in (tb2, r :: rs)
  end.

(* the specification machine: the same history on the map *)
Definition spec_step (s : spec) (o : op) : spec :=
  match o with
  | OAdd k ph => match s_find (k, ph_text ph) s with
                 | Some _ => s
                 | None => s_set (k, ph_text ph) (ph_freq ph, Some (opt_default (ph_time ph))) s
                 end
  | OUpdate k p _ uf t => s_set (k, p) (uf, Some t) s
  | ORemove k p => s_unset (k, p) s
  | _ => s
  end.
Definition spec_run (s : spec) (ops : list op) : spec := fold_left spec_step ops s.

(* abstraction of a trie / of a TrieBuf: its entries as a map *)
Definition tb_get (tb : triebuf) (x : pkey) : option sval :=
  if gr_mem x (tb_grave tb) then None
  else match bt_find x (tb_btree tb) with
       | Some (f, t) => Some (f, Some t)
       | None => match tb_trie tb with Some t => trie_get t x | None => None end
       end.
Definition spec_of_trie (t : trie) : spec :=
  map (fun e => ((fst e, ph_text (snd e)), (ph_freq (snd e), ph_time (snd e)))) (trie_entries t).
