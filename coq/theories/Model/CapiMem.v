(* CapiMem: ownership / lifetime model of a ChewingContext as seen through the
   C API (capi/src/io.rs, capi/src/public.rs) and of the objects a user-phrase
   enumeration borrows from the user dictionary (src/dictionary/trie_buf.rs).

   What is modelled
   - heap results handed to the caller (CString::into_raw, Box<[u16]>::into_raw),
     the process-wide OWNED registry (owned_into_raw) and chewing_free, with the
     allocation layout (size, align) of every block and the layout chewing_free
     rebuilds from the registry entry;
   - the six fixed-size static buffers and copy_cstr, byte for byte;
   - the four stored iterators: candidates, intervals and keyboard types OWN a
     snapshot; the user-phrase iterator either owns a collected snapshot or holds
     a BORROW TOKEN (generation numbers of the Trie object inside TrieBuf and of
     the pending BTreeMap) - which of the two the code does is a field of
     [config], read from the source by tablegen (Gen/CapiMem_gen.v);
   - every place where the Rust code replaces, drops or mutates a borrowed
     object: TrieBuf::{add,update,remove}_phrase, TrieBuf::sync (both branches),
     TrieBuf::checkpoint, and the editor's reopen()+flush() at the end of a key
     event when dirty_level > 0.
   What the editor computes (texts, candidate lists, whether a key learned a
   phrase, whether the background writer has finished) is NOT modelled here: it is
   part of the call alphabet [op] (chosen by the environment, universally
   quantified in the theorems, instantiated by the observed values in the
   correspondence check).

   Executable definitions only; no proofs in this file. *)
From Coq Require Import NArith ZArith List Bool.
From LC Require Import Base.Lib Base.Text.
Import ListNotations.
Open Scope N_scope.

Definition bytes := list N.

(* ------------------------------------------------------------------ *)
(* facts about the code that tablegen re-reads on every run *)

Record config : Type := {
  up_owns : bool;          (* chewing_userphrase_enumerate collects entries() into an owned Vec *)
  free_elem_size : N;      (* size / align of the element type with which chewing_free *)
  free_elem_align : N;     (*   rebuilds the Vec of an Owned::CUShortSlice(len)          *)
  free_removes : bool;     (* chewing_free removes the registry entry (map.remove vs map.get) *)
  cstr_reserve : bool;     (* copy_cstr keeps a byte for the terminator, cuts on a char boundary *)
  up_get_checks : bool;    (* chewing_userphrase_get returns -1 instead of indexing past a short buffer *)
  cap_commit : N; cap_preedit : N; cap_bopomofo : N; cap_cand : N; cap_aux : N; cap_kbtype : N;
  kb_names : list bytes    (* KeyboardLayoutCompat Display strings in id order *)
}.

(* the tree as pinned (before the C15 repairs) *)
Definition cfg_pinned (names : list bytes) : config :=
  {| up_owns := false; free_elem_size := 1; free_elem_align := 1; free_removes := false;
     cstr_reserve := false; up_get_checks := false;
     cap_commit := 256; cap_preedit := 256; cap_bopomofo := 16; cap_cand := 256; cap_aux := 256;
     cap_kbtype := 32; kb_names := names |}.

(* ------------------------------------------------------------------ *)
(* copy_cstr(buf, s):  let n = min(buf.len(), s.len()); buf.fill(0); buf[..n] = s[..n]
   repaired form:      let mut n = min(buf.len().saturating_sub(1), s.len());
                       while !s.is_char_boundary(n) { n -= 1 }            *)

Definition copy_len (reserve : bool) (cap : nat) (s : bytes) : nat :=
  if reserve then floor_char_boundary s (Nat.min (Nat.pred cap) (length s))
  else Nat.min cap (length s).

Definition copy_cstr (reserve : bool) (cap : nat) (s : bytes) : bytes :=
  let n := copy_len reserve cap s in
  firstn n s ++ repeat 0 (cap - n).

(* ------------------------------------------------------------------ *)
(* heap blocks handed to the caller and the OWNED registry *)

Record layout : Type := { l_size : N; l_align : N }.

Definition layout_eqb (a b : layout) : bool :=
  (l_size a =? l_size b) && (l_align a =? l_align b).

Inductive owned : Type :=
| OCString
| OCUShort (len : N).

(* a live block: the layout it was allocated with, and its bytes when it is a C string *)
Record blk : Type := { b_layout : layout; b_bytes : bytes }.

Definition heap := list (N * blk).
Definition registry := list (N * owned).

Fixpoint remove_key {A} (k : N) (l : list (N * A)) : list (N * A) :=
  match l with
  | [] => []
  | (k', v) :: r => if k =? k' then remove_key k r else (k', v) :: remove_key k r
  end.

Definition insert_key {A} (k : N) (v : A) (l : list (N * A)) : list (N * A) :=
  (k, v) :: remove_key k l.

(* CString::new(s).into_raw(): Box<[u8]> of s.len()+1 bytes, align 1 *)
Definition cstring_layout (s : bytes) : layout := {| l_size := len_N s + 1; l_align := 1 |}.
(* Vec<u16> -> Box<[u16]>: 2*len bytes, align 2 (no allocation when len = 0) *)
Definition u16_layout (len : N) : layout := {| l_size := 2 * len; l_align := 2 |}.
(* NonNull::<u16>::dangling() - the pointer of an empty boxed slice *)
Definition dangling_u16 : N := 2.

(* the layout chewing_free hands back to the allocator for a registry entry:
   CString::from_raw(p) measures strlen(p)+1 on the block's bytes;
   Vec::<T>::from_raw_parts(p, len, len) computes len * size_of::<T>() *)
Definition free_layout (cfg : config) (o : owned) (content : bytes) : layout :=
  match o with
  | OCString => {| l_size := len_N (c_str content) + 1; l_align := 1 |}
  | OCUShort len => {| l_size := len * free_elem_size cfg; l_align := free_elem_align cfg |}
  end.

(* ------------------------------------------------------------------ *)
(* what a user-phrase enumeration borrows *)

Record token : Type := { t_trie : N; t_mut : N; t_free : N }.

Inductive cause : Type :=
| TrieDropped      (* TrieBuf.trie was replaced; the old Trie (index, phrase_seq) is freed *)
| BtreeFreed       (* btree.remove of a present key / btree.clear(): keys or nodes freed *)
| BtreeMutated.    (* btree.insert while shared-borrowed: no free, aliasing contract broken *)

Definition freed_memory (c : cause) : bool :=
  match c with BtreeMutated => false | _ => true end.

Definition stale (held cur : token) : option cause :=
  if negb (t_trie held =? t_trie cur) then Some TrieDropped
  else if negb (t_free held =? t_free cur) then Some BtreeFreed
  else if negb (t_mut held =? t_mut cur) then Some BtreeMutated
  else None.

Definition entry := (bytes * bytes)%type.      (* phrase bytes, "ㄘㄜˋ ㄕˋ" bytes *)

Inductive up_handle : Type :=
| UpOwn (rest : list entry)
| UpBorrow (tok : token) (peeked : bool) (rest : list entry).

(* TrieBuf fields that matter for lifetimes *)
Record triebuf : Type := {
  tb_tok : token;        (* identity of trie / state of btree *)
  tb_dirty : bool;       (* TrieBuf.dirty *)
  tb_writer : bool;      (* join_handle.is_some() *)
  tb_file : bool         (* trie has a path (file backed) *)
}.

Inductive mutation : Type :=
| MAdd                        (* TrieBuf::add_phrase succeeded: btree.insert of a new key *)
| MUpdate                     (* TrieBuf::update_phrase: btree.insert (new key or value replaced) *)
| MRemove (in_btree : bool).  (* TrieBuf::remove_phrase: btree.remove (+ graveyard.insert) *)

Inductive writer_result : Type := WRunning | WDoneOk | WDoneErr.

Definition bump_mut (t : token) : token := {| t_trie := t_trie t; t_mut := t_mut t + 1; t_free := t_free t |}.
Definition bump_free (t : token) : token := {| t_trie := t_trie t; t_mut := t_mut t + 1; t_free := t_free t + 1 |}.
Definition bump_trie (t : token) : token := {| t_trie := t_trie t + 1; t_mut := t_mut t; t_free := t_free t |}.

Definition tb_mutate (m : mutation) (tb : triebuf) : triebuf :=
  {| tb_tok := match m with MRemove true => bump_free (tb_tok tb) | _ => bump_mut (tb_tok tb) end;
     tb_dirty := true; tb_writer := tb_writer tb; tb_file := tb_file tb |}.

(* TrieBuf::sync *)
Definition tb_sync (w : writer_result) (reload_ok : bool) (tb : triebuf) : triebuf :=
  if tb_writer tb then
    match w with
    | WRunning => tb
    | WDoneErr => {| tb_tok := tb_tok tb; tb_dirty := tb_dirty tb; tb_writer := false; tb_file := tb_file tb |}
    | WDoneOk =>
        if tb_dirty tb then {| tb_tok := tb_tok tb; tb_dirty := true; tb_writer := false; tb_file := tb_file tb |}
        else {| tb_tok := bump_trie (bump_free (tb_tok tb));    (* self.trie = Some(trie); btree.clear() *)
                tb_dirty := false; tb_writer := false; tb_file := tb_file tb |}
    end
  else if tb_file tb && reload_ok then
    {| tb_tok := bump_trie (tb_tok tb);                        (* self.trie = Some(Trie::open(path)?) *)
       tb_dirty := tb_dirty tb; tb_writer := false; tb_file := true |}
  else tb.

(* TrieBuf::checkpoint *)
Definition tb_checkpoint (tb : triebuf) : triebuf :=
  if tb_writer tb then tb
  else if negb (tb_file tb) || negb (tb_dirty tb) then tb
  else {| tb_tok := tb_tok tb; tb_dirty := false; tb_writer := true; tb_file := tb_file tb |}.

(* ------------------------------------------------------------------ *)
(* the context *)

Inductive buf_id : Type := BCommit | BPreedit | BBopomofo | BCand | BAux | BKbtype.

Definition buf_id_N (b : buf_id) : N :=
  match b with BCommit => 0 | BPreedit => 1 | BBopomofo => 2 | BCand => 3 | BAux => 4 | BKbtype => 5 end.

Definition cap_of (cfg : config) (b : buf_id) : N :=
  match b with
  | BCommit => cap_commit cfg | BPreedit => cap_preedit cfg | BBopomofo => cap_bopomofo cfg
  | BCand => cap_cand cfg | BAux => cap_aux cfg | BKbtype => cap_kbtype cfg
  end.

Record state : Type := {
  s_heap : heap;
  s_reg : registry;
  s_bufs : list (N * bytes);              (* contents of the static buffers, keyed by buf_id_N *)
  s_cand : option (list bytes);
  s_int : option (list (N * N));
  s_kb : option (list bytes);
  s_up : option up_handle;
  s_tb : triebuf;
  s_dirty_level : N
}.

Definition set_heap_reg (s : state) h r : state :=
  {| s_heap := h; s_reg := r; s_bufs := s_bufs s; s_cand := s_cand s; s_int := s_int s; s_kb := s_kb s;
     s_up := s_up s; s_tb := s_tb s; s_dirty_level := s_dirty_level s |}.

Definition init (file_backed : bool) : state :=
  {| s_heap := []; s_reg := []; s_bufs := [];
     s_cand := None; s_int := None; s_kb := None; s_up := None;
     s_tb := {| tb_tok := {| t_trie := 0; t_mut := 0; t_free := 0 |};
                tb_dirty := false; tb_writer := false; tb_file := file_backed |};
     s_dirty_level := 0 |}.

(* chewing_new2 after chewing_delete in the same process: the OWNED registry and the caller's
   heap results are process-wide and survive; everything else is fresh *)
Definition new_context (file_backed : bool) (s : state) : state :=
  set_heap_reg (init file_backed) (s_heap s) (s_reg s).

(* what CString::new failing (interior NUL) turns into, per getter *)
Inductive nul_policy : Type := NulNull | NulEmpty | NulPanic.

Inductive op : Type :=
(* heap getters: commit/buffer/bopomofo/aux/zuin _String, get_KBString, cand_string_by_index,
   config_get_str; [text] is what the editor holds, [a] the address the allocator returns *)
| OGetHeap (pol : nul_policy) (text : bytes) (a : N)
(* *_static getters; None = the branch that returns the global empty string *)
| OGetStatic (b : buf_id) (text : option bytes)
| OPhoneSeq (len : N) (a : N)
| OFree (p : N)
| OCandEnum (r : option (list bytes))     (* paginated_candidates(): Err keeps the old iterator *)
| OCandHasNext (selecting : bool)
| OCandString (a : N)
| OCandStringStatic
| OIntEnum (l : list (N * N))
| OIntHasNext
| OIntGet
| OKbEnum
| OKbHasNext
| OKbString (a : N)
| OKbStringStatic
| OUpEnum (snapshot : list entry)         (* entries() of the user dictionary at this moment *)
| OUpHasNext
| OUpGet (pbuf bbuf : option N)           (* caller's buffers: None = NULL, Some len *)
(* any call that may change the user dictionary: userphrase_add/remove, commit_preedit_buf
   (end_of_key = false), every chewing_handle_* (end_of_key = true: reopen()+flush() when
   dirty_level > 0); each mutation says whether the code path increments dirty_level.
   Calls that touch nothing lifetime-relevant (config, Reset, cand_open, ...) are OCall [] false. *)
| OCall (muts : list (mutation * bool)) (end_of_key : bool) (w : writer_result) (reload_ok : bool).

Inductive fault : Type :=
| Dangling (c : cause)                    (* access through a reference whose referent is gone *)
| LayoutMismatch (alloc dealloc : layout) (* dealloc with a layout other than the allocation's *)
| FreeNotLive (p : N)                     (* chewing_free releases a block that is not live *)
| Panic (site : N).                       (* Rust panic inside extern "C" = abort *)

Inductive res : Type :=
| RNone
| RInt (z : Z)
| RHeap (a : N) (content : bytes)         (* registered C string: bytes incl. terminator *)
| RNull
| RSlice (a : N) (len : N)
| RStatic (b : buf_id) (content : bytes)  (* the whole static buffer after the call *)
| RGlobalEmpty
| RHasNext (plen blen : N)
| RUpGet (p b : option bytes)             (* what was written to the caller's buffers (incl. NUL) *)
| RInterval (x : option (N * N))
| RDealloc (p : N) (l : layout)
| RFault (f : fault).

Definition set_heap (s : state) h r : state :=
  {| s_heap := h; s_reg := r; s_bufs := s_bufs s; s_cand := s_cand s; s_int := s_int s; s_kb := s_kb s;
     s_up := s_up s; s_tb := s_tb s; s_dirty_level := s_dirty_level s |}.
Definition set_buf (s : state) b c : state :=
  {| s_heap := s_heap s; s_reg := s_reg s; s_bufs := insert_key (buf_id_N b) c (s_bufs s); s_cand := s_cand s;
     s_int := s_int s; s_kb := s_kb s; s_up := s_up s; s_tb := s_tb s; s_dirty_level := s_dirty_level s |}.
Definition set_cand (s : state) c : state :=
  {| s_heap := s_heap s; s_reg := s_reg s; s_bufs := s_bufs s; s_cand := c; s_int := s_int s; s_kb := s_kb s;
     s_up := s_up s; s_tb := s_tb s; s_dirty_level := s_dirty_level s |}.
Definition set_int (s : state) c : state :=
  {| s_heap := s_heap s; s_reg := s_reg s; s_bufs := s_bufs s; s_cand := s_cand s; s_int := c; s_kb := s_kb s;
     s_up := s_up s; s_tb := s_tb s; s_dirty_level := s_dirty_level s |}.
Definition set_kb (s : state) c : state :=
  {| s_heap := s_heap s; s_reg := s_reg s; s_bufs := s_bufs s; s_cand := s_cand s; s_int := s_int s; s_kb := c;
     s_up := s_up s; s_tb := s_tb s; s_dirty_level := s_dirty_level s |}.
Definition set_up (s : state) c : state :=
  {| s_heap := s_heap s; s_reg := s_reg s; s_bufs := s_bufs s; s_cand := s_cand s; s_int := s_int s; s_kb := s_kb s;
     s_up := c; s_tb := s_tb s; s_dirty_level := s_dirty_level s |}.
Definition set_tb (s : state) tb dl : state :=
  {| s_heap := s_heap s; s_reg := s_reg s; s_bufs := s_bufs s; s_cand := s_cand s; s_int := s_int s; s_kb := s_kb s;
     s_up := s_up s; s_tb := tb; s_dirty_level := dl |}.

(* owned_into_raw(Owned::CString, CString::new(text).into_raw()) at address a *)
Definition alloc_cstring (s : state) (text : bytes) (a : N) : state * res :=
  let content := text ++ [0] in
  (set_heap s (insert_key a {| b_layout := cstring_layout text; b_bytes := content |} (s_heap s))
              (insert_key a OCString (s_reg s)),
   RHeap a content).

Definition get_heap (s : state) (pol : nul_policy) (text : bytes) (a : N) : state * res :=
  if no_nul text then alloc_cstring s text a
  else match pol with
       | NulNull => (s, RNull)
       | NulEmpty => alloc_cstring s [] a
       | NulPanic => (s, RFault (Panic 1))
       end.

Definition write_static (cfg : config) (s : state) (b : buf_id) (text : bytes) : state * res :=
  let c := copy_cstr (cstr_reserve cfg) (N.to_nat (cap_of cfg b)) text in
  (set_buf s b c, RStatic b c).

Definition do_free (cfg : config) (s : state) (p : N) : state * res :=
  if p =? 0 then (s, RNone)
  else match assoc p (s_reg s) with
       | None => (s, RNone)                                   (* not ours: ignored *)
       | Some o =>
           let reg' := if free_removes cfg then remove_key p (s_reg s) else s_reg s in
           match assoc p (s_heap s) with
           | Some b =>
               let l := free_layout cfg o (b_bytes b) in
               if l_size l =? 0 then (set_heap s (s_heap s) reg', RNone)   (* Vec with capacity 0 *)
               else if layout_eqb (b_layout b) l
                    then (set_heap s (remove_key p (s_heap s)) reg', RDealloc p l)
                    else (set_heap s (remove_key p (s_heap s)) reg', RFault (LayoutMismatch (b_layout b) l))
           | None =>
               match o with
               | OCUShort 0 => (set_heap s (s_heap s) reg', RNone)   (* empty slice: nothing to release *)
               | _ => (set_heap s (s_heap s) reg', RFault (FreeNotLive p))
               end
           end
       end.

Definition tb_apply (muts : list (mutation * bool)) (tb : triebuf) (dl : N) : triebuf * N :=
  fold_left (fun (acc : triebuf * N) (mb : mutation * bool) =>
               (tb_mutate (fst mb) (fst acc), if snd mb then snd acc + 1 else snd acc)) muts (tb, dl).

Definition entry_lens (e : entry) : res := RHasNext (len_N (fst e) + 1) (len_N (snd e) + 1).

(* writing one string into a caller buffer of length n (None = NULL pointer):
   buf[..s.len()].copy_from_slice(s); buf[s.len()] = 0  - both index checks can panic *)
Definition write_user (buf : option N) (s : bytes) : option (option bytes) :=
  match buf with
  | None => Some None
  | Some n => if len_N s <? n then Some (Some (s ++ [0])) else None
  end.

Definition up_get_item (cfg : config) (pbuf bbuf : option N) (e : entry) : res :=
  match write_user pbuf (fst e), write_user bbuf (snd e) with
  | Some p, Some b => RUpGet p b
  | _, _ => if up_get_checks cfg then RInt (-1)%Z else RFault (Panic 2)
  end.

Definition has_item {A} (o : option (list A)) : bool :=
  match o with Some (_ :: _) => true | _ => false end.
Definition int_of_bool (b : bool) : res := RInt (if b then 1%Z else 0%Z).

Definition step (cfg : config) (s : state) (o : op) : state * res :=
  match o with
  | OGetHeap pol text a => get_heap s pol text a
  | OGetStatic b (Some text) => write_static cfg s b text
  | OGetStatic _ None => (s, RGlobalEmpty)
  | OPhoneSeq len a =>
      if len =? 0 then (set_heap s (s_heap s) (insert_key dangling_u16 (OCUShort 0) (s_reg s)), RSlice dangling_u16 0)
      else (set_heap s (insert_key a {| b_layout := u16_layout len; b_bytes := [] |} (s_heap s))
                       (insert_key a (OCUShort len) (s_reg s)), RSlice a len)
  | OFree p => do_free cfg s p
  | OCandEnum (Some l) => (set_cand s (Some l), RNone)
  | OCandEnum None => (s, RNone)
  | OCandHasNext sel =>
      (s, int_of_bool (sel && has_item (s_cand s)))
  | OCandString a =>
      match s_cand s with
      | Some (x :: r) => get_heap (set_cand s (Some r)) NulEmpty x a
      | _ => alloc_cstring s [] a
      end
  | OCandStringStatic =>
      match s_cand s with
      | Some (x :: r) => write_static cfg (set_cand s (Some r)) BCand x
      | _ => (s, RGlobalEmpty)
      end
  | OIntEnum l => (set_int s (Some l), RNone)
  | OIntHasNext => (s, int_of_bool (has_item (s_int s)))
  | OIntGet =>
      match s_int s with
      | Some (x :: r) => (set_int s (Some r), RInterval (Some x))
      | _ => (s, RInterval None)
      end
  | OKbEnum => (set_kb s (Some (kb_names cfg)), RNone)
  | OKbHasNext => (s, int_of_bool (has_item (s_kb s)))
  | OKbString a =>
      match s_kb s with
      | Some (x :: r) => get_heap (set_kb s (Some r)) NulNull x a
      | _ => alloc_cstring s [] a
      end
  | OKbStringStatic =>
      match s_kb s with
      | Some (x :: r) => write_static cfg (set_kb s (Some r)) BKbtype x
      | _ => (s, RGlobalEmpty)
      end
  | OUpEnum snap =>
      (set_up s (Some (if up_owns cfg then UpOwn snap else UpBorrow (tb_tok (s_tb s)) false snap)), RInt 0%Z)
  | OUpHasNext =>
      match s_up s with
      | None => (s, RInt 0%Z)
      | Some (UpOwn []) => (set_up s None, RInt 0%Z)
      | Some (UpOwn (e :: _)) => (s, entry_lens e)
      | Some (UpBorrow tok true (e :: _)) => (s, entry_lens e)           (* Peekable's cached item *)
      | Some (UpBorrow tok pk rest) =>
          match stale tok (tb_tok (s_tb s)) with
          | Some c => (s, RFault (Dangling c))
          | None => match rest with
                    | [] => (set_up s None, RInt 0%Z)
                    | e :: _ => (set_up s (Some (UpBorrow tok true rest)), entry_lens e)
                    end
          end
      end
  | OUpGet pbuf bbuf =>
      match s_up s with
      | None => (s, RInt (-1)%Z)
      | Some (UpOwn []) => (s, RInt (-1)%Z)
      | Some (UpOwn (e :: r)) => (set_up s (Some (UpOwn r)), up_get_item cfg pbuf bbuf e)
      | Some (UpBorrow tok true (e :: r)) => (set_up s (Some (UpBorrow tok false r)), up_get_item cfg pbuf bbuf e)
      | Some (UpBorrow tok pk rest) =>
          match stale tok (tb_tok (s_tb s)) with
          | Some c => (s, RFault (Dangling c))
          | None => match rest with
                    | [] => (s, RInt (-1)%Z)
                    | e :: r => (set_up s (Some (UpBorrow tok false r)), up_get_item cfg pbuf bbuf e)
                    end
          end
      end
  | OCall muts eok w reload_ok =>
      let '(tb, dl) := tb_apply muts (s_tb s) (s_dirty_level s) in
      if eok && (0 <? dl) then (set_tb s (tb_checkpoint (tb_sync w reload_ok tb)) 0, RNone)
      else (set_tb s tb dl, RNone)
  end.

Fixpoint run (cfg : config) (s : state) (ops : list op) : list res :=
  match ops with
  | [] => []
  | o :: r => let '(s', x) := step cfg s o in x :: run cfg s' r
  end.

Fixpoint run_state (cfg : config) (s : state) (ops : list op) : state :=
  match ops with
  | [] => s
  | o :: r => run_state cfg (fst (step cfg s o)) r
  end.

Definition is_dangling (r : res) : bool := match r with RFault (Dangling _) => true | _ => false end.
Definition is_freed_read (r : res) : bool :=
  match r with RFault (Dangling c) => freed_memory c | _ => false end.
Definition is_alloc_fault (r : res) : bool :=
  match r with RFault (LayoutMismatch _ _) | RFault (FreeNotLive _) => true | _ => false end.

(* ------------------------------------------------------------------ *)
(* witness search on the model: the shortest interruptions of the user-phrase protocol that the
   model sends to Dangling (used to derive the sequences replayed under valgrind) *)

Definition interrupters : list (list op) :=
  [ [OCall [(MUpdate, true)] false WRunning true; OCall [] true WRunning true];   (* userphrase_add (update) ; key *)
    [OCall [(MRemove true, true)] false WRunning true];                            (* userphrase_remove of a pending phrase *)
    [OCall [(MRemove false, true)] false WRunning true; OCall [] true WRunning true];
    [OCall [(MAdd, false)] false WRunning true];                                   (* userphrase_add (add branch) *)
    [OCall [(MUpdate, true)] true WRunning true];                                  (* key that learns at commit *)
    [OCall [] false WRunning true] ].                                              (* config / reset *)

Definition two_entries : list entry := [([65], [66]); ([67], [68])].

Definition protocol_with (k : nat) (mid : list op) : list op :=
  [OUpEnum two_entries] ++ repeat OUpHasNext k ++ mid ++ [OUpGet None None; OUpHasNext; OUpGet None None; OUpHasNext].

Definition dangling_witnesses (cfg : config) : list (nat * N) :=
  flat_map (fun k =>
    flat_map (fun im : N * list op =>
      if existsb is_dangling (run cfg (init true) (protocol_with k (snd im))) then [(k, fst im)] else [])
      (combine (map N.of_nat (seq 0 (length interrupters))) interrupters))
    [O; 1%nat].
