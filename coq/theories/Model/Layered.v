(* Executable model of src/dictionary/layered.rs: lookup = the layers' full results
   concatenated (system layers first, user layer last), de-duplicated by phrase in
   first-appearance order keeping the larger frequency, then truncated; entries = plain
   concatenation ("Duplicate entries are not removed"); updates forwarded to the user
   layer, an empty phrase is dropped with Ok.  No proofs in this file. *)
From Coq Require Import NArith List Bool.
From LC Require Import Base.Lib Model.Dict Model.TrieBuf.
Import ListNotations.
Open Scope N_scope.

(* over arbitrary layers, each given by its lookup_all_phrases result *)
Definition layered_merge (results : list (list phrase)) (first : N) : list phrase :=
  truncate_usize first (dedup (concat results)).

(* a concrete stack: read-only system Tries + a TrieBuf user layer *)
Record layered := mkLayered { ly_sys : list trie; ly_user : triebuf }.

Definition ly_results (c : cfg) (d : layered) (k : key) (s : strategy) : list (list phrase) :=
  map (fun t => trie_lookup c t k USIZE_MAX s) (ly_sys d) ++ [tb_lookup c (ly_user d) k USIZE_MAX s].

Definition ly_lookup (c : cfg) (d : layered) (k : key) (first : N) (s : strategy) : list phrase :=
  layered_merge (ly_results c d k s) first.

Definition ly_entries (c : cfg) (d : layered) : list (key * phrase) :=
  flat_map trie_entries (ly_sys d) ++ tb_entries c (ly_user d).

Definition is_nil {A} (l : list A) : bool := match l with [] => true | _ => false end.

Definition ly_step (c : cfg) (d : layered) (o : op) : layered * out :=
  match o with
  | OAdd k ph =>
      if is_nil (ph_text ph) then (d, RAdd true)
      else let '(u, ok) := tb_add c (ly_user d) k ph in (mkLayered (ly_sys d) u, RAdd ok)
  | OUpdate k p _ uf t =>
      if is_nil p then (d, RUnit) else (mkLayered (ly_sys d) (tb_update c (ly_user d) k p uf t), RUnit)
  | ORemove k p => (mkLayered (ly_sys d) (tb_remove (ly_user d) k p), RUnit)
  | OLookup k n s => (d, RLookup (ly_lookup c d k n s))
  | OEntries => (d, REntries (ly_entries c d))
  | OFlush => (mkLayered (ly_sys d) (tb_flush c (ly_user d)), RUnit)
  | OReopen w => (mkLayered (ly_sys d) (tb_sync (ly_user d) w), RUnit)
  end.

Fixpoint ly_run (c : cfg) (d : layered) (ops : list op) : layered * list out :=
  match ops with
  | [] => (d, [])
  | o :: ops' => let '(d1, r) := ly_step c d o in
                 let '(d2, rs) := ly_run c d1 ops' in (d2, r :: rs)
  end.
