(* The SyllableEditor trait over all phonetic layouts (src/editor/zhuyin_layout/mod.rs):
   dispatch by layout number, the default fuzzy_key_press, remove_last / clear /
   is_empty / read / alt_syllables, operation sequences as the editor issues them
   (src/editor/mod.rs, EnteringSyllable::next), typing ASCII text through a keyboard.
   No proofs in this file. *)
From Coq Require Import NArith List Bool.
From LC Require Import Base.Lib Gen.Bopomofo_gen Gen.Keyboard_gen Gen.Layout_gen
  Model.Syllable Model.Keyboard Model.LayoutBase Model.LayoutStd Model.LayoutHsu Model.LayoutEt26
  Model.LayoutDc26 Model.LayoutPinyin.
Import ListNotations.
Open Scope N_scope.

(* layout numbers (the distinct SyllableEditor implementations / variants) *)
Definition L_STANDARD : N := 0.
Definition L_HSU : N := 1.
Definition L_IBM : N := 2.
Definition L_GINYIEH : N := 3.
Definition L_ET : N := 4.
Definition L_ET26 : N := 5.
Definition L_DC26 : N := 6.
Definition L_HANYU : N := 7.
Definition L_THL : N := 8.
Definition L_MPS2 : N := 9.
Definition n_layouts : N := 10.

Definition is_pinyin (L : N) : bool := (L_HANYU <=? L) && (L <=? L_MPS2).
Definition pinyin_variant (L : N) : N := L - L_HANYU.

Definition lift_syl (o : outcome (N * behavior)) : outcome (lstate * behavior) :=
  obind o (fun r => Ok (syl_state (fst r), snd r)).

Definition PANIC_NO_LAYOUT : N := 299.   (* not a layout number: no Rust counterpart *)

(* SyllableEditor::key_press *)
Definition key_press (L : N) (st : lstate) (ev : key_event) : outcome (lstate * behavior) :=
  let v := ls_syl st in
  if L =? L_STANDARD then lift_syl (std_key_press standard_table v (ev_index ev))
  else if L =? L_HSU then lift_syl (hsu_key_press v (ev_code ev))
  else if L =? L_IBM then lift_syl (std_key_press ibm_table v (ev_index ev))
  else if L =? L_GINYIEH then lift_syl (std_key_press ginyieh_table v (ev_index ev))
  else if L =? L_ET then lift_syl (std_key_press et_table v (ev_index ev))
  else if L =? L_ET26 then lift_syl (et26_key_press v (ev_code ev))
  else if L =? L_DC26 then lift_syl (dc26_key_press v (ev_index ev))
  else if is_pinyin L then pinyin_key_press (pinyin_variant L) st ev
  else Panic PANIC_NO_LAYOUT.

Definition l_is_empty (L : N) (st : lstate) : bool :=
  if is_pinyin L then pinyin_is_empty st else is_empty (ls_syl st).
Definition l_clear (L : N) (st : lstate) : lstate := lstate_empty.
Definition l_remove_last (L : N) (st : lstate) : lstate :=
  if is_pinyin L then pinyin_remove_last st else syl_state (pop_last (ls_syl st)).
Definition l_read (L : N) (st : lstate) : N := ls_syl st.
Definition l_alt_syllables (L : N) (s : N) : list N :=
  if L =? L_HSU then hsu_alt_syllables s
  else if L =? L_ET26 then et26_alt_syllables s
  else [].

(* SyllableEditor::fuzzy_key_press (default method; Pinyin overrides it with key_press) *)
Definition fuzzy_key_press (L : N) (st : lstate) (ev : key_event) : outcome (lstate * behavior) :=
  if is_pinyin L then key_press L st ev
  else if l_is_empty L st then key_press L st ev
  else
    obind (key_press L (l_clear L st) ev) (fun c =>
      let cur := l_read L st in
      let new := l_read L (fst c) in
      if (has_initial cur && has_initial new)
         || (has_medial cur && (has_initial new || has_medial new))
         || (has_rime cur && (has_initial new || has_medial new || has_rime new))
      then obind (key_press L (l_clear L st) ev) (fun r => Ok (fst r, Fuzzy cur))
      else key_press L st ev).

(* ---- operation sequences ---- *)
Inductive lop :=
| OpKey (ev : key_event)        (* key_press *)
| OpFuzzyKey (ev : key_event)   (* fuzzy_key_press *)
| OpRemoveLast
| OpClear.

Definition l_step (L : N) (st : lstate) (op : lop) : outcome (lstate * behavior) :=
  match op with
  | OpKey ev => key_press L st ev
  | OpFuzzyKey ev => fuzzy_key_press L st ev
  | OpRemoveLast => Ok (l_remove_last L st, Absorb)
  | OpClear => Ok (l_clear L st, Absorb)
  end.

(* the syllable an operation hands to the editor, if any *)
Definition handed (L : N) (st' : lstate) (b : behavior) : option N :=
  match b with
  | Commit => Some (l_read L st')
  | Fuzzy s => Some s
  | _ => None
  end.

(* raw object semantics: any operation sequence on the layout object, nothing
   cleared in between; returns the final state and every handed syllable *)
Fixpoint run_raw (L : N) (st : lstate) (ops : list lop) : outcome (lstate * list N) :=
  match ops with
  | [] => Ok (st, [])
  | op :: ops' =>
      obind (l_step L st op) (fun r =>
      obind (run_raw L (fst r) ops') (fun r' =>
        Ok (fst r', opt_list (handed L (fst r) (snd r)) ++ snd r')))
  end.

(* the editor's protocol (EnteringSyllable::next): after Commit the syllable is
   read and the layout cleared *)
Definition editor_step (L : N) (st : lstate) (op : lop) : outcome (lstate * option N) :=
  obind (l_step L st op) (fun r =>
    match snd r with
    | Commit => Ok (l_clear L (fst r), Some (l_read L (fst r)))
    | Fuzzy s => Ok (fst r, Some s)
    | _ => Ok (fst r, None)
    end).

Fixpoint run_editor (L : N) (st : lstate) (ops : list lop) : outcome (lstate * list N) :=
  match ops with
  | [] => Ok (st, [])
  | op :: ops' =>
      obind (editor_step L st op) (fun r =>
      obind (run_editor L (fst r) ops') (fun r' =>
        Ok (fst r', opt_list (snd r) ++ snd r')))
  end.

(* ---- typing ASCII text through a keyboard (what chewing_handle_Default does) ---- *)
Fixpoint map_ascii_all (kb : N) (bytes : list N) : outcome (list key_event) :=
  match bytes with
  | [] => Ok []
  | c :: bs => obind (map_ascii kb c) (fun ev => obind (map_ascii_all kb bs) (fun evs => Ok (ev :: evs)))
  end.

Definition is_printable_ascii (c : N) : bool := (32 <=? c) && (c <=? 126).

(* typing `bytes` on keyboard kb into an empty layout L makes the editor receive
   exactly one syllable s, at the last key, by Commit, and s is the reading r
   itself or (compact layouts) a syllable of the dictionary whose alt_syllables
   contain r *)
Definition enters_b (dict_readings : list N) (kb L : N) (bytes : list N) (r : N) : bool :=
  forallb is_printable_ascii bytes &&
  match map_ascii_all kb bytes with
  | Ok evs =>
    match run_editor L lstate_empty (map OpKey evs) with
    | Ok (st, [s]) =>
        l_is_empty L st &&
        match run_editor L lstate_empty (map OpKey (removelast evs)) with
        | Ok (_, []) => true
        | _ => false
        end &&
        ((s =? r) || (memN r (l_alt_syllables L s) && memN s dict_readings))
    | _ => false
    end
  | _ => false
  end.
