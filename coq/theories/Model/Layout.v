(* The SyllableEditor trait over all phonetic layouts (src/editor/zhuyin_layout/mod.rs):
   dispatch by layout number, the default fuzzy_key_press, remove_last / clear /
   is_empty / read / alt_syllables, operation sequences as the editor issues them
   (src/editor/mod.rs, EnteringSyllable::next), typing ASCII text through a keyboard.
   No proofs in this file. *)
From Coq Require Import NArith List Bool.
From LC Require Import Base.Lib Gen.Bopomofo_gen Gen.Keyboard_gen Gen.Layout_gen
  Model.Syllable Model.Keyboard Model.LayoutBase Model.LayoutStd Model.LayoutHsu Model.LayoutEt26
  Model.LayoutDc26 Model.LayoutPinyin.
Import ListNotations.
Open Scope N_scope.

(* layout numbers (the distinct SyllableEditor implementations / variants) *)
Definition L_STANDARD : N := 0.
Definition L_HSU : N := 1.
Definition L_IBM : N := 2.
Definition L_GINYIEH : N := 3.
Definition L_ET : N := 4.
Definition L_ET26 : N := 5.
Definition L_DC26 : N := 6.
Definition L_HANYU : N := 7.
Definition L_THL : N := 8.
Definition L_MPS2 : N := 9.
Definition n_layouts : N := 10.

Definition is_pinyin (L : N) : bool := (L_HANYU <=? L) && (L <=? L_MPS2).

Definition lift_syl (o : outcome (N * behavior)) : outcome (lstate * behavior) :=
  obind o (fun r => Ok (syl_state (fst r), snd r)).

Definition PANIC_NO_LAYOUT : N := 299.   (* not a layout number: no Rust counterpart *)

(* SyllableEditor::key_press (the match is on the layout numbers defined above) *)
Definition key_press (L : N) (st : lstate) (ev : key_event) : outcome (lstate * behavior) :=
  let v := ls_syl st in
  match L with
  | 0 => lift_syl (std_key_press standard_table v (ev_index ev))
  | 1 => lift_syl (hsu_key_press v (ev_code ev))
  | 2 => lift_syl (std_key_press ibm_table v (ev_index ev))
  | 3 => lift_syl (std_key_press ginyieh_table v (ev_index ev))
  | 4 => lift_syl (std_key_press et_table v (ev_index ev))
  | 5 => lift_syl (et26_key_press v (ev_code ev))
  | 6 => lift_syl (dc26_key_press v (ev_index ev))
  | 7 => pinyin_key_press V_HANYU st ev
  | 8 => pinyin_key_press V_THL st ev
  | 9 => pinyin_key_press V_MPS2 st ev
  | _ => Panic PANIC_NO_LAYOUT
  end.

Definition l_is_empty (L : N) (st : lstate) : bool :=
  if is_pinyin L then pinyin_is_empty st else is_empty (ls_syl st).
Definition l_clear (L : N) (st : lstate) : lstate := lstate_empty.
Definition l_remove_last (L : N) (st : lstate) : lstate :=
  if is_pinyin L then pinyin_remove_last st else syl_state (pop_last (ls_syl st)).
Definition l_read (L : N) (st : lstate) : N := ls_syl st.
Definition l_alt_syllables (L : N) (s : N) : list N :=
  if L =? L_HSU then hsu_alt_syllables s
  else if L =? L_ET26 then et26_alt_syllables s
  else [].

(* SyllableEditor::fuzzy_key_press (default method; Pinyin overrides it with key_press) *)
Definition fuzzy_key_press (L : N) (st : lstate) (ev : key_event) : outcome (lstate * behavior) :=
  if is_pinyin L then key_press L st ev
  else if l_is_empty L st then key_press L st ev
  else
    obind (key_press L (l_clear L st) ev) (fun c =>
      let cur := l_read L st in
      let new := l_read L (fst c) in
      if (has_initial cur && has_initial new)
         || (has_medial cur && (has_initial new || has_medial new))
         || (has_rime cur && (has_initial new || has_medial new || has_rime new))
      then obind (key_press L (l_clear L st) ev) (fun r => Ok (fst r, Fuzzy cur))
      else key_press L st ev).

(* ---- operation sequences ---- *)
Inductive lop :=
| OpKey (ev : key_event)        (* key_press *)
| OpFuzzyKey (ev : key_event)   (* fuzzy_key_press *)
| OpRemoveLast
| OpClear.

Definition l_step (L : N) (st : lstate) (op : lop) : outcome (lstate * behavior) :=
  match op with
  | OpKey ev => key_press L st ev
  | OpFuzzyKey ev => fuzzy_key_press L st ev
  | OpRemoveLast => Ok (l_remove_last L st, Absorb)
  | OpClear => Ok (l_clear L st, Absorb)
  end.

(* the syllable an operation hands to the editor, if any *)
Definition handed (L : N) (st' : lstate) (b : behavior) : option N :=
  match b with
  | Commit => Some (l_read L st')
  | Fuzzy s => Some s
  | _ => None
  end.

(* raw object semantics: any operation sequence on the layout object, nothing
   cleared in between; returns the final state and every handed syllable *)
Fixpoint run_raw (L : N) (st : lstate) (ops : list lop) : outcome (lstate * list N) :=
  match ops with
  | [] => Ok (st, [])
  | op :: ops' =>
      obind (l_step L st op) (fun r =>
      obind (run_raw L (fst r) ops') (fun r' =>
        Ok (fst r', opt_list (handed L (fst r) (snd r)) ++ snd r')))
  end.

(* the editor's protocol (EnteringSyllable::next): after Commit the syllable is
   read and the layout cleared *)
Definition editor_step (L : N) (st : lstate) (op : lop) : outcome (lstate * option N) :=
  obind (l_step L st op) (fun r =>
    match snd r with
    | Commit => Ok (l_clear L (fst r), Some (l_read L (fst r)))
    | Fuzzy s => Ok (fst r, Some s)
    | _ => Ok (fst r, None)
    end).

Fixpoint run_editor (L : N) (st : lstate) (ops : list lop) : outcome (lstate * list N) :=
  match ops with
  | [] => Ok (st, [])
  | op :: ops' =>
      obind (editor_step L st op) (fun r =>
      obind (run_editor L (fst r) ops') (fun r' =>
        Ok (fst r', opt_list (snd r) ++ snd r')))
  end.

(* ---- typing through a keyboard (what chewing_handle_Default / chewing_handle_Backspace do) ----
   a typed text is a list of bytes: a printable ASCII character is mapped to a key
   event by the keyboard's map_ascii and pressed (key_press, the Standard lookup
   strategy); byte 8 is the Backspace key, which the editor turns into remove_last *)
Definition BACKSPACE : N := 8.
Fixpoint type_ops (kb : N) (bytes : list N) : outcome (list lop) :=
  match bytes with
  | [] => Ok []
  | c :: bs =>
      obind (if c =? BACKSPACE then Ok OpRemoveLast else obind (map_ascii kb c) (fun ev => Ok (OpKey ev))) (fun op =>
      obind (type_ops kb bs) (fun ops => Ok (op :: ops)))
  end.

Definition is_printable_ascii (c : N) : bool := (32 <=? c) && (c <=? 126).
Definition is_typable (c : N) : bool := is_printable_ascii c || (c =? BACKSPACE).

(* typing `bytes` on keyboard kb into an empty layout L makes the editor receive
   exactly one syllable s, at the last key, by Commit, and s is the reading r
   itself or (compact layouts) a syllable of the dictionary whose alt_syllables
   contain r *)
Definition enters_b (dict_readings : list N) (kb L : N) (bytes : list N) (r : N) : bool :=
  forallb is_typable bytes &&
  match type_ops kb bytes with
  | Ok ops =>
    match run_editor L lstate_empty ops with
    | Ok (st, [s]) =>
        l_is_empty L st &&
        match run_editor L lstate_empty (removelast ops) with
        | Ok (_, []) => true
        | _ => false
        end &&
        ((s =? r) || (memN r (l_alt_syllables L s) && memN s dict_readings))
    | _ => false
    end
  | _ => false
  end.
