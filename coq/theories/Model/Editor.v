(* Executable model of src/editor/mod.rs: the four editor states, SharedState,
   process_keyevent and the public Editor operations, with
   src/editor/selection/{phrase,symbol}.rs and src/editor/estimate.rs.

   Parameters (records of functions, so that theorems hold for every instance):
     syl_ops   - the phonetic layout (SyllableEditor trait object)
     dict_ops  - the layered dictionary (lookups + user-dictionary updates)
     conv      - the conversion oracle: conv c n = SharedState::conversion() for
                 composition c and nth_conversion n (DESIGN 4.4); in theorems it is
                 constrained by hypotheses, in the correspondence check it is fed
                 from the implementation's logged conversions and validated with
                 Conversion.valid_conversion.
   Every Rust panic site is an explicit Panic; every loop is fuelled. *)
From Coq Require Import NArith List Bool Arith.
From LC Require Import Base.Lib Gen.Editor_gen Model.Composition Model.Conversion.
Import ListNotations.
Open Scope nat_scope.

Inductive behavior := BIgnore | BCommit | BBell | BAbsorb.
Inductive kbehavior :=
  KIgnore | KAbsorb | KCommit | KKeyError | KError | KNoWord | KOpenSymbolTable | KFuzzy (s : N).

Record keyevent := mkKey {
  kindex : N; kcode : N; kunicode : N;
  mshift : bool; mctrl : bool; mcaps : bool; mnum : bool
}.
Definition mods_none (ev : keyevent) : bool :=
  negb (mshift ev) && negb (mctrl ev) && negb (mcaps ev) && negb (mnum ev).
Definition REPLACEMENT_CHAR : N := 65533%N.
Definition is_printable (ev : keyevent) : bool := negb (N.eqb (kunicode ev) REPLACEMENT_CHAR).

Definition behavior_eqb (a b : behavior) : bool :=
  match a, b with
  | BIgnore, BIgnore | BCommit, BCommit | BBell, BBell | BAbsorb, BAbsorb => true
  | _, _ => false
  end.

(* ---- parameters ---- *)
Record syl_ops (SY : Type) := mkSylOps {
  so_key_press : SY -> keyevent -> SY * kbehavior;
  so_fuzzy_key_press : SY -> keyevent -> SY * kbehavior;
  so_is_empty : SY -> bool;
  so_read : SY -> N;
  so_clear : SY -> SY;
  so_remove_last : SY -> SY;
  so_alt : SY -> N -> list N;
  (* Editor::set_syllable_editor: a fresh (empty) syllable editor of the layout with this number takes the place
     of the current one (chewing_set_KBType) *)
  so_switch : SY -> N -> SY
}.
Arguments so_key_press {SY}. Arguments so_fuzzy_key_press {SY}. Arguments so_is_empty {SY}.
Arguments so_read {SY}. Arguments so_clear {SY}. Arguments so_remove_last {SY}. Arguments so_alt {SY}.
Arguments so_switch {SY}.

Record dict_ops (D : Type) := mkDictOps {
  (* Layered::lookup_all_phrases(syllables, strategy); bool = FuzzyPartialPrefix *)
  do_lookup : D -> bool -> list N -> list phrase;
  (* user_dict().lookup_all_phrases(syllables, Standard) *)
  do_user_lookup : D -> list N -> list phrase;
  (* Layered::add_phrase(syllables, (text, freq)) -> (dict', is_ok) *)
  do_add : D -> list N -> list N -> N -> D * bool;
  (* Layered::update_phrase(syllables, (text, freq), user_freq, time) *)
  do_update : D -> list N -> list N -> N -> N -> N -> D;
  do_remove : D -> list N -> list N -> D
}.
Arguments do_lookup {D}. Arguments do_user_lookup {D}. Arguments do_add {D}.
Arguments do_update {D}. Arguments do_remove {D}.


(* ---- options ---- *)
Inductive engine_kind := EngSimple | EngChewing | EngFuzzy.

(* the conversion: what the installed engine answers for the current dictionary and buffer, asked for its n-th alternative *)
Definition conv_fn (D : Type) := D -> engine_kind -> composition -> nat -> list interval.

Record options := mkOpts {
  o_easy_symbol : bool;
  o_esc_clear : bool;
  o_space_select : bool;
  o_auto_shift : bool;
  o_rearward : bool;
  o_no_learn : bool;
  o_threshold : nat;          (* auto_commit_threshold *)
  o_per_page : nat;           (* candidates_per_page *)
  o_english : bool;           (* language_mode == English *)
  o_fullwidth : bool;         (* character_form == Fullwidth *)
  o_add_backward : bool;      (* user_phrase_add_dir == Backward *)
  o_fuzzy : bool;             (* lookup_strategy == FuzzyPartialPrefix *)
  o_engine : engine_kind;     (* conversion_engine (a label; the engine object is separate) *)
  o_fw_toggle : bool          (* enable_fullwidth_toggle_key *)
}.

Definition default_options : options :=
  mkOpts (N.eqb default_easy_symbol_input 1) (N.eqb default_esc_clear_all_buffer 1)
         (N.eqb default_space_is_select_key 1) (N.eqb default_auto_shift_cursor 1)
         (N.eqb default_phrase_choice_rearward 1) (N.eqb default_disable_auto_learn_phrase 1)
         (N.to_nat default_auto_commit_threshold) (N.to_nat default_candidates_per_page)
         false false false false EngChewing (N.eqb default_enable_fullwidth_toggle_key 1).

Definition set_english (o : options) (b : bool) : options :=
  mkOpts (o_easy_symbol o) (o_esc_clear o) (o_space_select o) (o_auto_shift o) (o_rearward o) (o_no_learn o)
         (o_threshold o) (o_per_page o) b (o_fullwidth o) (o_add_backward o) (o_fuzzy o) (o_engine o) (o_fw_toggle o).
Definition set_fullwidth (o : options) (b : bool) : options :=
  mkOpts (o_easy_symbol o) (o_esc_clear o) (o_space_select o) (o_auto_shift o) (o_rearward o) (o_no_learn o)
         (o_threshold o) (o_per_page o) (o_english o) b (o_add_backward o) (o_fuzzy o) (o_engine o) (o_fw_toggle o).

(* ---- symbol tables (conversion/symbol.rs) ---- *)
Definition special_symbol_input (c : N) : option N := assoc c special_symbols.
Definition full_width_symbol_input (c : N) : option N :=
  match assoc c full_width_symbols with Some x => Some x | None => special_symbol_input c end.

(* ---- selectors ---- *)
Record phrase_sel := mkPS {
  ps_begin : nat; ps_end : nat; ps_fwd : bool; ps_orig : nat; ps_fuzzy : bool; ps_com : composition
}.

(* symbols().to_slice(): the leading syllables of a symbol slice (map_while) *)
Fixpoint syl_prefix (l : list symbol) : list N :=
  match l with
  | SymSyl s :: l' => s :: syl_prefix l'
  | _ => []
  end.

Definition slice {A} (l : list A) (b e : nat) : list A := firstn (e - b) (skipn b l).

Section WithDict.
Context {D : Type} (dops : dict_ops D).

Definition has_phrase (d : D) (fuzzy : bool) (key : list N) : bool :=
  match do_lookup dops d fuzzy key with [] => false | _ => true end.

Fixpoint next_break_point (c : composition) (fuel : nat) (cur : nat) : nat :=
  match fuel with
  | O => cur
  | S k => if Nat.eqb (clen c) cur then cur
           else match comp_symbol c cur with
                | Some s => if negb (is_syllable s) then cur else next_break_point c k (S cur)
                | None => next_break_point c k (S cur)
                end
  end.

Fixpoint after_prev_break_point (c : composition) (fuel : nat) (cur : nat) : nat :=
  match fuel with
  | O => cur
  | S k =>
    if Nat.eqb cur 0 then 0
    else if existsb (fun sel => Nat.eqb (ie sel) cur) (selections c) then cur
    else match comp_gap c cur with
         | Some GBreak => cur
         | _ => match comp_symbol c (cur - 1) with
                | Some s => if negb (is_syllable s) then cur else after_prev_break_point c k (cur - 1)
                | None => after_prev_break_point c k (cur - 1)
                end
         end
  end.

Definition nbp (c : composition) (cur : nat) : nat := next_break_point c (S (clen c)) cur.
Definition apbp (c : composition) (cur : nat) : nat := after_prev_break_point c (S (S (clen c))) cur.

(* the shrinking loop of init: symbols()[begin..end] panics when begin > end
   (and `end -= 1` / `begin += 1` can only get there through begin == end) *)
Fixpoint ps_shrink (d : D) (fuel : nat) (p : phrase_sel) : outcome phrase_sel :=
  match fuel with
  | O => OutOfFuel
  | S k =>
    if Nat.ltb (ps_end p) (ps_begin p) then Panic 201
    else if Nat.ltb (clen (ps_com p)) (ps_end p) then Panic 202
    else if has_phrase d (ps_fuzzy p) (syl_prefix (slice (symbols (ps_com p)) (ps_begin p) (ps_end p))) then Ok p
    (* fix e6644f0: a single syllable without any word under the current strategy ends the search
       (the list is then empty); the pinned tree went on to begin > end and panicked *)
    else if Nat.eqb (ps_end p - ps_begin p) 1 &&
            match slice (symbols (ps_com p)) (ps_begin p) (ps_end p) with SymSyl _ :: _ => true | _ => false end then Ok p
    else if ps_fwd p
         then (if Nat.eqb (ps_end p) 0 then Panic 203
               else ps_shrink d k (mkPS (ps_begin p) (ps_end p - 1) (ps_fwd p) (ps_orig p) (ps_fuzzy p) (ps_com p)))
         else ps_shrink d k (mkPS (S (ps_begin p)) (ps_end p) (ps_fwd p) (ps_orig p) (ps_fuzzy p) (ps_com p))
  end.

Definition ps_new (fwd fuzzy : bool) (c : composition) : phrase_sel := mkPS 0 (clen c) fwd 0 fuzzy c.

Definition ps_init (d : D) (p : phrase_sel) (cur : nat) : outcome phrase_sel :=
  let c := ps_com p in
  if ps_fwd p then
    (* cursor - 1 underflows when cursor = len = 0 *)
    if Nat.eqb cur (clen c) && Nat.eqb cur 0 then Panic 204
    else let b := if Nat.eqb cur (clen c) then cur - 1 else cur in
         ps_shrink d (S (S (clen c))) (mkPS b (nbp c cur) true cur (ps_fuzzy p) c)
  else ps_shrink d (S (S (clen c))) (mkPS (apbp c cur) (Nat.min (S cur) (clen c)) false cur (ps_fuzzy p) c).

Definition ps_init_single_word (p : phrase_sel) (cur : nat) : outcome phrase_sel :=
  let e := Nat.min cur (clen (ps_com p)) in
  if Nat.eqb e 0 then Panic 205
  else Ok (mkPS (e - 1) e (ps_fwd p) (e - 1) (ps_fuzzy p) (ps_com p)).

Definition ps_range_has (d : D) (p : phrase_sel) (b e : nat) : outcome bool :=
  if Nat.ltb e b then Panic 206
  else if Nat.ltb (clen (ps_com p)) e then Panic 207
  else Ok (has_phrase d (ps_fuzzy p) (syl_prefix (slice (symbols (ps_com p)) b e))).

Fixpoint ps_next_point (d : D) (fuel : nat) (p : phrase_sel) (b e : nat) : outcome (option (nat * nat)) :=
  match fuel with
  | O => OutOfFuel
  | S k =>
    let '(b', e', stop) :=
      if ps_fwd p then (b, e - 1, Nat.eqb e 0) else (S b, e, false) in
    if stop then Panic 208
    else if Nat.eqb b' e' then Ok None
    else match ps_range_has d p b' e' with
         | Ok true => Ok (Some (b', e'))
         | Ok false => ps_next_point d k p b' e'
         | Err x => Err x | Panic s => Panic s | OutOfFuel => OutOfFuel
         end
  end.
Definition ps_next_selection_point (d : D) (p : phrase_sel) : outcome (option (nat * nat)) :=
  ps_next_point d (S (S (clen (ps_com p)))) p (ps_begin p) (ps_end p).

Fixpoint ps_prev_point (d : D) (fuel : nat) (p : phrase_sel) (b e : nat) : outcome (option (nat * nat)) :=
  match fuel with
  | O => OutOfFuel
  | S k =>
    let c := ps_com p in
    if ps_fwd p then
      if Nat.eqb e (clen c) then Ok None
      else if Nat.ltb (nbp c (ps_orig p)) (S e) then Ok None
      else match ps_range_has d p b (S e) with
           | Ok true => Ok (Some (b, S e))
           | Ok false => ps_prev_point d k p b (S e)
           | Err x => Err x | Panic s => Panic s | OutOfFuel => OutOfFuel
           end
    else
      if Nat.eqb b 0 then Ok None
      else if Nat.ltb (b - 1) (apbp c (ps_orig p)) then Ok None
      else match ps_range_has d p (b - 1) e with
           | Ok true => Ok (Some (b - 1, e))
           | Ok false => ps_prev_point d k p (b - 1) e
           | Err x => Err x | Panic s => Panic s | OutOfFuel => OutOfFuel
           end
  end.
Definition ps_prev_selection_point (d : D) (p : phrase_sel) : outcome (option (nat * nat)) :=
  ps_prev_point d (S (S (clen (ps_com p)))) p (ps_begin p) (ps_end p).

Definition ps_with_range (p : phrase_sel) (b e : nat) : phrase_sel :=
  mkPS b e (ps_fwd p) (ps_orig p) (ps_fuzzy p) (ps_com p).

(* PhraseSelector::next (Down / Space at the last page): cycle to the next range that has a phrase;
   since fix e6644f0 the cycle also ends when it is back at the range it started from (no other
   range has a phrase) - the pinned tree looped forever there *)
Fixpoint ps_cycle (d : D) (fuel : nat) (start : nat * nat) (p : phrase_sel) : outcome phrase_sel :=
  match fuel with
  | O => OutOfFuel
  | S k =>
    let c := ps_com p in
    let r :=
      if ps_fwd p then
        if Nat.eqb (ps_end p) 0 then Panic 209
        else let e := ps_end p - 1 in
             Ok (ps_begin p, if Nat.eqb (ps_begin p) e then nbp c (ps_begin p) else e)
      else
        let b := S (ps_begin p) in
        Ok (if Nat.eqb b (ps_end p) then apbp c (b - 1) else b, ps_end p) in
    match r with
    | Ok (b, e) =>
      match ps_range_has d p b e with
      | Ok true => Ok (ps_with_range p b e)
      | Ok false => if Nat.eqb b (fst start) && Nat.eqb e (snd start) then Ok (ps_with_range p b e)
                    else ps_cycle d k start (ps_with_range p b e)
      | Err x => Err x | Panic s => Panic s | OutOfFuel => OutOfFuel
      end
    | Err x => Err x | Panic s => Panic s | OutOfFuel => OutOfFuel
    end
  end.
Definition ps_next (d : D) (p : phrase_sel) : outcome phrase_sel :=
  ps_cycle d (S (S (S (clen (ps_com p))))) (ps_begin p, ps_end p) p.

Fixpoint ps_jump_last (d : D) (fuel : nat) (p : phrase_sel) : outcome phrase_sel :=
  match fuel with
  | O => OutOfFuel
  | S k => match ps_next_selection_point d p with
           | Ok (Some (b, e)) => ps_jump_last d k (ps_with_range p b e)
           | Ok None => Ok p
           | Err x => Err x | Panic s => Panic s | OutOfFuel => OutOfFuel
           end
  end.

End WithDict.

(* SymbolSelector: category = (name, Some table index | None = usize::MAX), table, cursor *)
Record symbol_sel := mkSS {
  ss_category : list (list N * option nat);
  ss_table : list (list N);
  ss_cursor : option nat
}.
Definition ss_empty : symbol_sel := mkSS [] [] None.

Definition ss_menu (s : symbol_sel) : list (list N) :=
  match ss_cursor s with
  | Some c => map (fun ch => [ch]) (nth c (ss_table s) [])
  | None => map fst (ss_category s)
  end.

(* select(n) -> (selector', Some symbol | None) *)
Definition ss_select (s : symbol_sel) (n : nat) : outcome (symbol_sel * option symbol) :=
  match ss_cursor s with
  | None =>
    match nth_error (ss_category s) n with
    | None => Ok (s, None)
    | Some (name, None) =>
      match name with
      | [] => Panic 301                       (* cat.0.chars().next().unwrap() *)
      | ch :: _ => Ok (mkSS (ss_category s) (ss_table s) None, Some (SymChar ch))
      end
    | Some (_, Some idx) => Ok (mkSS (ss_category s) (ss_table s) (Some (idx mod 256)), None)   (* cat.1 as u8 *)
    end
  | Some c =>
    if Nat.leb (length (ss_table s)) c then Panic 302     (* self.table[cursor] *)
    else Ok (mkSS (ss_category s) (ss_table s) None,
             match nth_error (nth c (ss_table s) []) n with Some ch => Some (SymChar ch) | None => None end)
  end.

(* SpecialSymbolSelector *)
Definition special_find_category (ch : N) : option (list N) :=
  find (fun cat => memN ch cat) special_symbol_table.
Definition special_menu (sym : symbol) : outcome (list (list N)) :=
  match sym with
  | SymSyl _ => Panic 303                      (* symbol.to_char().unwrap() *)
  | SymChar ch => Ok (match special_find_category ch with
                      | Some cat => map (fun c => [c]) (tl cat)
                      | None => []
                      end)
  end.
Definition special_select (sym : symbol) (n : nat) : outcome (option symbol) :=
  match sym with
  | SymSyl _ => Panic 303
  | SymChar ch => Ok (match special_find_category ch with
                      | Some cat => match nth_error (tl cat) n with Some c => Some (SymChar c) | None => None end
                      | None => None
                      end)
  end.

Inductive selector := SelPhrase (p : phrase_sel) | SelSymbol (s : symbol_sel) | SelSpecial (sym : symbol).

Inductive estate :=
| Entering
| EnteringSyllable
| Selecting (page_no : nat) (act_insert : bool) (sel : selector)
| Highlighting (moving : nat).

Inductive transition := ToState (s : estate) | Spin (b : behavior).

(* ---- shared state ---- *)
Record shared (D SY : Type) := mkShared {
  com : comp_editor;
  syl : SY;
  dict : D;
  abbr : list (N * list N);         (* AbbrevTable *)
  sym_sel : symbol_sel;
  lifetime : N;                     (* LaxUserFreqEstimate *)
  opts : options;
  engine : engine_kind;             (* the engine object actually installed *)
  last : behavior;
  dirty : N;
  nth : nat;
  commit_buf : list N;
  notice : list N
}.
Arguments com {D SY}. Arguments syl {D SY}. Arguments dict {D SY}. Arguments abbr {D SY}.
Arguments sym_sel {D SY}. Arguments lifetime {D SY}. Arguments opts {D SY}. Arguments engine {D SY}.
Arguments last {D SY}. Arguments dirty {D SY}. Arguments nth {D SY}. Arguments commit_buf {D SY}.
Arguments notice {D SY}. Arguments mkShared {D SY}.

Record editor (D SY : Type) := mkEditor { sh : shared D SY; st : estate }.
Arguments sh {D SY}. Arguments st {D SY}. Arguments mkEditor {D SY}.

(* outcome monad *)
Definition obind {A B} (r : outcome A) (f : A -> outcome B) : outcome B :=
  match r with
  | Ok a => f a
  | Err x => Err x
  | Panic s => Panic s
  | OutOfFuel => OutOfFuel
  end.
Notation "'do' x <- r ; k" := (obind r (fun x => k)) (at level 200, x pattern, r at level 100, k at level 200).

Section WithParams.
Context {D SY : Type} (dops : dict_ops D) (sops : syl_ops SY) (conv : conv_fn D).

Definition shared' := shared D SY.
Definition editor' := editor D SY.

Definition set_com (s : shared') (c : comp_editor) : shared' :=
  mkShared c (syl s) (dict s) (abbr s) (sym_sel s) (lifetime s) (opts s) (engine s) (last s) (dirty s) (nth s) (commit_buf s) (notice s).
Definition set_syl (s : shared') (x : SY) : shared' :=
  mkShared (com s) x (dict s) (abbr s) (sym_sel s) (lifetime s) (opts s) (engine s) (last s) (dirty s) (nth s) (commit_buf s) (notice s).
Definition set_dict (s : shared') (d : D) (dl : N) : shared' :=
  mkShared (com s) (syl s) d (abbr s) (sym_sel s) (lifetime s) (opts s) (engine s) (last s) dl (nth s) (commit_buf s) (notice s).
Definition set_opts (s : shared') (o : options) : shared' :=
  mkShared (com s) (syl s) (dict s) (abbr s) (sym_sel s) (lifetime s) o (engine s) (last s) (dirty s) (nth s) (commit_buf s) (notice s).
Definition set_last (s : shared') (b : behavior) : shared' :=
  mkShared (com s) (syl s) (dict s) (abbr s) (sym_sel s) (lifetime s) (opts s) (engine s) b (dirty s) (nth s) (commit_buf s) (notice s).
Definition set_nth (s : shared') (n : nat) : shared' :=
  mkShared (com s) (syl s) (dict s) (abbr s) (sym_sel s) (lifetime s) (opts s) (engine s) (last s) (dirty s) n (commit_buf s) (notice s).
Definition set_commit (s : shared') (b : list N) : shared' :=
  mkShared (com s) (syl s) (dict s) (abbr s) (sym_sel s) (lifetime s) (opts s) (engine s) (last s) (dirty s) (nth s) b (notice s).
Definition set_notice (s : shared') (b : list N) : shared' :=
  mkShared (com s) (syl s) (dict s) (abbr s) (sym_sel s) (lifetime s) (opts s) (engine s) (last s) (dirty s) (nth s) (commit_buf s) b.
Definition set_lifetime (s : shared') (t : N) : shared' :=
  mkShared (com s) (syl s) (dict s) (abbr s) (sym_sel s) t (opts s) (engine s) (last s) (dirty s) (nth s) (commit_buf s) (notice s).
Definition set_engine (s : shared') (e : engine_kind) : shared' :=
  mkShared (com s) (syl s) (dict s) (abbr s) (sym_sel s) (lifetime s) (opts s) e (last s) (dirty s) (nth s) (commit_buf s) (notice s).

Definition with_com (s : shared') (r : outcome comp_editor) : outcome shared' :=
  do c <- r; Ok (set_com s c).

Definition conversion (s : shared') : list interval := conv (dict s) (engine s) (inner (com s)) (nth s).
Definition display (s : shared') : list N := display_of (conversion s).

(* CompositionEditor::clear as the source has it: composition, cursor AND the saved cursors
   (fix cd71832; the pinned tree kept the stack: ce_clear_keep_stack, see Properties/C17.v) *)
Definition ce_clear (e : comp_editor) : comp_editor := ce_clear_all e.

(* ---- learning (estimate.rs, learn_phrase) ---- *)
Definition U32_MAX : N := 4294967295%N.

(* LaxUserFreqEstimate::estimate with last_used = None (learn_phrase always builds the phrase
   without a timestamp), hence delta_time = 0: the first branch *)
Definition estimate (freq orig_freq max_freq : N) : outcome N :=
  if N.ltb max_freq orig_freq then Panic 401                 (* u32 underflow (debug build) *)
  else
    let base := ((max_freq - orig_freq) / 5 + 1)%N in
    let delta := if N.leb max_freq freq then N.min base SHORT_INCREASE_FREQ else N.max base SHORT_INCREASE_FREQ in
    (* phrase.freq().saturating_add(delta).min(MAX_USER_FREQ) since the fix of the wrapping addition *)
    Ok (N.min (N.min (freq + delta) U32_MAX) MAX_USER_FREQ).

(* the pinned code: `(phrase.freq() + delta).min(MAX_USER_FREQ)` - the u32 addition overflows when two phrases of
   a key carry frequencies within ten of 2^32 (debug build: panic; release build: wraps, the learned frequency
   drops to a single digit) *)
Definition estimate_pinned (freq orig_freq max_freq : N) : outcome N :=
  if N.ltb max_freq orig_freq then Panic 401
  else
    let base := ((max_freq - orig_freq) / 5 + 1)%N in
    let delta := if N.leb max_freq freq then N.min base SHORT_INCREASE_FREQ else N.max base SHORT_INCREASE_FREQ in
    if N.ltb U32_MAX (freq + delta) then Panic 402           (* u32 overflow (debug build) *)
    else Ok (N.min (freq + delta) MAX_USER_FREQ).
(* ... and what a release build of the pinned code computes (the addition wraps) *)
Definition estimate_pinned_release (freq orig_freq max_freq : N) : N :=
  let base := ((max_freq - orig_freq) / 5 + 1)%N in
  let delta := if N.leb max_freq freq then N.min base SHORT_INCREASE_FREQ else N.max base SHORT_INCREASE_FREQ in
  N.min ((freq + delta) mod 4294967296) MAX_USER_FREQ.

Fixpoint max_freq_of (l : list phrase) (acc : N) : N :=
  match l with [] => acc | p :: l' => max_freq_of l' (N.max acc (snd p)) end.

Definition learn_phrase (s : shared') (syllables : list N) (text : list N) : outcome (shared' * bool) :=
  if negb (Nat.eqb (length syllables) (length text)) then Ok (s, false)
  else
    let phrases := do_lookup dops (dict s) false syllables in
    match phrases with
    | [] =>
      let '(d', ok) := do_add dops (dict s) syllables text 1%N in
      Ok (set_dict s d' (dirty s), ok)          (* returns before dirty_level += 1 *)
    | _ =>
      let pf := match find (fun p => text_eqb (fst p) text) phrases with Some p => snd p | None => 0%N end in
      let mf := max_freq_of phrases 0%N in
      do uf <- estimate pf pf mf;
      Ok (set_dict s (do_update dops (dict s) syllables text pf uf (lifetime s)) (dirty s + 1)%N, true)
    end.

Definition is_break_word (t : list N) : bool := existsb (text_eqb t) break_words.

(* auto_learn over the committed intervals *)
Fixpoint auto_learn_go (s : shared') (syms : list symbol) (ivs : list interval)
         (pending : list N) (psyl : list symbol) : outcome shared' :=
  match ivs with
  | [] =>
    match pending with
    | [] => Ok s
    | _ => do r <- learn_phrase s (syl_prefix psyl) pending; Ok (fst r)
    end
  | iv :: rest =>
    if Nat.ltb (ie iv) (ib iv) then Panic 403
    else if Nat.ltb (length syms) (ie iv) then Panic 404            (* symbols()[start..end] *)
    else
      let rng := slice syms (ib iv) (ie iv) in
      if iphrase iv && Nat.eqb (iv_len iv) 1 && negb (is_break_word (itext iv))
      then auto_learn_go s syms rest (pending ++ itext iv) (psyl ++ rng)
      else
        do s1 <- match pending with
                 | [] => Ok s
                 | _ => do r <- learn_phrase s (syl_prefix psyl) pending; Ok (fst r)
                 end;
        do s2 <- (if iphrase iv
                  then do r <- learn_phrase s1 (syl_prefix rng) (itext iv); Ok (fst r)
                  else Ok s1);
        auto_learn_go s2 syms rest [] []
  end.

Definition auto_learn (s : shared') (ivs : list interval) : outcome shared' :=
  auto_learn_go s (symbols (inner (com s))) ivs [] [].

(* SharedState::commit *)
Definition commit (s : shared') : outcome shared' :=
  let ivs := conversion s in
  do s1 <- (if o_no_learn (opts s) then Ok s else auto_learn s ivs);
  let out := display_of ivs in
  Ok (set_last (set_nth (set_com (set_commit s1 out) (ce_clear (com s1))) 0) BCommit).

(* SharedState::try_auto_commit *)
Fixpoint auto_commit_take (len thr : nat) (ivs : list interval) (buf : list N) (remove : nat)
  : outcome (list N * nat) :=
  match ivs with
  | [] => Ok (buf, remove)
  | iv :: rest =>
    let remove' := remove + iv_len iv in
    if Nat.ltb len remove' then Panic 405                      (* len - remove underflows *)
    else if Nat.leb (len - remove') thr then Ok (buf ++ itext iv, remove')
    else auto_commit_take len thr rest (buf ++ itext iv) remove'
  end.

Definition try_auto_commit (s : shared') : outcome shared' :=
  let len := ce_len (com s) in
  if Nat.leb len (o_threshold (opts s)) then Ok s
  else
    do r <- auto_commit_take len (o_threshold (opts s)) (conversion s) [] 0;
    let '(buf, remove) := r in
    do c <- ce_remove_front (com s) remove;
    Ok (set_last (set_com (set_commit s buf) c) BCommit).

(* learn_phrase_in_range_{quiet,notify} *)
Definition MSG_ADD_FAILED : list N :=
  [21152; 35422; 22833; 25943; 65306; 23383; 25976; 19981; 31526; 25110; 22846; 38620; 31526; 34399]%N.
Definition MSG_ALREADY : list N := [24050; 26377; 65306]%N.
Definition MSG_ADDED : list N := [21152; 20837; 65306]%N.

Definition learn_in_range (s : shared') (start stop : nat) : outcome (shared' * bool) :=
  if Nat.ltb (ce_len (com s)) stop then Ok (set_notice s MSG_ADD_FAILED, false)
  else if Nat.ltb stop start then Panic 406                      (* symbols()[start..end] *)
  else
    let rng := slice (symbols (inner (com s))) start stop in
    if existsb is_char rng then Ok (set_notice s MSG_ADD_FAILED, false)
    else
      let text := firstn (stop - start) (skipn start (display s)) in
      let syls := syl_prefix rng in
      if existsb (fun p => text_eqb (fst p) text) (do_user_lookup dops (dict s) syls)
      then Ok (set_notice s (MSG_ALREADY ++ text), false)
      else
        let '(d', ok) := do_add dops (dict s) syls text 100%N in
        if ok then Ok (set_notice (set_dict s d' (dirty s + 1)%N) (MSG_ADDED ++ text), true)
        else Ok (set_notice (set_dict s d' (dirty s)) MSG_ADD_FAILED, false).

(* ---- Selecting helpers ---- *)
Definition candidates (s : shared') (sel : selector) : outcome (list (list N)) :=
  match sel with
  | SelPhrase p =>
    if Nat.ltb (ps_end p) (ps_begin p) then Panic 501
    else if Nat.ltb (clen (ps_com p)) (ps_end p) then Panic 502
    else
      let rng := slice (symbols (ps_com p)) (ps_begin p) (ps_end p) in
      let base := map fst (do_lookup dops (dict s) (ps_fuzzy p) (syl_prefix rng)) in
      if Nat.eqb (ps_end p - ps_begin p) 1 then
        match rng with
        | [SymSyl code] =>
          Ok (base ++ flat_map (fun a => map fst (do_lookup dops (dict s) (ps_fuzzy p) [a])) (so_alt sops (syl s) code))
        | _ => Panic 503                          (* symbol(begin).unwrap().to_syllable().unwrap() *)
        end
      else Ok base
  | SelSymbol y => Ok (ss_menu y)
  | SelSpecial sym => special_menu sym
  end.

Definition div_ceil (a b : nat) : outcome nat :=
  if Nat.eqb b 0 then Panic 504 else Ok ((a + b - 1) / b).

Definition total_page (s : shared') (sel : selector) : outcome nat :=
  do c <- candidates s sel; div_ceil (length c) (o_per_page (opts s)).

Definition new_phrase_selecting (s : shared') : outcome (shared' * estate) :=
  let c1 := ce_clamp_cursor (ce_push_cursor (com s)) in
  let p := ps_new (negb (o_rearward (opts s))) (o_fuzzy (opts s)) (inner c1) in
  do p' <- ps_init dops (dict s) p (cursor c1);
  Ok (set_com s c1, Selecting 0 false (SelPhrase p')).

Definition new_phrase_selecting_simple (s : shared') : outcome (shared' * estate) :=
  let c1 := ce_push_cursor (com s) in
  let p := ps_new false (o_fuzzy (opts s)) (inner c1) in
  do p' <- ps_init_single_word p (cursor c1);
  Ok (set_com s c1, Selecting 0 false (SelPhrase p')).

Definition new_symbol_selecting (s : shared') : estate := Selecting 0 true (SelSymbol (sym_sel s)).

Definition new_special_selecting (s : shared') (sym : symbol) : outcome (shared' * estate) :=
  let c1 := ce_clamp_cursor (ce_push_cursor (com s)) in
  do m <- special_menu sym;
  match m with
  | [] => Ok (set_com s c1, Selecting 0 false (SelSymbol (sym_sel s)))
  | _ => Ok (set_com s c1, Selecting 0 false (SelSpecial sym))
  end.

Definition start_selecting_common (s : shared') (none_result : shared' -> shared' * transition)
  : outcome (shared' * transition) :=
  match ce_symbol_for_select (com s) with
  | Some sym =>
    if is_syllable sym
    then do r <- new_phrase_selecting s; Ok (fst r, ToState (snd r))
    else do r <- new_special_selecting s sym; Ok (fst r, ToState (snd r))
  | None => Ok (none_result s)
  end.

(* commit a single character when the buffer is empty, otherwise insert it *)
Definition commit_or_insert (s : shared') (ch : N) : outcome (shared' * transition) :=
  if ce_is_empty (com s) then Ok (set_commit s [ch], Spin BCommit)
  else do s' <- with_com s (ce_insert (com s) (SymChar ch)); Ok (s', Spin BAbsorb).

Definition switch_language (s : shared') : shared' := set_opts s (set_english (opts s) (negb (o_english (opts s)))).
Definition switch_form (s : shared') : shared' := set_opts s (set_fullwidth (opts s) (negb (o_fullwidth (opts s)))).

Fixpoint insert_chars (c : comp_editor) (l : list N) : outcome comp_editor :=
  match l with
  | [] => Ok c
  | ch :: l' => do c' <- ce_insert c (SymChar ch); insert_chars c' l'
  end.

Definition is_digit_code (k : N) : bool := N.leb kc_N1 k && N.leb k kc_N0.
Definition code_in (k : N) (l : list N) : bool := memN k l.

(* ---- Entering::next ---- *)
Definition entering_default (s : shared') (ev : keyevent) : outcome (shared' * transition) :=
  if negb (o_english (opts s)) then
    if N.eqb (kcode ev) kc_Grave && mods_none ev then Ok (s, ToState (new_symbol_selecting s))
    else if N.eqb (kcode ev) kc_Space then
      if negb (o_fullwidth (opts s)) then commit_or_insert s (kunicode ev)
      else match full_width_symbol_input (kunicode ev) with
           | None => Panic 601
           | Some ch => commit_or_insert s ch
           end
    else if o_easy_symbol (opts s) then
      match assoc (kunicode ev) (abbr s) with
      | Some expanded => do c <- insert_chars (com s) expanded; Ok (set_com s c, Spin BAbsorb)
      | None =>
        match special_symbol_input (kunicode ev) with
        | Some sy => do s' <- with_com s (ce_insert (com s) (SymChar sy)); Ok (s', Spin BAbsorb)
        | None =>
          if mods_none ev then
            let '(sy, kb) := so_key_press sops (syl s) ev in
            match kb with
            | KAbsorb => Ok (set_syl s sy, ToState EnteringSyllable)
            | _ => Ok (set_syl s sy, Spin BBell)
            end
          else Ok (s, Spin BBell)
        end
      end
    else
      let pressed := if mods_none ev then Some (so_key_press sops (syl s) ev) else None in
      match pressed with
      | Some (sy, KAbsorb) => Ok (set_syl s sy, ToState EnteringSyllable)
      | _ =>
        let s0 := match pressed with Some (sy, _) => set_syl s sy | None => s end in
        match special_symbol_input (kunicode ev) with
        | Some sy => do s' <- with_com s0 (ce_insert (com s0) (SymChar sy)); Ok (s', Spin BAbsorb)
        | None =>
          if is_printable ev then
            if negb (o_fullwidth (opts s)) then commit_or_insert s0 (kunicode ev)
            else match full_width_symbol_input (kunicode ev) with
                 | None => Panic 602
                 | Some ch => commit_or_insert s0 ch
                 end
          else Ok (s0, Spin BBell)
        end
      end
  else
    if negb (o_fullwidth (opts s)) then commit_or_insert s (kunicode ev)
    else match full_width_symbol_input (kunicode ev) with
         | None => Ok (s, Spin BIgnore)        (* fix 2d9e3d1: was unwrap(), Panic 603 on the pinned tree *)
         | Some ch => commit_or_insert s ch
         end.

Definition nav_codes : list N :=
  [kc_Enter; kc_Esc; kc_Tab; kc_Home; kc_End; kc_Left; kc_Right; kc_Up; kc_Down; kc_PageUp; kc_PageDown].

Definition entering_next (s : shared') (ev : keyevent) : outcome (shared' * transition) :=
  let k := kcode ev in
  if N.eqb k kc_Backspace then
    if ce_is_empty (com s) then Ok (s, Spin BIgnore)
    else do s' <- with_com s (ce_remove_before_cursor (com s)); Ok (s', Spin BAbsorb)
  else if N.eqb k kc_Unknown && mcaps ev then Ok (switch_language s, Spin BAbsorb)
  else if is_digit_code k && mctrl ev then
    if N.eqb k kc_N0 || N.eqb k kc_N1 then Ok (s, ToState (new_symbol_selecting s))
    else
      let n := N.to_nat k in
      let cur := cursor (com s) in
      if negb (o_add_backward (opts s)) then
        do r <- learn_in_range s cur (cur + n);
        Ok (fst r, Spin (if snd r then BAbsorb else BBell))
      else if Nat.leb n cur then
        do r <- learn_in_range s (cur - n) cur;
        Ok (fst r, Spin (if snd r then BAbsorb else BBell))
      else Ok (set_notice s MSG_ADD_FAILED, Spin BBell)
  else if code_in k nav_codes && ce_is_empty (com s) then Ok (s, Spin BIgnore)
  else if N.eqb k kc_Tab then
    if ce_is_end (com s) then Ok (set_nth s (S (nth s)), Spin BAbsorb)
    else
      let ends := map ie (conversion s) in
      if existsb (Nat.eqb (cursor (com s))) ends
      then do s' <- with_com s (ce_insert_glue (com s)); Ok (s', Spin BAbsorb)
      else do s' <- with_com s (ce_insert_break (com s)); Ok (s', Spin BAbsorb)
  else if N.eqb k kc_Del then
    if ce_is_end (com s) then Ok (s, Spin BIgnore)
    else do s' <- with_com s (ce_remove_after_cursor (com s)); Ok (s', Spin BAbsorb)
  else if N.eqb k kc_Home then Ok (set_com s (ce_to_begin (com s)), Spin BAbsorb)
  else if N.eqb k kc_Left && mshift ev then
    if ce_is_begin (com s) then Ok (s, Spin BIgnore)
    else Ok (s, ToState (Highlighting (cursor (com s) - 1)))
  else if N.eqb k kc_Right && mshift ev then
    if ce_is_end (com s) then Ok (s, Spin BIgnore)
    else Ok (s, ToState (Highlighting (cursor (com s) + 1)))
  else if N.eqb k kc_Left then Ok (set_com s (ce_left (com s)), Spin BAbsorb)
  else if N.eqb k kc_Right then Ok (set_com s (ce_right (com s)), Spin BAbsorb)
  else if N.eqb k kc_Up then Ok (s, Spin BIgnore)
  else if N.eqb k kc_Space && mshift ev && o_fw_toggle (opts s) then Ok (switch_form s, Spin BAbsorb)
  else if N.eqb k kc_Space && o_space_select (opts s) && negb (o_english (opts s)) then
    start_selecting_common s (fun s0 =>
      if ce_is_empty (com s0)
      then (set_commit s0 (commit_buf s0 ++ [if o_fullwidth (opts s0) then 12288%N else 32%N]), Spin BCommit)
      else (s0, Spin BIgnore))
  else if N.eqb k kc_Down then start_selecting_common s (fun s0 => (s0, Spin BIgnore))
  else if N.eqb k kc_End || N.eqb k kc_PageUp || N.eqb k kc_PageDown then
    Ok (set_com s (ce_to_end (com s)), Spin BAbsorb)
  else if N.eqb k kc_Enter then do s' <- commit s; Ok (s', Spin BCommit)
  else if N.eqb k kc_Esc then
    if o_esc_clear (opts s) && negb (ce_is_empty (com s))
    then Ok (set_com s (ce_clear (com s)), Spin BAbsorb)
    else Ok (s, Spin BIgnore)
  else if mnum ev then commit_or_insert s (kunicode ev)
  else entering_default s ev.

(* ---- EnteringSyllable::next ---- *)
Definition entering_syllable_next (s : shared') (ev : keyevent) : outcome (shared' * transition) :=
  let k := kcode ev in
  if N.eqb k kc_Backspace then
    let sy := so_remove_last sops (syl s) in
    if negb (so_is_empty sops sy) then Ok (set_syl s sy, Spin BAbsorb)
    else Ok (set_syl s sy, ToState Entering)
  else if N.eqb k kc_Unknown && mcaps ev then
    Ok (switch_language (set_syl s (so_clear sops (syl s))), ToState Entering)
  else if N.eqb k kc_Esc then
    let s1 := set_syl s (so_clear sops (syl s)) in
    Ok (if o_esc_clear (opts s1) then set_com s1 (ce_clear (com s1)) else s1, ToState Entering)
  else
    let '(sy, kb) := if o_fuzzy (opts s) then so_fuzzy_key_press sops (syl s) ev else so_key_press sops (syl s) ev in
    let s1 := set_syl s sy in
    match kb with
    | KAbsorb => Ok (s1, Spin BAbsorb)
    | KFuzzy code =>
      if has_phrase dops (dict s1) (o_fuzzy (opts s1)) [code]
      then do s2 <- with_com s1 (ce_insert (com s1) (SymSyl code)); Ok (s2, Spin BAbsorb)
      else Ok (s1, Spin BAbsorb)
    | KCommit =>
      let code := so_read sops sy in
      if has_phrase dops (dict s1) (o_fuzzy (opts s1)) [code] then
        do s2 <- with_com s1 (ce_insert (com s1) (SymSyl code));
        let s3 := set_syl s2 (so_clear sops (syl s2)) in
        match o_engine (opts s3) with
        | EngSimple =>
          (* start_selecting_simple_engine clears syl again and opens the single-word list *)
          do r <- new_phrase_selecting_simple (set_syl s3 (so_clear sops (syl s3)));
          Ok (fst r, ToState (snd r))
        | _ => Ok (s3, ToState Entering)
        end
      else Ok (set_syl s1 (so_clear sops (syl s1)), ToState Entering)
    | _ => Ok (s1, Spin BBell)
    end.

(* ---- Selecting ---- *)
(* Selecting::select_offset: choose the candidate at `offset` in the whole list *)
Definition selecting_select_offset (s : shared') (page_no : nat) (act_insert : bool) (sel : selector) (offset : nat)
  : outcome (shared' * transition * nat * selector) :=
  match sel with
  | SelPhrase p =>
    do cands <- candidates s sel;
    match nth_error cands offset with
    | Some text =>
      do c1 <- ce_select (com s) (mkIv (ps_begin p) (ps_end p) true text);
      let c2 := ce_pop_cursor c1 in
      let c3 := if o_auto_shift (opts s) then ce_right c2 else c2 in
      Ok (set_com s c3, ToState Entering, page_no, sel)
    | None => Ok (s, Spin BBell, page_no, sel)
    end
  | SelSymbol y =>
    if Nat.leb (length (ss_menu y)) offset then Ok (s, Spin BBell, page_no, sel)
    else
    do r <- ss_select y offset;
    let '(y', res) := r in
    match res with
    | Some sym =>
      do c1 <- (if act_insert then ce_insert (com s) sym else ce_replace (com s) sym);
      Ok (set_com s (ce_pop_cursor c1), ToState Entering, page_no, SelSymbol y')
    | None => Ok (s, Spin BAbsorb, 0, SelSymbol y')
    end
  | SelSpecial sym0 =>
    do m <- special_menu sym0;
    if Nat.leb (length m) offset then Ok (s, Spin BBell, page_no, sel)
    else
    do res <- special_select sym0 offset;
    match res with
    | Some sym =>
      do c1 <- (if act_insert then ce_insert (com s) sym else ce_replace (com s) sym);
      Ok (set_com s (ce_pop_cursor c1), ToState Entering, page_no, sel)
    | None => Ok (s, Spin BAbsorb, 0, sel)
    end
  end.

(* Selecting::select: the n-th candidate of the current page (selection keys) *)
Definition selecting_select (s : shared') (page_no : nat) (act_insert : bool) (sel : selector) (n : nat)
  : outcome (shared' * transition * nat * selector) :=
  selecting_select_offset s page_no act_insert sel (page_no * o_per_page (opts s) + n).

Definition cancel_selecting (s : shared') : shared' := set_com s (ce_pop_cursor (com s)).

(* re-create the selector at the current cursor (J / K) *)
Definition reselect_at_cursor (s : shared') : outcome selector :=
  match ce_symbol (com s) with
  | None => Panic 701                                          (* expect("should have symbol") *)
  | Some sym =>
    if is_syllable sym then
      do p <- ps_init dops (dict s) (ps_new (negb (o_rearward (opts s))) (o_fuzzy (opts s)) (inner (com s))) (cursor (com s));
      Ok (SelPhrase p)
    else Ok (SelSpecial sym)
  end.

Definition sel_begin (s : shared') (sel : selector) : nat :=
  match sel with SelPhrase p => ps_begin p | _ => cursor (com s) end.

(* KeyCode::to_digit: N1..N9 -> 1..9, N0 -> 10 (the discriminant) *)
Definition selecting_next (s : shared') (ev : keyevent) (page_no : nat) (act_insert : bool) (sel : selector)
  : outcome (shared' * transition * nat * selector) :=
  let k := kcode ev in
  let stay (s0 : shared') (b : behavior) (pg : nat) (sl : selector) := Ok (s0, Spin b, pg, sl) in
  if mctrl ev || mshift ev then stay s BBell page_no sel
  else if N.eqb k kc_Backspace then Ok (cancel_selecting s, ToState Entering, page_no, sel)
  else if N.eqb k kc_Unknown && mcaps ev then Ok (cancel_selecting (switch_language s), ToState Entering, page_no, sel)
  else if N.eqb k kc_Up then Ok (cancel_selecting s, ToState Entering, page_no, sel)
  else if N.eqb k kc_Down || N.eqb k kc_Space then
    do tp <- total_page s sel;
    if Nat.ltb (S page_no) tp then stay s BAbsorb (S page_no) sel
    else match sel with
         | SelPhrase p => do p' <- ps_next dops (dict s) p; stay s BAbsorb 0 (SelPhrase p')
         | _ => stay s BAbsorb 0 sel
         end
  else if N.eqb k kc_J then
    if ce_is_empty (com s) then stay s BIgnore page_no sel
    else
      let s1 := set_com s (ce_move_cursor (com s) (sel_begin s sel - 1)) in
      do sel' <- reselect_at_cursor s1; stay s1 BAbsorb 0 sel'
  else if N.eqb k kc_K then
    if ce_is_empty (com s) then stay s BIgnore page_no sel
    else
      let s1 := set_com s (ce_clamp_cursor (ce_move_cursor (com s) (sel_begin s sel + 1))) in
      do sel' <- reselect_at_cursor s1; stay s1 BAbsorb 0 sel'
  else if N.eqb k kc_Left || N.eqb k kc_PageUp then
    if Nat.ltb 0 page_no then stay s BAbsorb (page_no - 1) sel
    else do tp <- total_page s sel; stay s BAbsorb (tp - 1) sel
  else if N.eqb k kc_Right || N.eqb k kc_PageDown then
    do tp <- total_page s sel;
    if Nat.ltb (S page_no) tp then stay s BAbsorb (S page_no) sel else stay s BAbsorb 0 sel
  else if is_digit_code k then
    selecting_select s page_no act_insert sel (N.to_nat k - 1)
  else if N.eqb k kc_Esc then
    Ok (set_com (cancel_selecting s) (ce_pop_cursor (com (cancel_selecting s))), ToState Entering, page_no, sel)
  else if N.eqb k kc_Del then stay s BAbsorb page_no sel
  else stay s BBell page_no sel.

(* ---- Highlighting::next ---- *)
Definition highlighting_next (s : shared') (ev : keyevent) (moving : nat) : outcome (shared' * transition * nat) :=
  let k := kcode ev in
  if N.eqb k kc_Unknown && mcaps ev then Ok (switch_language s, ToState Entering, moving)
  else if N.eqb k kc_Left && mshift ev then
    Ok (s, Spin BAbsorb, if Nat.eqb moving 0 then moving else moving - 1)
  else if N.eqb k kc_Right && mshift ev then
    Ok (s, Spin BAbsorb, if Nat.eqb moving (ce_len (com s)) then moving else S moving)
  else if N.eqb k kc_Enter then
    let start := Nat.min moving (cursor (com s)) in
    let stop := Nat.max moving (cursor (com s)) in
    let s1 := set_com s (ce_move_cursor (com s) moving) in
    do r <- learn_in_range s1 start stop;
    Ok (fst r, ToState Entering, moving)
  else Ok (s, ToState Entering, moving).

(* ---- process_keyevent ---- *)
Definition is_entering (e : estate) : bool := match e with Entering => true | _ => false end.
Definition is_selecting (e : estate) : bool := match e with Selecting _ _ _ => true | _ => false end.

Definition apply_transition (s : shared') (old : estate) (t : transition) : shared' * estate :=
  match t with
  | ToState ns => (set_last s BAbsorb, ns)
  | Spin b => (set_last s b, old)
  end.

Definition flush_dirty (s : shared') : shared' :=
  if N.ltb 0 (dirty s) then set_dict s (dict s) 0%N else s.

Definition process_keyevent (e : editor') (ev : keyevent) : outcome (editor' * behavior) :=
  let s0 := set_notice (set_lifetime (sh e) (lifetime (sh e) + 1)%N) [] in
  let s1 := set_commit s0 [] in
  do r <- match st e with
          | Entering => do r <- entering_next s1 ev; Ok (apply_transition (fst r) Entering (snd r))
          | EnteringSyllable => do r <- entering_syllable_next s1 ev; Ok (apply_transition (fst r) EnteringSyllable (snd r))
          | Selecting pg act sel =>
            do r <- selecting_next s1 ev pg act sel;
            let '(s2, t, pg', sel') := r in
            Ok (apply_transition s2 (Selecting pg' act sel') t)
          | Highlighting mv =>
            do r <- highlighting_next s1 ev mv;
            let '(s2, t, mv') := r in
            Ok (apply_transition s2 (Highlighting mv') t)
          end;
  let '(s2, st2) := r in
  do s3 <- (if is_entering st2 && behavior_eqb (last s2) BAbsorb then try_auto_commit s2 else Ok s2);
  let s4 := flush_dirty s3 in
  Ok (mkEditor s4 st2, last s4).

(* ---- public Editor operations ---- *)
Definition ed_select (e : editor') (n : nat) : outcome (editor' * bool) :=
  match st e with
  | Selecting pg act sel =>
    do r <- selecting_select_offset (sh e) pg act sel n;
    let '(s2, t, pg', sel') := r in
    let '(s3, st3) := apply_transition s2 (Selecting pg' act sel') t in
    (* fix c8fcd57: as in process_keyevent only when the list was closed; the pinned tree also shortened the
       buffer under a list that stayed open (symbol category -> sub-table) *)
    do s4 <- (if is_entering st3 && behavior_eqb (last s3) BAbsorb then try_auto_commit s3 else Ok s3);
    Ok (mkEditor s4 st3, negb (behavior_eqb (last s4) BBell))
  | _ => Ok (e, false)
  end.

Definition ed_cancel_selecting (e : editor') : editor' * bool :=
  if is_selecting (st e)
  then (mkEditor (set_last (cancel_selecting (sh e)) BAbsorb) Entering, true)
  else (e, false).

Definition ed_start_selecting (e : editor') : outcome (editor' * bool) :=
  do r <- match st e with
          | Entering => start_selecting_common (sh e) (fun s0 => (s0, Spin BIgnore))
          | EnteringSyllable =>
            start_selecting_common (set_syl (sh e) (so_clear sops (syl (sh e)))) (fun s0 => (s0, Spin BIgnore))
          | _ => Ok (sh e, Spin BBell)
          end;
  let '(s2, st2) := apply_transition (fst r) (st e) (snd r) in
  Ok (mkEditor s2 st2, is_selecting st2).

Definition ed_commit (e : editor') : outcome (editor' * bool) :=
  if negb (is_entering (st e)) || ce_is_empty (com (sh e)) then Ok (e, false)
  else do s' <- commit (sh e); Ok (mkEditor s' (st e), true).

(* SharedState::clear + state := Entering *)
Definition ed_clear (e : editor') : editor' :=
  let s := sh e in
  mkEditor (mkShared (ce_clear (com s)) (so_clear sops (syl s)) (dict s) (abbr s) (sym_sel s) (lifetime s)
                     (opts s) (engine s) BAbsorb (dirty s) 0 [] []) Entering.

Definition ed_ack (e : editor') : editor' := mkEditor (set_commit (sh e) []) (st e).

Definition ed_set_options (e : editor') (o : options) : editor' :=
  let s := sh e in
  let s1 := if negb (Bool.eqb (o_english (opts s)) (o_english o)) then set_syl s (so_clear sops (syl s)) else s in
  mkEditor (set_opts s1 o) (st e).

Definition ed_clear_syllable_editor (e : editor') : editor' :=
  mkEditor (set_syl (sh e) (so_clear sops (syl (sh e)))) (st e).

Definition ed_set_engine (e : editor') (k : engine_kind) : editor' := mkEditor (set_engine (sh e) k) (st e).

Definition with_phrase_sel (e : editor') (f : nat -> bool -> phrase_sel -> outcome (option phrase_sel))
  : outcome (editor' * bool) :=
  match st e with
  | Selecting pg act (SelPhrase p) =>
    do r <- f pg act p;
    match r with
    | Some p' => Ok (mkEditor (sh e) (Selecting 0 act (SelPhrase p')), true)
    | None => Ok (e, false)
    end
  | _ => Ok (e, false)
  end.

Definition ed_jump_next (e : editor') : outcome (editor' * bool) :=
  with_phrase_sel e (fun _ _ p =>
    do r <- ps_next_selection_point dops (dict (sh e)) p;
    Ok (match r with Some (b, en) => Some (ps_with_range p b en) | None => None end)).
Definition ed_jump_prev (e : editor') : outcome (editor' * bool) :=
  with_phrase_sel e (fun _ _ p =>
    do r <- ps_prev_selection_point dops (dict (sh e)) p;
    Ok (match r with Some (b, en) => Some (ps_with_range p b en) | None => None end)).
Definition ed_jump_first (e : editor') : outcome (editor' * bool) :=
  with_phrase_sel e (fun _ _ p => do p' <- ps_init dops (dict (sh e)) p (ps_orig p); Ok (Some p')).
Definition ed_jump_last (e : editor') : outcome (editor' * bool) :=
  with_phrase_sel e (fun _ _ p => do p' <- ps_jump_last dops (dict (sh e)) (S (S (clen (ps_com p)))) p; Ok (Some p')).

Definition ed_learn (e : editor') (syllables text : list N) : outcome (editor' * bool) :=
  do r <- learn_phrase (sh e) syllables text; Ok (mkEditor (fst r) (st e), snd r).
Definition ed_unlearn (e : editor') (syllables text : list N) : editor' :=
  let s := sh e in mkEditor (set_dict s (do_remove dops (dict s) syllables text) (dirty s + 1)%N) (st e).

(* Editor::clamp_page_no (fix 68d3a38): after the page size or the user dictionary changed while a
   list is open the page index is brought back below the page count *)
Definition clamp_page (e : editor') : outcome editor' :=
  match st e with
  | Selecting pg act sel =>
    if Nat.eqb (o_per_page (opts (sh e))) 0 then Ok e
    else do tp <- total_page (sh e) sel; Ok (mkEditor (sh e) (Selecting (Nat.min pg (tp - 1)) act sel))
  | _ => Ok e
  end.

(* the public operations as the source has them: set_editor_options / learn_phrase / unlearn_phrase
   followed by clamp_page_no *)
Definition ed_set_options_c (e : editor') (o : options) : outcome editor' := clamp_page (ed_set_options e o).
Definition ed_learn_c (e : editor') (syllables text : list N) : outcome (editor' * bool) :=
  do r <- ed_learn e syllables text; do e' <- clamp_page (fst r); Ok (e', snd r).
Definition ed_unlearn_c (e : editor') (syllables text : list N) : outcome editor' :=
  clamp_page (ed_unlearn e syllables text).

(* Editor::set_syllable_editor (chewing_set_KBType / keyboard_type at any moment): the syllable editor is replaced;
   the alternative readings of the new layout can shorten an open candidate list, so the page index is brought
   back below the page count (fix b605e90) *)
Definition ed_set_layout_pinned (e : editor') (L : N) : editor' :=
  mkEditor (set_syl (sh e) (so_switch sops (syl (sh e)) L)) (st e).
Definition ed_set_layout (e : editor') (L : N) : outcome editor' := clamp_page (ed_set_layout_pinned e L).

(* observers *)
Definition ed_all_candidates (e : editor') : outcome (option (list (list N))) :=
  match st e with
  | Selecting _ _ sel => do c <- candidates (sh e) sel; Ok (Some c)
  | _ => Ok None
  end.
Definition ed_total_page (e : editor') : outcome (option nat) :=
  match st e with
  | Selecting _ _ sel => do n <- total_page (sh e) sel; Ok (Some n)
  | _ => Ok None
  end.
Definition ed_page_no (e : editor') : option nat :=
  match st e with Selecting pg _ _ => Some pg | _ => None end.

End WithParams.

Definition init_editor {D SY : Type} (d : D) (s0 : SY) (ab : list (N * list N)) (ss : symbol_sel) (t0 : N) : editor D SY :=
  mkEditor (mkShared ce_empty s0 d ab ss t0 default_options EngChewing BAbsorb 0%N 0 [] []) Entering.
