(* Histories: every public operation of the editor as one datatype, a step
   function and its iteration.  "All operation sequences" in the property
   theorems means: all lists of these ops.  Executable, no proofs. *)
From Coq Require Import NArith List Bool Arith.
From LC Require Import Base.Lib Model.Composition Model.Conversion Model.Editor.
Import ListNotations.
Open Scope nat_scope.

Inductive op :=
| OpKey (ev : keyevent)
| OpSelect (n : nat)
| OpCancel | OpStart | OpCommit | OpClear | OpAck
| OpSetOptions (o : options)
| OpSetEngine (k : engine_kind)
| OpClearSyl
| OpJumpNext | OpJumpPrev | OpJumpFirst | OpJumpLast
| OpLearn (k t : list N)
| OpUnlearn (k t : list N)
| OpLayout (L : N).

Section Run.
Context {D SY : Type} (dops : dict_ops D) (sops : syl_ops SY) (conv : conv_fn D).

Definition fst_ok {A B} (r : outcome (A * B)) : outcome A :=
  match r with Ok (a, _) => Ok a | Err x => Err x | Panic s => Panic s | OutOfFuel => OutOfFuel end.

Definition step (e : editor D SY) (o : op) : outcome (editor D SY) :=
  match o with
  | OpKey ev => fst_ok (process_keyevent dops sops conv e ev)
  | OpSelect n => fst_ok (ed_select dops sops conv e n)
  | OpCancel => Ok (fst (ed_cancel_selecting e))
  | OpStart => fst_ok (ed_start_selecting dops sops e)
  | OpCommit => fst_ok (ed_commit dops conv e)
  | OpClear => Ok (ed_clear sops e)
  | OpAck => Ok (ed_ack e)
  | OpSetOptions o => ed_set_options_c dops sops e o
  | OpSetEngine k => Ok (ed_set_engine e k)
  | OpClearSyl => Ok (ed_clear_syllable_editor sops e)
  | OpJumpNext => fst_ok (ed_jump_next dops e)
  | OpJumpPrev => fst_ok (ed_jump_prev dops e)
  | OpJumpFirst => fst_ok (ed_jump_first dops e)
  | OpJumpLast => fst_ok (ed_jump_last dops e)
  | OpLearn k t => fst_ok (ed_learn_c dops sops e k t)
  | OpUnlearn k t => ed_unlearn_c dops sops e k t
  | OpLayout L => ed_set_layout dops sops e L
  end.

Fixpoint run (e : editor D SY) (ops : list op) : outcome (editor D SY) :=
  match ops with
  | [] => Ok e
  | o :: rest => match step e o with
                 | Ok e' => run e' rest
                 | Err x => Err x
                 | Panic s => Panic s
                 | OutOfFuel => OutOfFuel
                 end
  end.

End Run.
