(* UTF-8 well-formedness exactly as core::str::from_utf8 accepts it (Unicode
   table 3-7: no overlong forms, no surrogates, nothing above U+10FFFF), the
   number of scalar values of a well-formed byte string (str::chars().count()),
   the encoder of one scalar value, and byte-wise comparison (str::cmp).
   Bytes are N (< 256).  No proofs in this file. *)
From Coq Require Import NArith List Bool.
From LC Require Import Base.Lib.
Import ListNotations.
Open Scope N_scope.

Definition in_range (lo hi b : N) : bool := (lo <=? b) && (b <=? hi).
Definition is_cont (b : N) : bool := in_range 128 191 b.

Fixpoint utf8_valid (l : list N) : bool :=
  match l with
  | [] => true
  | b0 :: r =>
    if b0 <? 128 then utf8_valid r
    else if in_range 194 223 b0 then
      match r with b1 :: r1 => is_cont b1 && utf8_valid r1 | _ => false end
    else if in_range 224 239 b0 then
      match r with
      | b1 :: b2 :: r2 =>
        (if b0 =? 224 then in_range 160 191 b1
         else if b0 =? 237 then in_range 128 159 b1
         else is_cont b1) && is_cont b2 && utf8_valid r2
      | _ => false
      end
    else if in_range 240 244 b0 then
      match r with
      | b1 :: b2 :: b3 :: r3 =>
        (if b0 =? 240 then in_range 144 191 b1
         else if b0 =? 244 then in_range 128 143 b1
         else is_cont b1) && is_cont b2 && is_cont b3 && utf8_valid r3
      | _ => false
      end
    else false
  end.

(* str::chars().count() of a well-formed string: bytes that are not continuation bytes *)
Fixpoint chars_count (l : list N) : N :=
  match l with
  | [] => 0
  | b :: r => (if is_cont b then 0 else 1) + chars_count r
  end.

(* encoding of one Unicode scalar value (char::encode_utf8) *)
Definition is_scalar (c : N) : bool := (c <? 55296) || ((57343 <? c) && (c <? 1114112)).
Definition encode_char (c : N) : list N :=
  if c <? 128 then [c]
  else if c <? 2048 then [192 + c / 64; 128 + c mod 64]
  else if c <? 65536 then [224 + c / 4096; 128 + (c / 64) mod 64; 128 + c mod 64]
  else [240 + c / 262144; 128 + (c / 4096) mod 64; 128 + (c / 64) mod 64; 128 + c mod 64].
Definition encode_utf8 (s : list N) : list N := flat_map encode_char s.

(* <[u8] as Ord>::cmp = str::cmp : lexicographic on bytes *)
Fixpoint bytes_compare (a b : list N) : comparison :=
  match a, b with
  | [], [] => Eq
  | [], _ :: _ => Lt
  | _ :: _, [] => Gt
  | x :: a', y :: b' => match N.compare x y with Eq => bytes_compare a' b' | c => c end
  end.

Definition bytes_eqb (a b : list N) : bool := list_eqb N.eqb a b.
