(* Shared definitions of the phonetic-layout models (src/editor/zhuyin_layout/mod.rs):
   KeyBehavior, the outcome monad, Syllable helpers on codes, the shapes of the
   generated key arms.  No proofs in this file. *)
From Coq Require Import NArith List Bool.
From LC Require Import Base.Lib Gen.Bopomofo_gen Model.Syllable.
Import ListNotations.
Open Scope N_scope.

(* enum KeyBehavior *)
Inductive behavior :=
| Ignore | Absorb | Commit | KeyError | BError | NoWord | OpenSymbolTable
| Fuzzy (syl : N).

Definition behavior_code (b : behavior) : list N :=
  match b with
  | Ignore => [0] | Absorb => [1] | Commit => [2] | KeyError => [3] | BError => [4]
  | NoWord => [5] | OpenSymbolTable => [6] | Fuzzy s => [7; s]
  end.

Definition obind {A B} (o : outcome A) (f : A -> outcome B) : outcome B :=
  match o with
  | Ok a => f a
  | Err c => Err c
  | Panic s => Panic s
  | OutOfFuel => OutOfFuel
  end.

(* syllable helpers (state = the u16 code) *)
Definition has_initial (v : N) : bool := is_some (initial v).
Definition has_medial (v : N) : bool := is_some (medial v).
Definition has_rime (v : N) : bool := is_some (rime v).
Definition has_tone (v : N) : bool := is_some (tone v).
Definition has_initial_or_medial (v : N) : bool := has_initial v || has_medial v.
Definition rm_initial (v : N) : N := snd (remove_initial v).
Definition rm_medial (v : N) : N := snd (remove_medial v).
Definition rm_rime (v : N) : N := snd (remove_rime v).
Definition rm_tone (v : N) : N := snd (remove_tone v).
Definition pop_last (v : N) : N := snd (pop v).
Definition opt_is (o : option N) (b : N) : bool := match o with Some x => x =? b | None => false end.

(* syl![..]: the builder applied to the symbols; the macro panics on an error, the
   generated literals are checked to build (Proofs/LayoutProofs.v) *)
Definition syl_of (l : list N) : N := match parse_syms l with inl v => v | inr _ => 0 end.

(* default_or_alt of dc26.rs *)
Definition default_or_alt (source : option N) (default alt : N) : N :=
  match source with
  | None => default
  | Some src => if src =? default then alt else default
  end.

(* a generated key arm (shape, x, y) evaluated on the current syllable; None for
   the hand-modelled shape 9 *)
Definition eval_arm (st : N) (arm : N * N * N) : option N :=
  let '(shape, x, y) := arm in
  if shape =? 0 then Some x
  else if shape =? 1 then Some (if has_initial_or_medial st then x else y)
  else if shape =? 2 then Some (if has_medial st then x else y)
  else if shape =? 3 then Some (default_or_alt (initial st) x y)
  else if shape =? 4 then Some (default_or_alt (rime st) x y)
  else None.

(* alt_syllables over a generated ALT_TABLE *)
Definition alt_table_of (t : list (list N * list (list N))) : list (N * list N) :=
  map (fun e => (syl_of (fst e), map syl_of (snd e))) t.
Definition alt_lookup (t : list (N * list N)) (s : N) : list N :=
  match assoc s t with Some l => l | None => [] end.

(* the state of every layout: syllable layouts use ls_syl only; Pinyin also keeps the
   key string and the alternative syllable *)
Record lstate := mk_lstate { ls_syl : N; ls_alt : N; ls_keys : list N }.
Definition lstate_empty : lstate := mk_lstate EMPTY_PATTERN EMPTY_PATTERN [].
Definition syl_state (v : N) : lstate := mk_lstate v EMPTY_PATTERN [].
