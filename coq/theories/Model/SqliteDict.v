(* Relational model of src/dictionary/sqlite.rs (SqliteDictionary as a user
   dictionary): the two tables dictionary_v1 (PRIMARY KEY (syllables, phrase)) and
   userphrase_v2 (id INTEGER PRIMARY KEY = rowid), and the SQL statements of
   lookup_first_n_phrases, entries, add_phrase, update_phrase, remove_phrase
   transcribed row by row.  SQLite itself is trusted (DESIGN section 3).
   No proofs in this file. *)
From Coq Require Import NArith List Bool.
From LC Require Import Base.Lib Model.Dict Model.TrieBuf.
Import ListNotations.
Open Scope N_scope.

Record drow := mkD { d_key : key; d_text : text; d_freq : N; d_sort : option N; d_uid : option N }.
Record urow := mkU { u_id : N; u_freq : N; u_time : N }.
Record sqdb := mkSq { sq_dict : list drow; sq_user : list urow; sq_ro : bool }.

Definition sq_empty : sqdb := mkSq [] [] false.

Definition d_is (k : key) (p : text) (r : drow) : bool := seq_eqb (d_key r) k && seq_eqb (d_text r) p.

(* INSERT OR REPLACE INTO dictionary_v1: the row with the same primary key is deleted first *)
Definition d_replace (r : drow) (t : list drow) : list drow :=
  r :: filter (fun x => negb (d_is (d_key r) (d_text r) x)) t.

(* INSERT INTO userphrase_v2 (user_freq, time): rowid = max(rowid)+1, 1 on an empty table *)
Definition u_next_id (t : list urow) : N := fold_left (fun m r => N.max m (u_id r)) t 0 + 1.
Definition u_find (id : N) (t : list urow) : option urow := find (fun r => u_id r =? id) t.

(* ... FROM dictionary_v1 LEFT JOIN userphrase_v2 ON userphrase_id = id:
   (max(freq, coalesce(user_freq, 0)), time) of one dictionary row *)
Definition joined (db : sqdb) (r : drow) : N * option N :=
  match match d_uid r with Some id => u_find id (sq_user db) | None => None end with
  | Some u => (N.max (d_freq r) (u_freq u), Some (u_time u))
  | None => (N.max (d_freq r) 0, None)
  end.
Definition row_phrase (db : sqdb) (r : drow) : phrase :=
  mkPhrase (d_text r) (fst (joined db r)) (snd (joined db r)).

(* ORDER BY sort_id ASC (NULL first), max(freq, coalesce(user_freq, 0)) DESC, phrase DESC
   (BINARY collation = byte order of UTF-8 = code point order) *)
Definition opt_cmp (a b : option N) : comparison :=
  match a, b with
  | None, None => Eq | None, Some _ => Lt | Some _, None => Gt | Some x, Some y => x ?= y
  end.
Definition sq_cmp (a b : option N * phrase) : comparison :=
  match opt_cmp (fst a) (fst b) with
  | Eq => match ph_freq (snd b) ?= ph_freq (snd a) with
          | Eq => lex_cmp (ph_text (snd b)) (ph_text (snd a))
          | c => c
          end
  | c => c
  end.
Fixpoint sq_sort_ins (x : option N * phrase) (l : list (option N * phrase)) :=
  match l with
  | [] => [x]
  | y :: l' => match sq_cmp x y with Lt => x :: y :: l' | _ => y :: sq_sort_ins x l' end
  end.
Definition sq_sort (l : list (option N * phrase)) := fold_left (fun acc x => sq_sort_ins x acc) l [].

(* lookup_first_n_phrases: the strategy is ignored; .take(first) *)
Definition sq_lookup (db : sqdb) (k : key) (first : N) : list phrase :=
  truncate_usize first
    (map snd (sq_sort (map (fun r => (d_sort r, row_phrase db r))
                           (filter (fun r => seq_eqb (d_key r) k) (sq_dict db))))).

(* entries: no ORDER BY; compared as a multiset *)
Definition sq_entries (db : sqdb) : list (key * phrase) :=
  map (fun r => (d_key r, row_phrase db r)) (sq_dict db).

Definition I64_MAX : N := 9223372036854775807.

(* add_phrase: INSERT OR REPLACE (syllables, phrase, freq): sort_id, userphrase_id := NULL *)
Definition sq_add (db : sqdb) (k : key) (ph : phrase) : sqdb * bool :=
  if sq_ro db then (db, false)
  else (mkSq (d_replace (mkD k (ph_text ph) (ph_freq ph) None None) (sq_dict db)) (sq_user db) false, true).

(* update_phrase (one transaction; a u64 time above i64::MAX fails to bind: Err, rolled back) *)
Definition sq_update (db : sqdb) (k : key) (p : text) (orig_freq user_freq time : N) : sqdb * bool :=
  if sq_ro db then (db, false)
  else match match find (d_is k p) (sq_dict db) with Some r => d_uid r | None => None end with
       | Some id =>
           (mkSq (sq_dict db)
                 (map (fun u => if u_id u =? id then mkU (u_id u) user_freq (u_time u) else u) (sq_user db))
                 false, true)
       | None =>
           if I64_MAX <? time then (db, false)
           else let id := u_next_id (sq_user db) in
                (mkSq (d_replace (mkD k p orig_freq None (Some id)) (sq_dict db))
                      (sq_user db ++ [mkU id user_freq time]) false, true)
       end.

(* remove_phrase: DELETE FROM dictionary_v1 WHERE syllables = ? AND phrase = ? (no read-only test) *)
Definition sq_remove (db : sqdb) (k : key) (p : text) : sqdb :=
  mkSq (filter (fun x => negb (d_is k p x)) (sq_dict db)) (sq_user db) (sq_ro db).

Definition sq_step (db : sqdb) (o : op) : sqdb * out :=
  match o with
  | OAdd k ph => let '(db', ok) := sq_add db k ph in (db', RAdd ok)
  | OUpdate k p f uf t => let '(db', ok) := sq_update db k p f uf t in (db', RAdd ok)
  | ORemove k p => (sq_remove db k p, RUnit)
  | OLookup k n _ => (db, RLookup (sq_lookup db k n))
  | OEntries => (db, REntries (sq_entries db))
  | OFlush => (db, RUnit)         (* PRAGMA wal_checkpoint(PASSIVE) *)
  | OReopen _ => (db, RUnit)      (* Ok(()) *)
  end.

Fixpoint sq_run (db : sqdb) (ops : list op) : sqdb * list out :=
  match ops with
  | [] => (db, [])
  | o :: ops' => let '(d1, r) := sq_step db o in
                 let '(d2, rs) := sq_run d1 ops' in (d2, r :: rs)
  end.
