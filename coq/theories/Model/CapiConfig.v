(* chewing_config_set_int / chewing_config_get_int on the context model of Model/CapiKeys.v: the option arms are the
   ones of Model/Config.v (C16: parse_iopt / apply_iopt over the regenerated tables of capi/src/io.rs - value
   ranges, enum value tables, the engine table); the EditorOptions they produce are installed with
   Editor::set_editor_options on the EDITOR model (which clears a pending syllable on a language switch and
   re-pages an open list), the engine with Editor::set_conversion_engine.  No proofs here. *)
From Coq Require Import NArith ZArith List Bool String.
From LC Require Model.Config Model.Syllable.
From LC Require Import Base.Lib Gen.Capi_gen Model.Composition Model.Conversion Model.Editor Model.EditorRun Model.EdInst Model.CapiKeys.
Import ListNotations.
Open Scope Z_scope.

Definition engine_of_N (n : N) : engine_kind :=
  if N.eqb n ConversionEngineKind_SimpleEngine then EngSimple
  else if N.eqb n ConversionEngineKind_FuzzyChewingEngine then EngFuzzy else EngChewing.
Definition engine_to_N (k : engine_kind) : N :=
  match k with
  | EngSimple => ConversionEngineKind_SimpleEngine
  | EngChewing => ConversionEngineKind_ChewingEngine
  | EngFuzzy => ConversionEngineKind_FuzzyChewingEngine
  end.

(* EditorOptions of the configuration model <-> the options record of the editor model *)
Definition to_ed_options (o : Config.options) : options :=
  mkOpts (Config.easy_symbol_input o) (Config.esc_clear_all_buffer o) (Config.space_is_select_key o)
         (Config.auto_shift_cursor o) (Config.phrase_choice_rearward o) (Config.disable_auto_learn_phrase o)
         (Z.to_nat (Config.auto_commit_threshold o)) (Z.to_nat (Config.candidates_per_page o))
         (N.eqb (Config.language_mode o) LanguageMode_English) (N.eqb (Config.character_form o) CharacterForm_Fullwidth)
         (N.eqb (Config.user_phrase_add_dir o) UserPhraseAddDirection_Backward)
         (N.eqb (Config.lookup_strategy o) LookupStrategy_FuzzyPartialPrefix)
         (engine_of_N (Config.conversion_engine o)) (Config.enable_fullwidth_toggle_key o).

Definition of_ed_options (o : options) : Config.options :=
  Config.mkOptions (o_easy_symbol o) (o_esc_clear o) (o_space_select o) (o_auto_shift o) (o_rearward o) (o_no_learn o)
    (Z.of_nat (o_threshold o)) (Z.of_nat (o_per_page o))
    (if o_english o then LanguageMode_English else LanguageMode_Chinese)
    (if o_fullwidth o then CharacterForm_Fullwidth else CharacterForm_Halfwidth)
    (if o_add_backward o then UserPhraseAddDirection_Backward else UserPhraseAddDirection_Forward)
    (if o_fuzzy o then LookupStrategy_FuzzyPartialPrefix else LookupStrategy_Standard)
    (engine_to_N (o_engine o)) (o_fw_toggle o).

(* chewing_config_set_int(ctx, name, value): (context afterwards, return code) *)
Definition config_set_int_c (c : cctx) (name : string) (value : Z) : outcome (cctx * Z) :=
  let e := cx_ed c in
  if set_int_global_reject value then Ok (c, c_ERROR)
  else match Config.parse_iopt name with
       | None => Ok (c, c_ERROR)
       | Some o =>
         match Config.apply_iopt o value (of_ed_options (opts (sh e))) (engine_to_N (engine (sh e))) with
         | None => Ok (c, c_ERROR)
         | Some (op', eng') =>
           let e1 := ml_set_engine e (engine_of_N eng') in
           match ml_set_options mdf_ops e1 (to_ed_options op') with
           | Ok e2 => Ok (with_ed c e2, c_OK)
           | Err x => Err x | Panic s => Panic s | OutOfFuel => OutOfFuel
           end
         end
       end.

(* chewing_config_get_int *)
Definition config_get_int_c (c : cctx) (name : string) : Z :=
  match Config.parse_iopt name with
  | None => c_ERROR
  | Some o => Config.get_iopt o (of_ed_options (opts (sh (cx_ed c))))
  end.

(* ---- chewing_userphrase_add / remove / lookup (capi/src/io.rs): the Bopomofo string is split at ASCII white
   space, each word parsed as a syllable (Model/Syllable.v: parse_chars, the order-checking builder of C13) until
   the first one that does not parse (`map_while`) ---- *)
Definition is_ascii_ws (c : N) : bool := (N.eqb c 32 || N.eqb c 9 || N.eqb c 10 || N.eqb c 12 || N.eqb c 13)%bool.

Fixpoint split_ws (s : list N) (cur : list N) : list (list N) :=
  match s with
  | [] => match cur with [] => [] | _ => [rev cur] end
  | x :: rest =>
    if is_ascii_ws x then match cur with [] => split_ws rest [] | _ => rev cur :: split_ws rest [] end
    else split_ws rest (x :: cur)
  end.

Fixpoint parse_while (ws : list (list N)) : list N :=
  match ws with
  | [] => []
  | w :: rest => match Syllable.parse_chars w with inl s => s :: parse_while rest | inr _ => [] end
  end.

Definition parse_bopomofo (s : list N) : list N := parse_while (split_ws s []).

Definition userphrase_add (c : cctx) (phrase bopomofo : list N) : outcome (cctx * Z) :=
  let syls := parse_bopomofo bopomofo in
  if Nat.ltb 11 (List.length syls) then Ok (c, 0)
  else match ml_learn mdf_ops (cx_ed c) syls phrase with
       | Ok r => Ok (with_ed c (fst r), if snd r then c_TRUE else c_FALSE)
       | Err x => Err x | Panic s => Panic s | OutOfFuel => OutOfFuel
       end.

Definition userphrase_lookup (c : cctx) (phrase bopomofo : list N) : Z :=
  let syls := parse_bopomofo bopomofo in
  if existsb (fun p => text_eqb (fst p) phrase) (do_user_lookup mdf_ops (dict (sh (cx_ed c))) syls) then c_TRUE else c_FALSE.

Definition userphrase_remove (c : cctx) (phrase bopomofo : list N) : outcome (cctx * Z) :=
  if negb (Z.eqb (userphrase_lookup c phrase bopomofo) c_TRUE) then Ok (c, c_FALSE)
  else match ml_unlearn mdf_ops (cx_ed c) (parse_bopomofo bopomofo) phrase with
       | Ok e => Ok (with_ed c e, c_TRUE)
       | Err x => Err x | Panic s => Panic s | OutOfFuel => OutOfFuel
       end.
