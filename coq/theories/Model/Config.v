(* Executable model of the configuration surface of the C API
   (capi/src/io.rs: chewing_config_has_option / get_int / set_int / get_str /
   set_str, every legacy chewing_set_* / chewing_get_* alias, chewing_set_KBType /
   get_KBType / get_KBString / KBStr2Num / kbtype enumeration, chewing_set_selKey /
   get_selKey, chewing_Configure) over the part of ChewingContext / Editor they
   read and write (capi/src/public.rs: ChewingContext; src/editor/mod.rs:
   EditorOptions, set_editor_options, set_syllable_editor, set_conversion_engine).

   Every literal table (option names, accepted values, enum <-> integer rows, the
   two keyboard-layout tables, the three KeyboardLayoutCompat conversions, the
   defaults) comes from Gen/Capi_gen.v, regenerated from the sources on every run.
   The control flow is transcribed by hand and tied to the code by the c16
   correspondence.  No proofs in this file.

   Conventions: a C int is a Z (the functions are total on Z, i32 is a subset);
   a Rust enum value is its discriminant (N); a Rust String is the list of its
   Unicode scalar values (list N) - the lossy decoding of the C byte string
   (CStr::to_string_lossy) is std behaviour and happens before the model; option
   names are Coq strings (ASCII literals in the source). *)
From Coq Require Import ZArith NArith List Bool String Ascii.
From LC Require Import Base.Lib Gen.Capi_gen.
Import ListNotations.
Open Scope string_scope.
Open Scope Z_scope.

(* ------------------------------------------------------------------ state *)

(* src/editor/mod.rs: EditorOptions *)
Record options := mkOptions {
  easy_symbol_input : bool;
  esc_clear_all_buffer : bool;
  space_is_select_key : bool;
  auto_shift_cursor : bool;
  phrase_choice_rearward : bool;
  disable_auto_learn_phrase : bool;
  auto_commit_threshold : Z;          (* usize *)
  candidates_per_page : Z;            (* usize *)
  language_mode : N;                  (* LanguageMode *)
  character_form : N;                 (* CharacterForm *)
  user_phrase_add_dir : N;            (* UserPhraseAddDirection *)
  lookup_strategy : N;                (* LookupStrategy *)
  conversion_engine : N;              (* ConversionEngineKind *)
  enable_fullwidth_toggle_key : bool
}.

(* the configuration held by the C context and its editor *)
Record config := mkConfig {
  opts : options;            (* ctx.editor.shared.options *)
  engine_installed : N;      (* ctx.editor.shared.conv: which engine object is installed (ConversionEngineKind) *)
  syl_editor : string;       (* ctx.editor.shared.syl: constructor of the syllable editor in effect *)
  syl_pending : bool;        (* the syllable editor holds keys (bopomofo buffer not empty) *)
  kb_compat : N;             (* ctx.kb_compat: the layout reported by the getters *)
  keyboard : string;         (* ctx.keyboard: AnyKeyboardLayout variant in effect *)
  sel_keys : list Z          (* ctx.sel_keys: [c_int; MAX_SELKEY] *)
}.

Definition default_options : options :=
  mkOptions default_easy_symbol_input default_esc_clear_all_buffer default_space_is_select_key
            default_auto_shift_cursor default_phrase_choice_rearward default_disable_auto_learn_phrase
            default_auto_commit_threshold default_candidates_per_page default_language_mode
            default_character_form default_user_phrase_add_dir default_lookup_strategy
            default_conversion_engine default_enable_fullwidth_toggle_key.

(* chewing_new2 *)
Definition init_config : config :=
  mkConfig default_options init_engine_installed init_syllable_editor false init_kb_compat init_keyboard init_sel_keys.

(* field updates *)
Definition upd_easy_symbol_input v o := mkOptions v (esc_clear_all_buffer o) (space_is_select_key o) (auto_shift_cursor o) (phrase_choice_rearward o) (disable_auto_learn_phrase o) (auto_commit_threshold o) (candidates_per_page o) (language_mode o) (character_form o) (user_phrase_add_dir o) (lookup_strategy o) (conversion_engine o) (enable_fullwidth_toggle_key o).
Definition upd_esc_clear_all_buffer v o := mkOptions (easy_symbol_input o) v (space_is_select_key o) (auto_shift_cursor o) (phrase_choice_rearward o) (disable_auto_learn_phrase o) (auto_commit_threshold o) (candidates_per_page o) (language_mode o) (character_form o) (user_phrase_add_dir o) (lookup_strategy o) (conversion_engine o) (enable_fullwidth_toggle_key o).
Definition upd_space_is_select_key v o := mkOptions (easy_symbol_input o) (esc_clear_all_buffer o) v (auto_shift_cursor o) (phrase_choice_rearward o) (disable_auto_learn_phrase o) (auto_commit_threshold o) (candidates_per_page o) (language_mode o) (character_form o) (user_phrase_add_dir o) (lookup_strategy o) (conversion_engine o) (enable_fullwidth_toggle_key o).
Definition upd_auto_shift_cursor v o := mkOptions (easy_symbol_input o) (esc_clear_all_buffer o) (space_is_select_key o) v (phrase_choice_rearward o) (disable_auto_learn_phrase o) (auto_commit_threshold o) (candidates_per_page o) (language_mode o) (character_form o) (user_phrase_add_dir o) (lookup_strategy o) (conversion_engine o) (enable_fullwidth_toggle_key o).
Definition upd_phrase_choice_rearward v o := mkOptions (easy_symbol_input o) (esc_clear_all_buffer o) (space_is_select_key o) (auto_shift_cursor o) v (disable_auto_learn_phrase o) (auto_commit_threshold o) (candidates_per_page o) (language_mode o) (character_form o) (user_phrase_add_dir o) (lookup_strategy o) (conversion_engine o) (enable_fullwidth_toggle_key o).
Definition upd_disable_auto_learn_phrase v o := mkOptions (easy_symbol_input o) (esc_clear_all_buffer o) (space_is_select_key o) (auto_shift_cursor o) (phrase_choice_rearward o) v (auto_commit_threshold o) (candidates_per_page o) (language_mode o) (character_form o) (user_phrase_add_dir o) (lookup_strategy o) (conversion_engine o) (enable_fullwidth_toggle_key o).
Definition upd_auto_commit_threshold v o := mkOptions (easy_symbol_input o) (esc_clear_all_buffer o) (space_is_select_key o) (auto_shift_cursor o) (phrase_choice_rearward o) (disable_auto_learn_phrase o) v (candidates_per_page o) (language_mode o) (character_form o) (user_phrase_add_dir o) (lookup_strategy o) (conversion_engine o) (enable_fullwidth_toggle_key o).
Definition upd_candidates_per_page v o := mkOptions (easy_symbol_input o) (esc_clear_all_buffer o) (space_is_select_key o) (auto_shift_cursor o) (phrase_choice_rearward o) (disable_auto_learn_phrase o) (auto_commit_threshold o) v (language_mode o) (character_form o) (user_phrase_add_dir o) (lookup_strategy o) (conversion_engine o) (enable_fullwidth_toggle_key o).
Definition upd_language_mode v o := mkOptions (easy_symbol_input o) (esc_clear_all_buffer o) (space_is_select_key o) (auto_shift_cursor o) (phrase_choice_rearward o) (disable_auto_learn_phrase o) (auto_commit_threshold o) (candidates_per_page o) v (character_form o) (user_phrase_add_dir o) (lookup_strategy o) (conversion_engine o) (enable_fullwidth_toggle_key o).
Definition upd_character_form v o := mkOptions (easy_symbol_input o) (esc_clear_all_buffer o) (space_is_select_key o) (auto_shift_cursor o) (phrase_choice_rearward o) (disable_auto_learn_phrase o) (auto_commit_threshold o) (candidates_per_page o) (language_mode o) v (user_phrase_add_dir o) (lookup_strategy o) (conversion_engine o) (enable_fullwidth_toggle_key o).
Definition upd_user_phrase_add_dir v o := mkOptions (easy_symbol_input o) (esc_clear_all_buffer o) (space_is_select_key o) (auto_shift_cursor o) (phrase_choice_rearward o) (disable_auto_learn_phrase o) (auto_commit_threshold o) (candidates_per_page o) (language_mode o) (character_form o) v (lookup_strategy o) (conversion_engine o) (enable_fullwidth_toggle_key o).
Definition upd_lookup_strategy v o := mkOptions (easy_symbol_input o) (esc_clear_all_buffer o) (space_is_select_key o) (auto_shift_cursor o) (phrase_choice_rearward o) (disable_auto_learn_phrase o) (auto_commit_threshold o) (candidates_per_page o) (language_mode o) (character_form o) (user_phrase_add_dir o) v (conversion_engine o) (enable_fullwidth_toggle_key o).
Definition upd_conversion_engine v o := mkOptions (easy_symbol_input o) (esc_clear_all_buffer o) (space_is_select_key o) (auto_shift_cursor o) (phrase_choice_rearward o) (disable_auto_learn_phrase o) (auto_commit_threshold o) (candidates_per_page o) (language_mode o) (character_form o) (user_phrase_add_dir o) (lookup_strategy o) v (enable_fullwidth_toggle_key o).
Definition upd_enable_fullwidth_toggle_key v o := mkOptions (easy_symbol_input o) (esc_clear_all_buffer o) (space_is_select_key o) (auto_shift_cursor o) (phrase_choice_rearward o) (disable_auto_learn_phrase o) (auto_commit_threshold o) (candidates_per_page o) (language_mode o) (character_form o) (user_phrase_add_dir o) (lookup_strategy o) (conversion_engine o) v.

Definition with_opts v c := mkConfig v (engine_installed c) (syl_editor c) (syl_pending c) (kb_compat c) (keyboard c) (sel_keys c).
Definition with_engine v c := mkConfig (opts c) v (syl_editor c) (syl_pending c) (kb_compat c) (keyboard c) (sel_keys c).
Definition with_pending v c := mkConfig (opts c) (engine_installed c) (syl_editor c) v (kb_compat c) (keyboard c) (sel_keys c).
Definition with_sel_keys v c := mkConfig (opts c) (engine_installed c) (syl_editor c) (syl_pending c) (kb_compat c) (keyboard c) v.

(* Editor::set_editor_options: the syllable editor is cleared when the language mode changes *)
Definition set_editor_options (o : options) (c : config) : config :=
  mkConfig o (engine_installed c) (syl_editor c)
           (if N.eqb (language_mode (opts c)) (language_mode o) then syl_pending c else false)
           (kb_compat c) (keyboard c) (sel_keys c).

(* ctx.kb_compat = kb; ctx.keyboard = keyboard; ctx.editor.set_syllable_editor(syl)  (a new, empty editor) *)
Definition install_layout (kb : N) (row : string * string) (c : config) : config :=
  mkConfig (opts c) (engine_installed c) (snd row) false kb (fst row) (sel_keys c).

(* ------------------------------------------------------------------ small helpers *)

Fixpoint assocZ {A} (k : Z) (l : list (Z * A)) : option A :=
  match l with
  | [] => None
  | (k', v) :: l' => if Z.eqb k k' then Some v else assocZ k l'
  end.

Fixpoint assocS {A} (k : string) (l : list (string * A)) : option A :=
  match l with
  | [] => None
  | (k', v) :: l' => if String.eqb k k' then Some v else assocS k l'
  end.

Definition b2z (b : bool) : Z := if b then 1 else 0.

(* `x as c_int` for a usize / wider integer: two's complement truncation to 32 bits *)
Definition as_c_int (z : Z) : Z := (z + 2147483648) mod 4294967296 - 2147483648.
(* `x as u8` *)
Definition as_u8 (z : Z) : N := Z.to_N (z mod 256).

(* code points of an ASCII literal *)
Fixpoint codes (s : string) : list N :=
  match s with
  | EmptyString => []
  | String a r => N_of_ascii a :: codes r
  end.

Definition codes_eqb (a b : list N) : bool := list_eqb N.eqb a b.

(* str::len of one char (char::len_utf8) and of a String *)
Definition utf8_len (c : N) : Z :=
  if (c <? 128)%N then 1 else if (c <? 2048)%N then 2 else if (c <? 65536)%N then 3 else 4.
Definition str_len (s : list N) : Z := fold_right (fun c acc => utf8_len c + acc) 0 s.
Definition is_ascii (s : list N) : bool := forallb (fun c => (c <? 128)%N) s.

(* ------------------------------------------------------------------ integer options *)

Inductive iopt :=
| OUserPhraseAddDirection | ODisableAutoLearnPhrase | OAutoShiftCursor | OCandidatesPerPage
| OLanguageMode | OEasySymbolInput | OEscClearAllBuffer | OAutoCommitThreshold
| OPhraseChoiceRearward | OCharacterForm | OSpaceIsSelectKey | OConversionEngine
| OEnableFullwidthToggleKey.

Definition all_iopts : list iopt :=
  [OUserPhraseAddDirection; ODisableAutoLearnPhrase; OAutoShiftCursor; OCandidatesPerPage;
   OLanguageMode; OEasySymbolInput; OEscClearAllBuffer; OAutoCommitThreshold;
   OPhraseChoiceRearward; OCharacterForm; OSpaceIsSelectKey; OConversionEngine;
   OEnableFullwidthToggleKey].

(* the literal each arm of `match name.as_ref()` tests *)
Definition iopt_name (o : iopt) : string :=
  match o with
  | OUserPhraseAddDirection => "chewing.user_phrase_add_direction"
  | ODisableAutoLearnPhrase => "chewing.disable_auto_learn_phrase"
  | OAutoShiftCursor => "chewing.auto_shift_cursor"
  | OCandidatesPerPage => "chewing.candidates_per_page"
  | OLanguageMode => "chewing.language_mode"
  | OEasySymbolInput => "chewing.easy_symbol_input"
  | OEscClearAllBuffer => "chewing.esc_clear_all_buffer"
  | OAutoCommitThreshold => "chewing.auto_commit_threshold"
  | OPhraseChoiceRearward => "chewing.phrase_choice_rearward"
  | OCharacterForm => "chewing.character_form"
  | OSpaceIsSelectKey => "chewing.space_is_select_key"
  | OConversionEngine => "chewing.conversion_engine"
  | OEnableFullwidthToggleKey => "chewing.enable_fullwidth_toggle_key"
  end.

(* the EditorOptions field the arm of the option writes / reads (compared with the generated
   set_int_fields / get_int_fields in the proofs) *)
Definition iopt_field (o : iopt) : string :=
  match o with
  | OUserPhraseAddDirection => "user_phrase_add_dir"
  | ODisableAutoLearnPhrase => "disable_auto_learn_phrase"
  | OAutoShiftCursor => "auto_shift_cursor"
  | OCandidatesPerPage => "candidates_per_page"
  | OLanguageMode => "language_mode"
  | OEasySymbolInput => "easy_symbol_input"
  | OEscClearAllBuffer => "esc_clear_all_buffer"
  | OAutoCommitThreshold => "auto_commit_threshold"
  | OPhraseChoiceRearward => "phrase_choice_rearward"
  | OCharacterForm => "character_form"
  | OSpaceIsSelectKey => "space_is_select_key"
  | OConversionEngine => "conversion_engine"
  | OEnableFullwidthToggleKey => "enable_fullwidth_toggle_key"
  end.

Definition parse_iopt (name : string) : option iopt :=
  find (fun o => String.eqb name (iopt_name o)) all_iopts.

(* ensure_bool!(value); options.f = value > 0 *)
Definition bool_arm (v : Z) : option bool :=
  if existsb (Z.eqb v) ensure_bool_values then Some (v >? 0) else None.

(* one arm of the match in chewing_config_set_int: None = `return ERROR`;
   Some (options', engine installed) otherwise *)
Definition apply_iopt (o : iopt) (v : Z) (op : options) (eng : N) : option (options * N) :=
  match o with
  | OUserPhraseAddDirection =>
      match assocZ v set_int_enum_user_phrase_add_direction with
      | Some d => Some (upd_user_phrase_add_dir d op, eng) | None => None end
  | ODisableAutoLearnPhrase =>
      match bool_arm v with Some b => Some (upd_disable_auto_learn_phrase b op, eng) | None => None end
  | OAutoShiftCursor =>
      match bool_arm v with Some b => Some (upd_auto_shift_cursor b op, eng) | None => None end
  | OCandidatesPerPage =>
      if set_int_reject_candidates_per_page v then None else Some (upd_candidates_per_page v op, eng)
  | OLanguageMode =>
      match assocZ v set_int_enum_language_mode with
      | Some d => Some (upd_language_mode d op, eng) | None => None end
  | OEasySymbolInput =>
      match bool_arm v with Some b => Some (upd_easy_symbol_input b op, eng) | None => None end
  | OEscClearAllBuffer =>
      match bool_arm v with Some b => Some (upd_esc_clear_all_buffer b op, eng) | None => None end
  | OAutoCommitThreshold =>
      if set_int_reject_auto_commit_threshold v then None else Some (upd_auto_commit_threshold v op, eng)
  | OPhraseChoiceRearward =>
      match bool_arm v with Some b => Some (upd_phrase_choice_rearward b op, eng) | None => None end
  | OCharacterForm =>
      match assocZ v set_int_enum_character_form with
      | Some d => Some (upd_character_form d op, eng) | None => None end
  | OSpaceIsSelectKey =>
      match bool_arm v with Some b => Some (upd_space_is_select_key b op, eng) | None => None end
  | OConversionEngine =>
      match assocZ v set_int_engine with
      | Some (kind, (inst, strat)) => Some (upd_conversion_engine kind (upd_lookup_strategy strat op), inst)
      | None => None end
  | OEnableFullwidthToggleKey =>
      match bool_arm v with Some b => Some (upd_enable_fullwidth_toggle_key b op, eng) | None => None end
  end.

(* chewing_config_set_int: (return code, context afterwards) *)
Definition config_set_int (name : string) (value : Z) (c : config) : Z * config :=
  if set_int_global_reject value then (c_ERROR, c)
  else match parse_iopt name with
       | None => (c_ERROR, c)
       | Some o =>
           match apply_iopt o value (opts c) (engine_installed c) with
           | None => (c_ERROR, c)
           | Some (op', eng') =>
               let c1 := with_engine eng' c in
               (c_OK, if set_int_calls_set_editor_options then set_editor_options op' c1 else c1)
           end
       end.

(* an exhaustive `match option.f { Variant => K, .. }` *)
Definition enum_get (d : N) (tbl : list (N * Z)) : Z :=
  match assoc d tbl with Some z => z | None => c_ERROR end.

Definition get_iopt (o : iopt) (op : options) : Z :=
  match o with
  | OUserPhraseAddDirection => enum_get (user_phrase_add_dir op) get_int_enum_user_phrase_add_direction
  | ODisableAutoLearnPhrase => b2z (disable_auto_learn_phrase op)
  | OAutoShiftCursor => b2z (auto_shift_cursor op)
  | OCandidatesPerPage => as_c_int (candidates_per_page op)
  | OLanguageMode => enum_get (language_mode op) get_int_enum_language_mode
  | OEasySymbolInput => b2z (easy_symbol_input op)
  | OEscClearAllBuffer => b2z (esc_clear_all_buffer op)
  | OAutoCommitThreshold => as_c_int (auto_commit_threshold op)
  | OPhraseChoiceRearward => b2z (phrase_choice_rearward op)
  | OCharacterForm => enum_get (character_form op) get_int_enum_character_form
  | OSpaceIsSelectKey => b2z (space_is_select_key op)
  | OConversionEngine => enum_get (conversion_engine op) get_int_enum_conversion_engine
  | OEnableFullwidthToggleKey => b2z (enable_fullwidth_toggle_key op)
  end.

(* chewing_config_get_int *)
Definition config_get_int (name : string) (c : config) : Z :=
  match parse_iopt name with
  | None => c_ERROR
  | Some o => get_iopt o (opts c)
  end.

(* chewing_config_has_option *)
Definition config_has_option (name : string) : Z :=
  b2z (existsb (String.eqb name) has_option_names).

(* ------------------------------------------------------------------ keyboard layouts *)

Definition kb_try_from (n : N) : option N := assoc n kb_try_from_u8.            (* TryFrom<u8> *)
Definition kb_name (k : N) : string := nth (N.to_nat k) kb_display "".          (* Display *)
Fixpoint kb_parse_in (s : list N) (l : list (string * N)) : option N :=          (* FromStr *)
  match l with
  | [] => None
  | (n, k) :: l' => if codes_eqb s (codes n) then Some k else kb_parse_in s l'
  end.
Definition kb_parse (s : list N) : option N := kb_parse_in s kb_from_str.

(* the two tables; the Rust matches are exhaustive, so a missing row cannot happen
   (tablegen refuses tables that do not cover every variant) - the fallback is the initial pair *)
Definition row_by_name (k : N) : string * string :=
  match assoc k kb_table_by_name with Some r => r | None => (init_keyboard, init_syllable_editor) end.
Definition row_by_number (k : N) : string * string :=
  match assoc k kb_table_by_number with Some r => r | None => (init_keyboard, init_syllable_editor) end.

(* u8::try_from(kbtype).map_err(|_| ()).and_then(KB::try_from): the layout a number denotes *)
Definition kbtype_number (kbtype : Z) : option N :=
  if (0 <=? kbtype) && (kbtype <=? 255) then kb_try_from (Z.to_N kbtype) else None.

(* chewing_set_KBType *)
Definition set_KBType (kbtype : Z) (c : config) : Z * config :=
  let kb := match kbtype_number kbtype with Some k => k | None => KB_Default end in
  let c' := install_layout kb (row_by_number kb) c in
  (if N.eqb kb KB_Default && negb (Z.eqb (Z.of_N kb) kbtype) then -1 else 0, c').

Definition get_KBType (c : config) : Z := Z.of_N (kb_compat c).
Definition get_KBString (c : config) : list N := codes (kb_name (kb_compat c)).
Definition KBStr2Num (s : list N) : Z :=
  Z.of_N (match kb_parse s with Some k => k | None => KB_Default end).

(* chewing_kbtype_Total / Enumerate + String: (0..).map_while(|id| try_from(id).ok()) *)
Fixpoint kb_enum_from (fuel : nat) (id : N) : list N :=
  match fuel with
  | O => []
  | S f => match kb_try_from id with Some k => k :: kb_enum_from f (N.succ id) | None => [] end
  end.
Definition kb_enumeration : list N := kb_enum_from 256 0%N.
Definition kbtype_Total : Z := Z.of_nat (List.length kb_enumeration).
Definition kbtype_Strings : list string := map kb_name kb_enumeration.

(* ------------------------------------------------------------------ string options *)

Inductive str_out :=
| SOk (s : list N)     (* OK, *value = s *)
| SError.              (* ERROR *)

Definition name_keyboard_type : string := "chewing.keyboard_type".
Definition name_selection_keys : string := "chewing.selection_keys".

(* char::from(key as u8) *)
Definition sel_key_char (k : Z) : N := as_u8 k.

(* chewing_config_get_str *)
Definition config_get_str (name : string) (c : config) : str_out :=
  if String.eqb name name_keyboard_type then SOk (codes (kb_name (kb_compat c)))
  else if String.eqb name name_selection_keys then
    let s := map sel_key_char (sel_keys c) in
    if existsb (N.eqb 0) s then SError else SOk s      (* CString::new fails on an interior NUL *)
  else SError.

Fixpoint pad_keys (n : nat) (l : list Z) : list Z :=
  match n with
  | O => []
  | S k => match l with [] => 0 :: pad_keys k [] | x :: r => x :: pad_keys k r end
  end.

(* the check of the selection_keys arm:
   `if string.len() != MAX_SELKEY || !string.is_ascii() { return ERROR }` *)
Definition sel_keys_acceptable (value : list N) : bool := Z.eqb (str_len value) c_MAX_SELKEY && is_ascii value.

(* chewing_config_set_str *)
Definition config_set_str (name : string) (value : list N) (c : config) : Z * config :=
  if String.eqb name name_keyboard_type then
    match kb_parse value with
    | None => (c_ERROR, c)
    | Some kb => (c_OK, install_layout kb (row_by_name kb) c)
    end
  else if String.eqb name name_selection_keys then
    if sel_keys_acceptable value
    then (c_OK, with_sel_keys (pad_keys (Z.to_nat c_MAX_SELKEY) (map Z.of_N value)) c)
    else (c_ERROR, c)
  else (c_ERROR, c).

(* chewing_set_selKey(ctx, sel_keys, len): None = null pointer; the list is the array behind the pointer *)
Definition set_selKey (keys : option (list Z)) (len : Z) (c : config) : config :=
  match keys with
  | None => c
  | Some l => if Z.eqb len 10 then with_sel_keys (firstn 10 l) c else c
  end.
Definition get_selKey (c : config) : list Z := sel_keys c.

(* ------------------------------------------------------------------ legacy aliases,
   each transcribed from its own body *)

Definition chewing_set_ChiEngMode (mode : Z) (c : config) : config := snd (config_set_int "chewing.language_mode" mode c).
Definition chewing_get_ChiEngMode (c : config) : Z := config_get_int "chewing.language_mode" c.
Definition chewing_set_ShapeMode (mode : Z) (c : config) : config := snd (config_set_int "chewing.character_form" mode c).
Definition chewing_get_ShapeMode (c : config) : Z := config_get_int "chewing.character_form" c.
Definition chewing_set_candPerPage (n : Z) (c : config) : config := snd (config_set_int "chewing.candidates_per_page" n c).
Definition chewing_get_candPerPage (c : config) : Z := config_get_int "chewing.candidates_per_page" c.
Definition chewing_set_maxChiSymbolLen (n : Z) (c : config) : config := snd (config_set_int "chewing.auto_commit_threshold" n c).
Definition chewing_get_maxChiSymbolLen (c : config) : Z := config_get_int "chewing.auto_commit_threshold" c.
Definition chewing_set_addPhraseDirection (d : Z) (c : config) : config := snd (config_set_int "chewing.user_phrase_add_direction" d c).
Definition chewing_get_addPhraseDirection (c : config) : Z := config_get_int "chewing.user_phrase_add_direction" c.
Definition chewing_set_spaceAsSelection (mode : Z) (c : config) : config := snd (config_set_int "chewing.space_is_select_key" mode c).
Definition chewing_get_spaceAsSelection (c : config) : Z := config_get_int "chewing.space_is_select_key" c.
Definition chewing_set_escCleanAllBuf (mode : Z) (c : config) : config := snd (config_set_int "chewing.esc_clear_all_buffer" mode c).
Definition chewing_get_escCleanAllBuf (c : config) : Z := config_get_int "chewing.esc_clear_all_buffer" c.
Definition chewing_set_autoShiftCur (mode : Z) (c : config) : config := snd (config_set_int "chewing.auto_shift_cursor" mode c).
Definition chewing_get_autoShiftCur (c : config) : Z := config_get_int "chewing.auto_shift_cursor" c.
Definition chewing_set_easySymbolInput (mode : Z) (c : config) : config := snd (config_set_int "chewing.easy_symbol_input" mode c).
Definition chewing_get_easySymbolInput (c : config) : Z := config_get_int "chewing.easy_symbol_input" c.
Definition chewing_set_phraseChoiceRearward (mode : Z) (c : config) : config := snd (config_set_int "chewing.phrase_choice_rearward" mode c).
Definition chewing_get_phraseChoiceRearward (c : config) : Z := config_get_int "chewing.phrase_choice_rearward" c.
Definition chewing_set_autoLearn (mode : Z) (c : config) : config := snd (config_set_int "chewing.disable_auto_learn_phrase" mode c).
Definition chewing_get_autoLearn (c : config) : Z := config_get_int "chewing.disable_auto_learn_phrase" c.

Inductive legacy :=
| LChiEngMode | LShapeMode | LCandPerPage | LMaxChiSymbolLen | LAddPhraseDirection | LSpaceAsSelection
| LEscCleanAllBuf | LAutoShiftCur | LEasySymbolInput | LPhraseChoiceRearward | LAutoLearn.

Definition all_legacy : list legacy :=
  [LChiEngMode; LShapeMode; LCandPerPage; LMaxChiSymbolLen; LAddPhraseDirection; LSpaceAsSelection;
   LEscCleanAllBuf; LAutoShiftCur; LEasySymbolInput; LPhraseChoiceRearward; LAutoLearn].

Definition legacy_set (a : legacy) : Z -> config -> config :=
  match a with
  | LChiEngMode => chewing_set_ChiEngMode | LShapeMode => chewing_set_ShapeMode
  | LCandPerPage => chewing_set_candPerPage | LMaxChiSymbolLen => chewing_set_maxChiSymbolLen
  | LAddPhraseDirection => chewing_set_addPhraseDirection | LSpaceAsSelection => chewing_set_spaceAsSelection
  | LEscCleanAllBuf => chewing_set_escCleanAllBuf | LAutoShiftCur => chewing_set_autoShiftCur
  | LEasySymbolInput => chewing_set_easySymbolInput | LPhraseChoiceRearward => chewing_set_phraseChoiceRearward
  | LAutoLearn => chewing_set_autoLearn
  end.

Definition legacy_get (a : legacy) : config -> Z :=
  match a with
  | LChiEngMode => chewing_get_ChiEngMode | LShapeMode => chewing_get_ShapeMode
  | LCandPerPage => chewing_get_candPerPage | LMaxChiSymbolLen => chewing_get_maxChiSymbolLen
  | LAddPhraseDirection => chewing_get_addPhraseDirection | LSpaceAsSelection => chewing_get_spaceAsSelection
  | LEscCleanAllBuf => chewing_get_escCleanAllBuf | LAutoShiftCur => chewing_get_autoShiftCur
  | LEasySymbolInput => chewing_get_easySymbolInput | LPhraseChoiceRearward => chewing_get_phraseChoiceRearward
  | LAutoLearn => chewing_get_autoLearn
  end.

(* the suffix X of chewing_set_X / chewing_get_X, for the comparison with the generated alias tables *)
Definition legacy_suffix (a : legacy) : string :=
  match a with
  | LChiEngMode => "ChiEngMode" | LShapeMode => "ShapeMode" | LCandPerPage => "candPerPage"
  | LMaxChiSymbolLen => "maxChiSymbolLen" | LAddPhraseDirection => "addPhraseDirection"
  | LSpaceAsSelection => "spaceAsSelection" | LEscCleanAllBuf => "escCleanAllBuf"
  | LAutoShiftCur => "autoShiftCur" | LEasySymbolInput => "easySymbolInput"
  | LPhraseChoiceRearward => "phraseChoiceRearward" | LAutoLearn => "autoLearn"
  end.

(* the named option each alias stands for (specification side: doc/libchewing.texi, NEWS) *)
Definition legacy_option (a : legacy) : iopt :=
  match a with
  | LChiEngMode => OLanguageMode | LShapeMode => OCharacterForm | LCandPerPage => OCandidatesPerPage
  | LMaxChiSymbolLen => OAutoCommitThreshold | LAddPhraseDirection => OUserPhraseAddDirection
  | LSpaceAsSelection => OSpaceIsSelectKey | LEscCleanAllBuf => OEscClearAllBuffer
  | LAutoShiftCur => OAutoShiftCursor | LEasySymbolInput => OEasySymbolInput
  | LPhraseChoiceRearward => OPhraseChoiceRearward | LAutoLearn => ODisableAutoLearnPhrase
  end.

(* deprecated chewing_Configure(ctx, pcd) *)
Record config_data := mkConfigData {
  cd_cand_per_page : Z; cd_max_chi_symbol_len : Z; cd_sel_key : list Z; cd_add_phrase_forward : Z;
  cd_space_as_selection : Z; cd_esc_clean_all_buf : Z; cd_auto_shift_cur : Z; cd_easy_symbol_input : Z;
  cd_phrase_choice_rearward : Z
}.

Definition chewing_Configure (p : config_data) (c : config) : config :=
  let c := chewing_set_candPerPage (cd_cand_per_page p) c in
  let c := chewing_set_maxChiSymbolLen (cd_max_chi_symbol_len p) c in
  let c := set_selKey (Some (cd_sel_key p)) c_MAX_SELKEY c in
  let c := chewing_set_addPhraseDirection (cd_add_phrase_forward p) c in
  let c := chewing_set_spaceAsSelection (cd_space_as_selection p) c in
  let c := chewing_set_escCleanAllBuf (cd_esc_clean_all_buf p) c in
  let c := chewing_set_autoShiftCur (cd_auto_shift_cur p) c in
  let c := chewing_set_easySymbolInput (cd_easy_symbol_input p) c in
  chewing_set_phraseChoiceRearward (cd_phrase_choice_rearward p) c.

(* ------------------------------------------------------------------ operation sequences *)

(* Everything else the API can do to a context is abstracted as EditorActivity: key
   handling and the other entry points may toggle the language mode (Caps Lock, Shift)
   and the character form (Shift+Space), and change the pending-syllable flag; they
   write no other field modelled here (src/editor/mod.rs: the only writers of
   `options` are set_editor_options, switch_language_mode and switch_character_form;
   the only writer of `syl` is set_syllable_editor; capi/src/io.rs: kb_compat,
   keyboard and sel_keys are written only by the functions modelled above).  The
   correspondence checks this frame condition on real key sequences. *)
Definition editor_activity (toggle_lang toggle_form pending : bool) (c : config) : config :=
  let o := opts c in
  let o := if toggle_lang
           then upd_language_mode (if N.eqb (language_mode o) LanguageMode_English then LanguageMode_Chinese else LanguageMode_English) o
           else o in
  let o := if toggle_form
           then upd_character_form (if N.eqb (character_form o) CharacterForm_Halfwidth then CharacterForm_Fullwidth else CharacterForm_Halfwidth) o
           else o in
  with_pending pending (with_opts o c).

Inductive op :=
| OpSetInt (name : string) (v : Z)
| OpLegacySet (a : legacy) (v : Z)
| OpSetStr (name : string) (value : list N)
| OpSetKBType (v : Z)
| OpSetSelKey (keys : option (list Z)) (len : Z)
| OpConfigure (p : config_data)
| OpEditor (toggle_lang toggle_form pending : bool).

(* return code (0 for the void functions) and context afterwards *)
Definition step (o : op) (c : config) : Z * config :=
  match o with
  | OpSetInt name v => config_set_int name v c
  | OpLegacySet a v => (0, legacy_set a v c)
  | OpSetStr name value => config_set_str name value c
  | OpSetKBType v => set_KBType v c
  | OpSetSelKey keys len => (0, set_selKey keys len c)
  | OpConfigure p => (0, chewing_Configure p c)
  | OpEditor tl tf p => (0, editor_activity tl tf p c)
  end.

Definition run (ops : list op) (c : config) : config :=
  fold_left (fun c o => snd (step o c)) ops c.

(* the (keyboard, syllable editor) pair in effect *)
Definition in_effect (c : config) : string * string := (keyboard c, syl_editor c).

(* ------------------------------------------------------------------ views for the correspondence *)

(* all integer getters, named then legacy *)
Definition view_ints (c : config) : list Z :=
  map (fun o => config_get_int (iopt_name o) c) all_iopts ++ map (fun a => legacy_get a c) all_legacy.
