(* Counter-example finders that accompany the C13 theorems (executable, no
   proofs): run on the extracted model when a proof obligation breaks, their
   witnesses are then replayed on the implementation. *)
From Coq Require Import NArith List Bool.
From LC Require Import Base.Lib Gen.Bopomofo_gen Model.Syllable.
Import ListNotations.
Open Scope N_scope.

Definition syms_all : list N := range_nat (N.to_nat n_bopomofo).
Definition sym_t (c : N) : option N := opt_from from_tone c.

(* first accepted symbol list that is not the spelling of its result *)
Fixpoint find_bad_parse (fuel : nat) (s : builder) (acc_rev : list N) : option (list N) :=
  if negb (list_eqb N.eqb (spell_syms (builder_build s)) (rev acc_rev)) then Some (rev acc_rev)
  else match fuel with
       | O => None
       | S k =>
         fold_left (fun r b => match r with
                               | Some _ => r
                               | None => match builder_insert s b with
                                         | inl s' => find_bad_parse k s' (b :: acc_rev)
                                         | inr _ => None
                                         end
                               end) syms_all None
       end.


(* first tone symbol the parser accepts but the decoder cannot return *)
Definition undecodable_tone : option N :=
  first_failure_below n_bopomofo (fun b =>
    if bkind b =? KIND_TONE then option_eqb N.eqb (sym_t (bindex b)) (Some b) else true).

Definition c13_search : option (list N) :=
  match find_bad_parse 5 builder_new [] with
  | Some l => Some (map_opt bchar l)
  | None => None
  end.
