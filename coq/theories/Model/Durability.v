(* C10 - protocol model of the user-dictionary writer.

   Models (src/dictionary/trie_buf.rs, trie.rs, editor/mod.rs):
     TrieBuf { trie, btree, graveyard, join_handle, dirty }
     TrieBuf::{add_phrase, update_phrase, remove_phrase}   (the "change" ops)
     TrieBuf::sync (= reopen), TrieBuf::checkpoint (= flush), impl Drop (= close)
     the thread spawned by checkpoint and TrieBuilder::build
       (create temp, write, flush, sync_data, rename, reopen, finished)
   as a transition system over an abstract file system (dictionary path + the
   writer's temp path).  The thread scheduler is a list of choices: which party
   moves next; `Crash`/`PowerLoss` may be chosen anywhere.

   Abstractions (stated in docs/notes/C10.md):
   * a dictionary is an association list key -> value over N; the byte encoding
     of a snapshot is abstract: a file is (the snapshot it encodes, how many of
     its `n_chunks` chunks reached the OS, whether sync_data covered them);
   * a file decodes iff all chunks are present (C11/C12 own the byte level);
   * one process, one TrieBuf per path, no I/O errors, temp name unused.
   Executable definitions only; proofs are in Proofs/DurabilityProofs.v. *)
From Coq Require Import NArith List Bool.
From LC Require Import Base.Lib.
Import ListNotations.
Open Scope N_scope.

(* ------------------------------------------------------------------ *)
(* dictionaries *)

Definition dict := list (N * N).

Definition get (k : N) (d : dict) : option N := assoc k d.

Definition del (k : N) (d : dict) : dict :=
  filter (fun kv => negb (N.eqb (fst kv) k)) d.

(* TrieBuf::entries_iter: the trie's entries chained with the btree's entries,
   minus the graveyard.  The snapshot writer feeds them to TrieBuilder::insert in
   that order and a later insert of the same key replaces the earlier one, i.e.
   the btree value wins: first match in `b ++ t`. *)
Definition entries (t b : dict) (g : list N) : dict :=
  filter (fun kv => negb (memN (fst kv) g)) (b ++ t).

(* the same, as a lookup function *)
Definition view (t b : dict) (g : list N) (k : N) : option N :=
  if memN k g then None
  else match get k b with
       | Some v => Some v
       | None => get k t
       end.

(* ------------------------------------------------------------------ *)
(* files and the file system *)

Definition n_chunks : N := 2.

Record file := mkFile {
  f_dict : dict;      (* the snapshot whose encoding is being / has been written *)
  f_chunks : N;       (* how many chunks of the encoding the OS has received *)
  f_synced : bool     (* sync_data returned after the last write *)
}.

Definition complete (f : file) : bool := N.eqb (f_chunks f) n_chunks.

(* Trie::open: succeeds exactly on a complete encoding *)
Definition decode (o : option file) : option dict :=
  match o with
  | Some f => if complete f then Some (f_dict f) else None
  | None => None
  end.

Record fsys := mkFs {
  fs_path : option file;   (* the dictionary path *)
  fs_tmp : option file     (* chewing-<n>.dat next to it *)
}.

(* ------------------------------------------------------------------ *)
(* the writer thread *)

Inductive wpc :=
| WStart              (* spawned, snapshot owned              [writer_start]     *)
| WWrote (n : N)      (* temp created, n chunks handed to OS  [after_tmp_create,
                                                               mid_write, after_flush] *)
| WSynced             (* sync_data returned                   [after_sync_data = before_rename] *)
| WRenamed            (* rename returned                      [after_rename]     *)
| WFinished.          (* Trie::open done, thread finished: is_finished() = true *)

Record writer := mkWriter {
  w_snap : dict;           (* entries of the snapshot taken by checkpoint *)
  w_old : option dict;     (* ghost: what the path decoded to when the writer was spawned *)
  w_pc : wpc;
  w_result : option dict   (* the thread's return value once finished *)
}.

Definition is_finished (w : writer) : bool :=
  match w_pc w with WFinished => true | _ => false end.

(* ------------------------------------------------------------------ *)
(* TrieBuf *)

Record mem := mkMem {
  m_trie : dict;
  m_btree : dict;
  m_grave : list N;
  m_handle : option writer;     (* join_handle *)
  m_dirty : bool
}.

Definition contents (m : mem) : N -> option N := view (m_trie m) (m_btree m) (m_grave m).
Definition snapshot_of (m : mem) : dict := entries (m_trie m) (m_btree m) (m_grave m).

Inductive change :=
| Upd (k v : N)     (* update_phrase *)
| Add (k v : N)     (* add_phrase: rejected when the key is visible *)
| Rem (k : N).      (* remove_phrase *)

(* add_phrase / update_phrase lift the tombstone of the key they write (fix of the re-add-after-remove defect of C09) *)
Definition do_upd (k v : N) (m : mem) : mem :=
  mkMem (m_trie m) ((k, v) :: del k (m_btree m)) (filter (fun x => negb (N.eqb x k)) (m_grave m)) (m_handle m) true.

Definition do_change (c : change) (m : mem) : mem :=
  match c with
  | Upd k v => do_upd k v m
  | Add k v => match contents m k with
               | Some _ => m                    (* Err: not accepted, nothing changes *)
               | None => do_upd k v m
               end
  | Rem k => mkMem (m_trie m) (del k (m_btree m)) (k :: m_grave m) (m_handle m) true
  end.

(* did the operation return Ok? *)
Definition change_accepted (c : change) (m : mem) : bool :=
  match c with
  | Add k _ => match contents m k with Some _ => false | None => true end
  | _ => true
  end.

(* TrieBuf::sync (DictionaryMut::reopen) *)
Definition sync (m : mem) (fs : fsys) : mem :=
  match m_handle m with
  | Some w =>
      if is_finished w then
        match w_result w with
        | Some r =>
            if m_dirty m
            then mkMem (m_trie m) (m_btree m) (m_grave m) None (m_dirty m)   (* result dropped *)
            else mkMem r [] [] None (m_dirty m)                              (* adopted *)
        | None => mkMem (m_trie m) (m_btree m) (m_grave m) None (m_dirty m)  (* Ok(Err e): logged *)
        end
      else m                                                                 (* writer busy *)
  | None =>
      match decode (fs_path fs) with
      | Some d => mkMem d (m_btree m) (m_grave m) None (m_dirty m)           (* reload *)
      | None => m                                                            (* `?` returns Err *)
      end
  end.

(* TrieBuf::checkpoint (DictionaryMut::flush); the spawned thread is parked at
   its first point *)
Definition checkpoint (m : mem) (fs : fsys) : mem :=
  match m_handle m with
  | Some _ => m
  | None =>
      if m_dirty m
      then mkMem (m_trie m) (m_btree m) (m_grave m)
                 (Some (mkWriter (snapshot_of m) (decode (fs_path fs)) WStart None)) false
      else m
  end.

(* one step of the writer thread: TrieBuilder::build, then Trie::open *)
Definition upd_tmp (g : file -> file) (fs : fsys) : fsys :=
  mkFs (fs_path fs) (match fs_tmp fs with Some f => Some (g f) | None => None end).

Definition wr_step (w : writer) (fs : fsys) : writer * fsys :=
  match w_pc w with
  | WStart =>                                                   (* File::create(tmp) *)
      (mkWriter (w_snap w) (w_old w) (WWrote 0) None,
       mkFs (fs_path fs) (Some (mkFile (w_snap w) 0 false)))
  | WWrote n =>
      if N.ltb n n_chunks
      then (mkWriter (w_snap w) (w_old w) (WWrote (N.succ n)) None,       (* write a chunk *)
            upd_tmp (fun f => mkFile (f_dict f) (N.succ (f_chunks f)) false) fs)
      else (mkWriter (w_snap w) (w_old w) WSynced None,                   (* sync_data *)
            upd_tmp (fun f => mkFile (f_dict f) (f_chunks f) true) fs)
  | WSynced =>                                                  (* fs::rename(tmp, path) *)
      (mkWriter (w_snap w) (w_old w) WRenamed None, mkFs (fs_tmp fs) None)
  | WRenamed =>                                                 (* Trie::open(path); return *)
      (mkWriter (w_snap w) (w_old w) WFinished (decode (fs_path fs)), fs)
  | WFinished => (w, fs)
  end.

(* The order of the calls of TrieBuilder::build that wr_step implements, in the
   codes of Gen/Durability_gen.v (regenerated from the source on every run):
   0 File::create(tmp) [WStart -> WWrote 0], 1 self.write + 2 writer.flush [the chunks
   reach the OS: WWrote 0 -> WWrote n_chunks], 3 sync_data [-> WSynced],
   4 fs::rename(tmp, path) [-> WRenamed].  Properties/C10.v proves the source's order
   equals this one. *)
Definition writer_program : list N := [0; 1; 2; 3; 4].

(* ------------------------------------------------------------------ *)
(* the whole system *)

Inductive dstep := DJoin | DSync | DFlush.     (* statements of Drop::drop *)

Inductive variant :=
| Pinned     (* sync; flush; join                 (the tree as pinned)   *)
| Fixed.     (* join; sync; flush; join           (after the fix: commit) *)

Definition drop_prog (v : variant) : list dstep :=
  match v with
  | Pinned => [DSync; DFlush; DJoin]
  | Fixed => [DJoin; DSync; DFlush; DJoin]
  end.

Inductive fgpc :=
| Running
| Closing (rest : list dstep)    (* inside drop, these statements remain *)
| Closed                         (* drop returned *)
| Crashed.

Record state := mkState { st_mem : mem; st_fs : fsys; st_pc : fgpc }.

Inductive fg_op := Change (c : change) | Flush | Reopen | Close.

Inductive choice :=
| Fg (o : fg_op)     (* the foreground performs its next API call *)
| Dr                 (* the foreground, inside drop, executes drop's next statement *)
| Wr                 (* the writer thread advances to its next point *)
| Crash              (* the process dies; files keep what the OS received *)
| PowerLoss.         (* the machine dies; unsynced file contents are lost *)

Definition set_handle (m : mem) (h : option writer) : mem :=
  mkMem (m_trie m) (m_btree m) (m_grave m) h (m_dirty m).

Definition after (rest : list dstep) : fgpc :=
  match rest with [] => Closed | _ => Closing rest end.

Definition drop_step (d : dstep) (rest : list dstep) (s : state) : state :=
  let m := st_mem s in
  match d with
  | DSync => mkState (sync m (st_fs s)) (st_fs s) (after rest)
  | DFlush => mkState (checkpoint m (st_fs s)) (st_fs s) (after rest)
  | DJoin =>
      match m_handle m with
      | None => mkState m (st_fs s) (after rest)
      | Some w =>
          if is_finished w
          then mkState (set_handle m None) (st_fs s) (after rest)
          else s                                  (* join blocks: no progress *)
      end
  end.

Definition lose_unsynced (o : option file) : option file :=
  match o with
  | Some f => if f_synced f then Some f else Some (mkFile (f_dict f) 0 false)
  | None => None
  end.

Definition step (v : variant) (c : choice) (s : state) : state :=
  match st_pc s with
  | Crashed => s
  | pc =>
      match c with
      | Crash => mkState (st_mem s) (st_fs s) Crashed
      | PowerLoss =>
          mkState (st_mem s)
                  (mkFs (lose_unsynced (fs_path (st_fs s))) (lose_unsynced (fs_tmp (st_fs s))))
                  Crashed
      | Wr =>
          match m_handle (st_mem s) with
          | Some w =>
              let '(w', fs') := wr_step w (st_fs s) in
              mkState (set_handle (st_mem s) (Some w')) fs' pc
          | None => s
          end
      | Dr =>
          match pc with
          | Closing (d :: rest) => drop_step d rest s
          | _ => s
          end
      | Fg o =>
          match pc with
          | Running =>
              match o with
              | Change c => mkState (do_change c (st_mem s)) (st_fs s) Running
              | Flush => mkState (checkpoint (st_mem s) (st_fs s)) (st_fs s) Running
              | Reopen => mkState (sync (st_mem s) (st_fs s)) (st_fs s) Running
              | Close => mkState (st_mem s) (st_fs s) (after (drop_prog v))
              end
          | _ => s          (* the foreground is inside drop or gone *)
          end
      end
  end.

Fixpoint run (v : variant) (l : list choice) (s : state) : state :=
  match l with
  | [] => s
  | c :: l' => run v l' (step v c s)
  end.

(* TrieBuf::open on an existing (complete, synced) file holding d0 *)
Definition init (d0 : dict) : state :=
  mkState (mkMem d0 [] [] None false)
          (mkFs (Some (mkFile d0 n_chunks true)) None)
          Running.

(* what an independent reader sees at the dictionary path *)
Definition disk (s : state) : option dict := decode (fs_path (st_fs s)).

(* ------------------------------------------------------------------ *)
(* views for the correspondence check (printed by the OCaml driver) *)

Definition handle_code (m : mem) : N :=
  match m_handle m with
  | None => 0
  | Some w => if is_finished w then 2 else 1
  end.

Definition pc_code (s : state) : N :=
  match st_pc s with Running => 0 | Closing _ => 1 | Closed => 2 | Crashed => 3 end.

(* contents restricted to keys below n, as a sorted list *)
Fixpoint tabulate_nat (f : N -> option N) (n : nat) : list (N * N) :=
  match n with
  | O => []
  | S k => tabulate_nat f k ++ match f (N.of_nat k) with Some v => [(N.of_nat k, v)] | None => [] end
  end.

Definition mem_table (s : state) (n : nat) : list (N * N) := tabulate_nat (contents (st_mem s)) n.
Definition disk_table (s : state) (n : nat) : option (list (N * N)) :=
  match disk s with
  | Some d => Some (tabulate_nat (fun k => get k d) n)
  | None => None
  end.

(* greedy drop: after `Close` the harness cannot pause the foreground inside
   drop, it runs until it blocks in join *)
Fixpoint run_drop (v : variant) (fuel : nat) (s : state) : state :=
  match fuel with
  | O => s
  | S f =>
      match st_pc s with
      | Closing _ => run_drop v f (step v Dr s)
      | _ => s
      end
  end.
