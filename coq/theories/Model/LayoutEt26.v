(* Executable model of et26.rs.  Keys are KeyCode values.  No proofs. *)
From Coq Require Import NArith List Bool.
From LC Require Import Base.Lib Gen.Bopomofo_gen Gen.Layout_gen Model.Syllable Model.LayoutBase.
Import ListNotations.
Open Scope N_scope.

Definition et26_is_end_key (st code : N) : bool := memN code et26_end_keys && negb (is_empty st).

Definition et26_end_rewrite (st : N) : outcome N :=
  if negb (has_medial st) && negb (has_rime st) then
    match initial st with
    | Some k =>
        if k =? bJ then update st bZH
        else if k =? bX then update st bSH
        else if k =? bP then update (rm_initial st) bOU
        else if k =? bM then update (rm_initial st) bAN
        else if k =? bN then update (rm_initial st) bEN
        else if k =? bT then update (rm_initial st) bANG
        else if k =? bL then update (rm_initial st) bENG
        else if k =? bH then update (rm_initial st) bER
        else Ok st
    | None => Ok st
    end
  else Ok st.

Definition et26_jx_to_zhsh (st : N) : outcome N :=
  if opt_is (initial st) bJ then update st bZH
  else if opt_is (initial st) bX then update st bSH
  else Ok st.

Definition et26_key_press (st code : N) : outcome (N * behavior) :=
  if et26_is_end_key st code then
    obind (et26_end_rewrite st) (fun s1 =>
    obind (match assoc code et26_tone_keys with
           | Some t => update s1 t
           | None => Ok (rm_tone s1)
           end) (fun s2 => Ok (s2, Commit)))
  else
    match assoc code et26_key_arms with
    | None => Ok (st, NoWord)
    | Some arm =>
      match eval_arm st arm with
      | None => Panic 202
      | Some b =>
        let kind := bkind b in
        obind (if kind =? KIND_MEDIAL then
                 if b =? bU then et26_jx_to_zhsh st
                 else if opt_is (initial st) bG then update st bQ
                 else Ok st
               else if (kind =? KIND_RIME) && negb (has_medial st) then et26_jx_to_zhsh st
               else Ok st) (fun s1 =>
        obind (update s1 b) (fun s2 => Ok (s2, Absorb)))
      end
    end.

Definition et26_alt_table : list (N * list N) := alt_table_of et26_alt_table_syms.
Definition et26_alt_syllables (s : N) : list N := alt_lookup et26_alt_table s.
