(* DER subset exactly as the `der` crate (0.7.x) encodes and decodes the items
   src/dictionary/trie.rs uses: definite minimal lengths up to 0x0fff_ffff,
   UTF8String, INTEGER for u8/u32/u64 (minimal two's-complement content with
   the leading-zero rule), OCTET STRING, SEQUENCE (a nested reader that must be
   consumed exactly), [0] IMPLICIT.
   Bytes are N (< 256); a decoder takes the remaining input and returns the
   value and the rest, None = any der::Error (Trie::new maps every error to
   io::Error, so only Ok/Err is observable).  Decoders are total on arbitrary
   lists.  No proofs in this file.

   Reader semantics used (der/src/reader/{slice,nested}.rs): a nested reader of
   length L exists only if L bytes remain, every read is checked against the
   nested length, and `finish` fails unless exactly L bytes were consumed.
   Functionally: split off L bytes, decode inside them, require nothing left. *)
From Coq Require Import NArith List Bool.
From LC Require Import Base.Lib Model.Utf8.
Import ListNotations.
Open Scope N_scope.

Definition DER_MAX : N := 268435455.          (* Length::MAX = 0x0fff_ffff *)

Definition TAG_INTEGER : N := 2.
Definition TAG_OCTET : N := 4.
Definition TAG_UTF8 : N := 12.
Definition TAG_SEQUENCE : N := 48.            (* 0x10 | constructed *)
Definition TAG_CTX0 : N := 128.               (* [0] IMPLICIT of a primitive type *)

(* ---- lengths (der/src/length.rs) ---- *)
Definition enc_len (n : N) : option (list N) :=
  if n <? 128 then Some [n]
  else if n <? 256 then Some [129; n]
  else if n <? 65536 then Some [130; n / 256; n mod 256]
  else if n <? 16777216 then Some [131; n / 65536; (n / 256) mod 256; n mod 256]
  else if n <=? DER_MAX then Some [132; n / 16777216; (n / 65536) mod 256; (n / 256) mod 256; n mod 256]
  else None.

Definition dec_len (l : list N) : option (N * list N) :=
  match l with
  | [] => None
  | b :: r =>
    if b <? 128 then Some (b, r)
    else if b =? 129 then
      match r with
      | x :: r' => if 128 <=? x then Some (x, r') else None
      | _ => None
      end
    else if b =? 130 then
      match r with
      | x :: y :: r' => let v := x * 256 + y in if 256 <=? v then Some (v, r') else None
      | _ => None
      end
    else if b =? 131 then
      match r with
      | x :: y :: z :: r' => let v := (x * 256 + y) * 256 + z in if 65536 <=? v then Some (v, r') else None
      | _ => None
      end
    else if b =? 132 then
      match r with
      | x :: y :: z :: w :: r' =>
        let v := ((x * 256 + y) * 256 + z) * 256 + w in
        if (16777216 <=? v) && (v <=? DER_MAX) then Some (v, r') else None
      | _ => None
      end
    else None          (* 0x80 indefinite, 0x85.. overlength *)
  end.

(* ---- tag-length-value ---- *)
Definition enc_tlv (tag : N) (value : list N) : option (list N) :=
  match enc_len (len_N value) with
  | Some lb => Some (tag :: lb ++ value)
  | None => None
  end.

(* take exactly n elements *)
Definition split_at (n : N) (l : list N) : option (list N * list N) :=
  if n <=? len_N l then Some (firstn (N.to_nat n) l, skipn (N.to_nat n) l) else None.

(* Header::decode + tag.assert_eq(expected) + the value bytes *)
Definition dec_tlv (tag : N) (l : list N) : option (list N * list N) :=
  match l with
  | [] => None
  | t :: r =>
    if t =? tag then
      match dec_len r with
      | Some (n, r') => split_at n r'
      | None => None
      end
    else None
  end.

(* ---- UTF8String (Utf8StringRef) ---- *)
Definition enc_utf8string (s : list N) : option (list N) := enc_tlv TAG_UTF8 s.
Definition dec_utf8string (l : list N) : option (list N * list N) :=
  match dec_tlv TAG_UTF8 l with
  | Some (v, r) => if utf8_valid v then Some (v, r) else None
  | None => None
  end.

(* ---- OCTET STRING (OctetStringRef) ---- *)
Definition enc_octets (s : list N) : option (list N) := enc_tlv TAG_OCTET s.
Definition dec_octets (l : list N) : option (list N * list N) := dec_tlv TAG_OCTET l.

(* ---- unsigned INTEGER (der/src/asn1/integer/uint.rs) ---- *)
Fixpoint be_bytes (w : nat) (v : N) : list N :=
  match w with
  | O => []
  | S w' => (v / 256 ^ N.of_nat w') mod 256 :: be_bytes w' v
  end.

Fixpoint strip_leading_zeroes (l : list N) : list N :=
  match l with
  | b :: (_ :: _) as r => if b =? 0 then strip_leading_zeroes r else l
  | _ => l
  end.

Definition needs_leading_zero (l : list N) : bool :=
  match l with b :: _ => 128 <=? b | [] => false end.

(* EncodeValue for uN: to_be_bytes, strip, leading zero when the top bit is set *)
Definition uint_content (w : nat) (v : N) : list N :=
  let b := strip_leading_zeroes (be_bytes w v) in
  if needs_leading_zero b then 0 :: b else b.

Definition from_be (l : list N) : N := fold_left (fun acc b => acc * 256 + b) l 0.

(* decode_to_slice *)
Definition uint_decode_to_slice (l : list N) : option (list N) :=
  match l with
  | [] => None
  | [b] => if 128 <=? b then None else Some l
  | b :: (c :: _) as r =>
    if b =? 0 then (if c <? 128 then None else Some r)
    else if 128 <=? b then None
    else Some l
  end.

(* DecodeValue for uN on the content octets (w = size_of::<uN>()) *)
Definition dec_uint_content (w : nat) (c : list N) : option N :=
  if N.of_nat w + 1 <? len_N c then None
  else match uint_decode_to_slice c with
       | None => None
       | Some s =>
         if N.of_nat w <? len_N s then None
         else let v := from_be s in
              if len_N (uint_content w v) =? len_N c then Some v else None
       end.

Definition enc_uint_tagged (tag : N) (w : nat) (v : N) : option (list N) := enc_tlv tag (uint_content w v).
Definition dec_uint_tagged (tag : N) (w : nat) (l : list N) : option (N * list N) :=
  match dec_tlv tag l with
  | Some (c, r) => match dec_uint_content w c with Some v => Some (v, r) | None => None end
  | None => None
  end.

Definition enc_uint (w : nat) (v : N) : option (list N) := enc_uint_tagged TAG_INTEGER w v.
Definition dec_uint (w : nat) (l : list N) : option (N * list N) := dec_uint_tagged TAG_INTEGER w l.

(* ---- [0] IMPLICIT u64 OPTIONAL (Reader::context_specific, ContextSpecific::decode_with) ----
   Only reachable results matter: the field is the last one of its SEQUENCE, so
   a next byte that is not the tag 0x80 makes either this decoder or the nested
   reader's `finish` fail; the model returns "absent" and leaves the failure to
   the caller's exact-consumption check, as the crate does for foreign tags. *)
Definition is_valid_tag_byte (b : N) : bool :=
  negb (N.land b 31 =? 31) &&
  (memN b [1; 2; 3; 4; 5; 6; 9; 10; 12; 18; 19; 20; 21; 22; 23; 24; 26; 30; 48; 49]
   || in_range 64 126 b || in_range 128 190 b || in_range 192 254 b).

Definition dec_ctx0_u64_opt (l : list N) : option (option N * list N) :=
  match l with
  | [] => Some (None, l)
  | b :: _ =>
    if negb (is_valid_tag_byte b) then None                         (* Tag::try_from(octet)? *)
    else if negb (in_range 128 190 b) then Some (None, l)           (* not context specific: break *)
    else if negb (N.land b 31 =? 0) then Some (None, l)             (* number > 0: break *)
    else if b =? TAG_CTX0 then
      match dec_uint_tagged TAG_CTX0 8 l with
      | Some (v, r) => Some (Some v, r)
      | None => None
      end
    else None     (* 0xA0: constructed [0]: value decoded, then Noncanonical (or an earlier error) *)
  end.

Definition enc_ctx0_u64_opt (o : option N) : option (list N) :=
  match o with
  | None => Some []
  | Some v => enc_uint_tagged TAG_CTX0 8 v
  end.

(* ---- SEQUENCE with exact consumption ---- *)
Definition enc_sequence (body : list N) : option (list N) := enc_tlv TAG_SEQUENCE body.

Definition dec_sequence {A} (inner : list N -> option (A * list N)) (l : list N) : option (A * list N) :=
  match dec_tlv TAG_SEQUENCE l with
  | Some (body, r) =>
    match inner body with
    | Some (a, []) => Some (a, r)
    | _ => None
    end
  | None => None
  end.

(* small option helpers *)
Definition obind {A B} (o : option A) (f : A -> option B) : option B :=
  match o with Some a => f a | None => None end.
Definition oapp (a b : option (list N)) : option (list N) :=
  match a, b with Some x, Some y => Some (x ++ y) | _, _ => None end.
