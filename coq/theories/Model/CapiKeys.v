(* Executable model of the key-entry glue of the C API (capi/src/io.rs): the context holds the editor, the
   keyboard (AnyKeyboardLayout) and the ten selection keys; every chewing_handle_* builds a key event with the
   keyboard's map / map_with_mod / map_ascii / map_ascii_numlock (Model/Keyboard.v over the generated keyboard
   matrices) and hands it to Editor::process_keyevent (Model/Editor.v with every phonetic layout, EdInst.lay_ops);
   chewing_set_KBType installs the keyboard and the syllable editor of the generated KB table
   (Gen/Capi_gen.kb_table_by_number); chewing_cand_* / chewing_commit_preedit_buf / chewing_clean_* are the thin
   wrappers they are in the source.  No proofs here.

   Integers are C ints (Z): `key as u8` truncation, the selection-key hack of chewing_handle_Default, the digit
   test of chewing_handle_CtrlNum and `index as usize` of chewing_cand_choose_by_index are written out. *)
From Coq Require Import NArith ZArith List Bool String.
From LC Require Model.Keyboard Model.LayoutBase Model.Layout.
From LC Require Import Base.Lib Gen.Keyboard_gen Gen.Capi_gen Model.Composition Model.Conversion Model.Editor Model.EditorRun Model.EdInst.
Import ListNotations.
Open Scope Z_scope.

Record cctx := mkCctx {
  cx_ed : medl;            (* ctx.editor *)
  cx_kb : N;               (* ctx.keyboard: AnyKeyboardLayout variant number *)
  cx_kbcompat : N;         (* ctx.kb_compat: what chewing_get_KBType reports *)
  cx_sel : list Z          (* ctx.sel_keys *)
}.

Definition default_sel_keys : list Z := [49; 50; 51; 52; 53; 54; 55; 56; 57; 48].   (* "1234567890" *)

Definition cx_init (d : memdict) (ab : list (N * list N)) (ss : symbol_sel) (t0 : N) : cctx :=
  mkCctx (ml_init d 0%N ab ss t0) kb_Qwerty KB_Default default_sel_keys.

Definition with_ed (c : cctx) (e : medl) : cctx := mkCctx e (cx_kb c) (cx_kbcompat c) (cx_sel c).

(* KeyEvent of the keyboard model -> the editor's key event *)
Definition of_key_event (ev : Keyboard.key_event) : keyevent :=
  let m := Keyboard.ev_mods ev in
  mkKey (Keyboard.ev_index ev) (Keyboard.ev_code ev) (Keyboard.ev_unicode ev)
        (Keyboard.has_mod m MOD_SHIFT) (Keyboard.has_mod m MOD_CTRL) (Keyboard.has_mod m MOD_CAPSLOCK) (Keyboard.has_mod m MOD_NUMLOCK).

Definition press (conv : conv_fn memdict) (c : cctx) (ev : outcome Keyboard.key_event) : outcome cctx :=
  match ev with
  | Ok ev => match ml_key mdf_ops conv (cx_ed c) (of_key_event ev) with
             | Ok r => Ok (with_ed c (fst r))
             | Err x => Err x | Panic s => Panic s | OutOfFuel => OutOfFuel
             end
  | Err x => Err x | Panic s => Panic s | OutOfFuel => OutOfFuel
  end.

(* chewing_handle_Space / Esc / Enter / Del / Backspace / Tab / Left / Right / Up / Down / Home / End / PageUp /
   PageDown: keyboard.map(code); ShiftLeft / ShiftRight / ShiftSpace / Capslock: map_with_mod *)
Definition handle_code (conv : conv_fn memdict) (c : cctx) (code mods : N) : outcome cctx :=
  press conv c (Keyboard.map_keycode (cx_kb c) code mods).

Definition u8_of (key : Z) : N := Z.to_N (key mod 256).

Fixpoint position_Z (l : list Z) (x : Z) (i : nat) : option nat :=
  match l with
  | [] => None
  | y :: l' => if Z.eqb y x then Some i else position_Z l' x (S i)
  end.

Definition is_selecting_b (e : medl) : bool := match st e with Selecting _ _ _ => true | _ => false end.

(* chewing_handle_Default: while a list is open a selection key stands for the digit of its position
   ('1'..'9', then '0'); then keyboard.map_ascii(key as u8) *)
Definition handle_default (conv : conv_fn memdict) (c : cctx) (key : Z) : outcome cctx :=
  let key' :=
    if is_selecting_b (cx_ed c)
    then match position_Z (cx_sel c) key 0 with
         | Some idx => if Nat.ltb idx 9 then 49 + Z.of_nat idx else 48
         | None => key
         end
    else key in
  press conv c (Keyboard.map_ascii (cx_kb c) (u8_of key')).

(* chewing_handle_CtrlNum: `match key as u8 { b'0'..=b'9' => .., _ => return -1 }` *)
Definition handle_ctrlnum (conv : conv_fn memdict) (c : cctx) (key : Z) : outcome (cctx * Z) :=
  let b := u8_of key in
  if (48 <=? b)%N && (b <=? 57)%N
  then let code := if (b =? 48)%N then kcN0 else (b - 48)%N in
       match handle_code conv c code MOD_CTRL with
       | Ok c' => Ok (c', 0)
       | Err x => Err x | Panic s => Panic s | OutOfFuel => OutOfFuel
       end
  else Ok (c, -1).

Definition handle_numlock (conv : conv_fn memdict) (c : cctx) (key : Z) : outcome cctx :=
  press conv c (Keyboard.map_ascii_numlock (cx_kb c) (u8_of key)).

(* the generated KB table names keyboards and syllable-editor constructors; their numbers in the models *)
Definition keyboard_number (name : string) : N :=
  if String.eqb name "Qwerty" then kb_Qwerty else if String.eqb name "Dvorak" then kb_Dvorak
  else if String.eqb name "DvorakOnQwerty" then kb_DvorakOnQwerty else if String.eqb name "Qgmlwy" then kb_Qgmlwy
  else if String.eqb name "Colemak" then kb_Colemak else if String.eqb name "ColemakDhAnsi" then kb_ColemakDhAnsi
  else if String.eqb name "ColemakDhOrth" then kb_ColemakDhOrth else if String.eqb name "Workman" then kb_Workman
  else kb_Qwerty.
Definition layout_number (ctor : string) : N :=
  (if String.eqb ctor "Standard::new" then 0 else if String.eqb ctor "Hsu::new" then 1
   else if String.eqb ctor "Ibm::new" then 2 else if String.eqb ctor "GinYieh::new" then 3
   else if String.eqb ctor "Et::new" then 4 else if String.eqb ctor "Et26::new" then 5
   else if String.eqb ctor "DaiChien26::new" then 6 else if String.eqb ctor "Pinyin::hanyu" then 7
   else if String.eqb ctor "Pinyin::thl" then 8 else if String.eqb ctor "Pinyin::mps2" then 9 else 0)%N.

(* chewing_set_KBType: a number outside 0..255 or without a layout selects the default layout and answers -1 *)
Definition set_kbtype (c : cctx) (kbtype : Z) : outcome (cctx * Z) :=
  let known := if (0 <=? kbtype) && (kbtype <=? 255) then assoc (Z.to_N kbtype) kb_table_by_number else None in
  let '(kbn, row, rc) := match known with
                         | Some r => (Z.to_N kbtype, r, 0)
                         | None => (KB_Default, (init_keyboard, init_syllable_editor), -1)
                         end in
  match ml_set_layout mdf_ops (cx_ed c) (layout_number (snd row)) with
  | Ok e => Ok (mkCctx e (keyboard_number (fst row)) kbn (cx_sel c), rc)
  | Err x => Err x | Panic s => Panic s | OutOfFuel => OutOfFuel
  end.

(* chewing_set_selKey(keys, len): ten keys or nothing *)
Definition set_selkey (c : cctx) (keys : list Z) : cctx :=
  if Nat.eqb (List.length keys) 10 then mkCctx (cx_ed c) (cx_kb c) (cx_kbcompat c) keys else c.

(* chewing_cand_choose_by_index: editor.select(index as usize).  A negative int becomes a huge usize; it and any
   index beyond 65535 are out of range of every list (lists are shorter than the dictionary), which the model
   expresses by the first index past the end of the current list *)
Definition past_the_end (e : medl) : nat :=
  match ml_candidates mdf_ops e with Ok (Some l) => List.length l | _ => O end.
Definition choose_index (e : medl) (index : Z) : nat :=
  if (index <? 0) || (65535 <? index) then past_the_end e else Z.to_nat index.
Definition cand_choose (conv : conv_fn memdict) (c : cctx) (index : Z) : outcome (cctx * Z) :=
  match ml_select mdf_ops conv (cx_ed c) (choose_index (cx_ed c) index) with
  | Ok r => Ok (with_ed c (fst r), if snd r then 0 else -1)
  | Err x => Err x | Panic s => Panic s | OutOfFuel => OutOfFuel
  end.
Definition cand_open (c : cctx) : outcome (cctx * Z) :=
  match ml_start_selecting mdf_ops (cx_ed c) with
  | Ok r => Ok (with_ed c (fst r), if snd r then 0 else -1)
  | Err x => Err x | Panic s => Panic s | OutOfFuel => OutOfFuel
  end.
Definition cand_close (c : cctx) : cctx * Z := (with_ed c (fst (ml_cancel (cx_ed c))), 0).
Definition commit_preedit (conv : conv_fn memdict) (c : cctx) : outcome (cctx * Z) :=
  match ml_commit mdf_ops conv (cx_ed c) with
  | Ok r => Ok (with_ed c (fst r), if snd r then 0 else -1)
  | Err x => Err x | Panic s => Panic s | OutOfFuel => OutOfFuel
  end.
Definition is_entering_b (e : medl) : bool := match st e with Entering => true | _ => false end.
Definition clean_preedit (c : cctx) : cctx * Z :=
  if is_entering_b (cx_ed c) then (with_ed c (ml_clear (cx_ed c)), 0) else (c, -1).
Definition clean_bopomofo (c : cctx) : cctx * Z := (with_ed c (ml_clear_syl (cx_ed c)), 0).
Definition reset (c : cctx) : cctx := with_ed c (ml_clear (cx_ed c)).

(* chewing_cand_list_first / last / next / prev: -1 unless a list is open; first / last never fail *)
Definition cand_list (which : N) (c : cctx) : outcome (cctx * Z) :=
  let e := cx_ed c in
  if negb (is_selecting_b e) then Ok (c, -1)
  else
    let r := match which with
             | 0%N => ml_jump_first mdf_ops e | 1%N => ml_jump_last mdf_ops e | 2%N => ml_jump_next mdf_ops e | _ => ml_jump_prev mdf_ops e
             end in
    match r with
    | Ok x => Ok (with_ed c (fst x), if (N.leb which 1) then 0 else if snd x then 0 else -1)
    | Err x => Err x | Panic s => Panic s | OutOfFuel => OutOfFuel
    end.

(* ---- the query functions of the C API: projections of the context (capi/src/io.rs) ---- *)
(* chewing_commit_Check / buffer_Check / buffer_Len / bopomofo_Check / cursor_Current / cand_CheckDone /
   cand_TotalPage / cand_ChoicePerPage / cand_TotalChoice / cand_CurrentPage / aux_Check / aux_Length /
   keystroke_CheckIgnore / keystroke_CheckAbsorb / get_KBType, in this order; the strings (commit, pre-edit
   buffer, the candidates chewing_cand_Enumerate walks - from the first one of the current page -, aux) are
   returned beside them.  The pre-edit string is Editor::display(), i.e. the conversion - it is passed in. *)
Definition bz (b : bool) : Z := if b then 1 else 0.

Definition c_flags (c : cctx) : list Z :=
  let e := cx_ed c in
  let s := sh e in
  [ bz (negb (match commit_buf s with [] => true | _ => false end));
    bz (negb (Nat.eqb (ce_len (com s)) 0));
    Z.of_nat (ce_len (com s));
    bz (negb (so_is_empty lay_ops (syl s)));
    Z.of_nat (cursor (com s));
    bz (negb (is_selecting_b e));
    match ml_total_page mdf_ops e with Ok (Some n) => Z.of_nat n | _ => 0 end;
    Z.of_nat (o_per_page (opts s));
    match ml_candidates mdf_ops e with Ok (Some l) => Z.of_nat (List.length l) | _ => 0 end;
    match ed_page_no e with Some n => Z.of_nat n | None => 0 end;
    bz (negb (match notice s with [] => true | _ => false end));
    Z.of_nat (List.length (notice s));
    bz (behavior_eqb (last s) BIgnore);
    bz (behavior_eqb (last s) BAbsorb);
    Z.of_N (cx_kbcompat c) ].

Definition c_commit_string (c : cctx) : list N := commit_buf (sh (cx_ed c)).
Definition c_aux_string (c : cctx) : list N := notice (sh (cx_ed c)).
Definition c_cand_enumerate (c : cctx) : list (list N) :=
  let e := cx_ed c in
  match ml_candidates mdf_ops e, ed_page_no e with
  | Ok (Some l), Some pg => skipn (pg * o_per_page (opts (sh e))) l
  | _, _ => []
  end.
