(* Executable model of chewing-cli's dictionary compiler and dumper:
   tools/src/init_database.rs (parse_line, run: error collection, exit status,
   --skip-invalid, --keep-word-freq, --csv) and tools/src/dump.rs (the two line
   printers).  Text is a list of Unicode scalar values (the tool reads lines
   through BufRead::lines into Strings); the delimiters, the CSV header and the
   separators of the dump formats come from Gen/Uhash_gen.v (regenerated from the
   source).  The dictionary builders (TrieBuilder / SqliteDictionaryBuilder) are
   modelled by their map-level effect: insert = insert or overwrite on the key
   (syllables, phrase); the file formats are C11 / C09.  No proofs in this file. *)
From Coq Require Import NArith List Bool.
From LC Require Import Base.Lib Gen.Bopomofo_gen Gen.Uhash_gen Model.Syllable Model.Uhash.
Import ListNotations.
Open Scope N_scope.

(* char::is_whitespace: the Unicode White_Space property *)
Definition in_iv (lo hi c : N) : bool := (lo <=? c) && (c <=? hi).
Definition is_ws (c : N) : bool :=
  in_iv 9 13 c || (c =? 32) || (c =? 133) || (c =? 160) || (c =? 5760) || in_iv 8192 8202 c ||
  (c =? 8232) || (c =? 8233) || (c =? 8239) || (c =? 8287) || (c =? 12288).

Definition QUOTE : N := 34.
Definition HASH : N := 35.
Definition COMMA : N := 44.

(* str::split(pattern): every piece, empty ones included; cur is the current piece reversed *)
Fixpoint split_on (p : N -> bool) (s cur : list N) : list (list N) :=
  match s with
  | [] => [rev cur]
  | c :: t => if p c then rev cur :: split_on p t [] else split_on p t (c :: cur)
  end.
Definition is_nil {A} (l : list A) : bool := match l with [] => true | _ => false end.
(* .split(..).filter(|s| !s.is_empty()) *)
Definition fields (p : N -> bool) (s : list N) : list (list N) :=
  filter (fun f => negb (is_nil f)) (split_on p s []).

(* str::trim_matches on the double-quote character *)
Fixpoint trim_start_q (s : list N) : list N :=
  match s with
  | c :: t => if c =? QUOTE then trim_start_q t else s
  | [] => []
  end.
Definition trim_q (s : list N) : list N := rev (trim_start_q (rev (trim_start_q s))).

(* a source record: (syllables, phrase, frequency) *)
Record srec := { sr_syls : list N; sr_phrase : list N; sr_freq : N }.

(* the syllable columns: tokens after the first two, split on ',' or white space *)
Fixpoint parse_syl_tokens (toks : list (list N)) : option (list N) :=
  match toks with
  | [] => Some []
  | tok :: rest =>
      let t := trim_q tok in
      match t with
      | [] => parse_syl_tokens rest                         (* continue *)
      | c :: _ =>
          if c =? HASH then Some []                         (* a comment ends the line *)
          else match parse_chars t with
               | inr _ => None
               | inl v => match parse_syl_tokens rest with Some vs => Some (v :: vs) | None => None end
               end
      end
  end.

Definition U32 : bool * N := (false, 32).

(* parse_line(line_num, delimiter, line, keep_word_freq); None = ParseError *)
Definition parse_line (d : N) (keep : bool) (line : list N) : option srec :=
  match fields (N.eqb d) line with
  | [] => None
  | f0 :: rest =>
      let phrase := trim_q f0 in
      let freq :=
        if (len_N phrase =? 1) && negb keep then Some 0
        else match rest with
             | [] => None
             | f1 :: _ => parse_col U32 (trim_q f1)
             end in
      match freq with
      | None => None
      | Some f =>
          match parse_syl_tokens (skipn 2 (fields (fun c => (c =? COMMA) || is_ws c) line)) with
          | None => None
          | Some syls => Some {| sr_syls := syls; sr_phrase := phrase; sr_freq := f |}
          end
      end
  end.

(* ---- dump.rs ---- *)
Fixpoint join (sep : list N) (ls : list (list N)) : list N :=
  match ls with
  | [] => []
  | [l] => l
  | l :: ls' => l ++ sep ++ join sep ls'
  end.

Definition print_line (csv : bool) (r : srec) : list N :=
  if csv
  then sr_phrase r ++ dump_csv_sep1 :: dec_N (sr_freq r) ++ dump_csv_sep2 :: join dump_csv_sylsep (map spell (sr_syls r))
  else sr_phrase r ++ dump_ssv_sep1 :: dec_N (sr_freq r) ++ dump_ssv_sep2 :: join dump_ssv_sylsep (map spell (sr_syls r)).

Definition delim (csv : bool) : N := if csv then delim_csv else delim_ssv.

(* ---- the dictionary at map level ---- *)
Definition skey := (list N * list N)%type.
Definition sdict := list srec.            (* pairwise distinct keys *)
Definition srec_key (r : srec) : skey := (sr_syls r, sr_phrase r).
Definition skey_eqb (a b : skey) : bool := list_eqb N.eqb (fst a) (fst b) && list_eqb N.eqb (snd a) (snd b).

(* DictionaryBuilder::insert: same syllables and phrase => the entry is replaced *)
Fixpoint sdict_insert (d : sdict) (r : srec) : sdict :=
  match d with
  | [] => [r]
  | x :: d' => if skey_eqb (srec_key r) (srec_key x) then r :: d' else x :: sdict_insert d' r
  end.
Fixpoint sdict_lookup (d : sdict) (k : skey) : option N :=
  match d with
  | [] => None
  | x :: d' => if skey_eqb k (srec_key x) then Some (sr_freq x) else sdict_lookup d' k
  end.
Definition compile_records (rs : list srec) : sdict := fold_left sdict_insert rs [].

(* ---- init_database::run ---- *)
Record cli_flags := { fl_csv : bool; fl_keep : bool; fl_skip : bool }.

Record cli_result := {
  cr_errors : list N;            (* the line numbers reported (line_num + 1), in order *)
  cr_exit : N;                   (* process exit status *)
  cr_output : option sdict       (* the dictionary written, if any *)
}.

(* the loop over reader.lines().enumerate(): (errors reversed, records reversed) *)
Fixpoint run_lines (fl : cli_flags) (lines : list (list N)) (num : N) (errs : list N) (recs : list srec)
  : list N * list srec :=
  match lines with
  | [] => (rev errs, rev recs)
  | l :: ls =>
      if fl_csv fl && (num =? 0) then run_lines fl ls (num + 1) errs recs      (* CSV header *)
      else match parse_line (delim (fl_csv fl)) (fl_keep fl) l with
           | Some r => run_lines fl ls (num + 1) errs (r :: recs)
           | None => run_lines fl ls (num + 1) ((num + 1) :: errs) recs
           end
  end.

Definition run (fl : cli_flags) (lines : list (list N)) : cli_result :=
  let '(errs, recs) := run_lines fl lines 0 [] [] in
  if negb (is_nil errs) && negb (fl_skip fl)
  then {| cr_errors := errs; cr_exit := 1; cr_output := None |}
  else {| cr_errors := errs; cr_exit := 0; cr_output := Some (compile_records recs) |}.

(* chewing-cli dump: one line per entry (plus the header in CSV mode); the order
   of the lines is the back end's enumeration order and is not modelled *)
Definition dump_lines (csv : bool) (d : sdict) : list (list N) :=
  (if csv then [dump_csv_header] else []) ++ map (print_line csv) d.

(* single-character frequencies are zeroed unless --keep-word-freq *)
Definition zero_word_freq (keep : bool) (r : srec) : srec :=
  if (len_N (sr_phrase r) =? 1) && negb keep
  then {| sr_syls := sr_syls r; sr_phrase := sr_phrase r; sr_freq := 0 |} else r.

(* a syllable the dumper prints so that the compiler reads it back *)
Definition syl_ok (v : N) : bool :=
  negb (is_nil (spell v)) &&
  match parse_chars (spell v) with inl v' => v' =? v | inr _ => false end.

(* well-formed record (DESIGN appendix D): phrase non-empty and free of the
   delimiters, quotes and white space, not starting a comment; at least one
   syllable, all composable; frequency below 2^32 *)
Definition phrase_char_ok (c : N) : bool :=
  negb ((c =? COMMA) || (c =? QUOTE) || is_ws c).
Definition srec_wf (r : srec) : bool :=
  negb (is_nil (sr_phrase r)) && forallb phrase_char_ok (sr_phrase r) &&
  match sr_phrase r with c :: _ => negb (c =? HASH) | [] => false end &&
  negb (is_nil (sr_syls r)) && forallb syl_ok (sr_syls r) &&
  (sr_freq r <? 4294967296).

(* BufRead::lines at the level of scalar values *)
Definition strip_cr_rev_c (cur : list N) : list N :=
  match cur with b :: r => if b =? 13 then rev r else rev cur | [] => [] end.
Fixpoint text_lines (s cur : list N) : list (list N) :=
  match s with
  | [] => match cur with [] => [] | _ => [rev cur] end
  | c :: t => if c =? 10 then strip_cr_rev_c cur :: text_lines t [] else text_lines t (c :: cur)
  end.
