(* Relational model of the part of src/dictionary/sqlite.rs that start-up
   migration uses: SqliteDictionary::open (initialize_tables,
   migrate_from_userphrase_v1 guarded by the migration marker) and entries().
   SQL semantics are modelled, not verified (DESIGN section 3): a table is a list
   of rows, INSERT OR REPLACE on a primary key replaces the row with that key,
   INTEGER PRIMARY KEY rowids are max+1.  Values are the non-negative integers
   the legacy engines store; rusqlite's range-checked column conversions
   (u16/u32/u64) are explicit.  No proofs in this file. *)
From Coq Require Import NArith List Bool.
From LC Require Import Base.Lib Model.Uhash.
Import ListNotations.
Open Scope N_scope.

(* userphrase_v1 (schema of libchewing 0.4 / 0.5) *)
Record v1row := {
  r1_time : N; r1_user : N; r1_max : N; r1_orig : N; r1_len : N;
  r1_phones : list N;            (* phone_0 .. phone_10 *)
  r1_phrase : list N             (* UTF-8 bytes *)
}.
(* dictionary_v1 (primary key syllables, phrase) and userphrase_v2 (id, user_freq, time) *)
Record dictrow := { dr_syls : list N; dr_phrase : list N; dr_freq : N; dr_upid : option N }.
Record uprow := { up_id : N; up_user : N; up_time : N }.

Record sqldb := {
  db_v1 : option (list v1row);   (* None: the table does not exist *)
  db_dict : list dictrow;
  db_user : list uprow;
  db_marker : bool               (* migration_v1 holds 'migrate_from_userphrase_v1' *)
}.

Definition E_SQL_CONVERSION : N := 1.

Definition next_rowid (us : list uprow) : N := 1 + fold_left N.max (map up_id us) 0.

(* phones that are neither 0 (no Syllable) nor the empty pattern *)
Definition v1_syls (r : v1row) : list N :=
  filter (fun p => negb (p =? 0) && negb (p =? 32768)) (r1_phones r).

(* row.get::<u16>/<u32>/<u64> succeed *)
Definition v1_row_readable (r : v1row) : bool :=
  forallb (fun p => p <? 65536) (r1_phones r) && (len_N (r1_phones r) =? 11) &&
  (r1_orig r <? 4294967296) && (r1_user r <? 4294967296) && (r1_time r <? 18446744073709551616).

Definition dictrow_same_key (a b : dictrow) : bool :=
  list_eqb N.eqb (dr_syls a) (dr_syls b) && list_eqb N.eqb (dr_phrase a) (dr_phrase b).

(* INSERT OR REPLACE INTO dictionary_v1 *)
Fixpoint dict_upsert (rows : list dictrow) (r : dictrow) : list dictrow :=
  match rows with
  | [] => [r]
  | x :: rows' => if dictrow_same_key r x then r :: rows' else x :: dict_upsert rows' r
  end.

Definition migrate_row (st : list dictrow * list uprow) (r : v1row) : list dictrow * list uprow :=
  let '(ds, us) := st in
  let id := next_rowid us in
  (dict_upsert ds {| dr_syls := v1_syls r; dr_phrase := r1_phrase r; dr_freq := r1_orig r; dr_upid := Some id |},
   us ++ [{| up_id := id; up_user := r1_user r; up_time := r1_time r |}]).

(* migrate_from_userphrase_v1: all rows are read first (a conversion error aborts
   before anything is written), then copied inside one transaction that also
   sets the marker *)
Definition sqlite_migrate (db : sqldb) : outcome sqldb :=
  match db_v1 db with
  | None => Ok {| db_v1 := None; db_dict := db_dict db; db_user := db_user db; db_marker := true |}
  | Some rows =>
      if db_marker db then Ok db
      else if forallb v1_row_readable rows then
        let '(ds, us) := fold_left migrate_row rows (db_dict db, db_user db) in
        Ok {| db_v1 := Some rows; db_dict := ds; db_user := us; db_marker := true |}
      else Err E_SQL_CONVERSION
  end.

(* SqliteDictionary::open: CREATE TABLE IF NOT EXISTS ..., then the migration *)
Definition sqlite_open (db : sqldb) : outcome sqldb := sqlite_migrate db.

Fixpoint up_find (us : list uprow) (id : N) : option uprow :=
  match us with
  | [] => None
  | u :: us' => if up_id u =? id then Some u else up_find us' id
  end.

(* entries(): dictionary_v1 LEFT JOIN userphrase_v2, freq = max(freq, coalesce(user_freq, 0));
   a NULL time becomes last_used = None, which the loader turns into 0 *)
Definition sqlite_entry (us : list uprow) (r : dictrow) : uentry :=
  let j := match dr_upid r with Some id => up_find us id | None => None end in
  {| ue_syls := dr_syls r; ue_phrase := dr_phrase r;
     ue_freq := N.max (dr_freq r) (match j with Some u => up_user u | None => 0 end);
     ue_time := match j with Some u => up_time u | None => 0 end |}.

Definition sqlite_entries (db : sqldb) : list uentry := map (sqlite_entry (db_user db)) (db_dict db).
