(* Executable model of src/dictionary/uhash.rs: the legacy user-phrase ("uhash")
   loaders try_load_bin / try_load_text over raw bytes, with Rust integer widths
   and every panic site explicit, plus printers for the two legacy formats
   (written from the format description in the module documentation, the legacy
   C writer and the golden files tests/data/golden-uhash-*.dat).

   Bytes are N below 256.  Constants and the integer types of the text columns
   come from Gen/Uhash_gen.v (regenerated from the source on every run).

   The loaders exist in two variants selected by a flag:
     checked = false : the code of the pinned tree (record length bytes used as
                       indices without a bounds check)
     checked = true  : the code after "fix: ... bounds-check legacy hash records"
   [load_bin] / [load_text] are the current code.  No proofs in this file. *)
From Coq Require Import NArith ZArith List Bool.
From LC Require Import Base.Lib Gen.Uhash_gen Model.Utf8Dfa.
Import ListNotations.
Open Scope N_scope.

(* ------------------------------------------------------------------ *)
(* what the loaders produce: (Vec<Syllable>, Phrase{phrase,freq,last_used}) *)
Record uentry := { ue_syls : list N; ue_phrase : list N; ue_freq : N; ue_time : N }.

(* panic sites *)
Definition SITE_BIN_DELETED_INDEX : N := 101.   (* buf[17 + 2*len + 1] *)
Definition SITE_BIN_PHRASE_SLICE : N := 115.    (* buf[base+1 .. base+bytes+1] *)
Definition SITE_BIN_SYL_SLICE : N := 108.       (* buf[base .. base+2], unreachable once 101 passed *)

Definition E_INVALID_DATA : N := 0.

(* ------------------------------------------------------------------ *)
(* integer parsing: <uN|iN as FromStr>::from_str on the bytes of a token *)

Definition is_digit (b : N) : bool := (48 <=? b) && (b <=? 57).

Fixpoint parse_digits (s : list N) (acc : N) : option N :=
  match s with
  | [] => Some acc
  | b :: t => if is_digit b then parse_digits t (acc * 10 + (b - 48)) else None
  end.

(* (negative?, magnitude) within the range of the type (signed?, bits) *)
Definition parse_num (ty : bool * N) (tok : list N) : option (bool * N) :=
  let '(signed, bits) := ty in
  let '(neg, ds) :=
    match tok with
    | c :: t =>
        if c =? 43 then (false, t)                              (* '+' *)
        else if (c =? 45) && signed then (true, t)              (* '-' is a sign only for signed types *)
        else (false, tok)
    | [] => (false, tok)
    end in
  match ds with
  | [] => None                                            (* Empty, or a lone sign *)
  | _ =>
    match parse_digits ds 0 with
    | None => None
    | Some m =>
        if signed
        then (if neg then (if m <=? 2 ^ (bits - 1) then Some (true, m) else None)
              else (if m <? 2 ^ (bits - 1) then Some (false, m) else None))
        else (if m <? 2 ^ bits then Some (false, m) else None)
    end
  end.

(* a column whose value is used as an unsigned number *)
Definition parse_col (ty : bool * N) (tok : list N) : option N :=
  match parse_num ty tok with
  | Some (neg, m) => if neg && negb (m =? 0) then None else Some m
  | None => None
  end.

(* ------------------------------------------------------------------ *)
(* text format *)

(* u8::is_ascii_whitespace: space, \t, \n, \x0C, \r *)
Definition is_ascii_ws (b : N) : bool := (b =? 32) || (b =? 9) || (b =? 10) || (b =? 12) || (b =? 13).

(* str::split_ascii_whitespace; cur is the current token reversed *)
Fixpoint split_ws (bs cur : list N) : list (list N) :=
  match bs with
  | [] => match cur with [] => [] | _ => [rev cur] end
  | b :: t =>
      if is_ascii_ws b
      then match cur with [] => split_ws t [] | _ => rev cur :: split_ws t [] end
      else split_ws t (b :: cur)
  end.

(* BufRead::lines on raw bytes: split after every \n, drop it and one preceding
   \r; a final unterminated line is kept as it is *)
Definition strip_cr_rev (cur : list N) : list N :=
  match cur with b :: r => if b =? 13 then rev r else rev cur | [] => [] end.
Fixpoint split_lines (bs cur : list N) : list (list N) :=
  match bs with
  | [] => match cur with [] => [] | _ => [rev cur] end
  | b :: t => if b =? 10 then strip_cr_rev cur :: split_lines t [] else split_lines t (b :: cur)
  end.

(* n syllable columns: u16 parse then Syllable::try_from (non-zero) *)
Fixpoint text_syls (n : nat) (cols : list (list N)) : option (list N * list (list N)) :=
  match n with
  | O => Some ([], cols)
  | S k =>
      match cols with
      | [] => None
      | c :: cols' =>
          match parse_col text_syl_ty c with
          | None => None
          | Some v =>
              if v =? 0 then None
              else match text_syls k cols' with
                   | Some (ss, rest) => Some (v :: ss, rest)
                   | None => None
                   end
          end
      end
  end.

Definition text_line (line : list N) : option uentry :=
  if negb (utf8_ok line) then None
  else
    match split_ws line [] with
    | [] => None
    | phrase :: cols =>
        match text_syls (N.to_nat (utf8_nchars phrase)) cols with
        | None => None
        | Some (syls, c1) =>
            match c1 with
            | cf :: ct :: cm :: co :: _ =>
                match parse_col text_freq_ty cf, parse_col text_time_ty ct,
                      parse_col text_maxfreq_ty cm, parse_col text_origfreq_ty co with
                | Some f, Some t, Some _, Some _ =>
                    Some {| ue_syls := syls; ue_phrase := phrase; ue_freq := f; ue_time := t |}
                | _, _, _, _ => None
                end
            | _ => None
            end
        end
    end.

Fixpoint text_records (ls : list (list N)) : option (list uentry) :=
  match ls with
  | [] => Some []
  | l :: ls' =>
      match text_line l with
      | None => None
      | Some e => match text_records ls' with Some es => Some (e :: es) | None => None end
      end
  end.

(* try_load_text with the lifetime parsed as type lty *)
Definition load_text_with (lty : bool * N) (bs : list N) : outcome (list uentry) :=
  match split_lines bs [] with
  | [] => Err E_INVALID_DATA
  | first :: rest =>
      if negb (utf8_ok first) then Err E_INVALID_DATA
      else match parse_num lty first with
           | None => Err E_INVALID_DATA
           | Some _ =>
               match text_records rest with
               | Some es => Ok es
               | None => Err E_INVALID_DATA
               end
           end
  end.

Definition PINNED_LIFETIME_TY : bool * N := (false, 16).    (* c_ushort on the pinned tree *)
Definition load_text_pinned := load_text_with PINNED_LIFETIME_TY.
Definition load_text := load_text_with text_lifetime_ty.   (* the current source *)

(* ------------------------------------------------------------------ *)
(* binary format *)

Definition byte_at (buf : list N) (i : N) : option N := nth_N buf i.
Definition byte_or0 (buf : list N) (i : N) : N := match nth_N buf i with Some b => b | None => 0 end.

Definition rd_u32le (buf : list N) (i : N) : N :=
  byte_or0 buf i + 256 * byte_or0 buf (i + 1) + 65536 * byte_or0 buf (i + 2) + 16777216 * byte_or0 buf (i + 3).
Definition rd_u16le (buf : list N) (i : N) : N := byte_or0 buf i + 256 * byte_or0 buf (i + 1).
(* i32::from_ne_bytes(..) < 0 on a little-endian target *)
Definition i32_negative (w : N) : bool := 2147483648 <=? w.

Inductive rec_result := RSkip | RPush (e : uentry) | RErr | RPanic (site : N).

Fixpoint bin_syls (n : nat) (buf : list N) (base : N) : option (list N) :=
  match n with
  | O => Some []
  | S k =>
      let v := rd_u16le buf base in
      if v =? 0 then None
      else match bin_syls k buf (base + 2) with Some ss => Some (v :: ss) | None => None end
  end.

Definition slice (buf : list N) (from to : N) : list N :=
  firstn (N.to_nat (to - from)) (skipn (N.to_nat from) buf).

(* one BIN_FIELD_SIZE-byte record *)
Definition bin_record (checked : bool) (buf : list N) : rec_result :=
  let user := rd_u32le buf 0 in
  let time := rd_u32le buf 4 in
  let maxf := rd_u32le buf 8 in
  let orig := rd_u32le buf 12 in
  if i32_negative user || i32_negative time || i32_negative maxf || i32_negative orig then RSkip
  else
    let len := byte_or0 buf bin_len_offset in
    let base := bin_syl_offset + 2 * len in
    (* fixed code: a record whose length byte points outside the field is skipped *)
    if checked && (BIN_FIELD_SIZE <=? base + 1) then RSkip
    else
    match byte_at buf (base + 1) with
    | None => RPanic SITE_BIN_DELETED_INDEX
    | Some first =>
      if first =? 0 then RSkip                            (* removed record *)
      else
        match bin_syls (N.to_nat len) buf bin_syl_offset with
        | None => RErr
        | Some syls =>
            let bytes := byte_or0 buf base in
            if checked && (BIN_FIELD_SIZE <? base + bytes + 1) then RSkip
            else if BIN_FIELD_SIZE <? base + bytes + 1 then RPanic SITE_BIN_PHRASE_SLICE
            else
              let phrase := slice buf (base + 1) (base + bytes + 1) in
              if utf8_ok phrase
              then RPush {| ue_syls := syls; ue_phrase := phrase; ue_freq := user; ue_time := time |}
              else RSkip
        end
    end.

Fixpoint bin_loop (checked : bool) (fuel : nat) (bs : list N) (acc : list uentry) : outcome (list uentry) :=
  match fuel with
  | O => OutOfFuel
  | S k =>
      if len_N bs <? BIN_FIELD_SIZE then Ok (rev acc)      (* read_exact fails: end of the loop *)
      else
        let buf := firstn (N.to_nat BIN_FIELD_SIZE) bs in
        let rest := skipn (N.to_nat BIN_FIELD_SIZE) bs in
        match bin_record checked buf with
        | RSkip => bin_loop checked k rest acc
        | RPush e => bin_loop checked k rest (e :: acc)
        | RErr => Err E_INVALID_DATA
        | RPanic s => Panic s
        end
  end.

Definition sig_len : N := len_N BIN_HASH_SIG.
Definition bin_header_len : N := sig_len + bin_lifetime_bytes.

(* the stated fuel: one iteration per complete record plus the final failing read *)
Definition bin_fuel (bs : list N) : nat := S (N.to_nat (len_N bs / BIN_FIELD_SIZE)).

Definition load_bin_with (checked : bool) (bs : list N) : outcome (list uentry) :=
  if len_N bs <? sig_len then Err E_INVALID_DATA
  else if negb (list_eqb N.eqb (firstn (N.to_nat sig_len) bs) BIN_HASH_SIG) then Err E_INVALID_DATA
  else if len_N bs <? bin_header_len then Err E_INVALID_DATA
  else bin_loop checked (bin_fuel bs) (skipn (N.to_nat bin_header_len) bs) [].

Definition load_bin_pinned := load_bin_with false.
Definition load_bin := load_bin_with true.                 (* the current source *)

(* loader.rs: try_load_bin(&input).or_else(|_| { rewind; try_load_text(&input) }) *)
Definition load_uhash_with (checked : bool) (lty : bool * N) (bs : list N) : outcome (list uentry) :=
  match load_bin_with checked bs with
  | Err _ => load_text_with lty bs
  | r => r
  end.
Definition load_uhash := load_uhash_with true text_lifetime_ty.

(* ------------------------------------------------------------------ *)
(* printers (the inverse direction) *)

(* decimal digits of n, least significant first *)
Fixpoint dec_rev (fuel : nat) (n : N) : list N :=
  match fuel with
  | O => []
  | S k => (48 + n mod 10) :: (if n <? 10 then [] else dec_rev k (n / 10))
  end.
(* decimal representation of n; log2 n + 1 rounds always suffice *)
Definition dec_N (n : N) : list N := rev (dec_rev (S (N.to_nat (N.log2 n))) n).
Definition dec_Z (z : Z) : list N :=
  match z with
  | Zneg p => 45 :: dec_N (Npos p)
  | _ => dec_N (Z.to_N z)
  end.

(* a record of the legacy store as the legacy engine kept it *)
Record lrec := {
  lr_phrase : list N;       (* UTF-8 bytes *)
  lr_syls : list N;         (* u16 phone codes *)
  lr_user : Z; lr_time : Z; lr_max : Z; lr_orig : Z;   (* C int *)
  lr_deleted : bool         (* binary format only: first phrase byte zeroed *)
}.

Definition SP : N := 32.
Definition NL : N := 10.

Definition print_text_rec (r : lrec) : list N :=
  lr_phrase r ++ flat_map (fun s => SP :: dec_N s) (lr_syls r) ++
  SP :: dec_Z (lr_user r) ++ SP :: dec_Z (lr_time r) ++ SP :: dec_Z (lr_max r) ++ SP :: dec_Z (lr_orig r) ++ [NL].

Definition print_text (lifetime : Z) (rs : list lrec) : list N :=
  dec_Z lifetime ++ NL :: flat_map print_text_rec rs.

(* two's complement little-endian *)
Definition i32_word (z : Z) : N := Z.to_N (if (z <? 0)%Z then (z + 4294967296)%Z else z).
Definition le32 (w : N) : list N := [w mod 256; (w / 256) mod 256; (w / 65536) mod 256; (w / 16777216) mod 256].
Definition le16 (w : N) : list N := [w mod 256; (w / 256) mod 256].

Definition zeros (n : N) : list N := repeat 0 (N.to_nat n).

Definition print_bin_rec (r : lrec) : list N :=
  let body :=
    le32 (i32_word (lr_user r)) ++ le32 (i32_word (lr_time r)) ++ le32 (i32_word (lr_max r)) ++ le32 (i32_word (lr_orig r)) ++
    [len_N (lr_syls r)] ++ flat_map le16 (lr_syls r) ++
    [len_N (lr_phrase r)] ++
    (if lr_deleted r then match lr_phrase r with [] => [] | _ :: t => 0 :: t end else lr_phrase r) in
  body ++ zeros (BIN_FIELD_SIZE - len_N body).

Definition print_bin (lifetime : Z) (rs : list lrec) : list N :=
  BIN_HASH_SIG ++ firstn (N.to_nat bin_lifetime_bytes) (le32 (i32_word lifetime) ++ zeros 4) ++ flat_map print_bin_rec rs.

(* the entry a live legacy record must become *)
Definition entry_of (r : lrec) : uentry :=
  {| ue_syls := lr_syls r; ue_phrase := lr_phrase r; ue_freq := Z.to_N (lr_user r); ue_time := Z.to_N (lr_time r) |}.

(* a record the binary loader is meant to skip *)
Definition lr_dead (r : lrec) : bool :=
  lr_deleted r || (lr_user r <? 0)%Z || (lr_time r <? 0)%Z || (lr_max r <? 0)%Z || (lr_orig r <? 0)%Z.

(* well-formed legacy record: what a legacy engine can have written *)
Definition c_int_ok (z : Z) : bool := ((-2147483648 <=? z) && (z <? 2147483648))%Z.
Definition lrec_wf (r : lrec) : bool :=
  bytes_ok (lr_phrase r) && utf8_ok (lr_phrase r) &&
  forallb (fun b => negb (is_ascii_ws b)) (lr_phrase r) &&
  match lr_phrase r with [] => false | b :: _ => negb (b =? 0) end &&
  (utf8_nchars (lr_phrase r) =? len_N (lr_syls r)) &&
  forallb (fun s => (0 <? s) && (s <? 65536)) (lr_syls r) &&
  (bin_syl_offset + 2 * len_N (lr_syls r) + 1 + len_N (lr_phrase r) <=? BIN_FIELD_SIZE) &&
  c_int_ok (lr_user r) && c_int_ok (lr_time r) && c_int_ok (lr_max r) && c_int_ok (lr_orig r).
(* in the text format there is no deletion mark and every integer is written non-negative *)
Definition lrec_text_ok (r : lrec) : bool :=
  negb (lr_deleted r) && (0 <=? lr_user r)%Z && (0 <=? lr_time r)%Z && (0 <=? lr_max r)%Z && (0 <=? lr_orig r)%Z.
