(* Executable model of pinyin.rs (three variants).  State = (key string, syllable,
   alternative syllable).  The tables come from Gen/Layout_gen.v; strings are
   lists of scalar values.  The finishing step factors through
      (initial-table entry option, final-table entry option, tone option, variant)
   (pinyin_finish), which is what Proofs/LayoutPinyinProofs.v sweeps.  No proofs. *)
From Coq Require Import NArith List Bool.
From LC Require Import Base.Lib Gen.Bopomofo_gen Gen.Keyboard_gen Gen.Layout_gen
  Model.Syllable Model.Keyboard Model.LayoutBase.
Import ListNotations.
Open Scope N_scope.

Definition V_HANYU : N := 0.
Definition V_THL : N := 1.
Definition V_MPS2 : N := 2.

Definition str_eqb (a b : list N) : bool := list_eqb N.eqb a b.

(* s.starts_with(p) *)
Fixpoint str_starts_with (s p : list N) : bool :=
  match p, s with
  | [], _ => true
  | c :: p', d :: s' => (c =? d) && str_starts_with s' p'
  | _ :: _, [] => false
  end.
Fixpoint str_drop (s p : list N) : list N :=
  match p, s with
  | _ :: p', _ :: s' => str_drop s' p'
  | _, _ => s
  end.
(* s.trim_start_matches(p): strips the prefix repeatedly; an empty pattern strips nothing *)
Fixpoint str_trim_start (fuel : nat) (s p : list N) : list N :=
  match fuel with
  | O => s
  | S f => match p with
           | [] => s
           | _ => if str_starts_with s p then str_trim_start f (str_drop s p) p else s
           end
  end.

(* char::is_ascii_alphabetic *)
Definition is_ascii_alphabetic (c : N) : bool :=
  ((65 <=? c) && (c <=? 90)) || ((97 <=? c) && (c <=? 122)).

(* AmbiguousMapEntry tables with the syl![..] literals built *)
Definition amb_table_of (t : list (list N * (list N * list N))) : list (list N * (N * N)) :=
  map (fun e => (fst e, (syl_of (fst (snd e)), syl_of (snd (snd e))))) t.
Definition pinyin_common_mapping := amb_table_of pinyin_common_mapping_syms.
Definition pinyin_hanyu_mapping := amb_table_of pinyin_hanyu_pinyin_mapping_syms.
Definition pinyin_thl_mapping := amb_table_of pinyin_thl_pinyin_mapping_syms.
Definition pinyin_mps2_mapping := amb_table_of pinyin_mps2_pinyin_mapping_syms.
Definition pinyin_variant_mapping (v : N) : list (list N * (N * N)) :=
  if v =? V_HANYU then pinyin_hanyu_mapping
  else if v =? V_THL then pinyin_thl_mapping
  else pinyin_mps2_mapping.

Definition find_str {A} (key : list N) (t : list (list N * A)) : option (list N * A) :=
  find (fun e => str_eqb (fst e) key) t.

Definition opt_in (o : option N) (l : list N) : bool :=
  match o with Some x => memN x l | None => false end.

Definition PANIC_BUILDER_UNWRAP : N := 204.   (* builder.insert(..).unwrap() *)

Definition binsert (ob : outcome builder) (o : option N) : outcome builder :=
  obind ob (fun b =>
    match o with
    | None => Ok b
    | Some x => match builder_insert b x with inl b' => Ok b' | inr _ => Panic PANIC_BUILDER_UNWRAP end
    end).

(* everything key_press does once the table lookups are made: the variant rules
   and the builder.  ini = the initial of the INITIAL_MAPPING entry found (if any),
   fin = (medial, rime) of the FINAL_MAPPING entry found (if any); not both None. *)
Definition pinyin_finish (v : N) (ini : option N) (fin : option (option N * option N)) (tone : option N)
  : outcome N :=
  let medial0 := match fin with Some (m, _) => m | None => None end in
  let rime0 := match fin with Some (_, r) => r | None => None end in
  (* Hanyu empty rime: ZH CH SH R Z C S + -i *)
  let '(medial1, rime1) :=
    if (v =? V_HANYU) &&
       ((opt_is medial0 bI && negb (is_some rime0)) || (negb (is_some medial0) && opt_is rime0 bI)) &&
       opt_in ini [bZH; bCH; bSH; bR; bZ; bC; bS]
    then (None, None) else (medial0, rime0) in
  (* Hanyu J Q X + -uan / -un / -u *)
  let medial2 :=
    if (v =? V_HANYU) && opt_in ini [bJ; bQ; bX] && opt_is medial1 bU &&
       (opt_is rime1 bAN || opt_is rime1 bEN || negb (is_some rime1))
    then Some bIU else medial1 in
  (* THL / MPS2 s sh c ch j *)
  let ini3 :=
    if (v =? V_THL) || (v =? V_MPS2) then
      if opt_is medial2 bI || opt_is medial2 bIU then
        if opt_in ini [bS; bSH] then Some bX
        else if opt_in ini [bC; bCH] then Some bQ
        else ini
      else if opt_is ini bJ then Some bZH else ini
    else ini in
  (* THL supplemental set: B P M F + -ung / -uo *)
  let medial4 :=
    if ((v =? V_THL) || (v =? V_MPS2)) && opt_in ini3 [bB; bP; bM; bF] && opt_is medial2 bU &&
       (opt_is rime1 bENG || opt_is rime1 bO)
    then None else medial2 in
  obind (binsert (binsert (binsert (binsert (Ok builder_new) ini3) medial4) rime1) tone)
        (fun b => Ok (builder_build b)).

Definition pinyin_commit_entry (e : list N * (N * N)) (tone : option N) : outcome (lstate * behavior) :=
  let '(_, (primary, alt)) := e in
  match tone with
  | Some t => obind (update primary t) (fun s => obind (update alt t) (fun a =>
                Ok (mk_lstate s a [], Commit)))
  | None => Ok (mk_lstate primary alt [], Commit)
  end.

Definition pinyin_key_press (v : N) (st : lstate) (ev : key_event) : outcome (lstate * behavior) :=
  let keys := ls_keys st in
  if match keys with [] => negb (is_atoz (ev_code ev)) | _ => false end then Ok (st, KeyError)
  else if negb (memN (ev_code ev) pinyin_tone_keys) then
    if len_N keys =? MAX_PINYIN_LEN then Ok (st, NoWord)
    else if negb (is_ascii_alphabetic (ev_unicode ev)) then Ok (st, KeyError)
    else Ok (mk_lstate (ls_syl st) (ls_alt st) (keys ++ [ev_unicode ev]), Absorb)
  else
    let tone := assoc (ev_code ev) pinyin_tone_table in
    match find_str keys (pinyin_variant_mapping v) with
    | Some e => pinyin_commit_entry e tone
    | None =>
      match find_str keys pinyin_common_mapping with
      | Some e => pinyin_commit_entry e tone
      | None =>
        let ini := find (fun e => str_starts_with keys (fst e)) pinyin_initial_mapping in
        let final_seq := match ini with
                         | Some e => str_trim_start (length keys) keys (fst e)
                         | None => keys
                         end in
        let fin := find_str final_seq pinyin_final_mapping in
        match ini, fin with
        | None, None => Ok (mk_lstate (ls_syl st) (ls_alt st) [], Absorb)
        | _, _ =>
          obind (pinyin_finish v (option_map snd ini) (option_map snd fin) tone) (fun s =>
            Ok (mk_lstate s s [], Commit))
        end
      end
    end.

Definition pinyin_clear (st : lstate) : lstate := lstate_empty.
Definition pinyin_remove_last (st : lstate) : lstate :=
  mk_lstate (ls_syl st) (ls_alt st) (removelast (ls_keys st)).
Definition pinyin_is_empty (st : lstate) : bool := match ls_keys st with [] => true | _ => false end.
