(* Correspondence views for the Syllable model: each view maps a case number (or
   a few numbers) to a list of numbers; the Rust harness prints the same list
   computed from the implementation.  Executable definitions only. *)
From Coq Require Import NArith List Bool.
From LC Require Import Base.Lib Gen.Bopomofo_gen Model.Syllable.
Import ListNotations.
Open Scope N_scope.

Definition enc_opt (o : option N) : N := match o with None => 0 | Some b => b + 1 end.

Definition syms_list : list N := range_nat (N.to_nat n_bopomofo).

(* everything observable about one 16-bit code *)
Definition view_code (v : N) : list N :=
  match try_from_u16 v with
  | None => [v; 0]
  | Some s =>
    let rm (r : option N * N) := [enc_opt (fst r); snd r] in
    [v; 1; enc_opt (initial s); enc_opt (medial s); enc_opt (rime s); enc_opt (tone s);
     (if is_empty s then 1 else 0)] ++
    [len_N (spell s)] ++ spell s ++
    rm (remove_initial s) ++ rm (remove_medial s) ++ rm (remove_rime s) ++ rm (remove_tone s) ++
    rm (pop s) ++
    map (fun b => match update s b with Ok w => w | _ => 0 end) syms_list
  end.

(* strings over the alphabet {42 symbols} + {one non-Bopomofo character}:
   digit d < n_bopomofo is the symbol's character, digit n_bopomofo is 'a' *)
Definition JUNK_CHAR : N := 97.
Definition digit_char (d : N) : N := match bchar d with Some c => c | None => JUNK_CHAR end.

Fixpoint digits (len : nat) (base idx : N) : list N :=
  match len with
  | O => []
  | S k => (idx mod base) :: digits k base (idx / base)
  end.

Definition view_parse (len idx : N) : list N :=
  let ds := digits (N.to_nat len) (n_bopomofo + 1) idx in
  let r := match parse_chars (map digit_char ds) with
           | inl v => v
           | inr e => 70000 + e
           end in
  [len; idx; r].

Definition view_starts (s p : N) : N := if starts_with s p then 1 else 0.
