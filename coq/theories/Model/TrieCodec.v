(* Executable model of src/dictionary/trie.rs: the phrase / metadata / file
   codec (on top of Model/Der.v), TrieBuilder::{insert,write}, and the reader
   (TrieOpenOptions::read_from incl. the index validation, lookup_first_n_phrases
   for both lookup strategies, entries) over raw bytes.

   Conventions: bytes, syllables (u16), frequencies are N; a phrase string is
   its UTF-8 byte list (Rust's String invariant = utf8_valid).  usize is 64 bit
   (u32*8 and u32+u16 never overflow or saturate).  Every Rust panic site that
   the reader contains is an explicit `Panic <line>`; every unbounded loop is
   fuelled (`OutOfFuel`).  The builder's arena (Vec of nodes addressed by id)
   is modelled by the tree it denotes: children in insertion order, an optional
   leaf; arena ids are not observable in the output of `write`.
   No proofs in this file. *)
From Coq Require Import NArith List Bool.
From LC Require Import Base.Lib Model.Utf8 Model.Der Model.Syllable Gen.Trie_gen.
Import ListNotations.
Open Scope N_scope.

(* ------------------------------------------------------------------ *)
(* Phrase, DictionaryInfo and their DER forms                           *)

Record phrase := mkPhrase { p_str : list N; p_freq : N; p_last : option N }.

Definition enc_phrase (p : phrase) : option (list N) :=
  obind (oapp (oapp (enc_utf8string (p_str p)) (enc_uint 4 (p_freq p))) (enc_ctx0_u64_opt (p_last p)))
        enc_sequence.

Definition dec_phrase_body (l : list N) : option (phrase * list N) :=
  match dec_utf8string l with
  | None => None
  | Some (s, r1) =>
    match dec_uint 4 r1 with
    | None => None
    | Some (f, r2) =>
      match dec_ctx0_u64_opt r2 with
      | None => None
      | Some (t, r3) => Some (mkPhrase s f t, r3)
      end
    end
  end.
Definition dec_phrase (l : list N) : option (phrase * list N) := dec_sequence dec_phrase_body l.

Fixpoint enc_phrases (ps : list phrase) : option (list N) :=
  match ps with
  | [] => Some []
  | p :: r => oapp (enc_phrase p) (enc_phrases r)
  end.

(* PhrasesIter: decode until the slice is finished or a record fails *)
Fixpoint dec_phrases (fuel : nat) (l : list N) : list phrase :=
  match fuel with
  | O => []
  | S f =>
    match l with
    | [] => []
    | _ => match dec_phrase l with
           | Some (p, r) => p :: dec_phrases f r
           | None => []
           end
    end
  end.
Definition phrases_of_slice (l : list N) : list phrase := dec_phrases (length l) l.

Record dinfo := mkInfo { i_name : list N; i_copyright : list N; i_license : list N;
                         i_version : list N; i_software : list N }.

Definition enc_info (i : dinfo) : option (list N) :=
  obind (oapp (oapp (oapp (oapp (enc_utf8string (i_name i)) (enc_utf8string (i_copyright i)))
                          (enc_utf8string (i_license i))) (enc_utf8string (i_version i)))
              (enc_utf8string (i_software i)))
        enc_sequence.

Definition dec_info_body (l : list N) : option (dinfo * list N) :=
  match dec_utf8string l with None => None | Some (a, r1) =>
  match dec_utf8string r1 with None => None | Some (b, r2) =>
  match dec_utf8string r2 with None => None | Some (c, r3) =>
  match dec_utf8string r3 with None => None | Some (d, r4) =>
  match dec_utf8string r4 with None => None | Some (e, r5) =>
    Some (mkInfo a b c d e, r5) end end end end end.
Definition dec_info (l : list N) : option (dinfo * list N) := dec_sequence dec_info_body l.

Definition MAGIC : list N := [67; 72; 69; 87].      (* "CHEW" *)

(* TrieFileRef: SEQUENCE { "CHEW", version, info, index OCTET STRING, phraseSeq SEQUENCE (raw) } *)
Definition enc_file (i : dinfo) (index data : list N) : option (list N) :=
  obind (oapp (oapp (oapp (oapp (enc_utf8string MAGIC) (enc_uint 1 dict_format_version))
                          (enc_info i)) (enc_octets index)) (enc_sequence data))
        enc_sequence.

Definition dec_file_body (l : list N) : option ((dinfo * list N * list N) * list N) :=
  match dec_utf8string l with None => None | Some (m, r1) =>
  match dec_uint 1 r1 with None => None | Some (v, r2) =>
    if negb (bytes_eqb m MAGIC && (v =? dict_format_version)) then None else
  match dec_info r2 with None => None | Some (i, r3) =>
  match dec_octets r3 with None => None | Some (idx, r4) =>
  match dec_tlv TAG_SEQUENCE r4 with None => None | Some (data, r5) =>
    Some ((i, idx, data), r5) end end end end end.

(* Document::try_from(Vec<u8>) (one SEQUENCE, no trailing data, at most
   Length::MAX bytes) followed by decode_msg::<TrieFileRef> *)
Definition dec_file (bytes : list N) : option (dinfo * list N * list N) :=
  if DER_MAX <? len_N bytes then None
  else match dec_sequence dec_file_body bytes with
       | Some (x, []) => Some x
       | _ => None
       end.

(* ------------------------------------------------------------------ *)
(* Index records                                                        *)

(* one 8-byte record: (u32 begin, u16 len, u16 syllable-or-reserved) *)
Definition rec := (N * N * N)%type.
Definition r_begin (r : rec) : N := fst (fst r).
Definition r_len (r : rec) : N := snd (fst r).
Definition r_syl (r : rec) : N := snd r.

Definition be16 (v : N) : list N := [(v / 256) mod 256; v mod 256].
Definition be32 (v : N) : list N := [(v / 16777216) mod 256; (v / 65536) mod 256; (v / 256) mod 256; v mod 256].
Definition enc_rec (r : rec) : list N := be32 (r_begin r) ++ be16 (r_len r) ++ be16 (r_syl r).
Definition enc_recs (rs : list rec) : list N := flat_map enc_rec rs.

(* chunks_exact(8): a trailing partial record is ignored *)
Fixpoint parse_recs (l : list N) : list rec :=
  match l with
  | a :: b :: c :: d :: e :: f :: g :: h :: r =>
    (((a * 256 + b) * 256 + c) * 256 + d, e * 256 + f, g * 256 + h) :: parse_recs r
  | _ => []
  end.

Definition rec_at (recs : list rec) (i : N) : option rec := nth_error recs (N.to_nat i).
Definition slice_recs (recs : list rec) (b n : N) : list rec := firstn (N.to_nat n) (skipn (N.to_nat b) recs).
Definition slice_bytes (l : list N) (b n : N) : list N := firstn (N.to_nat n) (skipn (N.to_nat b) l).

(* ------------------------------------------------------------------ *)
(* TrieBuilder                                                          *)

Inductive tnode := TNode (leaf : option (list phrase)) (children : list (N * tnode)).
Definition tleaf (t : tnode) := let '(TNode l _) := t in l.
Definition tchildren (t : tnode) := let '(TNode _ c) := t in c.
Definition tempty : tnode := TNode None [].

(* insert(): replace the phrase with the same string in place, else push *)
Fixpoint insert_phrase (ps : list phrase) (p : phrase) : list phrase :=
  match ps with
  | [] => [p]
  | x :: r => if bytes_eqb (p_str x) (p_str p) then p :: r else x :: insert_phrase r p
  end.

(* find_or_insert_internal: first child with the syllable, else a new last child *)
Fixpoint upd_child (f : tnode -> tnode) (s : N) (ch : list (N * tnode)) : list (N * tnode) :=
  match ch with
  | [] => [(s, f tempty)]
  | (s', c) :: ch' => if s =? s' then (s', f c) :: ch' else (s', c) :: upd_child f s ch'
  end.

Fixpoint tinsert (syls : list N) (p : phrase) (t : tnode) {struct syls} : tnode :=
  match syls with
  | [] => TNode (Some (insert_phrase (match tleaf t with Some ps => ps | None => [] end) p)) (tchildren t)
  | s :: r => TNode (tleaf t) (upd_child (tinsert r p) s (tchildren t))
  end.

Definition entry := (list N * phrase)%type.
Definition build (es : list entry) : tnode :=
  fold_left (fun t e => tinsert (fst e) (snd e) t) es tempty.

(* the comparator of phrases.sort_by in write() *)
Definition phrase_cmp (a b : phrase) : comparison :=
  let ca := chars_count (p_str a) in
  let cb := chars_count (p_str b) in
  if (ca =? 1) && (cb =? 1) then Eq
  else if (ca =? 1) || (cb =? 1) then N.compare (len_N (p_str a)) (len_N (p_str b))
  else if p_freq a =? p_freq b then bytes_compare (p_str b) (p_str a)
  else N.compare (p_freq b) (p_freq a).

Definition cmp_le (c : comparison) : bool := match c with Gt => false | _ => true end.

(* Vec::sort_by is a stable sort; for a comparator that is a total preorder on
   the elements every stable sort returns the same list: stable insertion sort *)
Fixpoint sinsert {A} (le : A -> A -> bool) (x : A) (l : list A) : list A :=
  match l with
  | [] => [x]
  | y :: r => if le x y then x :: l else y :: sinsert le x r
  end.
Fixpoint ssort {A} (le : A -> A -> bool) (l : list A) : list A :=
  match l with
  | [] => []
  | x :: r => sinsert le x (ssort le r)
  end.

Definition sort_leaf (ps : list phrase) : list phrase := ssort (fun a b => cmp_le (phrase_cmp a b)) ps.
Definition sort_children (ch : list (N * tnode)) : list (N * tnode) := ssort (fun a b => fst a <=? fst b) ch.

Inductive qitem := QNode (syl : N) (t : tnode) | QLeaf (ps : list phrase).

Definition kids_of (t : tnode) : list qitem :=
  (match tleaf t with Some ps => [QLeaf ps] | None => [] end)
    ++ map (fun sc => QNode (fst sc) (snd sc)) (sort_children (tchildren t)).

Definition U16 : N := 65536.
Definition U32 : N := 4294967296.

(* the BFS of write(): dict = records written so far, data = phrase bytes so far,
   cb = the running child_begin counter.  Err 1 = DER length overflow. *)
Fixpoint bfs (fuel : nat) (q : list qitem) (cb : N) (dict : list rec) (data : list N)
  : outcome (list rec * list N) :=
  match q with
  | [] => Ok (dict, data)
  | it :: q' =>
    match fuel with
    | O => OutOfFuel
    | S f =>
      match it with
      | QNode syl t =>
        let kids := kids_of t in
        let n := len_N kids in
        bfs f (q' ++ kids) (cb + n) (dict ++ [(cb mod U32, n mod U16, syl)]) data
      | QLeaf ps =>
        match enc_phrases (sort_leaf ps) with
        | None => Err 1
        | Some bytes =>
          bfs f q' cb (dict ++ [(len_N data mod U32, len_N bytes mod U16, 0)]) (data ++ bytes)
        end
      end
    end
  end.

Fixpoint tsize (t : tnode) : nat :=
  match t with
  | TNode leaf ch =>
    S ((match leaf with Some _ => 1 | None => 0 end)
       + (fix go (l : list (N * tnode)) : nat := match l with [] => O | (_, c) :: l' => tsize c + go l' end) ch)%nat
  end.

(* TrieBuilder::write: the records and phrase bytes, then the DER document *)
Definition write_parts (t : tnode) : outcome (list rec * list N) := bfs (tsize t) [QNode 0 t] 1 [] [].

Definition write (i : dinfo) (t : tnode) : outcome (list N) :=
  match write_parts t with
  | Ok (dict, data) =>
    match enc_file i (enc_recs dict) data with
    | Some bytes => if DER_MAX <? len_N bytes then Err 1 else Ok bytes   (* Document::try_from *)
    | None => Err 1
    end
  | Err e => Err e
  | Panic s => Panic s
  | OutOfFuel => OutOfFuel
  end.

(* ------------------------------------------------------------------ *)
(* Reader                                                               *)

Record trie := mkTrie { t_info : dinfo; t_recs : list rec; t_data : list N }.

(* validate_index (the structural check of read_from): the index is a tree laid
   out in BFS order - the child ranges of successive internal records are
   consecutive (begin = next), non-empty, in bounds, and only the first record
   of a range may be a leaf (zero syllable).  An index without a root record
   and a root without children (empty dictionary) are accepted. *)
Definition range_no_zero (recs : list rec) (b n : N) : bool :=
  forallb (fun r => negb (r_syl r =? 0)) (slice_recs recs b n).

Fixpoint validate_from (fuel : nat) (recs : list rec) (nrec i next : N) : bool :=
  match fuel with
  | O => true          (* unreachable: fuel = nrec + 1 *)
  | S f =>
    if negb ((i <? next) && (i <? nrec)) then true
    else match rec_at recs i with
         | None => true
         | Some r =>
           if (i =? 0) || negb (r_syl r =? 0) then
             let b := r_begin r in
             let e := r_begin r + r_len r in
             if (i =? 0) && (b =? e) then true
             else if negb (b =? next) || (e <=? b) || (nrec <? e) then false
             else if negb (range_no_zero recs (b + 1) (r_len r - 1)) then false
             else validate_from f recs nrec (i + 1) e
           else validate_from f recs nrec (i + 1) next
         end
  end.

Definition validate_index (recs : list rec) : bool :=
  validate_from (S (length recs)) recs (len_N recs) 0 1.

(* read_from without / with the structural check.  Err 1 = DER error,
   Err 2 = corrupted index. *)
Definition open_unchecked (bytes : list N) : outcome trie :=
  match dec_file bytes with
  | None => Err 1
  | Some (i, idx, data) => Ok (mkTrie i (parse_recs idx) data)
  end.

Definition open (bytes : list N) : outcome trie :=
  match open_unchecked bytes with
  | Ok t => if validate_index (t_recs t) then Ok t else Err 2
  | o => o
  end.

(* ---- lookup_first_n_phrases ---- *)
Definition STANDARD : N := 0.
Definition FUZZY : N := 1.

Definition search_pred (strategy n syl : N) : bool :=
  if strategy =? STANDARD then n =? syl
  else negb (n =? 0) && starts_with n syl.

(* bail_if_oob!(begin, end, len) on a child range, in records *)
Definition range_oob (nrec : N) (r : rec) : bool :=
  (r_len r =? 0) || (nrec <? r_begin r + r_len r).

(* one query syllable: every thread is replaced by its matching children;
   None = bail_if_oob fired (the whole lookup returns an empty Vec).
   The second component counts the child records examined. *)
Fixpoint step_threads (recs : list rec) (nrec : N) (strategy syl : N) (threads : list rec) (cost : N)
  : option (list rec * N) :=
  match threads with
  | [] => Some ([], cost)
  | node :: rest =>
    if range_oob nrec node then None
    else
      let kids := slice_recs recs (r_begin node) (r_len node) in
      let hit := filter (fun k => search_pred strategy (r_syl k) syl) kids in
      match step_threads recs nrec strategy syl rest (cost + r_len node) with
      | None => None
      | Some (more, c) => Some (hit ++ more, c)
      end
  end.

Fixpoint walk (recs : list rec) (nrec : N) (strategy : N) (syls : list N) (threads : list rec) (cost : N)
  : option (list rec * N) :=
  match syls with
  | [] => Some (threads, cost)
  | s :: r =>
    match step_threads recs nrec strategy s threads cost with
    | None => None
    | Some (th, c) => match th with [] => Some ([], c) | _ => walk recs nrec strategy r th c end
    end
  end.

(* collect the leaves of the final threads; Panic 225 = SliceReader::new(..).unwrap() *)
Fixpoint collect (recs : list rec) (nrec : N) (data : list N) (first : N) (threads : list rec) (acc : list phrase)
  : outcome (list phrase) :=
  match threads with
  | [] => Ok acc
  | node :: rest =>
    if range_oob nrec node then Ok []
    else match rec_at recs (r_begin node) with
         | None => Panic 321                       (* leaf_data[..8]: unreachable after the range check *)
         | Some leaf =>
           if negb (r_syl leaf =? 0) then collect recs nrec data first rest acc
           else if (r_len leaf =? 0) || (len_N data <? r_begin leaf + r_len leaf) then Ok []
           else if DER_MAX <? r_len leaf then Panic 225
           else
             let acc' := acc ++ phrases_of_slice (slice_bytes data (r_begin leaf) (r_len leaf)) in
             if first <? len_N acc' then Ok acc' else collect recs nrec data first rest acc'
         end
  end.

Definition lookup_cost (t : trie) (syls : list N) (first strategy : N) : outcome (list phrase) * N :=
  let recs := t_recs t in
  let nrec := len_N recs in
  match rec_at recs 0 with
  | None => (Ok [], 0)
  | Some root =>
    if r_len root =? 0 then (Ok [], 0)
    else match walk recs nrec strategy syls [root] 0 with
         | None => (Ok [], 0)
         | Some (threads, c) =>
           (match collect recs nrec (t_data t) first threads [] with
            | Ok ps => Ok (if lookup_truncates && (first <? len_N ps) then firstn (N.to_nat first) ps else ps)
            | o => o
            end, c)
         end
  end.

Definition lookup (t : trie) (syls : list N) (first strategy : N) : outcome (list phrase) :=
  fst (lookup_cost t syls first strategy).

(* ---- entries(): iterative DFS with an explicit stack ----
   A stack frame is the remaining part [pos, end) of a child range.  `syls` is
   the current syllable path, reversed.  One round = the descend loop, the
   ascend loop; then the pending results are yielded last-pushed first.
   iter_bail_if_oob ends the iteration and drops the pending results.
   Panic 358 = Syllable::try_from(0).unwrap(), Panic 380 = expect("at least one
   child"), Panic 403 = debug_assert_ne!(next.syllable(), 0) (debug builds). *)
Definition eentry := (list N * list phrase)%type.

Inductive emode := Descend | Ascend.

Fixpoint entries_run (fuel : nat) (debug : bool) (recs : list rec) (nrec : N) (data : list N)
         (mode : emode) (node : rec) (stack : list (N * N)) (syls : list N)
         (results : list eentry) (out : list eentry) : outcome (list eentry) :=
  match fuel with
  | O => OutOfFuel
  | S f =>
    match mode with
    | Descend =>
      if range_oob nrec node then Ok out
      else match rec_at recs (r_begin node) with
           | None => Panic 380
           | Some first =>
             if r_syl first =? 0 then
               if (r_len first =? 0) || (len_N data <? r_begin first + r_len first) then Ok out
               else if existsb (N.eqb 0) syls then Panic 358
               else if DER_MAX <? r_len first then Panic 225
               else
                 let e := (rev syls, phrases_of_slice (slice_bytes data (r_begin first) (r_len first))) in
                 match rec_at recs (r_begin node + 1) with
                 | Some second =>
                   if 2 <=? r_len node then
                     entries_run f debug recs nrec data Descend second
                                 ((r_begin node + 2, r_begin node + r_len node) :: stack)
                                 (r_syl second :: syls) (e :: results) out
                   else entries_run f debug recs nrec data Ascend node stack syls (e :: results) out
                 | None => entries_run f debug recs nrec data Ascend node stack syls (e :: results) out
                 end
             else
               entries_run f debug recs nrec data Descend first
                           ((r_begin node + 1, r_begin node + r_len node) :: stack)
                           (r_syl first :: syls) results out
           end
    | Ascend =>
      match stack with
      | [] => Ok (out ++ results)                  (* done: the pending results, then None *)
      | (p, e) :: stack' =>
        let syls' := tl syls in
        if p <? e then
          match rec_at recs p with
          | None => Panic 402                      (* unreachable: the range was checked *)
          | Some next =>
            if debug && (r_syl next =? 0) then Panic 403
            else entries_run f debug recs nrec data Descend next ((p + 1, e) :: stack')
                             (r_syl next :: syls') [] (out ++ results)
          end
        else entries_run f debug recs nrec data Ascend node stack' syls' results out
      end
    end
  end.

(* fuel of entries: three loop iterations per record suffice on a valid index *)
Definition entries_fuel (t : trie) : nat := S (S (3 * length (t_recs t))).

Definition entries_leaves (debug : bool) (fuel : nat) (t : trie) : outcome (list eentry) :=
  let recs := t_recs t in
  match rec_at recs 0 with
  | None => Ok []
  | Some root =>
    if r_len root =? 0 then Ok []
    else entries_run fuel debug recs (len_N recs) (t_data t) Descend root [] [] [] []
  end.

Definition flatten_entries (l : list eentry) : list entry :=
  flat_map (fun e => map (fun p => (fst e, p)) (snd e)) l.

Definition entries (t : trie) : outcome (list entry) :=
  match entries_leaves false (entries_fuel t) t with
  | Ok l => Ok (flatten_entries l)
  | Err e => Err e
  | Panic s => Panic s
  | OutOfFuel => OutOfFuel
  end.

(* ------------------------------------------------------------------ *)
(* Context creation over dictionary files (capi/src/io.rs chewing_new2 with
   loader.rs): a system file (word.dat / tsi.dat) that fails to open makes the
   loader fall back to the built-in dictionary, a drop-in file that fails to
   open is skipped, a user file that fails to open makes chewing_new2 return
   NULL; a user file that opens is enumerated completely
   (LaxUserFreqEstimate::max_from).  Ok true = context, Ok false = NULL. *)
Definition ctx_user_file (bytes : list N) : outcome bool :=
  match open bytes with
  | Ok t => match entries t with
            | Ok _ => Ok true
            | Err e => Err e
            | Panic s => Panic s
            | OutOfFuel => OutOfFuel
            end
  | Err _ => Ok false
  | Panic s => Panic s
  | OutOfFuel => OutOfFuel
  end.

(* system / drop-in file: opened, never enumerated at start-up *)
Definition ctx_system_file (bytes : list N) : outcome bool :=
  match open bytes with
  | Ok _ => Ok true
  | Err _ => Ok true          (* fall back to the built-in dictionary / skip the drop-in *)
  | Panic s => Panic s
  | OutOfFuel => OutOfFuel
  end.
