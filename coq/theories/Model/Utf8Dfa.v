(* Byte-level UTF-8 as Rust's str::from_utf8 / String validation accepts it
   (well-formed UTF-8, Unicode table 3-7: no overlong forms, no surrogates,
   at most U+10FFFF), written as a deterministic automaton over bytes so that
   validity distributes over concatenation (used by the legacy-file and CLI
   models; Model/Utf8.v of the trie codec is the recursive formulation).
   Bytes and scalar values are N.  No proofs in this file. *)
From Coq Require Import NArith List Bool.
From LC Require Import Base.Lib.
Import ListNotations.
Open Scope N_scope.

Inductive ustate : Type :=
| U0        (* between characters *)
| UT1       (* one continuation byte 80..BF missing *)
| UT2       (* two missing *)
| UT3       (* three missing *)
| UE0       (* after E0: next must be A0..BF, then one more *)
| UED       (* after ED: next must be 80..9F, then one more *)
| UF0       (* after F0: next must be 90..BF, then two more *)
| UF4       (* after F4: next must be 80..8F, then two more *)
| UBad.

Definition in_rng (lo hi b : N) : bool := (lo <=? b) && (b <=? hi).

Definition ustep (s : ustate) (b : N) : ustate :=
  match s with
  | U0 =>
      if b <? 128 then U0
      else if in_rng 194 223 b then UT1
      else if b =? 224 then UE0
      else if in_rng 225 236 b then UT2
      else if b =? 237 then UED
      else if in_rng 238 239 b then UT2
      else if b =? 240 then UF0
      else if in_rng 241 243 b then UT3
      else if b =? 244 then UF4
      else UBad
  | UT1 => if in_rng 128 191 b then U0 else UBad
  | UT2 => if in_rng 128 191 b then UT1 else UBad
  | UT3 => if in_rng 128 191 b then UT2 else UBad
  | UE0 => if in_rng 160 191 b then UT1 else UBad
  | UED => if in_rng 128 159 b then UT1 else UBad
  | UF0 => if in_rng 144 191 b then UT2 else UBad
  | UF4 => if in_rng 128 143 b then UT2 else UBad
  | UBad => UBad
  end.

Definition urun (s : ustate) (bs : list N) : ustate := fold_left ustep bs s.

Definition is_U0 (s : ustate) : bool := match s with U0 => true | _ => false end.

(* str::from_utf8(bs).is_ok() *)
Definition utf8_ok (bs : list N) : bool := is_U0 (urun U0 bs).

(* str::chars().count() of a valid string: the bytes that are not continuation bytes *)
Definition is_contb (b : N) : bool := in_rng 128 191 b.
Definition utf8_nchars (bs : list N) : N := len_N (filter (fun b => negb (is_contb b)) bs).

(* char::encode_utf8 for a Unicode scalar value *)
Definition scalar_ok (c : N) : bool := (c <? 55296) || ((57343 <? c) && (c <? 1114112)).

Definition utf8_enc_char (c : N) : list N :=
  if c <? 128 then [c]
  else if c <? 2048 then [192 + c / 64; 128 + c mod 64]
  else if c <? 65536 then [224 + c / 4096; 128 + (c / 64) mod 64; 128 + c mod 64]
  else [240 + c / 262144; 128 + (c / 4096) mod 64; 128 + (c / 64) mod 64; 128 + c mod 64].

Definition utf8_enc (cs : list N) : list N := flat_map utf8_enc_char cs.

(* all bytes below 256 *)
Definition bytes_ok (bs : list N) : bool := forallb (fun b => b <? 256) bs.
