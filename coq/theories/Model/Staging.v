(* Two dictionaries of one process in ONE directory, written at the same time (TrieBuilder::build, src/dictionary/trie.rs):
   each writer creates its staging file (File::create: a new inode, or the EXISTING inode of that name truncated),
   writes its contents through the open handle, and renames the staging name onto its target.  A directory maps
   names to inodes, inodes carry contents.  Executable; no proofs.  (A whole write is one step: the property at stake
   is whose contents end up under which name, not torn writes - those are Model/Durability.v's subject.) *)
From Coq Require Import NArith List Bool.
Import ListNotations.
Open Scope N_scope.

Definition fmap := N -> option N.
Definition fset (f : fmap) (k : N) (v : option N) : fmap := fun m => if N.eqb m k then v else f m.

Record wparams := mkW { w_stage : N; w_target : N; w_data : N }.
Record wstate := mkWS { w_pc : nat; w_handle : N }.

Record sstate := mkSS {
  s_dir : fmap;          (* name -> inode *)
  s_ino : fmap;          (* inode -> contents *)
  s_next : N;            (* next unused inode number *)
  s_w1 : wstate;
  s_w2 : wstate
}.

(* one step of one writer: create / write / rename, then done *)
Definition wstep (p : wparams) (w : wstate) (dir ino : fmap) (next : N) : wstate * fmap * fmap * N :=
  match w_pc w with
  | O =>
    match dir (w_stage p) with
    | Some i => (mkWS 1 i, dir, fset ino i (Some 0), next)                                   (* truncates what is there *)
    | None => (mkWS 1 next, fset dir (w_stage p) (Some next), fset ino next (Some 0), next + 1)
    end
  | S O => (mkWS 2 (w_handle w), dir, fset ino (w_handle w) (Some (w_data p)), next)
  | S (S O) =>
    match dir (w_stage p) with
    | Some i => (mkWS 3 (w_handle w), fset (fset dir (w_target p) (Some i)) (w_stage p) None, ino, next)
    | None => (mkWS 3 (w_handle w), dir, ino, next)                                           (* ENOENT: this flush is lost *)
    end
  | _ => (w, dir, ino, next)
  end.

Definition sstep (p1 p2 : wparams) (s : sstate) (first : bool) : sstate :=
  if first then
    let '(w, d, i, n) := wstep p1 (s_w1 s) (s_dir s) (s_ino s) (s_next s) in mkSS d i n w (s_w2 s)
  else
    let '(w, d, i, n) := wstep p2 (s_w2 s) (s_dir s) (s_ino s) (s_next s) in mkSS d i n (s_w1 s) w.

Definition srun (p1 p2 : wparams) (s : sstate) (sched : list bool) : sstate := fold_left (sstep p1 p2) sched s.

(* what a name holds *)
Definition file_of (s : sstate) (name : N) : option N :=
  match s_dir s name with Some i => s_ino s i | None => None end.

Definition both_done (s : sstate) : bool := Nat.leb 3 (w_pc (s_w1 s)) && Nat.leb 3 (w_pc (s_w2 s)).

Definition sinit (dir ino : fmap) (next : N) : sstate := mkSS dir ino next (mkWS 0 0) (mkWS 0 0).
