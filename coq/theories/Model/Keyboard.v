(* Executable model of src/editor/keyboard/mod.rs (generic_map_keycode, the
   KeyboardLayout trait's map / map_ascii / map_ascii_numlock) and
   dvorak_on_qwerty.rs.  Tables come from Gen/Keyboard_gen.v (regenerated from the
   source on every run).  Shared by C14 / C16 / C18.  No proofs in this file.

   Conventions: KeyCode / KeyIndex / keyboard = enum discriminant (N); modifiers =
   bit mask (MOD_SHIFT 1, MOD_CTRL 2, MOD_CAPSLOCK 4, MOD_NUMLOCK 8); characters =
   Unicode scalar values (65533 = U+FFFD = not printable).

   Entry points for other properties:
     map_keycode kb keycode mods  : outcome key_event    (KeyboardLayout::map_with_mod)
     map_ascii kb byte            : outcome key_event    (KeyboardLayout::map_ascii)
     map_ascii_numlock kb byte    : outcome key_event
     key_unicode kb keycode shift : N                    (the character a key produces)
     ascii_keycode byte           : N * N                (KEYCODE_MAP lookup: keycode, mods) *)
From Coq Require Import NArith List Bool.
From LC Require Import Base.Lib Gen.Keyboard_gen.
Import ListNotations.
Open Scope N_scope.

Record key_event := mk_event { ev_index : N; ev_code : N; ev_unicode : N; ev_mods : N }.

Definition has_mod (mods bit : N) : bool := negb (N.land mods bit =? 0).

(* Modifiers::is_none *)
Definition mods_none (mods : N) : bool := N.land mods 15 =? 0.

(* iter().position(|key| *key == keycode) *)
Definition position (l : list N) (x : N) : option N := index_of x l 0.

(* panic sites of this file *)
Definition PANIC_INVALID_KEYCODE : N := 101.     (* .expect("invalid keycode") *)
Definition PANIC_MATRIX_INDEX : N := 102.        (* array index out of bounds (arrays are [_; MATRIX_SIZE]) *)
Definition PANIC_NO_KEYBOARD : N := 103.         (* not a keyboard id: no Rust counterpart *)

(* generic_map_keycode *)
Definition generic_map_keycode (keycode_index unicode_map shift_map : list N) (keycode mods : N)
  : outcome key_event :=
  match position keycode_index keycode with
  | None => Panic PANIC_INVALID_KEYCODE
  | Some idx =>
      let u := if has_mod mods MOD_CAPSLOCK || has_mod mods MOD_SHIFT
               then nth_N shift_map idx else nth_N unicode_map idx in
      match u, nth_N index_map idx with
      | Some u, Some ix => Ok (mk_event ix keycode u mods)
      | _, _ => Panic PANIC_MATRIX_INDEX
      end
  end.

(* DvorakOnQwerty::map_with_mod: position by the QWERTY key code, character and
   reported key code from the Dvorak tables *)
Definition dvorak_on_qwerty_map (keycode mods : N) : outcome key_event :=
  match position qwerty_keycode_index keycode with
  | None => Panic PANIC_INVALID_KEYCODE
  | Some idx =>
      let u := if has_mod mods MOD_CAPSLOCK || has_mod mods MOD_SHIFT
               then nth_N dvorak_shift_map idx else nth_N dvorak_unicode_map idx in
      match u, nth_N index_map idx, nth_N dvorak_keycode_index idx with
      | Some u, Some ix, Some code => Ok (mk_event ix code u mods)
      | _, _, _ => Panic PANIC_MATRIX_INDEX
      end
  end.

(* AnyKeyboardLayout::map_with_mod *)
Definition map_keycode (kb keycode mods : N) : outcome key_event :=
  if kb =? kb_DvorakOnQwerty then dvorak_on_qwerty_map keycode mods
  else match assoc kb keyboard_tables with
       | Some (ki, um, sm) => generic_map_keycode ki um sm keycode mods
       | None => Panic PANIC_NO_KEYBOARD
       end.

(* KEYCODE_MAP.iter().find(|item| item.0 == ascii).map_or((Unknown, Modifiers::default()), ..) *)
Definition ascii_keycode (byte : N) : N * N :=
  match assoc byte keycode_map with Some x => x | None => (kcUnknown, 0) end.
Definition numlock_keycode (byte : N) : N * N :=
  match assoc byte numlock_map with Some x => x | None => (kcUnknown, 0) end.

Definition map_ascii (kb byte : N) : outcome key_event :=
  let '(code, mods) := ascii_keycode byte in map_keycode kb code mods.
Definition map_ascii_numlock (kb byte : N) : outcome key_event :=
  let '(code, mods) := numlock_keycode byte in map_keycode kb code mods.

(* the character a key produces on a keyboard (U+FFFD when the mapping panics) *)
Definition key_unicode (kb keycode : N) (shift : bool) : N :=
  match map_keycode kb keycode (if shift then MOD_SHIFT else 0) with
  | Ok ev => ev_unicode ev
  | _ => REPLACEMENT_CHAR
  end.

(* KeyEvent::is_printable *)
Definition is_printable (ev : key_event) : bool := negb (ev_unicode ev =? REPLACEMENT_CHAR).

(* KeyCode::is_atoz *)
Definition atoz_codes : list N :=
  [kcA; kcB; kcC; kcD; kcE; kcF; kcG; kcH; kcI; kcJ; kcK; kcL; kcM; kcN; kcO; kcP; kcQ; kcR; kcS; kcT;
   kcU; kcV; kcW; kcX; kcY; kcZ].
Definition is_atoz (code : N) : bool := memN code atoz_codes.

(* a key event whose enum fields are enum values *)
Definition valid_event_b (ev : key_event) : bool :=
  (ev_index ev <? n_keyindex) && (ev_code ev <? n_keycode).

(* keyboards that do not remap keys (every keyboard with its own tables) *)
Definition table_keyboard (kb : N) : bool :=
  match assoc kb keyboard_tables with Some _ => true | None => false end.

(* views for the correspondence check: an event as a list of numbers, 0-prefixed
   when Ok, [1; site] on panic *)
Definition view_event (o : outcome key_event) : list N :=
  match o with
  | Ok ev => [0; ev_index ev; ev_code ev; ev_unicode ev; ev_mods ev]
  | Panic s => [1; s]
  | _ => [2]
  end.
