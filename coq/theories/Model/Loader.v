(* Executable model of the user-dictionary start-up of src/dictionary/loader.rs
   (UserDictionaryLoader::load with the default target chewing.dat) at the level
   of the finite map the new dictionary holds.

   A user directory holds up to three stores side by side:
     chewing.dat      the current dictionary         (modelled as the map it holds)
     uhash.dat        the legacy hash file           (raw bytes; binary or text)
     chewing.sqlite3  the legacy SQLite dictionary   (relational model, Model/LegacySqlite.v)
   First start-up (no chewing.dat): a fresh dictionary is created, every entry
   of the legacy store is update_phrase'd into it, it is flushed.  Any later
   start-up finds chewing.dat and loads it; the legacy stores are not opened.

   What "flush + close" persists and what "open" reads back is the subject of
   C10 / C11 (durability, trie codec); here the file is the map.  TrieBuf's
   update_phrase is a BTreeMap insert keyed by (syllables, phrase): insert or
   overwrite - modelled by [dict_update] on an association list with the
   insertion position kept stable (builder C09 models TrieBuf in detail).
   No proofs in this file. *)
From Coq Require Import NArith ZArith List Bool.
From LC Require Import Base.Lib Gen.Uhash_gen Model.Utf8Dfa Model.Uhash Model.LegacySqlite.
Import ListNotations.
Open Scope N_scope.

Definition ukey := (list N * list N)%type.            (* syllables (u16), phrase (UTF-8 bytes) *)
Definition uval := (N * N)%type.                      (* user frequency, last-used time *)
Definition udict := list (ukey * uval).

Definition ukey_eqb (a b : ukey) : bool :=
  list_eqb N.eqb (fst a) (fst b) && list_eqb N.eqb (snd a) (snd b).

Fixpoint dict_lookup (d : udict) (k : ukey) : option uval :=
  match d with
  | [] => None
  | (k', v) :: d' => if ukey_eqb k k' then Some v else dict_lookup d' k
  end.

(* DictionaryMut::update_phrase on a TrieBuf: BTreeMap::insert *)
Fixpoint dict_update (d : udict) (k : ukey) (v : uval) : udict :=
  match d with
  | [] => [(k, v)]
  | (k', v') :: d' => if ukey_eqb k k' then (k, v) :: d' else (k', v') :: dict_update d' k v
  end.

Definition entry_key (e : uentry) : ukey := (ue_syls e, ue_phrase e).
Definition entry_val (e : uentry) : uval := (ue_freq e, ue_time e).

(* for (syllables, phrase) in phrases { fresh.update_phrase(&syllables, phrase, freq, last_used) } *)
Definition migrate (es : list uentry) : udict :=
  fold_left (fun d e => dict_update d (entry_key e) (entry_val e)) es [].

Record userdir := {
  ud_current : option udict;
  ud_uhash : option (list N);
  ud_sqlite : option sqldb
}.

(* UserDictionaryLoader::load.  Returns the dictionary handed to the editor and
   the directory as it is once that dictionary has been flushed and closed. *)
Definition startup (u : userdir) : outcome (udict * userdir) :=
  match ud_current u with
  | Some d => Ok (d, u)
  | None =>
      match ud_sqlite u with
      | Some db =>
          (* SqliteDictionary::open migrates the v1 schema in place, then entries() are copied *)
          match sqlite_open db with
          | Ok db' =>
              let d := migrate (sqlite_entries db') in
              Ok (d, {| ud_current := Some d; ud_uhash := ud_uhash u; ud_sqlite := Some db' |})
          | Err c => Err c           (* load fails; chewing.dat was already created empty *)
          | Panic s => Panic s
          | OutOfFuel => OutOfFuel
          end
      | None =>
          match ud_uhash u with
          | Some bs =>
              match load_uhash bs with
              | Ok es =>
                  let d := migrate es in
                  Ok (d, {| ud_current := Some d; ud_uhash := ud_uhash u; ud_sqlite := None |})
              | Err _ => Ok ([], {| ud_current := Some []; ud_uhash := ud_uhash u; ud_sqlite := None |})
              | Panic s => Panic s
              | OutOfFuel => OutOfFuel
              end
          | None => Ok ([], {| ud_current := Some []; ud_uhash := None; ud_sqlite := None |})
          end
      end
  end.

(* a session: start up, learn some phrases (update_phrase), flush and close *)
Definition learn (d : udict) (ls : list (ukey * uval)) : udict :=
  fold_left (fun d kv => dict_update d (fst kv) (snd kv)) ls d.

Definition session (u : userdir) (ls : list (ukey * uval)) : outcome (udict * userdir) :=
  match startup u with
  | Ok (d, u') =>
      let d' := learn d ls in
      Ok (d', {| ud_current := Some d'; ud_uhash := ud_uhash u'; ud_sqlite := ud_sqlite u' |})
  | Err c => Err c
  | Panic s => Panic s
  | OutOfFuel => OutOfFuel
  end.

(* repeated start-ups interleaved with learning *)
Fixpoint sessions (u : userdir) (hist : list (list (ukey * uval))) : outcome (udict * userdir) :=
  match hist with
  | [] => startup u
  | ls :: hist' =>
      match session u ls with
      | Ok (_, u') => sessions u' hist'
      | r => r
      end
  end.

(* what the correspondence observes for a directory holding only uhash.dat *)
Definition migrate_uhash (bs : list N) : outcome udict :=
  match startup {| ud_current := None; ud_uhash := Some bs; ud_sqlite := None |} with
  | Ok (d, _) => Ok d
  | Err c => Err c
  | Panic s => Panic s
  | OutOfFuel => OutOfFuel
  end.
