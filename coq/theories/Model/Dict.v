(* Executable model of the shared dictionary vocabulary of src/dictionary/mod.rs:
   Phrase, phrase keys, LookupStrategy, the de-duplication loop shared by
   TrieBuf::lookup_first_n_phrases and Layered::lookup_first_n_phrases, the
   abstract read-only Trie (an ordered association structure; its byte-level codec is
   C11's TrieCodec), and the specification map of C09.  No proofs in this file. *)
From Coq Require Import NArith List Bool.
From LC Require Import Base.Lib Model.Syllable.
Import ListNotations.
Open Scope N_scope.

(* ---- vocabulary ---- *)
Definition key := list N.        (* syllables: u16 codes *)
Definition text := list N.       (* phrase string: Unicode scalar values *)
Definition pkey := (key * text)%type.

(* struct Phrase { phrase: Box<str>, freq: u32, last_used: Option<u64> } *)
Record phrase := mkPhrase { ph_text : text; ph_freq : N; ph_time : option N }.

Definition USIZE_MAX : N := 18446744073709551615.

(* LookupStrategy *)
Inductive strategy := Standard | FuzzyPartialPrefix.

Definition seq_eqb (a b : list N) : bool := list_eqb N.eqb a b.
Definition pkey_eqb (x y : pkey) : bool := seq_eqb (fst x) (fst y) && seq_eqb (snd x) (snd y).

(* lexicographic order on syllable slices ([Syllable]: derived Ord on the u16) and on
   str (byte order of UTF-8 = code point order) *)
Fixpoint lex_cmp (a b : list N) : comparison :=
  match a, b with
  | [], [] => Eq
  | [], _ :: _ => Lt
  | _ :: _, [] => Gt
  | x :: a', y :: b' => match x ?= y with Eq => lex_cmp a' b' | c => c end
  end.
Definition pkey_cmp (x y : pkey) : comparison :=
  match lex_cmp (fst x) (fst y) with Eq => lex_cmp (snd x) (snd y) | c => c end.

(* Vec::truncate(first) / Iterator::take(first) with first : usize *)
Fixpoint firstN {A} (n : N) (l : list A) : list A :=
  match l with
  | [] => []
  | x :: l' => if n =? 0 then [] else x :: firstN (n - 1) l'
  end.

(* truncate(first) / take(first) as the code calls them.  A Vec never holds more than
   isize::MAX elements, so truncate(usize::MAX) (lookup_all_phrases) never drops
   anything; the model's lists are unbounded, hence the explicit test. *)
Definition truncate_usize {A} (first : N) (l : list A) : list A :=
  if USIZE_MAX <=? first then l else firstN first l.

(* the phrases in order of first appearance (specification of the de-duplicated order) *)
Definition first_occurrences (l : list text) : list text :=
  fold_left (fun acc x => if existsb (seq_eqb x) acc then acc else acc ++ [x]) l [].

(* ---- the de-duplication loop (sort_map + phrases vector) ----
   Entry::Occupied: phrases[index] = cmp::max(&phrase, &phrases[index]).clone();
   Ord for Phrase compares freq, then the string (equal here); cmp::max returns its
   second argument unless the first is strictly greater. *)
Definition phrase_max (new old : phrase) : phrase :=
  if ph_freq old <? ph_freq new then new else old.

Fixpoint dedup_ins (ph : phrase) (acc : list phrase) : list phrase :=
  match acc with
  | [] => [ph]
  | q :: acc' => if seq_eqb (ph_text q) (ph_text ph) then phrase_max ph q :: acc'
                 else q :: dedup_ins ph acc'
  end.
Definition dedup (l : list phrase) : list phrase :=
  fold_left (fun acc ph => dedup_ins ph acc) l [].

(* ---- sorted association list = BTreeMap<PhraseKey, V> ---- *)
Section BT.
  Context {V : Type}.
  Fixpoint bt_find (x : pkey) (l : list (pkey * V)) : option V :=
    match l with
    | [] => None
    | (y, v) :: l' => if pkey_eqb x y then Some v else bt_find x l'
    end.
  Definition bt_mem (x : pkey) (l : list (pkey * V)) : bool :=
    match bt_find x l with Some _ => true | None => false end.
  Definition bt_remove (x : pkey) (l : list (pkey * V)) : list (pkey * V) :=
    filter (fun e => negb (pkey_eqb x (fst e))) l.
  (* position by key order *)
  Fixpoint bt_ins (x : pkey) (v : V) (l : list (pkey * V)) : list (pkey * V) :=
    match l with
    | [] => [(x, v)]
    | (y, w) :: l' => match pkey_cmp x y with
                      | Gt => (y, w) :: bt_ins x v l'
                      | _ => (x, v) :: (y, w) :: l'
                      end
    end.
  (* BTreeMap::insert: replaces the value of an existing key *)
  Definition bt_insert (x : pkey) (v : V) (l : list (pkey * V)) : list (pkey * V) :=
    bt_ins x v (bt_remove x l).
End BT.

(* BTreeSet<PhraseKey> (graveyard): membership only is observable *)
Definition gr_mem (x : pkey) (g : list pkey) : bool := existsb (pkey_eqb x) g.
Definition gr_remove (x : pkey) (g : list pkey) : list pkey := filter (fun y => negb (pkey_eqb x y)) g.
Definition gr_insert (x : pkey) (g : list pkey) : list pkey := if gr_mem x g then g else x :: g.

(* ---- abstract Trie: key -> leaf (ordered phrase list), keys in slice order ---- *)
Definition trie := list (key * list phrase).

Fixpoint trie_leaf (t : trie) (k : key) : list phrase :=
  match t with
  | [] => []
  | (k', l) :: t' => if seq_eqb k k' then l else trie_leaf t' k
  end.

(* Trie::entries(): every (syllables, phrase); inside a leaf the stored order.  The
   order across keys (a DFS with a result stack) is not modelled: entries are compared
   as a multiset. *)
Definition trie_entries (t : trie) : list (key * phrase) :=
  flat_map (fun kl => map (fun ph => (fst kl, ph)) (snd kl)) t.

(* search_predicate of Trie::lookup_first_n_phrases *)
Definition syl_match (s : strategy) (node_syl query_syl : N) : bool :=
  match s with
  | Standard => node_syl =? query_syl
  | FuzzyPartialPrefix =>
      if node_syl =? 0 then false
      else match try_from_u16 node_syl with
           | Some v => starts_with v query_syl
           | None => false
           end
  end.
Fixpoint key_match (s : strategy) (node_key query : key) : bool :=
  match node_key, query with
  | [], [] => true
  | a :: nk, b :: q => syl_match s a b && key_match s nk q
  | _, _ => false
  end.

(* "Collect result from all threads": leaves of the matching keys in BFS order
   (children are written sorted by syllable, so BFS order of equal-depth nodes is the
   slice order of their keys); after each leaf: if result.len() > first { break } *)
Fixpoint collect_leaves (first : N) (ls : list (list phrase)) (acc : list phrase) : list phrase :=
  match ls with
  | [] => acc
  | l :: ls' => let acc' := acc ++ l in
                if first <? len_N acc' then acc' else collect_leaves first ls' acc'
  end.

(* truncate = true: the code after "fix: Trie::lookup_first_n_phrases honours first";
   false: the pinned code (first only ends the leaf loop early). *)
Definition trie_lookup_gen (truncate : bool) (t : trie) (k : key) (first : N) (s : strategy) : list phrase :=
  let leaves := map snd (filter (fun kl => key_match s (fst kl) k) t) in
  let r := collect_leaves first leaves [] in
  if truncate then truncate_usize first r else r.

(* ---- TrieBuilder (insert + the per-leaf stable sort of write()) ---- *)
Fixpoint leaf_put (ph : phrase) (l : list phrase) : list phrase :=
  match l with
  | [] => [ph]
  | q :: l' => if seq_eqb (ph_text q) (ph_text ph) then ph :: l' else q :: leaf_put ph l'
  end.
Fixpoint trie_has_key (t : trie) (k : key) : bool :=
  match t with [] => false | (k', _) :: t' => seq_eqb k k' || trie_has_key t' k end.
Fixpoint trie_update_leaf (t : trie) (k : key) (ph : phrase) : trie :=
  match t with
  | [] => []
  | (k', l) :: t' => if seq_eqb k k' then (k', leaf_put ph l) :: t' else (k', l) :: trie_update_leaf t' k ph
  end.
Fixpoint trie_ins_key (t : trie) (k : key) (ph : phrase) : trie :=
  match t with
  | [] => [(k, [ph])]
  | (k', l) :: t' => match lex_cmp k k' with
                     | Gt => (k', l) :: trie_ins_key t' k ph
                     | _ => (k, [ph]) :: (k', l) :: t'
                     end
  end.
Definition builder_insert (t : trie) (e : key * phrase) : trie :=
  if trie_has_key t (fst e) then trie_update_leaf t (fst e) (snd e) else trie_ins_key t (fst e) (snd e).

(* the comparator of phrases.sort_by in TrieBuilder::write; lengths: chars().count()
   and str::len() (UTF-8 bytes) *)
Definition utf8_len1 (c : N) : N := if c <? 128 then 1 else if c <? 2048 then 2 else if c <? 65536 then 3 else 4.
Definition utf8_len (s : text) : N := fold_left (fun a c => a + utf8_len1 c) s 0.
Definition rev_cmp (c : comparison) : comparison := match c with Lt => Gt | Gt => Lt | Eq => Eq end.
Definition leaf_cmp (a b : phrase) : comparison :=
  let ca := len_N (ph_text a) in let cb := len_N (ph_text b) in
  if (ca =? 1) && (cb =? 1) then Eq
  else if (ca =? 1) || (cb =? 1) then utf8_len (ph_text a) ?= utf8_len (ph_text b)
  else if ph_freq a =? ph_freq b then lex_cmp (ph_text b) (ph_text a)
  else ph_freq b ?= ph_freq a.
(* stable insertion sort (slice::sort_by is stable; the comparator is a consistent order
   whenever the phrases of one key are all single characters or all longer - the tie
   generates such leaves only) *)
Fixpoint leaf_sort_ins (x : phrase) (l : list phrase) : list phrase :=
  match l with
  | [] => [x]
  | y :: l' => match leaf_cmp x y with
               | Lt => x :: y :: l'
               | _ => y :: leaf_sort_ins x l'
               end
  end.
Definition leaf_sort (l : list phrase) : list phrase :=
  fold_left (fun acc x => leaf_sort_ins x acc) l [].
Definition trie_build (es : list (key * phrase)) : trie :=
  map (fun kl => (fst kl, leaf_sort (snd kl))) (fold_left builder_insert es []).

(* ---- specification of C09: a finite map (syllables, phrase) -> (freq, time) ---- *)
Definition sval := (N * option N)%type.
Definition spec := list (pkey * sval).
Definition s_find (x : pkey) (s : spec) : option sval := bt_find x s.
Definition s_unset (x : pkey) (s : spec) : spec := bt_remove x s.
Definition s_set (x : pkey) (v : sval) (s : spec) : spec := (x, v) :: bt_remove x s.
Definition s_entries (s : spec) : list (key * phrase) :=
  map (fun e => (fst (fst e), mkPhrase (snd (fst e)) (fst (snd e)) (snd (snd e)))) s.
(* the live phrases of one key *)
Definition s_lookup (k : key) (s : spec) : list phrase :=
  map snd (filter (fun e => seq_eqb (fst e) k) (s_entries s)).

(* abstraction of a trie: the value it holds for (syllables, phrase) *)
Definition trie_get (t : trie) (x : pkey) : option sval :=
  match find (fun ph => seq_eqb (ph_text ph) (snd x)) (trie_leaf t (fst x)) with
  | Some ph => Some (ph_freq ph, ph_time ph)
  | None => None
  end.
